(* C26/ProofsSkip.v -- lemmas about the skipped-epoch lookups and the restart. *)
From Coq Require Import NArith List Bool Arith Lia.
From Common Require Import Outcome.
From C26 Require Import Model Proofs ModelSkip.
Import ListNotations.
Local Open Scope N_scope.

(* exact error class of GetEpochDataRaw (strengthens epoch_data_spec) *)
Lemma epoch_data_error_class : forall s e h, wf (e_tree s) = true -> valid_hdr (e_tree s) h = true ->
  spec_epoch_data s e h = None ->
  get_epoch_data fixed (enough_fuel (e_tree s)) s e h =
  Err (match alookup (ned s) e with None => e_epoch_not_in_memory | Some _ => e_hash_not_in_memory end).
Proof.
  intros s e h W V. unfold spec_epoch_data, get_epoch_data.
  destruct (e =? 0); [discriminate|].
  destruct (alookup (dbe s) e); [discriminate|].
  rewrite retrieve_fixed by (try exact W; apply valid_enough; exact V).
  destruct (alookup (ned s) e) as [entries|] eqn:L.
  - destruct (announced (e_tree s) (ned s) e h); [reflexivity | discriminate].
  - reflexivity.
Qed.

Lemma retrieve_update_fixed : forall t m olde newe h fuel, wf t = true -> (head_block h + 1 < fuel)%nat ->
  retrieve_update fixed fuel t m olde newe h =
  match alookup m olde with
  | None => Err e_epoch_not_in_memory
  | Some entries =>
    match chain_entries t entries h with
    | [] => Err e_hash_not_in_memory
    | l => Ok (map (fun bd => (bd, move_entry m entries olde newe bd)) l)
    end
  end.
Proof.
  intros t m olde newe h fuel W Hf. unfold retrieve_update.
  destruct (alookup m olde) as [entries|]; [|reflexivity].
  rewrite find_anc_fixed by assumption.
  destruct (chain_entries t entries h); reflexivity.
Qed.

Definition answers {A} (r : outcome (list (N * A))) : outcome (list N) :=
  match r with Ok l => Ok (map fst l) | Err c => Err c | Panic => Panic | OutOfFuel => OutOfFuel end.

Lemma map_fst_pair : forall {A} (l : list N) (s : A), map fst (map (fun d => (d, s)) l) = l.
Proof. induction l as [|x l IH]; intros; cbn [map fst]; [reflexivity | rewrite IH; reflexivity]. Qed.

(* GetSkippedEpochDataRaw answers like GetEpochDataRaw would for the skipped epoch *)
Lemma skipped_epoch_data_spec : forall s se ce h, wf (e_tree s) = true -> valid_hdr (e_tree s) h = true ->
  answers (get_skipped_epoch_data fixed (enough_fuel (e_tree s)) s se ce h) =
  get_epoch_data fixed (enough_fuel (e_tree s)) s se h.
Proof.
  intros s se ce h W V. unfold get_skipped_epoch_data, get_epoch_data, db_move.
  destruct (se =? 0); [reflexivity|].
  destruct (alookup (dbe s) se); [reflexivity|].
  rewrite retrieve_update_fixed by (try exact W; apply valid_enough; exact V).
  rewrite retrieve_fixed by (try exact W; apply valid_enough; exact V).
  rewrite announced_eq.
  destruct (alookup (ned s) se) as [entries|]; [|reflexivity].
  destruct (chain_entries (e_tree s) entries h) as [|x r]; [reflexivity|].
  cbn [obind answers]. rewrite !map_map. cbn [fst snd]. reflexivity.
Qed.

(* GetSkippedConfigData (repaired) answers with the latest configuration at or before the
   skipped epoch on the header's own ancestry *)
Lemma skipped_config_spec : forall s se ce h, wf (e_tree s) = true -> valid_hdr (e_tree s) h = true ->
  answers (get_skipped_config fixed true (enough_fuel (e_tree s)) s se ce h) = Ok (spec_config s se h).
Proof.
  intros s se ce h W V. unfold get_skipped_config, spec_config, db_move.
  destruct (se =? 0) eqn:E0.
  - apply N.eqb_eq in E0. subst se. reflexivity.
  - apply N.eqb_neq in E0.
    assert (Hk : N.to_nat se = S (N.to_nat (se - 1))) by lia.
    rewrite Hk. cbn [spec_config_n]. rewrite <- Hk. rewrite Nnat.N2Nat.id.
    destruct (alookup (dbc s) se); [reflexivity|].
    rewrite retrieve_update_fixed by (try exact W; apply valid_enough; exact V).
    rewrite announced_eq.
    destruct (alookup (ncd s) se) as [entries|].
    + destruct (chain_entries (e_tree s) entries h) as [|x r].
      * cbn [map e_hash_not_in_memory e_epoch_not_in_memory Nat.eqb orb andb].
        unfold get_config. rewrite config_loop_spec by assumption. cbn [obind answers].
        rewrite map_fst_pair. reflexivity.
      * cbn [answers]. rewrite !map_map. cbn [fst snd]. reflexivity.
    + cbn [map e_epoch_not_in_memory Nat.eqb orb].
      unfold get_config. rewrite config_loop_spec by assumption. cbn [obind answers].
      rewrite map_fst_pair. reflexivity.
Qed.

(* a failing skipped lookup leaves the state alone; a successful one changes one container *)
Lemma skipped_epoch_data_state : forall v fuel s se ce h l d s',
  get_skipped_epoch_data v fuel s se ce h = Ok l -> In (d, s') l ->
  s' = s \/ (exists dbe', s' = with_dbe s dbe') \/ (exists m, s' = with_ned s m).
Proof.
  intros v fuel s se ce h l d s'. unfold get_skipped_epoch_data.
  destruct (se =? 0).
  - intros H Hin. injection H as <-. destruct Hin as [E|[]]. injection E as _ <-. left. reflexivity.
  - destruct (db_move (dbe s) se ce) as [[d0 dbe']|].
    + intros H Hin. injection H as <-. destruct Hin as [E|[]]. injection E as _ <-. right. left. eauto.
    + destruct (retrieve_update v fuel (e_tree s) (ned s) se ce h) as [l0| | |]; cbn [obind]; try discriminate.
      intros H Hin. injection H as <-. apply in_map_iff in Hin. destruct Hin as [x [E _]].
      injection E as _ <-. right. right. eauto.
Qed.

(* ---- restart ---- *)
Lemma synced_init : forall t elen d1 d2, synced (x_init t elen d1 d2).
Proof. intros. split; reflexivity. Qed.
Lemma synced_announce_epoch : forall x b d, synced x -> synced (x_announce_epoch x b d).
Proof.
  intros x b d [H1 H2]. split; cbn [x_announce_epoch x_s x_de x_dc announce_epoch ned ncd].
  - rewrite H1. reflexivity.
  - exact H2.
Qed.
Lemma synced_announce_config : forall x b d, synced x -> synced (x_announce_config x b d).
Proof.
  intros x b d [H1 H2]. split; cbn [x_announce_config x_s x_de x_dc announce_config ned ncd].
  - exact H1.
  - rewrite H2. reflexivity.
Qed.
Lemma restart_identity : forall x, synced x -> x_restart x = x.
Proof.
  intros [s de dc] [H1 H2]. cbn [x_s x_de x_dc] in *. subst de dc.
  unfold x_restart, with_ncd, with_ned. cbn [x_s x_de x_dc e_tree e_len ned ncd dbe dbc].
  destruct s; reflexivity.
Qed.
Lemma synced_restart : forall x, synced (x_restart x).
Proof. intros x. split; reflexivity. Qed.

(* ---- what the re-keying achieves: the moved definition resolves under the current epoch ---- *)
Lemma alookup_set_outer : forall m e l e',
  alookup (set_outer m e l) e' = if e =? e' then Some l else alookup m e'.
Proof.
  induction m as [|[e0 l0] m IH]; intros; cbn [set_outer alookup].
  - destruct (e =? e'); reflexivity.
  - destruct (e0 =? e) eqn:E0; cbn [alookup].
    + apply N.eqb_eq in E0. subst e0. destruct (e =? e'); reflexivity.
    + rewrite IH. destruct (e0 =? e') eqn:E1; [|reflexivity].
      apply N.eqb_eq in E1. subst e0. rewrite N.eqb_sym, E0. reflexivity.
Qed.

Lemma put_inner_in : forall l b d, In (b, d) (put_inner l b d).
Proof.
  induction l as [|[b0 d0] l IH]; intros; cbn [put_inner]; [left; reflexivity|].
  destruct (Nat.eqb b0 b); [left; reflexivity | right; apply IH].
Qed.

Lemma move_entry_resolves : forall m entries olde newe bd,
  exists entries', alookup (move_entry m entries olde newe bd) newe = Some entries' /\ In bd entries'.
Proof.
  intros. unfold move_entry. rewrite alookup_set_outer, N.eqb_refl.
  eexists. split; [reflexivity|]. destruct bd as [b d]. apply put_inner_in.
Qed.

Lemma epoch_complete : forall s e h entries b d, wf (e_tree s) = true -> valid_hdr (e_tree s) h = true ->
  e <> 0 -> alookup (dbe s) e = None ->
  alookup (ned s) e = Some entries -> In (b, d) entries -> on_chain (e_tree s) h b = true ->
  exists l, get_epoch_data fixed (enough_fuel (e_tree s)) s e h = Ok l /\ In d l.
Proof.
  intros s e h entries b d W V E D L I C. pose proof (epoch_data_spec s e h W V) as S.
  pose proof (announced_complete (e_tree s) (ned s) e h entries b d L I C) as A.
  unfold spec_epoch_data in S. apply N.eqb_neq in E. rewrite E, D in S.
  destruct (announced (e_tree s) (ned s) e h) as [|x r]; [destruct A|].
  exists (x :: r). auto.
Qed.

(* after GetSkippedEpochDataRaw answered d from the in-memory map, GetEpochDataRaw for the
   CURRENT epoch (nothing persisted for it) from the same header answers d as well *)
Lemma skipped_then_current : forall s se ce h l d s', wf (e_tree s) = true -> valid_hdr (e_tree s) h = true ->
  se <> 0 -> ce <> 0 -> alookup (dbe s) se = None -> alookup (dbe s) ce = None ->
  get_skipped_epoch_data fixed (enough_fuel (e_tree s)) s se ce h = Ok l -> In (d, s') l ->
  exists l', get_epoch_data fixed (enough_fuel (e_tree s')) s' ce h = Ok l' /\ In d l'.
Proof.
  intros s se ce h l d s' W V Hse Hce D1 D2 H Hin.
  unfold get_skipped_epoch_data, db_move in H.
  apply N.eqb_neq in Hse. rewrite Hse, D1 in H.
  rewrite retrieve_update_fixed in H by (try exact W; apply valid_enough; exact V).
  destruct (alookup (ned s) se) as [entries|] eqn:L; [|discriminate].
  destruct (chain_entries (e_tree s) entries h) as [|x r] eqn:C; [discriminate|].
  cbn [obind] in H. injection H as <-. rewrite map_map in Hin.
  assert (Hin' : In (d, s') (map (fun bd : nat * N => (snd bd, with_ned s (move_entry (ned s) entries se ce bd))) (x :: r)))
    by exact Hin.
  clear Hin. apply in_map_iff in Hin'. destruct Hin' as [bd [E Hbd]]. injection E as <- <-.
  rewrite <- C in Hbd. unfold chain_entries in Hbd. apply filter_In in Hbd. destruct Hbd as [_ Hon].
  destruct (move_entry_resolves (ned s) entries se ce bd) as [entries' [L' I']].
  apply (epoch_complete (with_ned s (move_entry (ned s) entries se ce bd)) ce h entries' (fst bd) (snd bd));
    cbn [with_ned e_tree dbe ned]; try assumption.
  destruct bd; exact I'.
Qed.

(* statement-only Properties.v: proofs of the first-round theorems that were inlined there *)
Lemma own_fork : forall s e h l d, wf (e_tree s) = true -> valid_hdr (e_tree s) h = true ->
  get_epoch_data fixed (enough_fuel (e_tree s)) s e h = Ok l -> In d l ->
  (e = 0 /\ d = genesis_id) \/ alookup (dbe s) e = Some d \/
  exists entries b, alookup (ned s) e = Some entries /\ In (b, d) entries /\ on_chain (e_tree s) h b = true.
Proof.
  intros s e h l d W V H Hd. pose proof (epoch_data_spec s e h W V) as S.
  unfold spec_epoch_data in S. destruct (e =? 0) eqn:E0.
  - rewrite S in H. injection H as <-. destruct Hd as [<-|[]]. left. apply N.eqb_eq in E0. auto.
  - destruct (alookup (dbe s) e) as [d0|] eqn:D.
    + rewrite S in H. injection H as <-. destruct Hd as [<-|[]]. right. left. reflexivity.
    + destruct (announced (e_tree s) (ned s) e h) as [|x r] eqn:A.
      * destruct S as [S|S]; rewrite S in H; discriminate.
      * rewrite S in H. injection H as <-. right. right. apply announced_own_fork. rewrite A. exact Hd.
Qed.

Lemma prompt_failure : forall s e h, wf (e_tree s) = true -> valid_hdr (e_tree s) h = true ->
  e <> 0 -> alookup (dbe s) e = None -> announced (e_tree s) (ned s) e h = [] ->
  exists c, get_epoch_data fixed (enough_fuel (e_tree s)) s e h = Err c.
Proof.
  intros s e h W V E D A. pose proof (epoch_data_spec s e h W V) as S.
  unfold spec_epoch_data in S. apply N.eqb_neq in E. rewrite E, D, A in S.
  destruct S as [S|S]; rewrite S; eauto.
Qed.

Lemma config_spec : forall s e h, wf (e_tree s) = true -> valid_hdr (e_tree s) h = true ->
  get_config fixed (enough_fuel (e_tree s)) s e h = Ok (spec_config s e h).
Proof. intros. unfold get_config, spec_config. apply config_loop_spec; assumption. Qed.

(* own fork for the skipped lookups: every answer of GetSkippedEpochDataRaw is genesis / persisted /
   announced for the skipped epoch on the header's own ancestry *)
Lemma skipped_own_fork : forall s se ce h l d s', wf (e_tree s) = true -> valid_hdr (e_tree s) h = true ->
  get_skipped_epoch_data fixed (enough_fuel (e_tree s)) s se ce h = Ok l -> In (d, s') l ->
  (se = 0 /\ d = genesis_id) \/ alookup (dbe s) se = Some d \/
  exists entries b, alookup (ned s) se = Some entries /\ In (b, d) entries /\ on_chain (e_tree s) h b = true.
Proof.
  intros s se ce h l d s' W V H Hin.
  pose proof (skipped_epoch_data_spec s se ce h W V) as S. rewrite H in S. cbn [answers] in S.
  apply (own_fork s se h (map fst l) d W V); [symmetry; exact S|].
  apply in_map_iff. exists (d, s'). split; [reflexivity | exact Hin].
Qed.

(* UpdateSkippedEpochDefinitions (repaired) never fails because of what other forks announced *)
Lemma update_skipped_total : forall s se ce h d, wf (e_tree s) = true -> valid_hdr (e_tree s) h = true ->
  (se = 0 \/ alookup (dbe s) se = Some d) ->
  exists l, update_skipped fixed true (enough_fuel (e_tree s)) s se ce h = Ok l /\ l <> [].
Proof.
  intros s se ce h d W V Hd. unfold update_skipped.
  destruct (se =? 0) eqn:E0; [eexists; split; [reflexivity | discriminate]|].
  destruct Hd as [Hd|Hd]; [apply N.eqb_neq in E0; contradiction|].
  unfold db_move at 1. rewrite Hd.
  set (s1 := with_dbe s _).
  destruct (db_move (dbc s1) se ce) as [[d0 dbc']|]; [eexists; split; [reflexivity | discriminate]|].
  change (e_tree s1) with (e_tree s).
  rewrite retrieve_update_fixed by (try exact W; apply valid_enough; exact V).
  destruct (alookup (ncd s1) se) as [entries|].
  - destruct (chain_entries (e_tree s) entries h) as [|x r].
    + eexists; split; [reflexivity | discriminate].
    + eexists; split; [reflexivity | discriminate].
  - eexists; split; [reflexivity | discriminate].
Qed.
