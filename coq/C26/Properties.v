(* C26/Properties.v -- property C26: BABE epoch data is taken from the block's own fork.
   `fixed` is the model of epoch.go after fixes/C26-findancestor-loop.patch and
   fixes/C26-config-fallback.patch; `prefix` is the pinned code (refutation witnesses only).
   on_chain t h b: block b is on the ancestry of header h (h itself when it is imported, else its
   parent and up); is_anc is reachability along parent links (C26_ancestry). *)
From Coq Require Import NArith List Bool Arith.
From Common Require Import Outcome.
From C26 Require Import Model Proofs.
Import ListNotations.
Local Open Scope N_scope.

(* ancestry used by the lookups = reachability along parent links of the block tree *)
Theorem C26_ancestry : forall t a d, wf t = true ->
  (is_anc t a d = true <-> exists k, Nat.iter k (parent t) d = a).
Proof. exact is_anc_iter. Qed.
Print Assumptions C26_ancestry.

(* GetEpochDataRaw, every tree / announcement set / header, with fuel length+3 (so it
   terminates after at most one round per ancestor): the result is exactly the specification:
   genesis data for epoch 0, else the persisted data, else the payloads announced for this
   epoch on the header's own ancestry; when there is none the lookup fails with an error. *)
Theorem C26_epoch_data : forall s e h, wf (e_tree s) = true -> valid_hdr (e_tree s) h = true ->
  match spec_epoch_data s e h with
  | Some l => get_epoch_data fixed (enough_fuel (e_tree s)) s e h = Ok l
  | None => get_epoch_data fixed (enough_fuel (e_tree s)) s e h = Err e_epoch_not_in_memory
            \/ get_epoch_data fixed (enough_fuel (e_tree s)) s e h = Err e_hash_not_in_memory
  end.
Proof. exact epoch_data_spec. Qed.
Print Assumptions C26_epoch_data.

(* own fork: whatever the lookup returns was announced for that epoch by a block on the
   header's own ancestry (or is the genesis / persisted definition) *)
Theorem C26_own_fork : forall s e h l d, wf (e_tree s) = true -> valid_hdr (e_tree s) h = true ->
  get_epoch_data fixed (enough_fuel (e_tree s)) s e h = Ok l -> In d l ->
  (e = 0 /\ d = genesis_id) \/ alookup (dbe s) e = Some d \/
  exists entries b, alookup (ned s) e = Some entries /\ In (b, d) entries /\ on_chain (e_tree s) h b = true.
Proof.
  intros s e h l d W V H Hd. pose proof (epoch_data_spec s e h W V) as S.
  unfold spec_epoch_data in S. destruct (e =? 0) eqn:E0.
  - rewrite S in H. injection H as <-. destruct Hd as [<-|[]]. left. apply N.eqb_eq in E0. auto.
  - destruct (alookup (dbe s) e) as [d0|] eqn:D.
    + rewrite S in H. injection H as <-. destruct Hd as [<-|[]]. right. left. reflexivity.
    + destruct (announced (e_tree s) (ned s) e h) as [|x r] eqn:A.
      * destruct S as [S|S]; rewrite S in H; discriminate.
      * rewrite S in H. injection H as <-. right. right. apply announced_own_fork. rewrite A. exact Hd.
Qed.
Print Assumptions C26_own_fork.

(* prompt failure: nothing persisted and nothing announced on the own ancestry for a non-zero
   epoch => an error (never another fork's data, never out of fuel) *)
Theorem C26_prompt_failure : forall s e h, wf (e_tree s) = true -> valid_hdr (e_tree s) h = true ->
  e <> 0 -> alookup (dbe s) e = None -> announced (e_tree s) (ned s) e h = [] ->
  exists c, get_epoch_data fixed (enough_fuel (e_tree s)) s e h = Err c.
Proof.
  intros s e h W V E D A. pose proof (epoch_data_spec s e h W V) as S.
  unfold spec_epoch_data in S. apply N.eqb_neq in E. rewrite E, D, A in S.
  destruct S as [S|S]; rewrite S; eauto.
Qed.
Print Assumptions C26_prompt_failure.

(* completeness: a block of the own ancestry announced d for epoch e (nothing persisted) =>
   the lookup succeeds and d is among the admissible answers *)
Theorem C26_complete : forall s e h entries b d, wf (e_tree s) = true -> valid_hdr (e_tree s) h = true ->
  e <> 0 -> alookup (dbe s) e = None ->
  alookup (ned s) e = Some entries -> In (b, d) entries -> on_chain (e_tree s) h b = true ->
  exists l, get_epoch_data fixed (enough_fuel (e_tree s)) s e h = Ok l /\ In d l.
Proof.
  intros s e h entries b d W V E D L I C. pose proof (epoch_data_spec s e h W V) as S.
  pose proof (announced_complete (e_tree s) (ned s) e h entries b d L I C) as A.
  unfold spec_epoch_data in S. apply N.eqb_neq in E. rewrite E, D in S.
  destruct (announced (e_tree s) (ned s) e h) as [|x r]; [destruct A|].
  exists (x :: r). auto.
Qed.
Print Assumptions C26_complete.

(* GetConfigData: always succeeds, with the latest configuration at or before the epoch that is
   persisted or announced on the header's own ancestry, else the genesis configuration *)
Theorem C26_config : forall s e h, wf (e_tree s) = true -> valid_hdr (e_tree s) h = true ->
  get_config fixed (enough_fuel (e_tree s)) s e h = Ok (spec_config s e h).
Proof. intros. unfold get_config, spec_config. apply config_loop_spec; assumption. Qed.
Print Assumptions C26_config.

Theorem C26_config_latest_own_fork : forall s h k d, In d (spec_config_n s k h) ->
  (d = genesis_id /\ forall j, (0 < j <= k)%nat -> nothing_at s h j)
  \/ exists j, (0 < j <= k)%nat
       /\ (alookup (dbc s) (N.of_nat j) = Some d
           \/ (alookup (dbc s) (N.of_nat j) = None /\ In d (announced (e_tree s) (ncd s) (N.of_nat j) h)))
       /\ forall j', (j < j' <= k)%nat -> nothing_at s h j'.
Proof. exact spec_config_char. Qed.
Print Assumptions C26_config_latest_own_fork.

Theorem C26_announced_own_fork : forall t m e h d, In d (announced t m e h) ->
  exists entries b, alookup m e = Some entries /\ In (b, d) entries /\ on_chain t h b = true.
Proof. exact announced_own_fork. Qed.
Print Assumptions C26_announced_own_fork.

(* ---- non-vacuity: two forks announcing different data for epoch 1 ---- *)
Definition ex_tree : tree := [(0%nat, 1); (1%nat, 2); (0%nat, 1); (3%nat, 4)].
Definition ex_state : est :=
  announce_epoch (announce_epoch (mkest ex_tree 3 [] [] [] []) 1 5) 3 6.
Example C26_nonvacuous :
  wf ex_tree = true /\
  get_epoch_data fixed (enough_fuel ex_tree) ex_state 1 (Imp 2) = Ok [5] /\
  get_epoch_data fixed (enough_fuel ex_tree) ex_state 1 (Imp 4) = Ok [6] /\
  get_epoch_data fixed (enough_fuel ex_tree) ex_state 1 (Fresh 4 5) = Ok [6] /\
  get_epoch_data fixed (enough_fuel ex_tree) ex_state 2 (Imp 4) = Err e_epoch_not_in_memory.
Proof. vm_compute. repeat split; reflexivity. Qed.

(* ---- the pinned code ---- *)
(* findAncestor as pinned (parent of the ORIGINAL header re-read in every round) never returns
   for a block of number >= 2 whose ancestry has no entry: out of fuel for EVERY fuel *)
Theorem C26_findancestor_prefix_refuted : forall t entries i, wf t = true -> i <> O -> parent t i <> O ->
  matches t entries (Imp i) = [] ->
  forall fuel, find_anc prefix fuel t entries (Imp i) (Imp i) = OutOfFuel.
Proof. exact find_anc_prefix_diverges. Qed.
Print Assumptions C26_findancestor_prefix_refuted.

(* concrete witness (replayed on the Go code as corpus case `tree 3 0,1;1,2;0,1 e3,5 - e,1,i2`):
   block 3 on another fork announces epoch 1; looking epoch 1 up from block 2 hangs, although
   the specification demands a prompt error *)
Definition hang_tree : tree := [(0%nat, 1); (1%nat, 2); (0%nat, 1)].
Definition hang_state : est := announce_epoch (mkest hang_tree 3 [] [] [] []) 3 5.
Theorem C26_termination_prefix_refuted :
  spec_epoch_data hang_state 1 (Imp 2) = None /\
  forall fuel, get_epoch_data prefix fuel hang_state 1 (Imp 2) = OutOfFuel.
Proof.
  split; [vm_compute; reflexivity|].
  apply (get_epoch_data_prefix_hangs hang_state 1 2 [(3%nat, 5)]); try (vm_compute; reflexivity);
    vm_compute; discriminate.
Qed.
Print Assumptions C26_termination_prefix_refuted.

(* GetConfigData as pinned: epoch 2 has a configuration announced on another fork only; the
   lookup from block 5 errors instead of falling back to its own fork's epoch-1 configuration
   (corpus case `tree 2 0,1;1,3;0,1;3,3;4,5 c1,7;c3,8;c2,9 - c,2,i5`) *)
Definition cfg_tree : tree := [(0%nat, 1); (1%nat, 3); (0%nat, 1); (3%nat, 3); (4%nat, 5)].
Definition cfg_state : est :=
  announce_config (announce_config (announce_config (mkest cfg_tree 2 [] [] [] []) 1 7) 3 8) 2 9.
Theorem C26_config_fallback_prefix_refuted :
  spec_config cfg_state 2 (Imp 5) = [8] /\
  get_config (mkvariant true false) (enough_fuel cfg_tree) cfg_state 2 (Imp 5) = Err e_hash_not_in_memory /\
  get_config fixed (enough_fuel cfg_tree) cfg_state 2 (Imp 5) = Ok [8].
Proof. vm_compute. repeat split; reflexivity. Qed.
Print Assumptions C26_config_fallback_prefix_refuted.
