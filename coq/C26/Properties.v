From C26 Require Import Model Proofs.
