(* C26/Properties.v -- property C26: BABE epoch data is taken from the block's own fork.
   `fixed` is the model of epoch.go after fixes/C26-findancestor-loop.patch and
   fixes/C26-config-fallback.patch; `prefix` is the pinned code (refutation witnesses only).
   on_chain t h b: block b is on the ancestry of header h (h itself when it is imported, else its
   parent and up); is_anc is reachability along parent links (C26_ancestry). *)
From Coq Require Import NArith List Bool Arith.
From Common Require Import Outcome.
From C26 Require Import Model Proofs ModelSkip ProofsSkip.
Import ListNotations.
Local Open Scope N_scope.

(* ancestry used by the lookups = reachability along parent links of the block tree *)
Theorem C26_ancestry : forall t a d, wf t = true ->
  (is_anc t a d = true <-> exists k, Nat.iter k (parent t) d = a).
Proof. exact is_anc_iter. Qed.
Print Assumptions C26_ancestry.

(* GetEpochDataRaw, every tree / announcement set / header, with fuel length+3 (so it
   terminates after at most one round per ancestor): the result is exactly the specification:
   genesis data for epoch 0, else the persisted data, else the payloads announced for this
   epoch on the header's own ancestry; when there is none the lookup fails with an error. *)
Theorem C26_epoch_data : forall s e h, wf (e_tree s) = true -> valid_hdr (e_tree s) h = true ->
  match spec_epoch_data s e h with
  | Some l => get_epoch_data fixed (enough_fuel (e_tree s)) s e h = Ok l
  | None => get_epoch_data fixed (enough_fuel (e_tree s)) s e h = Err e_epoch_not_in_memory
            \/ get_epoch_data fixed (enough_fuel (e_tree s)) s e h = Err e_hash_not_in_memory
  end.
Proof. exact epoch_data_spec. Qed.
Print Assumptions C26_epoch_data.

(* own fork: whatever the lookup returns was announced for that epoch by a block on the
   header's own ancestry (or is the genesis / persisted definition) *)
Theorem C26_own_fork : forall s e h l d, wf (e_tree s) = true -> valid_hdr (e_tree s) h = true ->
  get_epoch_data fixed (enough_fuel (e_tree s)) s e h = Ok l -> In d l ->
  (e = 0 /\ d = genesis_id) \/ alookup (dbe s) e = Some d \/
  exists entries b, alookup (ned s) e = Some entries /\ In (b, d) entries /\ on_chain (e_tree s) h b = true.
Proof. exact own_fork. Qed.
Print Assumptions C26_own_fork.

(* prompt failure: nothing persisted and nothing announced on the own ancestry for a non-zero
   epoch => an error (never another fork's data, never out of fuel) *)
Theorem C26_prompt_failure : forall s e h, wf (e_tree s) = true -> valid_hdr (e_tree s) h = true ->
  e <> 0 -> alookup (dbe s) e = None -> announced (e_tree s) (ned s) e h = [] ->
  exists c, get_epoch_data fixed (enough_fuel (e_tree s)) s e h = Err c.
Proof. exact prompt_failure. Qed.
Print Assumptions C26_prompt_failure.

(* completeness: a block of the own ancestry announced d for epoch e (nothing persisted) =>
   the lookup succeeds and d is among the admissible answers *)
Theorem C26_complete : forall s e h entries b d, wf (e_tree s) = true -> valid_hdr (e_tree s) h = true ->
  e <> 0 -> alookup (dbe s) e = None ->
  alookup (ned s) e = Some entries -> In (b, d) entries -> on_chain (e_tree s) h b = true ->
  exists l, get_epoch_data fixed (enough_fuel (e_tree s)) s e h = Ok l /\ In d l.
Proof. exact epoch_complete. Qed.
Print Assumptions C26_complete.

(* GetConfigData: always succeeds, with the latest configuration at or before the epoch that is
   persisted or announced on the header's own ancestry, else the genesis configuration *)
Theorem C26_config : forall s e h, wf (e_tree s) = true -> valid_hdr (e_tree s) h = true ->
  get_config fixed (enough_fuel (e_tree s)) s e h = Ok (spec_config s e h).
Proof. exact config_spec. Qed.
Print Assumptions C26_config.

Theorem C26_config_latest_own_fork : forall s h k d, In d (spec_config_n s k h) ->
  (d = genesis_id /\ forall j, (0 < j <= k)%nat -> nothing_at s h j)
  \/ exists j, (0 < j <= k)%nat
       /\ (alookup (dbc s) (N.of_nat j) = Some d
           \/ (alookup (dbc s) (N.of_nat j) = None /\ In d (announced (e_tree s) (ncd s) (N.of_nat j) h)))
       /\ forall j', (j < j' <= k)%nat -> nothing_at s h j'.
Proof. exact spec_config_char. Qed.
Print Assumptions C26_config_latest_own_fork.

Theorem C26_announced_own_fork : forall t m e h d, In d (announced t m e h) ->
  exists entries b, alookup m e = Some entries /\ In (b, d) entries /\ on_chain t h b = true.
Proof. exact announced_own_fork. Qed.
Print Assumptions C26_announced_own_fork.

(* ---- non-vacuity: two forks announcing different data for epoch 1 ---- *)
Definition ex_tree : tree := [(0%nat, 1); (1%nat, 2); (0%nat, 1); (3%nat, 4)].
Definition ex_state : est :=
  announce_epoch (announce_epoch (mkest ex_tree 3 [] [] [] []) 1 5) 3 6.
Example C26_nonvacuous :
  wf ex_tree = true /\
  get_epoch_data fixed (enough_fuel ex_tree) ex_state 1 (Imp 2) = Ok [5] /\
  get_epoch_data fixed (enough_fuel ex_tree) ex_state 1 (Imp 4) = Ok [6] /\
  get_epoch_data fixed (enough_fuel ex_tree) ex_state 1 (Fresh 4 5) = Ok [6] /\
  get_epoch_data fixed (enough_fuel ex_tree) ex_state 2 (Imp 4) = Err e_epoch_not_in_memory.
Proof. vm_compute. repeat split; reflexivity. Qed.

(* ---- the pinned code ---- *)
(* findAncestor as pinned (parent of the ORIGINAL header re-read in every round) never returns
   for a block of number >= 2 whose ancestry has no entry: out of fuel for EVERY fuel *)
Theorem C26_findancestor_prefix_refuted : forall t entries i, wf t = true -> i <> O -> parent t i <> O ->
  matches t entries (Imp i) = [] ->
  forall fuel, find_anc prefix fuel t entries (Imp i) (Imp i) = OutOfFuel.
Proof. exact find_anc_prefix_diverges. Qed.
Print Assumptions C26_findancestor_prefix_refuted.

(* concrete witness (replayed on the Go code as corpus case `tree 3 0,1;1,2;0,1 e3,5 - e,1,i2`):
   block 3 on another fork announces epoch 1; looking epoch 1 up from block 2 hangs, although
   the specification demands a prompt error *)
Definition hang_tree : tree := [(0%nat, 1); (1%nat, 2); (0%nat, 1)].
Definition hang_state : est := announce_epoch (mkest hang_tree 3 [] [] [] []) 3 5.
Theorem C26_termination_prefix_refuted :
  spec_epoch_data hang_state 1 (Imp 2) = None /\
  forall fuel, get_epoch_data prefix fuel hang_state 1 (Imp 2) = OutOfFuel.
Proof.
  split; [vm_compute; reflexivity|].
  apply (get_epoch_data_prefix_hangs hang_state 1 2 [(3%nat, 5)]); try (vm_compute; reflexivity);
    vm_compute; discriminate.
Qed.
Print Assumptions C26_termination_prefix_refuted.

(* GetConfigData as pinned: epoch 2 has a configuration announced on another fork only; the
   lookup from block 5 errors instead of falling back to its own fork's epoch-1 configuration
   (corpus case `tree 2 0,1;1,3;0,1;3,3;4,5 c1,7;c3,8;c2,9 - c,2,i5`) *)
Definition cfg_tree : tree := [(0%nat, 1); (1%nat, 3); (0%nat, 1); (3%nat, 3); (4%nat, 5)].
Definition cfg_state : est :=
  announce_config (announce_config (announce_config (mkest cfg_tree 2 [] [] [] []) 1 7) 3 8) 2 9.
Theorem C26_config_fallback_prefix_refuted :
  spec_config cfg_state 2 (Imp 5) = [8] /\
  get_config (mkvariant true false) (enough_fuel cfg_tree) cfg_state 2 (Imp 5) = Err e_hash_not_in_memory /\
  get_config fixed (enough_fuel cfg_tree) cfg_state 2 (Imp 5) = Ok [8].
Proof. vm_compute. repeat split; reflexivity. Qed.
Print Assumptions C26_config_fallback_prefix_refuted.

(* ---------------- second-round additions ---------------- *)

(* exact error class of a failing GetEpochDataRaw: ErrEpochNotInMemory when nothing at all was
   announced for the epoch, errHashNotInMemory when only other forks announced *)
Theorem C26_epoch_data_error_class : forall s e h, wf (e_tree s) = true -> valid_hdr (e_tree s) h = true ->
  spec_epoch_data s e h = None ->
  get_epoch_data fixed (enough_fuel (e_tree s)) s e h =
  Err (match alookup (ned s) e with None => e_epoch_not_in_memory | Some _ => e_hash_not_in_memory end).
Proof. exact epoch_data_error_class. Qed.
Print Assumptions C26_epoch_data_error_class.

(* Skipped epochs.  GetSkippedEpochDataRaw(skipped, current, header) answers exactly like
   GetEpochDataRaw(skipped, header) (hence C26_epoch_data / C26_own_fork / C26_prompt_failure
   apply to it: own ancestry or a prompt error) ... *)
Theorem C26_skipped_epoch_data : forall s se ce h, wf (e_tree s) = true -> valid_hdr (e_tree s) h = true ->
  answers (get_skipped_epoch_data fixed (enough_fuel (e_tree s)) s se ce h) =
  get_epoch_data fixed (enough_fuel (e_tree s)) s se h.
Proof. exact skipped_epoch_data_spec. Qed.
Print Assumptions C26_skipped_epoch_data.

Theorem C26_skipped_own_fork : forall s se ce h l d s', wf (e_tree s) = true -> valid_hdr (e_tree s) h = true ->
  get_skipped_epoch_data fixed (enough_fuel (e_tree s)) s se ce h = Ok l -> In (d, s') l ->
  (se = 0 /\ d = genesis_id) \/ alookup (dbe s) se = Some d \/
  exists entries b, alookup (ned s) se = Some entries /\ In (b, d) entries /\ on_chain (e_tree s) h b = true.
Proof. exact skipped_own_fork. Qed.
Print Assumptions C26_skipped_own_fork.

(* ... and after it answered d from the in-memory map, the re-keyed definition is what
   GetEpochDataRaw(current, same header) finds (nothing persisted for either epoch) *)
Theorem C26_skipped_then_current : forall s se ce h l d s', wf (e_tree s) = true -> valid_hdr (e_tree s) h = true ->
  se <> 0 -> ce <> 0 -> alookup (dbe s) se = None -> alookup (dbe s) ce = None ->
  get_skipped_epoch_data fixed (enough_fuel (e_tree s)) s se ce h = Ok l -> In (d, s') l ->
  exists l', get_epoch_data fixed (enough_fuel (e_tree s')) s' ce h = Ok l' /\ In d l'.
Proof. exact skipped_then_current. Qed.
Print Assumptions C26_skipped_then_current.

(* GetSkippedConfigData after fixes/C26-skipped-config-fallback.patch: always succeeds with the
   latest configuration at or before the skipped epoch that is persisted or announced on the
   header's own ancestry, else genesis (C26_config_latest_own_fork characterises spec_config) *)
Theorem C26_skipped_config : forall s se ce h, wf (e_tree s) = true -> valid_hdr (e_tree s) h = true ->
  answers (get_skipped_config fixed true (enough_fuel (e_tree s)) s se ce h) = Ok (spec_config s se h).
Proof. exact skipped_config_spec. Qed.
Print Assumptions C26_skipped_config.

(* the pinned GetSkippedConfigData (fallback only on ErrEpochNotInMemory): with the skipped
   epoch's configuration announced on another fork only it errors, although the own fork has an
   earlier configuration (corpus case `... C,2.3,i5`) *)
Theorem C26_skipped_config_prefix_refuted :
  spec_config cfg_state 2 (Imp 5) = [8] /\
  answers (get_skipped_config fixed false (enough_fuel cfg_tree) cfg_state 2 3 (Imp 5)) = Err e_hash_not_in_memory /\
  answers (get_skipped_config fixed true (enough_fuel cfg_tree) cfg_state 2 3 (Imp 5)) = Ok [8].
Proof. vm_compute. repeat split; reflexivity. Qed.
Print Assumptions C26_skipped_config_prefix_refuted.

(* Restart (NewEpochState on the same database): as long as no skipped-epoch lookup re-keyed an
   in-memory entry, the persisted copies equal the maps in EVERY state reached by announcements
   and restarts, so a restart changes nothing: every lookup theorem above holds after it. *)
Theorem C26_restart_identity : forall x, synced x -> x_restart x = x.
Proof. exact restart_identity. Qed.
Print Assumptions C26_restart_identity.

Theorem C26_synced_reachable : forall t elen d1 d2,
  synced (x_init t elen d1 d2) /\
  (forall x b d, synced x -> synced (x_announce_epoch x b d) /\ synced (x_announce_config x b d)) /\
  (forall x, synced (x_restart x)).
Proof.
  intros. split; [apply synced_init|]. split.
  - intros x b d H. split; [apply synced_announce_epoch | apply synced_announce_config]; exact H.
  - apply synced_restart.
Qed.
Print Assumptions C26_synced_reachable.

(* non-vacuity: two forks announce for epoch 1; a skipped lookup from block 2 re-keys fork A's
   entry to epoch 2 and leaves fork B's entry where it was *)
Example C26_skipped_nonvacuous :
  match get_skipped_epoch_data fixed (enough_fuel ex_tree) ex_state 1 2 (Imp 2) with
  | Ok [(d, s')] => d = 5 /\ ned s' = [(1, [(3%nat, 6)]); (2, [(1%nat, 5)])] /\
                    get_epoch_data fixed (enough_fuel ex_tree) s' 2 (Imp 2) = Ok [5] /\
                    get_epoch_data fixed (enough_fuel ex_tree) s' 1 (Imp 4) = Ok [6] /\
                    get_epoch_data fixed (enough_fuel ex_tree) s' 1 (Imp 2) = Err e_hash_not_in_memory
  | _ => False
  end.
Proof. vm_compute. repeat split; reflexivity. Qed.

(* ---------------- third round ---------------- *)
(* UpdateSkippedEpochDefinitions after fixes/C26-update-skipped-config-fallback.patch (with the
   skipped epoch's data in the database, the only path that does not run into the lock mix-up of
   updateSkippedEpochDataRaw): it never fails, whatever other forks announced *)
Theorem C26_update_skipped_total : forall s se ce h d, wf (e_tree s) = true -> valid_hdr (e_tree s) h = true ->
  (se = 0 \/ alookup (dbe s) se = Some d) ->
  exists l, update_skipped fixed true (enough_fuel (e_tree s)) s se ce h = Ok l /\ l <> [].
Proof. exact update_skipped_total. Qed.
Print Assumptions C26_update_skipped_total.

(* the pinned updateSkippedConfigData: configuration for the skipped epoch announced on another
   fork only => the block that skips the epoch cannot be imported (corpus case `... U,2.3,i5`) *)
Theorem C26_update_skipped_prefix_refuted :
  let s := with_dbe cfg_state [(2, 77)] in
  update_skipped fixed false (enough_fuel cfg_tree) s 2 3 (Imp 5) = Err e_hash_not_in_memory /\
  exists s', update_skipped fixed true (enough_fuel cfg_tree) s 2 3 (Imp 5) = Ok [s'] /\
             get_config fixed (enough_fuel cfg_tree) s' 3 (Imp 5) = Ok [8].
Proof. vm_compute. split; [reflexivity|]. eexists. split; reflexivity. Qed.
Print Assumptions C26_update_skipped_prefix_refuted.
