(* C26/Model.v -- executable model of the BABE next-epoch bookkeeping in dot/state/epoch.go
   (definitions only).  Mirrors (Tier A): storeBABENextEpochData / storeBABENextConfigData as
   driven by HandleBABEDigest (target epoch = GetEpochForBlock(announcing header) + 1),
   nextEpochMap.Retrieve, findAncestor (its loop on fuel), retrieveEpochDefinitions,
   GetEpochDataRaw, GetConfigData.  The block state is a block tree: block 0 is the genesis
   block (empty parent hash), block i+1 is the i-th element (parent index, slot) of the list;
   block hashes are block indices.  BlockState.IsDescendantOf(a, d) on imported blocks is
   ancestry in this tree; for a header that is not imported it fails with
   database.ErrNotFound, which findAncestor skips (`continue`).

   The two definitions carry a `variant`: `fixed` mirrors the code after the two repairs
   fixes/C26-findancestor-loop.patch (advance currentHeader) and
   fixes/C26-config-fallback.patch (fall back on errHashNotInMemory); `prefix` is the pinned
   code, kept only for the refutation witnesses. *)
From Coq Require Import NArith List Bool Arith.
From Common Require Import Outcome.
Import ListNotations.
Local Open Scope N_scope.

Record variant := mkvariant { fix_loop : bool; fix_fallback : bool }.
Definition fixed : variant := mkvariant true true.
Definition prefix : variant := mkvariant false false.

(* ---- block tree ---- *)
Definition tree := list (nat * N).                 (* block i+1 : (parent index, slot) *)
Definition parent (t : tree) (i : nat) : nat :=
  match i with O => O | S j => fst (nth j t (O, 0)) end.
Definition slot (t : tree) (i : nat) : N :=
  match i with O => 0 | S j => snd (nth j t (O, 0)) end.
(* well-formed: every parent index is smaller than the block's own index *)
Fixpoint wf_from (k : nat) (t : tree) : bool :=
  match t with
  | [] => true
  | (p, _) :: r => (p <=? k)%nat && wf_from (S k) r
  end.
Definition wf (t : tree) : bool := wf_from 0 t.

(* ancestors of block i, itself first, genesis last *)
Fixpoint path_f (fuel : nat) (t : tree) (i : nat) : list nat :=
  match fuel with
  | O => []
  | S f => i :: match i with O => [] | S _ => path_f f t (parent t i) end
  end.
Definition path (t : tree) (i : nat) : list nat := path_f (S i) t i.
Definition is_anc (t : tree) (a d : nat) : bool := existsb (Nat.eqb a) (path t d).
Definition depth (t : tree) (i : nat) : nat := pred (length (path t i)).
(* the ancestor with block number 1 (first non-origin block of the chain) *)
Definition anc1 (t : tree) (i : nat) : nat :=
  let p := path t i in nth (length p - 2) p O.

(* ---- headers handed to the lookups ---- *)
Inductive hdr :=
| Imp (i : nat)                 (* the header of imported block i *)
| Fresh (p : nat) (s : N).      (* a header that is not imported: child of block p, slot s *)

Definition two64 : N := 18446744073709551616.
Definition sub64 (a b : N) : N := (a + two64 - b) mod two64.

(* GetEpochForBlock (no finalised first-slot entry in the database) *)
Definition epoch_of (t : tree) (elen : N) (h : hdr) : N :=
  match h with
  | Imp i => if (depth t i <=? 1)%nat then 0 else sub64 (slot t i) (slot t (anc1 t i)) / elen
  | Fresh p s => if (depth t p <=? 0)%nat then 0 else sub64 s (slot t (anc1 t p)) / elen
  end.

(* ---- state ---- *)
Definition emap := list (N * list (nat * N)).   (* epoch -> (announcing block -> data id) *)
Record est := mkest {
  e_tree : tree; e_len : N;
  ned : emap;                 (* nextEpochData *)
  ncd : emap;                 (* nextConfigData *)
  dbe : list (N * N);         (* epoch data persisted in the database (SetEpochDataRaw) *)
  dbc : list (N * N)          (* config data persisted in the database (StoreConfigData) *)
}.

Fixpoint alookup {A} (l : list (N * A)) (k : N) : option A :=
  match l with [] => None | (k', v) :: r => if k' =? k then Some v else alookup r k end.
Fixpoint put_inner (l : list (nat * N)) (b : nat) (d : N) : list (nat * N) :=
  match l with
  | [] => [(b, d)]
  | (b', d') :: r => if Nat.eqb b' b then (b, d) :: r else (b', d') :: put_inner r b d
  end.
Fixpoint put_outer (m : emap) (e : N) (b : nat) (d : N) : emap :=
  match m with
  | [] => [(e, [(b, d)])]
  | (e', l) :: r => if e' =? e then (e, put_inner l b d) :: r else (e', l) :: put_outer r e b d
  end.

(* HandleBABEDigest(header of block b, NextEpochData / NextConfigDataV1 with payload d) *)
Definition announce_epoch (s : est) (b : nat) (d : N) : est :=
  let e := epoch_of (e_tree s) (e_len s) (Imp b) + 1 in
  mkest (e_tree s) (e_len s) (put_outer (ned s) e b d) (ncd s) (dbe s) (dbc s).
Definition announce_config (s : est) (b : nat) (d : N) : est :=
  let e := epoch_of (e_tree s) (e_len s) (Imp b) + 1 in
  mkest (e_tree s) (e_len s) (ned s) (put_outer (ncd s) e b d) (dbe s) (dbc s).

(* ---- findAncestor ---- *)
Definition e_epoch_not_in_memory : nat := 1.
Definition e_hash_not_in_memory : nat := 2.

(* the entries of hashesAtEpoch that the inner `for hash, value := range` accepts for
   currentHeader = cur: hash = cur.Hash() or IsDescendantOf(hash, cur.Hash()); for a header
   that is not imported every IsDescendantOf fails with ErrNotFound (skipped). *)
Definition matches (t : tree) (entries : list (nat * N)) (cur : hdr) : list (nat * N) :=
  match cur with
  | Imp i => filter (fun bd => is_anc t (fst bd) i) entries
  | Fresh _ _ => []
  end.
Definition parent_empty (cur : hdr) : bool := match cur with Imp O => true | _ => false end.
Definition hparent (t : tree) (h : hdr) : nat := match h with Imp i => parent t i | Fresh p _ => p end.

(* Go's map iteration order is unspecified: when several entries match, any of them may be
   returned, so the model returns the whole list of acceptable entries. *)
Fixpoint find_anc (v : variant) (fuel : nat) (t : tree) (entries : list (nat * N)) (orig cur : hdr)
  : outcome (list (nat * N)) :=
  match fuel with
  | O => OutOfFuel
  | S f =>
    match matches t entries cur with
    | x :: r => Ok (x :: r)
    | [] =>
      if parent_empty cur then Err e_hash_not_in_memory
      else (* pinned code: blockState.GetHeader(header.ParentHash) -- the ORIGINAL header *)
        let src := if fix_loop v then cur else orig in
        find_anc v f t entries orig (Imp (hparent t src))
    end
  end.

Definition retrieve (v : variant) (fuel : nat) (t : tree) (m : emap) (e : N) (h : hdr) : outcome (list N) :=
  match alookup m e with
  | None => Err e_epoch_not_in_memory
  | Some entries => obind (find_anc v fuel t entries h h) (fun l => Ok (map snd l))
  end.

Definition genesis_id : N := 238.   (* 0xee: payload id of the genesis epoch data / config *)

(* GetEpochDataRaw(epoch, header) *)
Definition get_epoch_data (v : variant) (fuel : nat) (s : est) (e : N) (h : hdr) : outcome (list N) :=
  if e =? 0 then Ok [genesis_id] else
  match alookup (dbe s) e with
  | Some d => Ok [d]
  | None => retrieve v fuel (e_tree s) (ned s) e h
  end.

(* GetConfigData(epoch, header): for tryEpoch := epoch; tryEpoch >= 0; tryEpoch-- *)
Fixpoint config_loop (v : variant) (fuel : nat) (s : est) (k : nat) (h : hdr) : outcome (list N) :=
  match k with
  | O => Ok [genesis_id]
  | S k' =>
    let e := N.of_nat k in
    match alookup (dbc s) e with
    | Some d => Ok [d]
    | None =>
      match retrieve v fuel (e_tree s) (ncd s) e h with
      | Err c =>
        if Nat.eqb c e_epoch_not_in_memory || (fix_fallback v && Nat.eqb c e_hash_not_in_memory)
        then config_loop v fuel s k' h else Err c
      | r => r
      end
    end
  end.
Definition get_config (v : variant) (fuel : nat) (s : est) (e : N) (h : hdr) : outcome (list N) :=
  config_loop v fuel s (N.to_nat e) h.

(* fuel that always suffices for the repaired loop (proved): one round per ancestor + 2 *)
Definition enough_fuel (t : tree) : nat := length t + 3.

(* ---------- specification (what the property text says) ---------- *)
(* blocks on the header's own ancestry *)
Definition on_chain (t : tree) (h : hdr) (b : nat) : bool :=
  match h with Imp i => is_anc t b i | Fresh p _ => is_anc t b p end.
(* payloads announced for epoch e by blocks of h's own ancestry *)
Definition announced (t : tree) (m : emap) (e : N) (h : hdr) : list N :=
  match alookup m e with
  | None => []
  | Some entries => map snd (filter (fun bd => on_chain t h (fst bd)) entries)
  end.
(* None: the lookup must fail (promptly) *)
Definition spec_epoch_data (s : est) (e : N) (h : hdr) : option (list N) :=
  if e =? 0 then Some [genesis_id] else
  match alookup (dbe s) e with
  | Some d => Some [d]
  | None => match announced (e_tree s) (ned s) e h with [] => None | l => Some l end
  end.
(* the latest configuration at or before epoch k: persisted, or announced on h's ancestry *)
Fixpoint spec_config_n (s : est) (k : nat) (h : hdr) : list N :=
  match k with
  | O => [genesis_id]
  | S k' =>
    match alookup (dbc s) (N.of_nat k) with
    | Some d => [d]
    | None => match announced (e_tree s) (ncd s) (N.of_nat k) h with
              | [] => spec_config_n s k' h
              | l => l
              end
    end
  end.
Definition spec_config (s : est) (e : N) (h : hdr) : list N := spec_config_n s (N.to_nat e) h.

(* header validity w.r.t. the tree *)
Definition valid_hdr (t : tree) (h : hdr) : bool :=
  match h with Imp i => (i <=? length t)%nat | Fresh p _ => (p <=? length t)%nat end.
