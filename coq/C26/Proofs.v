(* C26/Proofs.v -- lemmas about the model of the next-epoch lookups. *)
From Coq Require Import NArith List Bool Arith Lia.
From Common Require Import Outcome.
From C26 Require Import Model.
Import ListNotations.
Local Open Scope N_scope.

(* ---- block tree ---- *)
Lemma wf_from_nth : forall t k j, wf_from k t = true -> (fst (nth j t (O, 0%N)) <= k + j)%nat.
Proof.
  induction t as [|[p s] t IH]; intros k j H; cbn [wf_from] in H.
  - destruct j; cbn; lia.
  - apply andb_true_iff in H. destruct H as [H1 H2]. apply Nat.leb_le in H1.
    destruct j; cbn [nth fst]; [lia|]. specialize (IH (S k) j H2). lia.
Qed.

Lemma wf_parent : forall t j, wf t = true -> (parent t (S j) <= j)%nat.
Proof. intros t j H. unfold parent. pose proof (wf_from_nth t 0 j H). lia. Qed.

Lemma path_f_stable : forall t, wf t = true -> forall f1 f2 i, (i < f1)%nat -> (i < f2)%nat ->
  path_f f1 t i = path_f f2 t i.
Proof.
  intros t W. induction f1 as [|f1 IH]; intros f2 i H1 H2; [lia|].
  destruct f2 as [|f2]; [lia|]. cbn [path_f]. f_equal.
  destruct i as [|j]; [reflexivity|].
  pose proof (wf_parent t j W). apply IH; lia.
Qed.

Lemma path_unfold : forall t i, wf t = true ->
  path t i = i :: match i with O => [] | S _ => path t (parent t i) end.
Proof.
  intros t i W. unfold path at 1. cbn [path_f]. f_equal.
  destruct i as [|j]; [reflexivity|]. unfold path.
  pose proof (wf_parent t j W). apply path_f_stable; [exact W | lia | lia].
Qed.

Lemma is_anc_unfold : forall t a i, wf t = true ->
  is_anc t a i = Nat.eqb a i || match i with O => false | S _ => is_anc t a (parent t i) end.
Proof.
  intros t a i W. unfold is_anc at 1. rewrite path_unfold by exact W. cbn [existsb].
  destruct i; reflexivity.
Qed.

Lemma is_anc_refl : forall t i, wf t = true -> is_anc t i i = true.
Proof. intros. rewrite is_anc_unfold by assumption. rewrite Nat.eqb_refl. reflexivity. Qed.

Lemma is_anc_parent : forall t a i, wf t = true -> is_anc t a (parent t i) = true -> is_anc t a i = true.
Proof.
  intros t a i W H. rewrite is_anc_unfold by exact W. destruct i as [|j].
  - cbn [parent] in H. rewrite is_anc_unfold in H by exact W. exact H.
  - rewrite H. apply orb_true_r.
Qed.

Lemma iter_succ_r : forall {A} (f : A -> A) k x, Nat.iter (S k) f x = Nat.iter k f (f x).
Proof.
  intros A f. induction k as [|k IH]; intros x; [reflexivity|].
  change (Nat.iter (S (S k)) f x) with (f (Nat.iter (S k) f x)).
  rewrite IH. reflexivity.
Qed.

(* is_anc is reachability along parent links *)
Lemma is_anc_iter : forall t a d, wf t = true ->
  (is_anc t a d = true <-> exists k, Nat.iter k (parent t) d = a).
Proof.
  intros t a d W. split.
  - revert a. induction d as [d IH] using lt_wf_ind. intros a H.
    rewrite is_anc_unfold in H by exact W. apply orb_true_iff in H. destruct H as [H|H].
    + apply Nat.eqb_eq in H. exists O. cbn. congruence.
    + destruct d as [|j]; [discriminate|].
      pose proof (wf_parent t j W).
      destruct (IH (parent t (S j)) ltac:(lia) a H) as [k Hk].
      exists (S k). rewrite iter_succ_r. exact Hk.
  - intros [k Hk]. revert d Hk. induction k as [|k IH]; intros d Hk.
    + cbn in Hk. subst. apply is_anc_refl. exact W.
    + rewrite iter_succ_r in Hk. apply is_anc_parent; [exact W|]. apply IH. exact Hk.
Qed.

(* ---- findAncestor, repaired loop ---- *)
Lemma filter_nil : forall {A} (f : A -> bool) l, filter f l = [] <-> forall x, In x l -> f x = false.
Proof.
  intros A f. induction l as [|a l IH]; cbn [filter]; split; intros H.
  - intros x [].
  - reflexivity.
  - destruct (f a) eqn:E; [discriminate|]. intros x [<-|Hx]; [exact E | apply IH; assumption].
  - destruct (f a) eqn:E.
    + rewrite (H a (or_introl eq_refl)) in E. discriminate.
    + apply IH. intros x Hx. apply H. right. exact Hx.
Qed.

Lemma matches_parent_nil : forall t entries i, wf t = true ->
  matches t entries (Imp i) = [] -> matches t entries (Imp (parent t i)) = [].
Proof.
  intros t entries i W H. unfold matches in *. apply filter_nil. intros x Hx.
  destruct (is_anc t (fst x) (parent t i)) eqn:E; [|reflexivity].
  apply is_anc_parent in E; [|exact W].
  rewrite (proj1 (filter_nil _ _) H x Hx) in E. discriminate.
Qed.

Definition answer_of_matches (m : list (nat * N)) : outcome (list (nat * N)) :=
  match m with [] => Err e_hash_not_in_memory | _ => Ok m end.

Lemma find_anc_fixed_imp : forall t entries orig, wf t = true -> forall fuel i, (i < fuel)%nat ->
  find_anc fixed fuel t entries orig (Imp i) = answer_of_matches (matches t entries (Imp i)).
Proof.
  intros t entries orig W. induction fuel as [|fuel IH]; intros i Hi; [lia|].
  cbn [find_anc]. destruct (matches t entries (Imp i)) as [|x r] eqn:M; [|reflexivity].
  destruct i as [|j]; cbn [parent_empty]; [reflexivity|].
  cbn [fix_loop fixed hparent]. pose proof (wf_parent t j W).
  rewrite IH by lia. rewrite (matches_parent_nil t entries (S j) W M). reflexivity.
Qed.

Definition head_block (h : hdr) : nat := match h with Imp i => i | Fresh p _ => p end.
Definition chain_entries (t : tree) (entries : list (nat * N)) (h : hdr) : list (nat * N) :=
  filter (fun bd => on_chain t h (fst bd)) entries.

Lemma find_anc_fixed : forall t entries h fuel, wf t = true -> (head_block h + 1 < fuel)%nat ->
  find_anc fixed fuel t entries h h = answer_of_matches (chain_entries t entries h).
Proof.
  intros t entries h fuel W Hf. destruct h as [i|p s]; cbn [head_block] in Hf.
  - rewrite find_anc_fixed_imp by (try exact W; lia). reflexivity.
  - destruct fuel as [|fuel]; [lia|]. cbn [find_anc matches parent_empty fix_loop fixed hparent].
    rewrite find_anc_fixed_imp by (try exact W; lia). reflexivity.
Qed.

Lemma announced_eq : forall t m e h,
  announced t m e h = match alookup m e with None => [] | Some entries => map snd (chain_entries t entries h) end.
Proof. reflexivity. Qed.

Lemma retrieve_fixed : forall t m e h fuel, wf t = true -> (head_block h + 1 < fuel)%nat ->
  retrieve fixed fuel t m e h =
  match alookup m e with
  | None => Err e_epoch_not_in_memory
  | Some _ => match announced t m e h with [] => Err e_hash_not_in_memory | l => Ok l end
  end.
Proof.
  intros t m e h fuel W Hf. unfold retrieve. rewrite announced_eq.
  destruct (alookup m e) as [entries|]; [|reflexivity].
  rewrite find_anc_fixed by assumption.
  destruct (chain_entries t entries h); reflexivity.
Qed.

Lemma valid_enough : forall t h, valid_hdr t h = true -> (head_block h + 1 < enough_fuel t)%nat.
Proof.
  intros t h H. unfold enough_fuel. destruct h; cbn [valid_hdr head_block] in *; apply Nat.leb_le in H; lia.
Qed.

(* GetEpochDataRaw, repaired *)
Lemma epoch_data_spec : forall s e h, wf (e_tree s) = true -> valid_hdr (e_tree s) h = true ->
  match spec_epoch_data s e h with
  | Some l => get_epoch_data fixed (enough_fuel (e_tree s)) s e h = Ok l
  | None => get_epoch_data fixed (enough_fuel (e_tree s)) s e h = Err e_epoch_not_in_memory
            \/ get_epoch_data fixed (enough_fuel (e_tree s)) s e h = Err e_hash_not_in_memory
  end.
Proof.
  intros s e h W V. unfold spec_epoch_data, get_epoch_data.
  destruct (e =? 0); [reflexivity|].
  destruct (alookup (dbe s) e); [reflexivity|].
  rewrite retrieve_fixed by (try exact W; apply valid_enough; exact V).
  rewrite announced_eq. destruct (alookup (ned s) e) as [entries|]; [|left; reflexivity].
  destruct (map snd (chain_entries (e_tree s) entries h)); [right; reflexivity | reflexivity].
Qed.

(* GetConfigData, repaired *)
Lemma config_loop_spec : forall s h, wf (e_tree s) = true -> valid_hdr (e_tree s) h = true ->
  forall k, config_loop fixed (enough_fuel (e_tree s)) s k h = Ok (spec_config_n s k h).
Proof.
  intros s h W V. induction k as [|k IH]; [reflexivity|].
  cbn [config_loop spec_config_n].
  destruct (alookup (dbc s) (N.of_nat (S k))); [reflexivity|].
  rewrite retrieve_fixed by (try exact W; apply valid_enough; exact V).
  destruct (alookup (ncd s) (N.of_nat (S k))) as [entries|] eqn:L.
  - destruct (announced (e_tree s) (ncd s) (N.of_nat (S k)) h) eqn:A; [|reflexivity].
    cbn [fixed fix_fallback e_hash_not_in_memory e_epoch_not_in_memory Nat.eqb orb andb]. exact IH.
  - assert (A : announced (e_tree s) (ncd s) (N.of_nat (S k)) h = []) by (rewrite announced_eq, L; reflexivity).
    rewrite A. cbn [e_epoch_not_in_memory Nat.eqb orb]. exact IH.
Qed.

(* every payload in `announced` was announced for that epoch by a block of the header's chain *)
Lemma announced_own_fork : forall t m e h d, In d (announced t m e h) ->
  exists entries b, alookup m e = Some entries /\ In (b, d) entries /\ on_chain t h b = true.
Proof.
  intros t m e h d H. rewrite announced_eq in H. destruct (alookup m e) as [entries|]; [|destruct H].
  apply in_map_iff in H. destruct H as [[b d'] [E H]]. cbn in E. subst d'.
  apply filter_In in H. destruct H as [H1 H2]. exists entries, b. auto.
Qed.

Lemma announced_complete : forall t m e h entries b d,
  alookup m e = Some entries -> In (b, d) entries -> on_chain t h b = true -> In d (announced t m e h).
Proof.
  intros t m e h entries b d L H C. rewrite announced_eq, L. apply in_map_iff.
  exists (b, d). split; [reflexivity|]. apply filter_In. auto.
Qed.

(* ---- the pinned loop does not terminate ---- *)
Lemma find_anc_prefix_stuck : forall t entries i, parent t i <> O ->
  matches t entries (Imp (parent t i)) = [] ->
  forall fuel, find_anc prefix fuel t entries (Imp i) (Imp (parent t i)) = OutOfFuel.
Proof.
  intros t entries i Hp M. induction fuel as [|fuel IH]; [reflexivity|].
  cbn [find_anc]. rewrite M.
  assert (E : parent_empty (Imp (parent t i)) = false) by (destruct (parent t i); [congruence | reflexivity]).
  rewrite E. cbn [prefix fix_loop hparent]. exact IH.
Qed.

Lemma find_anc_prefix_diverges : forall t entries i, wf t = true -> i <> O -> parent t i <> O ->
  matches t entries (Imp i) = [] ->
  forall fuel, find_anc prefix fuel t entries (Imp i) (Imp i) = OutOfFuel.
Proof.
  intros t entries i W Hi Hp M fuel. destruct fuel as [|fuel]; [reflexivity|].
  cbn [find_anc]. rewrite M. destruct i as [|j]; [congruence|].
  cbn [parent_empty prefix fix_loop hparent].
  apply find_anc_prefix_stuck; [exact Hp|]. apply matches_parent_nil; assumption.
Qed.

(* ---- characterisation of the configuration specification ---- *)
Definition nothing_at (s : est) (h : hdr) (j : nat) : Prop :=
  alookup (dbc s) (N.of_nat j) = None /\ announced (e_tree s) (ncd s) (N.of_nat j) h = [].

Lemma spec_config_char : forall s h k d, In d (spec_config_n s k h) ->
  (d = genesis_id /\ forall j, (0 < j <= k)%nat -> nothing_at s h j)
  \/ exists j, (0 < j <= k)%nat
       /\ (alookup (dbc s) (N.of_nat j) = Some d
           \/ (alookup (dbc s) (N.of_nat j) = None /\ In d (announced (e_tree s) (ncd s) (N.of_nat j) h)))
       /\ forall j', (j < j' <= k)%nat -> nothing_at s h j'.
Proof.
  intros s h. induction k as [|k IH]; intros d H.
  - cbn in H. destruct H as [<-|[]]. left. split; [reflexivity|]. intros j Hj. lia.
  - cbn [spec_config_n] in H.
    destruct (alookup (dbc s) (N.of_nat (S k))) as [d0|] eqn:D.
    + destruct H as [<-|[]]. right. exists (S k). split; [lia|]. split; [left; exact D|]. intros j' Hj'. lia.
    + destruct (announced (e_tree s) (ncd s) (N.of_nat (S k)) h) as [|x r] eqn:A.
      * destruct (IH d H) as [[E N]|[j [Hj [Hd N]]]].
        -- left. split; [exact E|]. intros j Hj.
           destruct (Nat.eq_dec j (S k)) as [->|Hne]; [split; assumption | apply N; lia].
        -- right. exists j. split; [lia|]. split; [exact Hd|]. intros j' Hj'.
           destruct (Nat.eq_dec j' (S k)) as [->|Hne]; [split; assumption | apply N; lia].
      * right. exists (S k). split; [lia|]. split; [right; split; [exact D | rewrite A; exact H]|].
        intros j' Hj'. lia.
Qed.

Lemma get_epoch_data_prefix_hangs : forall s e i entries, wf (e_tree s) = true -> e <> 0 ->
  alookup (dbe s) e = None -> alookup (ned s) e = Some entries ->
  i <> O -> parent (e_tree s) i <> O -> matches (e_tree s) entries (Imp i) = [] ->
  forall fuel, get_epoch_data prefix fuel s e (Imp i) = OutOfFuel.
Proof.
  intros s e i entries W E D L Hi Hp M fuel. unfold get_epoch_data, retrieve.
  apply N.eqb_neq in E. rewrite E, D, L.
  rewrite find_anc_prefix_diverges by assumption. reflexivity.
Qed.
