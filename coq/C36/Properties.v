(* C36/Properties.v — property C36: chain state survives a crash at any write.
   Only statements, each closed by `exact <lemma>`, with Print Assumptions beneath.

   Reading guide.  [run_fixed sim0 ops] is the log of atomic write units (puts and whole
   batches, in program order) that the scenario [ops] (imports, finalisations; each operation says
   whether it applied a GRANDPA authority-set change, so the theorems hold for ANY rule of
   applicability and any number of pending scheduled / forced changes; an import may carry BABE
   NextEpochData / NextConfigData digests, a finalisation carries the epoch-table writes of the
   digest handler; operations that are not valid in the state they meet are skipped; a finalisation is issued the way lib/grandpa issues it: justification, prevotes,
   precommits, SetFinalisedHash, SetLatestRound, then ApplyScheduledChanges) makes the dot/state
   services issue after genesis, together with the final block
   table.  [replay db0 (firstn n ws)] is the database a crash after the n-th unit leaves.
   [recover] is the restart path (Service.Start and the reads the property names). *)
From Coq Require Import List NArith Bool.
From C36 Require Import Model Proofs.
Import ListNotations.
Local Open Scope N_scope.

(* For every scenario and every crash point n the restart succeeds, and compared with every
   earlier crash point m the finalised (set id, round) and the GRANDPA set id are no older. *)
Theorem C36_prefix_safe : forall (ops : list sop) (m n : nat),
  (m <= n)%nat -> (n <= length (fst (run_fixed sim0 ops)))%nat ->
  let bsF := s_blocks (snd (run_fixed sim0 ops)) in
  let ws := fst (run_fixed sim0 ops) in
  exists b r s g b0 r0 s0 g0,
    recover bsF (replay db0 (firstn n ws)) = VOk b r s g /\
    recover bsF (replay db0 (firstn m ws)) = VOk b0 r0 s0 g0 /\
    le_rs r0 s0 r s = true /\ g0 <= g.
Proof. exact prefix_safe. Qed.
Print Assumptions C36_prefix_safe.

(* A successful restart means: the finalised head recorded under the highest (round, set id) has
   its header and body in the database, its state loads (the trie batches of the block and of
   all its ancestors are there), and the current GRANDPA set id has its authority list and its
   activation block. *)
Theorem C36_ok_means : forall bs d b r s g, recover bs d = VOk b r s g ->
  d KHrs = Some (VPair r s) /\ d (KFh r s) = Some (VBlk b) /\
  has d (KHdr b) = true /\ has d (KBlb b) = true /\ state_ok bs d b = true /\
  d KSetID = Some (VNum g) /\ has d (KAuth g) = true /\ has d (KChange g) = true.
Proof. exact recover_ok_meaning. Qed.
Print Assumptions C36_ok_means.

(* the same in the executable form the driver evaluates on the verdicts of the REAL restarts *)
Theorem C36_prefix_safe_bool : forall ops : list sop,
  all_ok_monotone None
    (crash_points (s_blocks (snd (run_fixed sim0 ops))) db0 (fst (run_fixed sim0 ops))) = true.
Proof. exact prefix_safe_bool. Qed.
Print Assumptions C36_prefix_safe_bool.

(* The pinned tree wrote the new set id first (IncrementSetID, then the authorities, then the
   activation block): a crash after the first of the three writes leaves a current set without
   authorities. *)
Theorem C36_prefix_order_refuted :
  exists ops, scenario_valid ops = true /\
    all_ok_monotone None
      (crash_points (s_blocks (snd (run_prefix sim0 ops))) db0 (fst (run_prefix sim0 ops))) = false.
Proof. exists [Imp 0 false BNone; Fin 1 1 true []]. vm_compute. split; reflexivity. Qed.
Print Assumptions C36_prefix_order_refuted.

(* non-vacuity: a forked scenario with a forced and a scheduled change, flags as the
   single-pending predictor gives them; the head advances twice and the set id twice *)
Example C36_nonvacuous :
  let dops := [DImp 0 DNone BNone; DImp 0 DNone BNone; DImp 1 (DForced 1) BNone; DImp 3 DNone BNone;
               DFin 3 1 []; DImp 4 (DSched 0) BNone; DFin 5 2 []; DImp 5 DNone BNone] in
  let ops := predict dops in
  single_pending dops = true /\ scenario_valid ops = true /\
  length (fst (run_fixed sim0 ops)) = 39%nat /\
  recover (s_blocks (snd (run_fixed sim0 ops))) (replay db0 (fst (run_fixed sim0 ops))) = VOk 5 2 1 2.
Proof. vm_compute. repeat split; reflexivity. Qed.

(* non-vacuity of the re-finalisation branch (handleFinalisedBlock returns early when a later
   round finalises the finalised head again): rounds 1..3 finalise block 1, a scheduled change
   stays pending on a descendant meanwhile, is applied by the finalisation of block 3, and block 3
   is finalised again in round 1 of the new set *)
Example C36_nonvacuous_refinalise :
  let dops := [DImp 0 DNone BNone; DFin 1 1 []; DFin 1 2 []; DImp 1 (DSched 1) BNone; DFin 1 3 [];
               DImp 2 DNone BNone; DFin 3 4 []; DFin 3 1 []] in
  let ops := predict dops in
  single_pending dops = true /\ scenario_valid ops = true /\
  length (fst (run_fixed sim0 ops)) = 48%nat /\
  recover (s_blocks (snd (run_fixed sim0 ops))) (replay db0 (fst (run_fixed sim0 ops))) = VOk 3 1 1 1.
Proof. vm_compute. repeat split; reflexivity. Qed.

(* non-vacuity beyond the single-pending class: scheduled changes pending on two forks and on the
   same chain at once, a forced change applied at an import while a scheduled one is pending,
   BABE announcements on two forks and the epoch-table writes of the finalisation that persists
   one of them (a put, then the batch deleting the announcements); three set changes *)
Example C36_nonvacuous_multi :
  let ops := [Imp 0 false BEpoch; Imp 0 false BBoth; Imp 1 false BNone; Imp 3 false BNone;
              Fin 3 1 true [EPut (KEpd 1); EDel [KNed 1 1; KNed 1 2]];
              Imp 4 true BNone; Fin 4 1 false []; Fin 5 2 true [EPut (KCfd 1); EDel [KNcd 1 2]]] in
  scenario_valid ops = true /\
  length (fst (run_fixed sim0 ops)) = 55%nat /\
  recover (s_blocks (snd (run_fixed sim0 ops))) (replay db0 (fst (run_fixed sim0 ops))) = VOk 5 2 2 3.
Proof. vm_compute. repeat split; reflexivity. Qed.
