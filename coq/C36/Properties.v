(* C36/Properties.v *)
From Coq Require Import List NArith Bool.
From C36 Require Import Model Proofs.
Import ListNotations.
Local Open Scope N_scope.

(* the pinned tree wrote the new set id first: a crash after that write leaves a current set
   without authorities *)
Theorem C36_prefix_order_refuted :
  exists ops, scenario_valid ops = true /\
    let (ws, st) := run_prefix sim0 ops in
    all_ok_monotone None (crash_points (s_blocks st) db0 ws) = false.
Proof. exists [Imp 0 (DSched 0); Fin 1 1]. vm_compute. split; reflexivity. Qed.
Print Assumptions C36_prefix_order_refuted.
