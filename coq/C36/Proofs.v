(* C36/Proofs.v — prefix safety of the modelled write order: at every crash point of every
   scenario the restart path succeeds, and what it finds never goes backwards. *)
From Coq Require Import List NArith Bool Arith Lia.
From C36 Require Import Model.
Import ListNotations.
Local Open Scope N_scope.

(* ---- keys ---- *)
Lemma key_eqb_spec a b : key_eqb a b = true <-> a = b.
Proof.
  destruct a, b; simpl; split; intros H; try discriminate; try reflexivity;
    try (apply N.eqb_eq in H; subst; reflexivity);
    try (inversion H; subst; apply N.eqb_refl).
  - apply andb_true_iff in H. destruct H as [H1 H2]. apply N.eqb_eq in H1, H2. subst. reflexivity.
  - inversion H; subst. rewrite !N.eqb_refl. reflexivity.
Qed.

Lemma key_eqb_refl a : key_eqb a a = true.
Proof. apply key_eqb_spec. reflexivity. Qed.

Lemma dput_same d k v : dput d k v k = Some v.
Proof. unfold dput. rewrite key_eqb_refl. reflexivity. Qed.

Lemma dput_other d k v x : x <> k -> dput d k v x = d x.
Proof.
  unfold dput. intros H. destruct (key_eqb x k) eqn:E; [|reflexivity].
  apply key_eqb_spec in E. contradiction.
Qed.

Lemma has_dput d k v x : has d x = true -> has (dput d k v) x = true.
Proof.
  unfold has, dput. destruct (key_eqb x k); [reflexivity|]. auto.
Qed.

Lemma has_dput_same d k v : has (dput d k v) k = true.
Proof. unfold has. rewrite dput_same. reflexivity. Qed.

(* ---- databases only grow ---- *)
Definition grows (d d' : db) : Prop := forall k, has d k = true -> has d' k = true.

Lemma grows_refl d : grows d d.
Proof. intros k H. exact H. Qed.
Lemma grows_trans d1 d2 d3 : grows d1 d2 -> grows d2 d3 -> grows d1 d3.
Proof. intros A B k H. apply B, A, H. Qed.
Lemma grows_dput d k v : grows d (dput d k v).
Proof. intros x H. apply has_dput. exact H. Qed.

Lemma state_ok_fuel_grows f bs : forall d d' b, grows d d' ->
  state_ok_fuel f bs d b = true -> state_ok_fuel f bs d' b = true.
Proof.
  induction f as [|f IH]; intros d d' b G H; simpl in *.
  - apply andb_true_iff in H. destruct H as [H1 H2]. rewrite (G _ H1). exact H2.
  - apply andb_true_iff in H. destruct H as [H1 H2]. rewrite (G _ H1). simpl.
    destruct (b =? 0); [reflexivity|]. destruct (bget bs b); [|discriminate]. eapply IH; eauto.
Qed.

(* the keys whose VALUE the restart path reads, given what it currently finds *)
Definition reads_value (r s : N) (k : key) : bool :=
  match k with KHrs | KSetID => true | KFh r' s' => (r' =? r) && (s' =? s) | _ => false end.

Lemma recover_dput_irrelevant bs d b r s g k v :
  recover bs d = VOk b r s g -> reads_value r s k = false -> recover bs (dput d k v) = VOk b r s g.
Proof.
  unfold recover. intros H Hk.
  destruct (d KHrs) as [[| |r0 s0|]|] eqn:E1; try discriminate.
  destruct (d (KFh r0 s0)) as [[|b0| |]|] eqn:E2; try discriminate.
  destruct (has d (KHsh 0) && has d (KHdr b0) && state_ok bs d b0) eqn:E3; [|discriminate].
  destruct (has d (KBlb b0)) eqn:E4; [|discriminate].
  destruct (d KSetID) as [[| | |g0]|] eqn:E5; try discriminate.
  destruct (has d (KAuth g0)) eqn:E6; [|discriminate].
  destruct (has d (KChange g0)) eqn:E7; [|discriminate].
  inversion H; subst.
  assert (N1 : KHrs <> k) by (intros <-; discriminate).
  assert (N2 : KFh r s <> k) by (intros <-; simpl in Hk; rewrite !N.eqb_refl in Hk; discriminate).
  assert (N3 : KSetID <> k) by (intros <-; discriminate).
  rewrite (dput_other _ _ _ _ N1), E1, (dput_other _ _ _ _ N2), E2, (dput_other _ _ _ _ N3), E5.
  apply andb_true_iff in E3. destruct E3 as [E3 E3c]. apply andb_true_iff in E3. destruct E3 as [E3a E3b].
  rewrite (has_dput _ k v _ E3a), (has_dput _ k v _ E3b), (has_dput _ k v _ E4),
          (has_dput _ k v _ E6), (has_dput _ k v _ E7).
  unfold state_ok in *. rewrite (state_ok_fuel_grows _ _ _ _ _ (grows_dput d k v) E3c). reflexivity.
Qed.

(* ---- block tables ---- *)
(* parents precede their children *)
Definition wf_blocks (bs : blocks) : Prop :=
  forall i x, bget bs i = Some x -> i <> 0 -> b_parent x < i.

Definition extends (bs bsF : blocks) : Prop := exists tail, bsF = bs ++ tail.

Lemma extends_refl bs : extends bs bs.
Proof. exists []. rewrite app_nil_r. reflexivity. Qed.
Lemma extends_snoc bs x bsF : extends (bs ++ [x]) bsF -> extends bs bsF.
Proof. intros [t ->]. exists (x :: t). rewrite <- app_assoc. reflexivity. Qed.

Lemma bget_extends bs bsF i x : extends bs bsF -> bget bs i = Some x -> bget bsF i = Some x.
Proof.
  intros [t ->] H. unfold bget in *. rewrite nth_error_app1; [exact H|].
  apply nth_error_Some. rewrite H. discriminate.
Qed.

Lemma bget_lt bs i : i < N.of_nat (length bs) -> exists x, bget bs i = Some x.
Proof.
  intros H. unfold bget. destruct (nth_error bs (N.to_nat i)) eqn:E; [eauto|].
  apply nth_error_None in E. lia.
Qed.

(* every block of the table has its trie batch in the database: then every state loads *)
Lemma state_ok_all bs bsF d : wf_blocks bs -> extends bs bsF ->
  (forall x, x < N.of_nat (length bs) -> has d (KSt x) = true) ->
  forall f b, (N.to_nat b < f)%nat -> b < N.of_nat (length bs) -> state_ok_fuel f bsF d b = true.
Proof.
  intros Hwf Hext Hall f. induction f as [|f IH]; intros b Hf Hb; [lia|].
  simpl. rewrite (Hall b Hb). simpl. destruct (b =? 0) eqn:E0; [reflexivity|].
  apply N.eqb_neq in E0. destruct (bget_lt bs b Hb) as [x Hx].
  rewrite (bget_extends _ _ _ _ Hext Hx).
  pose proof (Hwf b x Hx E0) as Hp. apply IH; lia.
Qed.

(* ---- chains ---- *)
Lemma chain_fuel_acc f bs a : forall b acc ch, chain_fuel f bs a b acc = Some ch ->
  exists pre, ch = pre ++ acc.
Proof.
  induction f as [|f IH]; intros b acc ch H; simpl in H.
  - destruct (a =? b); [|discriminate]. inversion H. exists []. reflexivity.
  - destruct (a =? b). { inversion H. exists []. reflexivity. }
    destruct (b =? 0); [discriminate|]. destruct (bget bs b); [|discriminate].
    destruct (IH _ _ _ H) as [pre ->]. exists (pre ++ [b]). rewrite <- app_assoc. reflexivity.
Qed.

Lemma chain_has_end bs a b ch : chain bs a b = Some ch -> a <> b -> In b ch.
Proof.
  unfold chain. simpl. intros H Hne. apply N.eqb_neq in Hne. rewrite Hne in H.
  destruct (b =? 0); [discriminate|]. destruct (bget bs b); [|discriminate].
  destruct (chain_fuel_acc _ _ _ _ _ _ H) as [pre ->]. apply in_or_app. right. left. reflexivity.
Qed.

(* ---- walking the crash points ---- *)
Definition triple := (N * N * N)%type.
Definition le_t (p q : triple) : bool :=
  match p, q with (r0, s0, g0), (r, s, g) => le_rs r0 s0 r s && (g0 <=? g) end.

Lemma le_rs_refl r s : le_rs r s r s = true.
Proof. unfold le_rs. rewrite N.eqb_refl, N.leb_refl. apply orb_true_r. Qed.
Lemma le_t_refl p : le_t p p = true.
Proof. destruct p as [[r s] g]. simpl. rewrite le_rs_refl, N.leb_refl. reflexivity. Qed.
Lemma le_rs_trans r1 s1 r2 s2 r3 s3 :
  le_rs r1 s1 r2 s2 = true -> le_rs r2 s2 r3 s3 = true -> le_rs r1 s1 r3 s3 = true.
Proof.
  unfold le_rs. intros A B.
  apply orb_true_iff in A. apply orb_true_iff in B. apply orb_true_iff.
  destruct A as [A|A], B as [B|B];
    repeat match goal with
           | H : (_ && _) = true |- _ => apply andb_true_iff in H; destruct H
           | H : (_ <? _) = true |- _ => apply N.ltb_lt in H
           | H : (_ =? _) = true |- _ => apply N.eqb_eq in H
           | H : (_ <=? _) = true |- _ => apply N.leb_le in H
           end.
  - left. apply N.ltb_lt. lia.
  - left. apply N.ltb_lt. lia.
  - left. apply N.ltb_lt. lia.
  - right. apply andb_true_iff. split; [apply N.eqb_eq|apply N.leb_le]; lia.
Qed.

(* all verdicts along ws are VOk and monotone, starting after verdict [cur] at database d:
   returns the last triple *)
Fixpoint walk (bs : blocks) (cur : triple) (d : db) (ws : list wunit) : option triple :=
  match ws with
  | [] => Some cur
  | u :: rest =>
    match recover bs (apply_unit d u) with
    | VOk b r s g => if le_t cur (r, s, g) then walk bs (r, s, g) (apply_unit d u) rest else None
    | VFail _ => None
    end
  end.

Lemma walk_app bs : forall ws1 cur d ws2,
  walk bs cur d (ws1 ++ ws2) =
  match walk bs cur d ws1 with Some t => walk bs t (replay d ws1) ws2 | None => None end.
Proof.
  induction ws1 as [|u ws1 IH]; intros cur d ws2; simpl; [reflexivity|].
  destruct (recover bs (apply_unit d u)) as [b r s g|]; [|reflexivity].
  destruct (le_t cur (r, s, g)); [|reflexivity]. apply IH.
Qed.

Lemma walk_crash_points bs : forall ws d b r s g prev,
  recover bs d = VOk b r s g ->
  match prev with Some p => le_t p (r, s, g) = true | None => True end ->
  walk bs (r, s, g) d ws <> None ->
  all_ok_monotone prev (crash_points bs d ws) = true.
Proof.
  induction ws as [|u ws IH]; intros d b r s g prev Hr Hp Hw.
  - simpl. rewrite Hr. destruct prev as [[[r0 s0] g0]|]; simpl in *; [rewrite Hp|]; reflexivity.
  - simpl in Hw. destruct (recover bs (apply_unit d u)) as [b' r' s' g'|] eqn:E; [|exfalso; apply Hw; reflexivity].
    destruct (le_t (r, s, g) (r', s', g')) eqn:El; [|exfalso; apply Hw; reflexivity].
    assert (Hrest : all_ok_monotone (Some (r, s, g)) (crash_points bs (apply_unit d u) ws) = true).
    { eapply IH; eauto. }
    cbn [crash_points all_ok_monotone]. rewrite Hr.
    destruct prev as [[[r0 s0] g0]|]; simpl in Hp |- *; [rewrite Hp; simpl|]; exact Hrest.
Qed.

(* a run of units none of which writes a key whose value the restart reads *)
Definition unit_irrelevant (r s : N) (u : wunit) : bool :=
  match u with
  | WPut k _ => negb (reads_value r s k)
  | WBatch l => forallb (fun kv => negb (reads_value r s (fst kv))) l
  end.

Lemma recover_unit_irrelevant bs d b r s g u :
  recover bs d = VOk b r s g -> unit_irrelevant r s u = true ->
  recover bs (apply_unit d u) = VOk b r s g.
Proof.
  intros H Hu. destruct u as [k v|l]; simpl in *.
  - apply recover_dput_irrelevant; [exact H|]. apply negb_true_iff. exact Hu.
  - revert d H. induction l as [|[k v] l IH]; intros d H; simpl; [exact H|].
    simpl in Hu. apply andb_true_iff in Hu. destruct Hu as [H1 H2].
    apply IH; [exact H2|]. apply recover_dput_irrelevant; [exact H|]. apply negb_true_iff. exact H1.
Qed.

Lemma walk_irrelevant bs : forall ws d b r s g,
  recover bs d = VOk b r s g -> forallb (unit_irrelevant r s) ws = true ->
  walk bs (r, s, g) d ws = Some (r, s, g) /\ recover bs (replay d ws) = VOk b r s g.
Proof.
  induction ws as [|u ws IH]; intros d b r s g H Hall; simpl; [auto|].
  simpl in Hall. apply andb_true_iff in Hall. destruct Hall as [H1 H2].
  rewrite (recover_unit_irrelevant _ _ _ _ _ _ _ H H1). rewrite le_t_refl.
  apply IH; [|exact H2]. apply recover_unit_irrelevant; assumption.
Qed.

Lemma grows_unit d u : grows d (apply_unit d u).
Proof.
  destruct u as [k v|l]; simpl; [apply grows_dput|].
  revert d. induction l as [|[k v] l IH]; intros d; simpl; [apply grows_refl|].
  eapply grows_trans; [apply grows_dput|apply IH].
Qed.
Lemma grows_replay ws : forall d, grows d (replay d ws).
Proof.
  induction ws as [|u ws IH]; intros d; simpl; [apply grows_refl|].
  eapply grows_trans; [apply grows_unit|apply IH].
Qed.

(* values of the keys the restart reads survive irrelevant units *)
Lemma value_unit_irrelevant d u r s k :
  unit_irrelevant r s u = true -> reads_value r s k = true -> apply_unit d u k = d k.
Proof.
  intros Hu Hk. destruct u as [k' v|l]; simpl in *.
  - apply dput_other. intros ->. rewrite Hk in Hu. discriminate.
  - revert d. induction l as [|[k' v] l IH]; intros d; simpl; [reflexivity|].
    simpl in Hu. apply andb_true_iff in Hu. destruct Hu as [H1 H2].
    rewrite (IH H2). apply dput_other. intros ->. rewrite Hk in H1. discriminate.
Qed.
Lemma value_replay_irrelevant r s k : forall ws d,
  forallb (unit_irrelevant r s) ws = true -> reads_value r s k = true -> replay d ws k = d k.
Proof.
  induction ws as [|u ws IH]; intros d Hall Hk; simpl; [reflexivity|].
  simpl in Hall. apply andb_true_iff in Hall. destruct Hall as [H1 H2].
  rewrite (IH _ H2 Hk). eapply value_unit_irrelevant; eauto.
Qed.

(* ---- the invariant between the node's volatile state and the durable database ---- *)
Record Inv (bsF : blocks) (st : sim) (d : db) (r s : N) : Prop := {
  i_wf : wf_blocks (s_blocks st);
  i_ext : extends (s_blocks st) bsF;
  i_nonempty : 0 < N.of_nat (length (s_blocks st));
  i_st : forall x, x < N.of_nat (length (s_blocks st)) -> has d (KSt x) = true;
  i_hrs : d KHrs = Some (VPair r s);
  i_le : le_rs r s (s_round st) (s_set st) = true;
  i_fh : d (KFh r s) = Some (VBlk (s_fin st));
  i_fin : s_fin st < N.of_nat (length (s_blocks st));
  i_hdr : has d (KHdr (s_fin st)) = true;
  i_blb : has d (KBlb (s_fin st)) = true;
  i_hsh : has d (KHsh 0) = true;
  i_set : d KSetID = Some (VNum (s_set st));
  i_auth : has d (KAuth (s_set st)) = true;
  i_change : has d (KChange (s_set st)) = true }.

Lemma Inv_recover bsF st d r s : Inv bsF st d r s -> recover bsF d = VOk (s_fin st) r s (s_set st).
Proof.
  intros I. unfold recover. rewrite (i_hrs _ _ _ _ _ I), (i_fh _ _ _ _ _ I), (i_hsh _ _ _ _ _ I),
    (i_hdr _ _ _ _ _ I), (i_blb _ _ _ _ _ I), (i_set _ _ _ _ _ I), (i_auth _ _ _ _ _ I), (i_change _ _ _ _ _ I).
  unfold state_ok.
  rewrite (state_ok_all _ _ _ (i_wf _ _ _ _ _ I) (i_ext _ _ _ _ _ I) (i_st _ _ _ _ _ I));
    [reflexivity|lia|apply (i_fin _ _ _ _ _ I)].
Qed.

Lemma Inv_init bsF : extends (s_blocks sim0) bsF -> Inv bsF sim0 db0 0 0.
Proof.
  intros E. constructor; simpl; try reflexivity; try exact E; try lia.
  - intros i x H Hi. unfold bget in H. simpl in H.
    destruct (N.to_nat i) as [|n] eqn:En; [lia|]. destruct n; discriminate.
  - intros x Hx. assert (x = 0) by lia. subst. reflexivity.
Qed.

(* the units of an authority-set change, on a database satisfying the invariant *)
Lemma change_units_safe bsF d b r s g :
  recover bsF d = VOk b r s g -> d KSetID = Some (VNum g) ->
  walk bsF (r, s, g) d (set_change_units g) = Some (r, s, g + 1) /\
  recover bsF (replay d (set_change_units g)) = VOk b r s (g + 1).
Proof.
  intros H Hg. unfold set_change_units.
  set (d1 := dput d (KAuth (g + 1)) VUnit). set (d2 := dput d1 (KChange (g + 1)) (VNum 0)).
  assert (H1 : recover bsF d1 = VOk b r s g) by (apply recover_dput_irrelevant; [exact H|reflexivity]).
  assert (H2 : recover bsF d2 = VOk b r s g) by (apply recover_dput_irrelevant; [exact H1|reflexivity]).
  assert (H3 : recover bsF (dput d2 KSetID (VNum (g + 1))) = VOk b r s (g + 1)).
  { clear H H1. unfold recover in *.
    assert (E1 : dput d2 KSetID (VNum (g + 1)) KHrs = d2 KHrs) by (apply dput_other; discriminate).
    rewrite E1. destruct (d2 KHrs) as [[| |r0 s0|]|]; try discriminate.
    assert (E2 : dput d2 KSetID (VNum (g + 1)) (KFh r0 s0) = d2 (KFh r0 s0)) by (apply dput_other; discriminate).
    rewrite E2. destruct (d2 (KFh r0 s0)) as [[|b0| |]|]; try discriminate.
    destruct (has d2 (KHsh 0) && has d2 (KHdr b0) && state_ok bsF d2 b0) eqn:E3; [|discriminate].
    destruct (has d2 (KBlb b0)) eqn:E4; [|discriminate].
    apply andb_true_iff in E3. destruct E3 as [E3 E3c]. apply andb_true_iff in E3. destruct E3 as [E3a E3b].
    rewrite (has_dput _ KSetID (VNum (g + 1)) _ E3a), (has_dput _ KSetID (VNum (g + 1)) _ E3b),
            (has_dput _ KSetID (VNum (g + 1)) _ E4).
    unfold state_ok in *. rewrite (state_ok_fuel_grows _ _ _ _ _ (grows_dput d2 KSetID (VNum (g + 1))) E3c).
    simpl. rewrite dput_same.
    assert (A : has (dput d2 KSetID (VNum (g + 1))) (KAuth (g + 1)) = true).
    { apply has_dput. unfold d2. apply has_dput. unfold d1. apply has_dput_same. }
    assert (C : has (dput d2 KSetID (VNum (g + 1))) (KChange (g + 1)) = true).
    { apply has_dput. unfold d2. apply has_dput_same. }
    rewrite A, C.
    destruct (d2 KSetID) as [[| | |g0]|]; try discriminate.
    destruct (has d2 (KAuth g0)); [|discriminate]. destruct (has d2 (KChange g0)); [|discriminate].
    inversion H2; subst. reflexivity. }
  split.
  - simpl. fold d1. rewrite H1, le_t_refl. fold d2. rewrite H2, le_t_refl. rewrite H3.
    assert (L : le_t (r, s, g) (r, s, g + 1) = true).
    { simpl. rewrite le_rs_refl. simpl. apply N.leb_le. lia. }
    rewrite L. reflexivity.
  - simpl. fold d1. fold d2. exact H3.
Qed.
