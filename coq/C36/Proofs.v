(* C36/Proofs.v — prefix safety of the modelled write order: at every crash point of every
   scenario the restart path succeeds, and what it finds never goes backwards. *)
From Coq Require Import List NArith Bool Arith Lia.
From C36 Require Import Model.
Import ListNotations.
Local Open Scope N_scope.

(* ---- keys ---- *)
Lemma key_eqb_spec a b : key_eqb a b = true <-> a = b.
Proof.
  destruct a, b; simpl; split; intros H; try discriminate; try reflexivity;
    try (apply N.eqb_eq in H; subst; reflexivity);
    try (inversion H; subst; apply N.eqb_refl);
    try (apply andb_true_iff in H; destruct H as [H1 H2]; apply N.eqb_eq in H1, H2; subst; reflexivity);
    try (inversion H; subst; rewrite !N.eqb_refl; reflexivity).
Qed.

Lemma key_eqb_refl a : key_eqb a a = true.
Proof. apply key_eqb_spec. reflexivity. Qed.

Lemma dput_same d k v : dput d k v k = Some v.
Proof. unfold dput. rewrite key_eqb_refl. reflexivity. Qed.

Lemma dput_other d k v x : x <> k -> dput d k v x = d x.
Proof.
  unfold dput. intros H. destruct (key_eqb x k) eqn:E; [|reflexivity].
  apply key_eqb_spec in E. contradiction.
Qed.

Lemma has_dput d k v x : has d x = true -> has (dput d k v) x = true.
Proof.
  unfold has, dput. destruct (key_eqb x k); [reflexivity|]. auto.
Qed.

Lemma has_dput_same d k v : has (dput d k v) k = true.
Proof. unfold has. rewrite dput_same. reflexivity. Qed.

(* ---- databases only grow ---- *)
Definition grows (d d' : db) : Prop := forall k, has d k = true -> has d' k = true.

Lemma grows_refl d : grows d d.
Proof. intros k H. exact H. Qed.
Lemma grows_trans d1 d2 d3 : grows d1 d2 -> grows d2 d3 -> grows d1 d3.
Proof. intros A B k H. apply B, A, H. Qed.
Lemma grows_dput d k v : grows d (dput d k v).
Proof. intros x H. apply has_dput. exact H. Qed.

Lemma state_ok_fuel_grows f bs : forall d d' b, grows d d' ->
  state_ok_fuel f bs d b = true -> state_ok_fuel f bs d' b = true.
Proof.
  induction f as [|f IH]; intros d d' b G H; simpl in *.
  - apply andb_true_iff in H. destruct H as [H1 H2]. rewrite (G _ H1). exact H2.
  - apply andb_true_iff in H. destruct H as [H1 H2]. rewrite (G _ H1). simpl.
    destruct (b =? 0); [reflexivity|]. destruct (bget bs b); [|discriminate]. eapply IH; eauto.
Qed.

(* the keys whose VALUE the restart path reads, given what it currently finds *)
Definition reads_value (r s : N) (k : key) : bool :=
  match k with KHrs | KSetID => true | KFh r' s' => (r' =? r) && (s' =? s) | _ => false end.

Lemma recover_dput_irrelevant bs d b r s g k v :
  recover bs d = VOk b r s g -> reads_value r s k = false -> recover bs (dput d k v) = VOk b r s g.
Proof.
  unfold recover. intros H Hk.
  destruct (d KHrs) as [[| |r0 s0| |]|] eqn:E1; try discriminate.
  destruct (d (KFh r0 s0)) as [[|b0| | |]|] eqn:E2; try discriminate.
  destruct (has d (KHsh 0) && has d (KHdr b0) && state_ok bs d b0) eqn:E3; [|discriminate].
  destruct (has d (KBlb b0)) eqn:E4; [|discriminate].
  destruct (d KSetID) as [[| | |g0|]|] eqn:E5; try discriminate.
  destruct (has d (KAuth g0)) eqn:E6; [|discriminate].
  destruct (has d (KChange g0)) eqn:E7; [|discriminate].
  inversion H; subst.
  assert (N1 : KHrs <> k) by (intros <-; discriminate).
  assert (N2 : KFh r s <> k) by (intros <-; simpl in Hk; rewrite !N.eqb_refl in Hk; discriminate).
  assert (N3 : KSetID <> k) by (intros <-; discriminate).
  rewrite (dput_other _ _ _ _ N1), E1, (dput_other _ _ _ _ N2), E2, (dput_other _ _ _ _ N3), E5.
  apply andb_true_iff in E3. destruct E3 as [E3 E3c]. apply andb_true_iff in E3. destruct E3 as [E3a E3b].
  rewrite (has_dput _ k v _ E3a), (has_dput _ k v _ E3b), (has_dput _ k v _ E4),
          (has_dput _ k v _ E6), (has_dput _ k v _ E7).
  unfold state_ok in *. rewrite (state_ok_fuel_grows _ _ _ _ _ (grows_dput d k v) E3c). reflexivity.
Qed.

(* ---- block tables ---- *)
(* parents precede their children *)
Definition wf_blocks (bs : blocks) : Prop :=
  forall i x, bget bs i = Some x -> i <> 0 -> b_parent x < i.

Definition extends (bs bsF : blocks) : Prop := exists tail, bsF = bs ++ tail.

Lemma extends_refl bs : extends bs bs.
Proof. exists []. rewrite app_nil_r. reflexivity. Qed.
Lemma extends_snoc bs x bsF : extends (bs ++ [x]) bsF -> extends bs bsF.
Proof. intros [t ->]. exists (x :: t). rewrite <- app_assoc. reflexivity. Qed.

Lemma bget_extends bs bsF i x : extends bs bsF -> bget bs i = Some x -> bget bsF i = Some x.
Proof.
  intros [t ->] H. unfold bget in *. rewrite nth_error_app1; [exact H|].
  apply nth_error_Some. rewrite H. discriminate.
Qed.

Lemma bget_lt bs i : i < N.of_nat (length bs) -> exists x, bget bs i = Some x.
Proof.
  intros H. unfold bget. destruct (nth_error bs (N.to_nat i)) eqn:E; [eauto|].
  apply nth_error_None in E. lia.
Qed.

(* every block of the table has its trie batch in the database: then every state loads *)
Lemma state_ok_all bs bsF d : wf_blocks bs -> extends bs bsF ->
  (forall x, x < N.of_nat (length bs) -> has d (KSt x) = true) ->
  forall f b, (N.to_nat b < f)%nat -> b < N.of_nat (length bs) -> state_ok_fuel f bsF d b = true.
Proof.
  intros Hwf Hext Hall f. induction f as [|f IH]; intros b Hf Hb; [lia|].
  simpl. rewrite (Hall b Hb). simpl. destruct (b =? 0) eqn:E0; [reflexivity|].
  apply N.eqb_neq in E0. destruct (bget_lt bs b Hb) as [x Hx].
  rewrite (bget_extends _ _ _ _ Hext Hx).
  pose proof (Hwf b x Hx E0) as Hp. apply IH; lia.
Qed.

(* ---- chains ---- *)
Lemma chain_fuel_acc f bs a : forall b acc ch, chain_fuel f bs a b acc = Some ch ->
  exists pre, ch = pre ++ acc.
Proof.
  induction f as [|f IH]; intros b acc ch H; simpl in H.
  - destruct (a =? b); [|discriminate]. inversion H. exists []. reflexivity.
  - destruct (a =? b). { inversion H. exists []. reflexivity. }
    destruct (b =? 0); [discriminate|]. destruct (bget bs b); [|discriminate].
    destruct (IH _ _ _ H) as [pre ->]. exists (pre ++ [b]). rewrite <- app_assoc. reflexivity.
Qed.

Lemma chain_has_end bs a b ch : chain bs a b = Some ch -> a <> b -> In b ch.
Proof.
  unfold chain. simpl. intros H Hne. apply N.eqb_neq in Hne. rewrite Hne in H.
  destruct (b =? 0); [discriminate|]. destruct (bget bs b); [|discriminate].
  destruct (chain_fuel_acc _ _ _ _ _ _ H) as [pre ->]. apply in_or_app. right. left. reflexivity.
Qed.

(* ---- walking the crash points ---- *)
Definition triple := (N * N * N)%type.
Definition le_t (p q : triple) : bool :=
  match p, q with (r0, s0, g0), (r, s, g) => le_rs r0 s0 r s && (g0 <=? g) end.

Lemma le_rs_refl r s : le_rs r s r s = true.
Proof. unfold le_rs. rewrite N.eqb_refl, N.leb_refl. apply orb_true_r. Qed.
Lemma le_t_refl p : le_t p p = true.
Proof. destruct p as [[r s] g]. simpl. rewrite le_rs_refl, N.leb_refl. reflexivity. Qed.
Lemma le_rs_trans r1 s1 r2 s2 r3 s3 :
  le_rs r1 s1 r2 s2 = true -> le_rs r2 s2 r3 s3 = true -> le_rs r1 s1 r3 s3 = true.
Proof.
  unfold le_rs. intros A B.
  apply orb_true_iff in A. apply orb_true_iff in B. apply orb_true_iff.
  destruct A as [A|A], B as [B|B];
    repeat match goal with
           | H : (_ && _) = true |- _ => apply andb_true_iff in H; destruct H
           | H : (_ <? _) = true |- _ => apply N.ltb_lt in H
           | H : (_ =? _) = true |- _ => apply N.eqb_eq in H
           | H : (_ <=? _) = true |- _ => apply N.leb_le in H
           end.
  - left. apply N.ltb_lt. lia.
  - left. apply N.ltb_lt. lia.
  - left. apply N.ltb_lt. lia.
  - right. apply andb_true_iff. split; [apply N.eqb_eq|apply N.leb_le]; lia.
Qed.

(* all verdicts along ws are VOk and monotone, starting after verdict [cur] at database d:
   returns the last triple *)
Fixpoint walk (bs : blocks) (cur : triple) (d : db) (ws : list wunit) : option triple :=
  match ws with
  | [] => Some cur
  | u :: rest =>
    match recover bs (apply_unit d u) with
    | VOk b r s g => if le_t cur (r, s, g) then walk bs (r, s, g) (apply_unit d u) rest else None
    | VFail _ => None
    end
  end.

Lemma walk_app bs : forall ws1 cur d ws2,
  walk bs cur d (ws1 ++ ws2) =
  match walk bs cur d ws1 with Some t => walk bs t (replay d ws1) ws2 | None => None end.
Proof.
  induction ws1 as [|u ws1 IH]; intros cur d ws2; simpl; [reflexivity|].
  destruct (recover bs (apply_unit d u)) as [b r s g|]; [|reflexivity].
  destruct (le_t cur (r, s, g)); [|reflexivity]. apply IH.
Qed.

Lemma walk_crash_points bs : forall ws d b r s g prev,
  recover bs d = VOk b r s g ->
  match prev with Some p => le_t p (r, s, g) = true | None => True end ->
  walk bs (r, s, g) d ws <> None ->
  all_ok_monotone prev (crash_points bs d ws) = true.
Proof.
  induction ws as [|u ws IH]; intros d b r s g prev Hr Hp Hw.
  - simpl. rewrite Hr. destruct prev as [[[r0 s0] g0]|]; simpl in *; [rewrite Hp|]; reflexivity.
  - cbn [walk] in Hw. destruct (recover bs (apply_unit d u)) as [b' r' s' g'|] eqn:E; [|exfalso; apply Hw; reflexivity].
    destruct (le_t (r, s, g) (r', s', g')) eqn:El; [|exfalso; apply Hw; reflexivity].
    assert (Hrest : all_ok_monotone (Some (r, s, g)) (crash_points bs (apply_unit d u) ws) = true).
    { eapply IH; eauto. }
    cbn [crash_points all_ok_monotone]. rewrite Hr.
    destruct prev as [[[r0 s0] g0]|]; simpl in Hp |- *; [rewrite Hp; simpl|]; exact Hrest.
Qed.

(* a run of units none of which writes a key whose value the restart reads *)
Definition unit_irrelevant (r s : N) (u : wunit) : bool :=
  match u with
  | WPut k _ => negb (reads_value r s k)
  | WBatch l => forallb (fun kv => negb (reads_value r s (fst kv))) l
  end.

Lemma recover_unit_irrelevant bs d b r s g u :
  recover bs d = VOk b r s g -> unit_irrelevant r s u = true ->
  recover bs (apply_unit d u) = VOk b r s g.
Proof.
  intros H Hu. destruct u as [k v|l]; simpl in *.
  - apply recover_dput_irrelevant; [exact H|]. apply negb_true_iff. exact Hu.
  - revert d H. induction l as [|[k v] l IH]; intros d H; simpl; [exact H|].
    simpl in Hu. apply andb_true_iff in Hu. destruct Hu as [H1 H2].
    apply IH; [exact H2|]. apply recover_dput_irrelevant; [exact H|]. apply negb_true_iff. exact H1.
Qed.

Lemma walk_irrelevant bs : forall ws d b r s g,
  recover bs d = VOk b r s g -> forallb (unit_irrelevant r s) ws = true ->
  walk bs (r, s, g) d ws = Some (r, s, g) /\ recover bs (replay d ws) = VOk b r s g.
Proof.
  induction ws as [|u ws IH]; intros d b r s g H Hall; [simpl; auto|].
  simpl in Hall. apply andb_true_iff in Hall. destruct Hall as [H1 H2].
  cbn [walk replay fold_left].
  rewrite (recover_unit_irrelevant _ _ _ _ _ _ _ H H1). rewrite le_t_refl.
  apply IH; [|exact H2]. apply recover_unit_irrelevant; assumption.
Qed.

Lemma grows_unit d u : grows d (apply_unit d u).
Proof.
  destruct u as [k v|l]; simpl; [apply grows_dput|].
  revert d. induction l as [|[k v] l IH]; intros d; simpl; [apply grows_refl|].
  eapply grows_trans; [apply grows_dput|apply IH].
Qed.
Lemma grows_replay ws : forall d, grows d (replay d ws).
Proof.
  induction ws as [|u ws IH]; intros d; simpl; [apply grows_refl|].
  eapply grows_trans; [apply grows_unit|apply IH].
Qed.

(* values of the keys the restart reads survive irrelevant units *)
Lemma value_unit_irrelevant d u r s k :
  unit_irrelevant r s u = true -> reads_value r s k = true -> apply_unit d u k = d k.
Proof.
  intros Hu Hk. destruct u as [k' v|l]; simpl in *.
  - apply dput_other. intros ->. rewrite Hk in Hu. discriminate.
  - revert d. induction l as [|[k' v] l IH]; intros d; simpl; [reflexivity|].
    simpl in Hu. apply andb_true_iff in Hu. destruct Hu as [H1 H2].
    rewrite (IH H2). apply dput_other. intros ->. rewrite Hk in H1. discriminate.
Qed.
Lemma value_replay_irrelevant r s k : forall ws d,
  forallb (unit_irrelevant r s) ws = true -> reads_value r s k = true -> replay d ws k = d k.
Proof.
  induction ws as [|u ws IH]; intros d Hall Hk; simpl; [reflexivity|].
  simpl in Hall. apply andb_true_iff in Hall. destruct Hall as [H1 H2].
  rewrite (IH _ H2 Hk). eapply value_unit_irrelevant; eauto.
Qed.

(* ---- the invariant between the node's volatile state and the durable database ---- *)
Record Inv (bsF : blocks) (st : sim) (d : db) (r s : N) : Prop := {
  i_wf : wf_blocks (s_blocks st);
  i_ext : extends (s_blocks st) bsF;
  i_nonempty : 0 < N.of_nat (length (s_blocks st));
  i_st : forall x, x < N.of_nat (length (s_blocks st)) -> has d (KSt x) = true;
  i_hrs : d KHrs = Some (VPair r s);
  i_le : le_rs r s (s_round st) (s_set st) = true;
  i_fh : d (KFh r s) = Some (VBlk (s_fin st));
  i_fin : s_fin st < N.of_nat (length (s_blocks st));
  i_hdr : has d (KHdr (s_fin st)) = true;
  i_blb : has d (KBlb (s_fin st)) = true;
  i_hsh : has d (KHsh 0) = true;
  i_set : d KSetID = Some (VNum (s_set st));
  i_auth : has d (KAuth (s_set st)) = true;
  i_change : has d (KChange (s_set st)) = true }.

Lemma Inv_recover bsF st d r s : Inv bsF st d r s -> recover bsF d = VOk (s_fin st) r s (s_set st).
Proof.
  intros I. unfold recover. rewrite (i_hrs _ _ _ _ _ I), (i_fh _ _ _ _ _ I), (i_hsh _ _ _ _ _ I),
    (i_hdr _ _ _ _ _ I), (i_blb _ _ _ _ _ I), (i_set _ _ _ _ _ I), (i_auth _ _ _ _ _ I), (i_change _ _ _ _ _ I).
  unfold state_ok.
  rewrite (state_ok_all _ _ _ (i_wf _ _ _ _ _ I) (i_ext _ _ _ _ _ I) (i_st _ _ _ _ _ I));
    [reflexivity|lia|apply (i_fin _ _ _ _ _ I)].
Qed.

Lemma Inv_init bsF : extends (s_blocks sim0) bsF -> Inv bsF sim0 db0 0 0.
Proof.
  intros E. constructor; simpl; try reflexivity; try exact E; try lia.
  - intros i x H Hi. unfold bget in H. simpl in H.
    destruct (N.to_nat i) as [|n] eqn:En; [lia|]. destruct n; discriminate.
  - intros x Hx. assert (x = 0) by lia. subst. reflexivity.
Qed.

(* the units of an authority-set change, on a database satisfying the invariant *)
Lemma change_units_safe bsF d b r s g :
  recover bsF d = VOk b r s g -> d KSetID = Some (VNum g) ->
  walk bsF (r, s, g) d (set_change_units g) = Some (r, s, g + 1) /\
  recover bsF (replay d (set_change_units g)) = VOk b r s (g + 1).
Proof.
  intros H Hg. unfold set_change_units.
  set (d1 := dput d (KAuth (g + 1)) VUnit). set (d2 := dput d1 (KChange (g + 1)) (VNum 0)).
  assert (H1 : recover bsF d1 = VOk b r s g) by (apply recover_dput_irrelevant; [exact H|reflexivity]).
  assert (H2 : recover bsF d2 = VOk b r s g) by (apply recover_dput_irrelevant; [exact H1|reflexivity]).
  assert (H3 : recover bsF (dput d2 KSetID (VNum (g + 1))) = VOk b r s (g + 1)).
  { clear H H1. unfold recover in *.
    assert (E1 : dput d2 KSetID (VNum (g + 1)) KHrs = d2 KHrs) by (apply dput_other; discriminate).
    rewrite E1. destruct (d2 KHrs) as [[| |r0 s0| |]|]; try discriminate.
    assert (E2 : dput d2 KSetID (VNum (g + 1)) (KFh r0 s0) = d2 (KFh r0 s0)) by (apply dput_other; discriminate).
    rewrite E2. destruct (d2 (KFh r0 s0)) as [[|b0| | |]|]; try discriminate.
    destruct (has d2 (KHsh 0) && has d2 (KHdr b0) && state_ok bsF d2 b0) eqn:E3; [|discriminate].
    destruct (has d2 (KBlb b0)) eqn:E4; [|discriminate].
    apply andb_true_iff in E3. destruct E3 as [E3 E3c]. apply andb_true_iff in E3. destruct E3 as [E3a E3b].
    rewrite (has_dput _ KSetID (VNum (g + 1)) _ E3a), (has_dput _ KSetID (VNum (g + 1)) _ E3b),
            (has_dput _ KSetID (VNum (g + 1)) _ E4).
    unfold state_ok in *. rewrite (state_ok_fuel_grows _ _ _ _ _ (grows_dput d2 KSetID (VNum (g + 1))) E3c).
    cbn [andb]. rewrite dput_same.
    assert (A : has (dput d2 KSetID (VNum (g + 1))) (KAuth (g + 1)) = true).
    { apply has_dput. unfold d2. apply has_dput. unfold d1. apply has_dput_same. }
    assert (C : has (dput d2 KSetID (VNum (g + 1))) (KChange (g + 1)) = true).
    { apply has_dput. unfold d2. apply has_dput_same. }
    rewrite A, C.
    destruct (d2 KSetID) as [[| | |g0|]|]; try discriminate.
    destruct (has d2 (KAuth g0)); [|discriminate]. destruct (has d2 (KChange g0)); [|discriminate].
    inversion H2; subst. reflexivity. }
  split.
  - cbn [walk apply_unit]. fold d1. rewrite H1, le_t_refl. fold d2. rewrite H2, le_t_refl. rewrite H3.
    assert (L : le_t (r, s, g) (r, s, g + 1) = true).
    { simpl. rewrite le_rs_refl. simpl. apply N.leb_le. lia. }
    rewrite L. reflexivity.
  - simpl. fold d1. fold d2. exact H3.
Qed.

(* ---- transporting the invariant ---- *)
Lemma Inv_irrelevant bsF st d r s ws :
  Inv bsF st d r s -> forallb (unit_irrelevant r s) ws = true -> Inv bsF st (replay d ws) r s.
Proof.
  intros I H. pose proof (grows_replay ws d) as G.
  assert (V : forall k, reads_value r s k = true -> replay d ws k = d k)
    by (intros k Hk; apply (value_replay_irrelevant r s); assumption).
  destruct I. constructor; auto.
  - rewrite V; [assumption|reflexivity].
  - rewrite V; [assumption|]. simpl. rewrite !N.eqb_refl. reflexivity.
  - rewrite V; [assumption|reflexivity].
Qed.

(* Inv only looks at these fields of the volatile state *)
Lemma Inv_fields bsF st st' d r s :
  Inv bsF st d r s -> s_blocks st' = s_blocks st -> s_fin st' = s_fin st ->
  s_set st' = s_set st -> le_rs r s (s_round st') (s_set st') = true -> Inv bsF st' d r s.
Proof.
  intros I Eb Ef Es Hle. destruct I. constructor; rewrite ?Eb, ?Ef, ?Es; auto.
  rewrite <- Es. exact Hle.
Qed.

Lemma le_rs_next_set r s rd g rd' : le_rs r s rd g = true -> le_rs r s rd' (g + 1) = true.
Proof.
  unfold le_rs. intros H. apply orb_true_iff in H. apply orb_true_iff. left. apply N.ltb_lt.
  destruct H as [H|H]; [apply N.ltb_lt in H; lia|].
  apply andb_true_iff in H. destruct H as [H _]. apply N.eqb_eq in H. lia.
Qed.

(* the three writes of a set change *)
Lemma Inv_change bsF st d r s rd' sch frc :
  Inv bsF st d r s ->
  walk bsF (r, s, s_set st) d (set_change_units (s_set st)) = Some (r, s, s_set st + 1) /\
  Inv bsF (mks (s_blocks st) (s_fin st) rd' (s_set st + 1) sch frc)
      (replay d (set_change_units (s_set st))) r s.
Proof.
  intros I. pose proof (Inv_recover _ _ _ _ _ I) as Hr.
  destruct (change_units_safe bsF d _ _ _ _ Hr (i_set _ _ _ _ _ I)) as [W _]. split; [exact W|].
  set (g := s_set st). unfold set_change_units. simpl. fold g.
  set (d1 := dput d (KAuth (g + 1)) VUnit). set (d2 := dput d1 (KChange (g + 1)) (VNum 0)).
  set (d3 := dput d2 KSetID (VNum (g + 1))).
  assert (G : grows d d3).
  { eapply grows_trans; [apply grows_dput|]. eapply grows_trans; apply grows_dput. }
  assert (V : forall k, k <> KAuth (g + 1) -> k <> KChange (g + 1) -> k <> KSetID -> d3 k = d k).
  { intros k A B C. unfold d3, d2, d1. rewrite !dput_other; auto. }
  destruct I. constructor; cbn [s_blocks s_fin s_round s_set]; auto.
  - eapply le_rs_next_set; eassumption.
  - unfold d3. apply has_dput. unfold d2. apply has_dput. unfold d1. apply has_dput_same.
  - unfold d3. apply has_dput. unfold d2. apply has_dput_same.
Qed.

(* ---- import ---- *)
Lemma wf_snoc bs p n : wf_blocks bs -> p < N.of_nat (length bs) -> wf_blocks (bs ++ [mkb p n]).
Proof.
  intros Hwf Hp i x H Hi. unfold bget in H.
  destruct (Nat.lt_ge_cases (N.to_nat i) (length bs)) as [L|L].
  - rewrite nth_error_app1 in H by exact L. eapply Hwf; eauto.
  - rewrite nth_error_app2 in H by exact L.
    destruct (N.to_nat i - length bs)%nat as [|k] eqn:E; simpl in H.
    + inversion H; subst. simpl. lia.
    + destruct k; discriminate.
Qed.

Lemma Inv_import bsF st d r s p n rd sch frc :
  Inv bsF st d r s -> p < N.of_nat (length (s_blocks st)) ->
  extends (s_blocks st ++ [mkb p n]) bsF ->
  has d (KSt (N.of_nat (length (s_blocks st)))) = true ->
  le_rs r s rd (s_set st) = true ->
  Inv bsF (mks (s_blocks st ++ [mkb p n]) (s_fin st) rd (s_set st) sch frc) d r s.
Proof.
  intros I Hp Hext Hst Hle. destruct I. constructor; simpl; auto.
  - apply wf_snoc; assumption.
  - rewrite app_length. simpl. lia.
  - intros x Hx. rewrite app_length in Hx. simpl in Hx.
    destruct (N.eq_dec x (N.of_nat (length (s_blocks st)))) as [->|Hne]; [exact Hst|].
    apply i_st0. lia.
  - rewrite app_length. simpl. lia.
Qed.

(* ---- epoch-table writes ---- *)
Lemma epoch_key_not_read r s k : epoch_key k = true -> reads_value r s k = false.
Proof. destruct k; simpl; intros H; try discriminate; reflexivity. Qed.

Lemma eunits_irrelevant r s ep :
  forallb eunit_ok ep = true -> forallb (unit_irrelevant r s) (map eunit_w ep) = true.
Proof.
  induction ep as [|u ep IH]; simpl; intros H; [reflexivity|].
  apply andb_true_iff in H. destruct H as [H1 H2]. rewrite (IH H2), andb_true_r.
  destruct u as [k|l]; simpl in *.
  - rewrite (epoch_key_not_read r s k H1). reflexivity.
  - induction l as [|k l IHl]; simpl in *; [reflexivity|].
    apply andb_true_iff in H1. destruct H1 as [Hk Hl].
    rewrite (epoch_key_not_read r s k Hk), (IHl Hl). reflexivity.
Qed.

Lemma babe_units_irrelevant r s bd x : forallb (unit_irrelevant r s) (babe_units bd x) = true.
Proof. destruct bd; reflexivity. Qed.

(* ---- finalisation ---- *)
Lemma fin_block_units_irrelevant bs r s x : forallb (unit_irrelevant r s) (fin_block_units bs x) = true.
Proof. unfold fin_block_units. destruct (numof bs x =? 1); reflexivity. Qed.

Lemma concat_irrelevant bs r s ch :
  forallb (unit_irrelevant r s) (concat (map (fin_block_units bs) ch)) = true.
Proof.
  induction ch as [|x ch IH]; [reflexivity|]. cbn [map concat].
  rewrite forallb_app, fin_block_units_irrelevant, IH. reflexivity.
Qed.

Lemma hsh_batch_irrelevant bs r s ch :
  forallb (unit_irrelevant r s) (hsh_batch bs ch) = true.
Proof.
  unfold hsh_batch. destruct ch as [|x ch]; [reflexivity|]. cbn [forallb]. rewrite andb_true_r.
  generalize (x :: ch). intros l. simpl. induction l; simpl; auto.
Qed.

Lemma concat_writes_hdr_blb bs ch b d :
  In b ch -> has (replay d (concat (map (fin_block_units bs) ch))) (KHdr b) = true /\
             has (replay d (concat (map (fin_block_units bs) ch))) (KBlb b) = true.
Proof.
  revert d. induction ch as [|x ch IH]; intros d Hin; [destruct Hin|].
  cbn [map concat]. unfold replay. rewrite fold_left_app. fold (replay d (fin_block_units bs x)).
  fold (replay (replay d (fin_block_units bs x)) (concat (map (fin_block_units bs) ch))).
  destruct Hin as [->|Hin]; [|apply IH; exact Hin].
  pose proof (grows_replay (concat (map (fin_block_units bs) ch)) (replay d (fin_block_units bs b))) as G.
  split; apply G; unfold fin_block_units; destruct (numof bs b =? 1); simpl.
  - apply has_dput, has_dput, has_dput. apply has_dput_same.
  - apply has_dput, has_dput. apply has_dput_same.
  - apply has_dput. apply has_dput_same.
  - apply has_dput. apply has_dput_same.
Qed.

Lemma replay_app d ws1 ws2 : replay d (ws1 ++ ws2) = replay (replay d ws1) ws2.
Proof. unfold replay. apply fold_left_app. Qed.

Lemma Inv_finalise bsF st d r s b r' rd sch frc :
  Inv bsF st d r s -> b < N.of_nat (length (s_blocks st)) ->
  d (KFh r' (s_set st)) = Some (VBlk b) -> has d (KHdr b) = true -> has d (KBlb b) = true ->
  le_rs r' (s_set st) rd (s_set st) = true ->
  Inv bsF (mks (s_blocks st) b rd (s_set st) sch frc) (dput d KHrs (VPair r' (s_set st))) r' (s_set st).
Proof.
  intros I Hb Hfh Hh Hbl Hle. destruct I. constructor; simpl; auto.
Qed.

(* ---- one operation ---- *)
Definition cur_of (st : sim) (r s : N) : triple := (r, s, s_set st).

Lemma walk_irrelevant' bsF st d r s ws :
  Inv bsF st d r s -> forallb (unit_irrelevant r s) ws = true ->
  walk bsF (cur_of st r s) d ws = Some (cur_of st r s).
Proof.
  intros I H. eapply walk_irrelevant; [apply Inv_recover; exact I|exact H].
Qed.

Lemma step_safe bsF st d r s o :
  Inv bsF st d r s ->
  extends (s_blocks (snd (step set_change_units st o))) bsF ->
  exists r' s', walk bsF (cur_of st r s) d (fst (step set_change_units st o))
                = Some (cur_of (snd (step set_change_units st o)) r' s') /\
                Inv bsF (snd (step set_change_units st o)) (replay d (fst (step set_change_units st o))) r' s'.
Proof.
  intros I Hext. unfold step in *. destruct (valid st o) eqn:Hv; simpl negb in *; cbn iota in *.
  2:{ exists r, s. simpl. split; [reflexivity|exact I]. }
  destruct o as [p ap bd|b r' ap ep].
  - (* import *)
    simpl in Hv. apply andb_true_iff in Hv. destruct Hv as [Hp _]. apply N.ltb_lt in Hp.
    set (bs := s_blocks st) in *. set (x := N.of_nat (length bs)) in *.
    set (bs' := bs ++ [mkb p (numof bs p + 1)]) in *.
    set (U := [WBatch [(KSt x, VUnit)]] ++ babe_units bd x).
    assert (Hirr : forallb (unit_irrelevant r s) U = true).
    { unfold U. rewrite forallb_app, babe_units_irrelevant. reflexivity. }
    pose proof (Inv_irrelevant _ _ _ _ _ _ I Hirr) as I1.
    pose proof (walk_irrelevant' _ _ _ _ _ _ I Hirr) as W1.
    assert (Hst : has (replay d U) (KSt x) = true).
    { unfold U. rewrite replay_app. apply grows_replay. simpl. apply has_dput_same. }
    destruct ap; cbn [fst snd s_blocks] in Hext |- *.
    + assert (I2 : Inv bsF (mks bs' (s_fin st) (s_round st) (s_set st) None None) (replay d U) r s).
      { apply Inv_import; auto. apply (i_le _ _ _ _ _ I). }
      destruct (Inv_change bsF _ _ r s 0 None None I2) as [W2 I3]. simpl in W2, I3.
      assert (E : [WBatch [(KSt x, VUnit)]] ++ babe_units bd x ++ set_change_units (s_set st)
                  = U ++ set_change_units (s_set st)) by (unfold U; rewrite app_assoc; reflexivity).
      exists r, s. split.
      * rewrite E, walk_app, W1. unfold cur_of in *. simpl. exact W2.
      * rewrite E, replay_app. exact I3.
    + exists r, s. split; [exact W1|].
      apply Inv_import; auto. apply (i_le _ _ _ _ _ I).
  - (* finalise *)
    simpl in Hv. repeat (apply andb_true_iff in Hv; destruct Hv as [Hv ?]).
    apply N.ltb_lt in Hv.
    match goal with H : (s_round st <? r') = true |- _ => apply N.ltb_lt in H; rename H into Hrd end.
    match goal with H : forallb eunit_ok ep = true |- _ => rename H into Hep end.
    set (bs := s_blocks st) in *. set (g := s_set st) in *. set (E := map eunit_w ep).
    destruct (chain bs (s_fin st) b) as [ch|] eqn:Hc.
    2:{ exists r, s. simpl. split; [reflexivity|exact I]. }
    set (A1 := vote_units b r' g ++ concat (map (fin_block_units bs) ch) ++ hsh_batch bs ch).
    set (uFh := WPut (KFh r' g) (VBlk b)). set (uHrs := WPut KHrs (VPair r' g)). set (uLfr := WPut KLfr (VNum r')).
    assert (Hws : vote_units b r' g ++ concat (map (fin_block_units bs) ch) ++ hsh_batch bs ch ++ [uFh; uHrs; uLfr] ++ E
                  = (A1 ++ [uFh]) ++ [uHrs] ++ ([uLfr] ++ E)).
    { unfold A1. rewrite <- !app_assoc. reflexivity. }
    (* the pair (r', g) is new *)
    pose proof (i_le _ _ _ _ _ I) as Hle. fold g in Hle.
    assert (Hnew : (r' =? r) && (g =? s) = false).
    { unfold le_rs in Hle. apply orb_true_iff in Hle. destruct Hle as [L|L].
      - apply N.ltb_lt in L. apply andb_false_iff. right. apply N.eqb_neq. lia.
      - apply andb_true_iff in L. destruct L as [L1 L2]. apply N.eqb_eq in L1. apply N.leb_le in L2.
        apply andb_false_iff. left. apply N.eqb_neq. lia. }
    assert (HleNew : le_rs r s r' g = true).
    { unfold le_rs in *. apply orb_true_iff in Hle. apply orb_true_iff. destruct Hle as [L|L]; [left; exact L|].
      apply andb_true_iff in L. destruct L as [L1 L2]. right. rewrite L1. apply N.leb_le in L2. simpl. apply N.leb_le. lia. }
    assert (HirrA : forallb (unit_irrelevant r s) (A1 ++ [uFh]) = true).
    { unfold A1. rewrite !forallb_app, concat_irrelevant, hsh_batch_irrelevant.
      replace (forallb (unit_irrelevant r s) (vote_units b r' g)) with true by reflexivity. cbn [forallb andb].
      unfold uFh. cbn [unit_irrelevant reads_value]. rewrite Hnew. reflexivity. }
    pose proof (Inv_irrelevant _ _ _ _ _ _ I HirrA) as IA.
    pose proof (walk_irrelevant' _ _ _ _ _ _ I HirrA) as WA.
    set (dA := replay d (A1 ++ [uFh])) in *.
    assert (HfhA : dA (KFh r' g) = Some (VBlk b)).
    { unfold dA. rewrite replay_app. simpl. apply dput_same. }
    assert (HhA : has dA (KHdr b) = true /\ has dA (KBlb b) = true).
    { destruct (N.eq_dec (s_fin st) b) as [Heq|Hne].
      - (* a later round finalises the finalised head again: header and body are there already *)
        subst b. split; apply (grows_replay (A1 ++ [uFh]) d);
          [apply (i_hdr _ _ _ _ _ I)|apply (i_blb _ _ _ _ _ I)].
      - pose proof (chain_has_end _ _ _ _ Hc Hne) as Hin.
        unfold dA, A1. rewrite !replay_app.
        destruct (concat_writes_hdr_blb bs ch b (replay d (vote_units b r' g)) Hin) as [Hw1 Hw2].
        split; apply grows_replay; apply grows_replay; assumption. }
    destruct HhA as [HhdrA HblbA].
    (* the write of hrs moves the head *)
    assert (IB : Inv bsF (mks bs b r' g (s_sched st) (s_forced st)) (dput dA KHrs (VPair r' g)) r' g).
    { apply (Inv_finalise bsF st dA r s b r' r' (s_sched st) (s_forced st) IA Hv HfhA HhdrA HblbA).
      apply le_rs_refl. }
    pose proof (Inv_recover _ _ _ _ _ IB) as RB. simpl in RB.
    assert (HirrL : forallb (unit_irrelevant r' g) ([uLfr] ++ E) = true).
    { rewrite forallb_app. unfold E. rewrite (eunits_irrelevant r' g ep Hep). reflexivity. }
    pose proof (Inv_irrelevant _ _ _ _ _ _ IB HirrL) as IC.
    pose proof (walk_irrelevant' _ _ _ _ _ _ IB HirrL) as WC. unfold cur_of in WC. simpl in WC.
    assert (Wmain : walk bsF (cur_of st r s) d ((A1 ++ [uFh]) ++ [uHrs] ++ ([uLfr] ++ E)) = Some (r', g, g)).
    { rewrite walk_app, WA. fold dA. rewrite walk_app. cbn [walk apply_unit uHrs].
      rewrite RB. unfold cur_of. fold g.
      assert (L : le_t (r, s, g) (r', g, g) = true) by (simpl; rewrite HleNew, N.leb_refl; reflexivity).
      rewrite L. cbn [replay fold_left apply_unit]. exact WC. }
    assert (Rmain : replay d ((A1 ++ [uFh]) ++ [uHrs] ++ ([uLfr] ++ E)) = replay (dput dA KHrs (VPair r' g)) ([uLfr] ++ E)).
    { rewrite replay_app. fold dA. rewrite replay_app. reflexivity. }
    destruct ap; cbn [fst snd s_blocks] in Hext |- *.
    + destruct (Inv_change bsF _ _ r' g 0 None (s_forced st) IC) as [W2 I3]. simpl in W2, I3.
      assert (Hws2 : (vote_units b r' g ++ concat (map (fin_block_units bs) ch) ++ hsh_batch bs ch ++ [uFh; uHrs; uLfr] ++ E)
                     ++ set_change_units g = ((A1 ++ [uFh]) ++ [uHrs] ++ ([uLfr] ++ E)) ++ set_change_units g)
        by (rewrite Hws; reflexivity).
      exists r', g. split.
      * rewrite Hws2, walk_app, Wmain, Rmain. exact W2.
      * rewrite Hws2, replay_app, Rmain. exact I3.
    + exists r', g. split.
      * rewrite Hws. exact Wmain.
      * rewrite Hws, Rmain. exact IC.
Qed.

(* ---- whole scenarios ---- *)
Lemma extends_trans a b c : extends a b -> extends b c -> extends a c.
Proof. intros [t1 ->] [t2 ->]. exists (t1 ++ t2). rewrite app_assoc. reflexivity. Qed.

Lemma step_blocks_extends cu st o : extends (s_blocks st) (s_blocks (snd (step cu st o))).
Proof.
  unfold step. destruct (negb (valid st o)); [apply extends_refl|].
  destruct o as [p ap bd|b r ap ep].
  - destruct ap; simpl; eexists; reflexivity.
  - destruct (chain (s_blocks st) (s_fin st) b); [|apply extends_refl].
    destruct ap; simpl; apply extends_refl.
Qed.

Lemma run_blocks_extends cu ops : forall st, extends (s_blocks st) (s_blocks (snd (run cu st ops))).
Proof.
  induction ops as [|o ops IH]; intros st; simpl; [apply extends_refl|].
  pose proof (step_blocks_extends cu st o) as E1.
  destruct (step cu st o) as [w st1]. specialize (IH st1).
  destruct (run cu st1 ops) as [w' st2]. simpl in *. eapply extends_trans; eauto.
Qed.

Lemma run_safe bsF : forall ops st d r s,
  Inv bsF st d r s -> extends (s_blocks (snd (run set_change_units st ops))) bsF ->
  exists r' s', walk bsF (cur_of st r s) d (fst (run set_change_units st ops))
                = Some (cur_of (snd (run set_change_units st ops)) r' s') /\
                Inv bsF (snd (run set_change_units st ops)) (replay d (fst (run set_change_units st ops))) r' s'.
Proof.
  induction ops as [|o ops IH]; intros st d r s I Hext.
  - simpl. exists r, s. split; [reflexivity|exact I].
  - simpl in *. pose proof (step_safe bsF st d r s o I) as HS.
    pose proof (run_blocks_extends set_change_units ops (snd (step set_change_units st o))) as E2.
    destruct (step set_change_units st o) as [w st1] eqn:Es. simpl in HS, E2.
    destruct (run set_change_units st1 ops) as [w' st2] eqn:Er. simpl in Hext, E2 |- *.
    destruct (HS (extends_trans _ _ _ E2 Hext)) as [r1 [s1 [W1 I1]]].
    specialize (IH st1 (replay d w) r1 s1 I1). rewrite Er in IH. simpl in IH.
    destruct (IH Hext) as [r2 [s2 [W2 I2]]].
    exists r2, s2. split.
    + rewrite walk_app, W1. exact W2.
    + rewrite replay_app. exact I2.
Qed.

Theorem prefix_safe_bool ops :
  all_ok_monotone None
    (crash_points (s_blocks (snd (run_fixed sim0 ops))) db0 (fst (run_fixed sim0 ops))) = true.
Proof.
  unfold run_fixed. set (bsF := s_blocks (snd (run set_change_units sim0 ops))).
  assert (E : extends (s_blocks sim0) bsF) by apply run_blocks_extends.
  pose proof (Inv_init bsF E) as I0.
  destruct (run_safe bsF ops sim0 db0 0 0 I0 (extends_refl _)) as [r [s [W _]]].
  eapply walk_crash_points with (b := 0) (r := 0) (s := 0) (g := 0).
  - apply (Inv_recover _ _ _ _ _ I0).
  - exact I.
  - unfold cur_of in W. simpl in W. rewrite W. discriminate.
Qed.

(* ---- from the boolean statement to the statement about every pair of crash points ---- *)
Lemma crash_points_nth bs : forall ws d n, (n <= length ws)%nat ->
  nth_error (crash_points bs d ws) n = Some (recover bs (replay d (firstn n ws))).
Proof.
  induction ws as [|u ws IH]; intros d n Hn.
  - simpl in Hn. assert (n = 0)%nat by lia. subst. reflexivity.
  - destruct n as [|n]; [reflexivity|]. simpl. apply IH. simpl in Hn. lia.
Qed.

Lemma le_t_trans p q t : le_t p q = true -> le_t q t = true -> le_t p t = true.
Proof.
  destruct p as [[r1 s1] g1], q as [[r2 s2] g2], t as [[r3 s3] g3]. simpl. intros A B.
  apply andb_true_iff in A. apply andb_true_iff in B. destruct A as [A1 A2], B as [B1 B2].
  apply andb_true_iff. split; [eapply le_rs_trans; eauto|].
  apply N.leb_le in A2, B2. apply N.leb_le. lia.
Qed.

Lemma aom_all_ok : forall l prev v, all_ok_monotone prev l = true -> In v l ->
  exists b r s g, v = VOk b r s g.
Proof.
  induction l as [|x l IH]; intros prev v H Hin; [destruct Hin|].
  simpl in H. destruct x as [b r s g|]; [|discriminate].
  apply andb_true_iff in H. destruct H as [_ H].
  destruct Hin as [<-|Hin]; [eauto|eapply IH; eauto].
Qed.

Lemma aom_from : forall l p0 v, all_ok_monotone (Some p0) l = true -> In v l ->
  match v with VOk _ r s g => le_t p0 (r, s, g) = true | VFail _ => False end.
Proof.
  induction l as [|x l IH]; intros p0 v H Hin; [destruct Hin|].
  simpl in H. destruct x as [b r s g|]; [|discriminate].
  apply andb_true_iff in H. destruct H as [H0 H].
  assert (L0 : le_t p0 (r, s, g) = true) by (destruct p0 as [[r0 s0] g0]; exact H0).
  destruct Hin as [<-|Hin]; [exact L0|].
  specialize (IH _ _ H Hin). destruct v as [b' r' s' g'|]; [|exact IH].
  eapply le_t_trans; eauto.
Qed.

Lemma aom_pairs : forall l prev i j vi vj, all_ok_monotone prev l = true -> (i <= j)%nat ->
  nth_error l i = Some vi -> nth_error l j = Some vj ->
  exists bi ri si gi bj rj sj gj, vi = VOk bi ri si gi /\ vj = VOk bj rj sj gj /\
    le_t (ri, si, gi) (rj, sj, gj) = true.
Proof.
  induction l as [|x l IH]; intros prev i j vi vj H Hij Hi Hj; [destruct i; discriminate|].
  destruct i as [|i].
  - simpl in Hi. inversion Hi; subst x. simpl in H. destruct vi as [b r s g|]; [|discriminate].
    apply andb_true_iff in H. destruct H as [_ H].
    destruct j as [|j].
    + simpl in Hj. inversion Hj; subst. exists b, r, s, g, b, r, s, g. repeat split. apply le_t_refl.
    + simpl in Hj. apply nth_error_In in Hj. pose proof (aom_from _ _ _ H Hj) as L.
      destruct vj as [b' r' s' g'|]; [|destruct L]. exists b, r, s, g, b', r', s', g'. auto.
  - destruct j as [|j]; [lia|]. simpl in Hi, Hj. simpl in H. destruct x as [b r s g|]; [|discriminate].
    apply andb_true_iff in H. destruct H as [_ H]. apply (IH _ i j vi vj H); [lia|assumption|assumption].
Qed.

Theorem prefix_safe ops : forall m n,
  (m <= n)%nat -> (n <= length (fst (run_fixed sim0 ops)))%nat ->
  let bsF := s_blocks (snd (run_fixed sim0 ops)) in
  let ws := fst (run_fixed sim0 ops) in
  exists b r s g b0 r0 s0 g0,
    recover bsF (replay db0 (firstn n ws)) = VOk b r s g /\
    recover bsF (replay db0 (firstn m ws)) = VOk b0 r0 s0 g0 /\
    le_rs r0 s0 r s = true /\ g0 <= g.
Proof.
  intros m n Hmn Hn bsF ws.
  pose proof (prefix_safe_bool ops) as H. fold bsF ws in H.
  assert (Hm : (m <= length ws)%nat) by (unfold ws; lia).
  destruct (aom_pairs _ _ _ _ _ _ H Hmn (crash_points_nth bsF ws db0 m Hm) (crash_points_nth bsF ws db0 n Hn))
    as [b0 [r0 [s0 [g0 [b [r [s [g [E0 [E1 L]]]]]]]]]].
  exists b, r, s, g, b0, r0, s0, g0. simpl in L. apply andb_true_iff in L. destruct L as [L1 L2].
  apply N.leb_le in L2. auto.
Qed.

(* what a successful restart verdict means *)
Lemma recover_ok_meaning bs d b r s g : recover bs d = VOk b r s g ->
  d KHrs = Some (VPair r s) /\ d (KFh r s) = Some (VBlk b) /\
  has d (KHdr b) = true /\ has d (KBlb b) = true /\ state_ok bs d b = true /\
  d KSetID = Some (VNum g) /\ has d (KAuth g) = true /\ has d (KChange g) = true.
Proof.
  unfold recover. intros H.
  destruct (d KHrs) as [[| |r0 s0| |]|] eqn:E1; try discriminate.
  destruct (d (KFh r0 s0)) as [[|b0| | |]|] eqn:E2; try discriminate.
  destruct (has d (KHsh 0) && has d (KHdr b0) && state_ok bs d b0) eqn:E3; [|discriminate].
  destruct (has d (KBlb b0)) eqn:E4; [|discriminate].
  destruct (d KSetID) as [[| | |g0|]|] eqn:E5; try discriminate.
  destruct (has d (KAuth g0)) eqn:E6; [|discriminate].
  destruct (has d (KChange g0)) eqn:E7; [|discriminate].
  inversion H; subst.
  apply andb_true_iff in E3. destruct E3 as [E3 E3c]. apply andb_true_iff in E3. destruct E3 as [E3a E3b].
  repeat split; assumption.
Qed.
