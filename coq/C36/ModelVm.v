(* C36/ModelVm.v — the term the vm_compute cross-check evaluates inside Coq (definitions only):
   the verdicts of the model at every crash point of a scenario, compared with the verdicts the
   real restarts gave. *)
From Coq Require Import List NArith Bool.
From C36 Require Import Model.
Import ListNotations.
Local Open Scope N_scope.

Definition verdict_eqb (a b : verdict) : bool :=
  match a, b with
  | VOk b1 r1 s1 g1, VOk b2 r2 s2 g2 => (b1 =? b2) && (r1 =? r2) && (s1 =? s2) && (g1 =? g2)
  | VFail x, VFail y => x =? y
  | _, _ => false
  end.
Fixpoint verdicts_eqb (a b : list verdict) : bool :=
  match a, b with
  | [], [] => true
  | x :: a', y :: b' => verdict_eqb x y && verdicts_eqb a' b'
  | _, _ => false
  end.
(* the scenario is valid, the model's verdicts are the observed ones, there is one verdict per
   write unit plus one, and the observed verdicts satisfy the property predicate *)
Definition vm_case (ops : list sop) (obs : list verdict) : bool :=
  scenario_valid ops && verdicts_eqb (snd (scenario_points ops)) obs &&
  (N.of_nat (length obs) =? N.of_nat (length (fst (scenario_points ops))) + 1) &&
  all_ok_monotone None obs.
