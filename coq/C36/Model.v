(* C36/Model.v — crash consistency of the dot/state writes (definitions only).

   The database is a LOG of atomic write units, in program order: single puts, and whole
   batches (Pebble commits a batch atomically; the property assumes exactly this).  Scenario
   operations (import a block, finalise a block) emit the write sequences that the Go services
   issue, in the order they issue them (mirrored from dot/state: StoreTrie/WriteDirty,
   handleFinalisedBlock + SetFinalisedHash, SetLatestRound, ApplyScheduledChanges,
   ApplyForcedChanges).  [recover] models Service.Start plus the reads the property speaks of.

   What is MODELLED here and proved: the order of the writes per operation, the key classes,
   which operation triggers an authority-set change, and the reload path as a function of key
   presence.  What is MEASURED by the harness on the real code for every crash point: that the
   real services issue exactly these units (log shape) and that the real restart path gives
   exactly the verdict [recover] gives. *)
From Coq Require Import List NArith Bool Arith Lia.
Import ListNotations.
Local Open Scope N_scope.

(* ---- keys, values, write units ---- *)
Inductive key :=
| KSt (b : N)            (* the trie nodes written by the import of block b (one batch) *)
| KHdr (b : N) | KBlb (b : N) | KArr (b : N)
| KFsn
| KHsh (n : N)           (* number -> hash *)
| KFh (r s : N)          (* finalised_head|round|setID -> hash *)
| KHrs                   (* highest round and set id *)
| KLfr                   (* grandpa latest finalised round *)
| KSetID                 (* grandpa current set id *)
| KAuth (s : N)          (* authorities of set s *)
| KChange (s : N)        (* block number at which set s became current *)
| KJst (b : N)           (* justification of block b (lib/grandpa writes it before finalising) *)
| KPv (r s : N)          (* prevotes of round r, set s *)
| KPc (r s : N)          (* precommits of round r, set s *)
(* the epoch (BABE) table; the restart path consults none of these keys *)
| KNed (e b : N)         (* next epoch data announced by block b for epoch e *)
| KNcd (e b : N)         (* next config data announced by block b for epoch e *)
| KEpd (e : N)           (* epoch data of epoch e (written when its announcement is finalised) *)
| KCfd (e : N).          (* config data of epoch e *)

(* VGone: the tombstone a deletion leaves.  Deletions occur in the epoch table only; [recover]
   consults neither the value nor the presence of an epoch key, so a deleted epoch key is
   represented as a key holding VGone (this keeps "present keys stay present", which the
   proofs use for the keys the restart does read). *)
Inductive value := VUnit | VBlk (b : N) | VPair (r s : N) | VNum (n : N) | VGone.

Definition key_eqb (a b : key) : bool :=
  match a, b with
  | KSt x, KSt y | KHdr x, KHdr y | KBlb x, KBlb y | KArr x, KArr y | KHsh x, KHsh y
  | KAuth x, KAuth y | KChange x, KChange y | KJst x, KJst y | KEpd x, KEpd y | KCfd x, KCfd y => x =? y
  | KFh r s, KFh r' s' | KPv r s, KPv r' s' | KPc r s, KPc r' s'
  | KNed r s, KNed r' s' | KNcd r s, KNcd r' s' => (r =? r') && (s =? s')
  | KFsn, KFsn | KHrs, KHrs | KLfr, KLfr | KSetID, KSetID => true
  | _, _ => false
  end.

Inductive wunit := WPut (k : key) (v : value) | WBatch (l : list (key * value)).

Definition db := key -> option value.
Definition dput (d : db) (k : key) (v : value) : db := fun x => if key_eqb x k then Some v else d x.
Definition apply_unit (d : db) (u : wunit) : db :=
  match u with
  | WPut k v => dput d k v
  | WBatch l => fold_left (fun d kv => dput d (fst kv) (snd kv)) l d
  end.
Definition replay (d : db) (l : list wunit) : db := fold_left apply_unit l d.

(* ---- the block tree of a scenario ---- *)
(* blocks are numbered in creation order; block 0 is genesis.  [parent] and [num] by index *)
Record blk := mkb { b_parent : N; b_num : N }.
Definition blocks := list blk.        (* index i = block i; genesis first *)

Definition bget (bs : blocks) (i : N) : option blk := nth_error bs (N.to_nat i).

(* a is an ancestor of b or b itself: follow parents (a parent has a smaller index than its
   child, so b+1 steps are always enough) *)
Fixpoint anc_fuel (fuel : nat) (bs : blocks) (a b : N) : bool :=
  if a =? b then true else
  match fuel with
  | O => false
  | S f => if b =? 0 then false else
           match bget bs b with
           | Some x => anc_fuel f bs a (b_parent x)
           | None => false
           end
  end.
Definition anc (bs : blocks) (a b : N) : bool := anc_fuel (S (N.to_nat b)) bs a b.
Definition sanc (bs : blocks) (a b : N) : bool := anc bs a b && negb (a =? b).

(* the chain (a, b]: blocks from just above a down to b, ascending; None when a is not an ancestor *)
Fixpoint chain_fuel (fuel : nat) (bs : blocks) (a b : N) (acc : list N) : option (list N) :=
  if a =? b then Some acc else
  match fuel with
  | O => None
  | S f => if b =? 0 then None else
           match bget bs b with
           | Some x => chain_fuel f bs a (b_parent x) (b :: acc)
           | None => None
           end
  end.
Definition chain (bs : blocks) (a b : N) : option (list N) := chain_fuel (S (N.to_nat b)) bs a b [].

Definition numof (bs : blocks) (i : N) : N := match bget bs i with Some x => b_num x | None => 0 end.

(* ---- scenario operations and the volatile state of the node ---- *)
(* A scenario operation says WHAT HAPPENED, not why: whether the import / the finalisation
   applied an authority-set change is a flag of the operation.  The theorems quantify over all
   flags, so they cover every rule by which changes become applicable and any number of pending
   scheduled and forced changes (which rule gossamer follows is the subject of property C23; the
   driver reads the flag off the recorded log, and cross-checks it against the single-pending
   predictor [pstep] below where that applies).  Likewise the epoch-table writes of a
   finalisation (FinalizeBABENextEpochData / FinalizeBABENextConfigData: a put, then a batch of
   deletions) are a list carried by the operation. *)
Inductive babe := BNone | BEpoch | BConfig | BBoth.      (* BABE consensus digests of a block *)
Inductive eunit := EPut (k : key) | EDel (l : list key).
Definition epoch_key (k : key) : bool :=
  match k with KNed _ _ | KNcd _ _ | KEpd _ | KCfd _ => true | _ => false end.
Definition eunit_ok (u : eunit) : bool :=
  match u with EPut k => epoch_key k | EDel l => forallb epoch_key l end.
Definition eunit_w (u : eunit) : wunit :=
  match u with EPut k => WPut k VUnit | EDel l => WBatch (map (fun k => (k, VGone)) l) end.

Inductive sop :=
| Imp (parent : N) (applies : bool) (bd : babe)
| Fin (b round : N) (applies : bool) (ep : list eunit).

(* the digest-level description of a scenario, for the single-pending predictor *)
Inductive digest := DNone | DSched (delay : N) | DForced (delay : N).
Inductive dop := DImp (parent : N) (d : digest) (bd : babe) | DFin (b round : N) (ep : list eunit).

Record sim := mks {
  s_blocks : blocks;
  s_fin : N;                       (* last finalised block *)
  s_round : N;                     (* last finalised round in the current set *)
  s_set : N;                       (* current GRANDPA set id *)
  s_sched : option (N * N);        (* pending scheduled change: announcing block, delay *)
  s_forced : option (N * N) }.     (* pending forced change: announcing block, delay *)

Definition sim0 : sim := mks [mkb 0 0] 0 0 0 None None.

(* the database after genesis initialisation *)
Definition genesis_units : list wunit :=
  [WBatch [(KSt 0, VUnit)]; WPut (KArr 0) VUnit; WPut (KHdr 0) VUnit; WPut (KHsh 0) (VBlk 0);
   WPut (KBlb 0) VUnit; WPut KHrs (VPair 0 0); WPut (KFh 0 0) (VBlk 0); WPut KHrs (VPair 0 0);
   WPut KSetID (VNum 0); WPut KLfr (VNum 0); WPut (KAuth 0) VUnit; WPut (KChange 0) (VNum 0)].
Definition db0 : db := replay (fun _ => None) genesis_units.

(* the three writes of an authority-set change to set g+1.
   [set_change_units]: the order after the fix (the set id is written LAST);
   [set_change_units_prefix]: the order of the pinned tree (IncrementSetID first). *)
Definition set_change_units (g : N) : list wunit :=
  [WPut (KAuth (g + 1)) VUnit; WPut (KChange (g + 1)) (VNum 0); WPut KSetID (VNum (g + 1))].
Definition set_change_units_prefix (g : N) : list wunit :=
  [WPut KSetID (VNum (g + 1)); WPut (KAuth (g + 1)) VUnit; WPut (KChange (g + 1)) (VNum 0)].

Section Ops.
  Variable change_units : N -> list wunit.

  (* validity of an operation in a state: the parent of an import is alive; a finalisation
     finalises the head or a descendant of it, in a later round of the current set, and its
     epoch writes touch the epoch table only *)
  Definition valid (st : sim) (o : sop) : bool :=
    let bs := s_blocks st in
    match o with
    | Imp p _ _ => (p <? N.of_nat (length bs)) && anc bs (s_fin st) p
    | Fin b r _ ep =>
      (b <? N.of_nat (length bs)) && anc bs (s_fin st) b && (s_round st <? r) && forallb eunit_ok ep
    end.

  (* the writes of SetFinalisedHash for the chain (fin, b] *)
  Definition fin_block_units (bs : blocks) (x : N) : list wunit :=
    [WPut (KHdr x) VUnit] ++ (if numof bs x =? 1 then [WPut KFsn VUnit] else []) ++
    [WPut (KBlb x) VUnit; WPut (KArr x) VUnit].

  (* what lib/grandpa writes (through BlockState.SetJustification, GrandpaState.SetPrevotes and
     SetPrecommits) before it calls SetFinalisedHash; the restart path reads none of them *)
  Definition vote_units (b r g : N) : list wunit :=
    [WPut (KJst b) VUnit; WPut (KPv r g) VUnit; WPut (KPc r g) VUnit].

  (* handleFinalisedBlock returns before creating the batch when the block is the finalised
     head already (a later round finalising the same block): no number->hash batch then *)
  Definition hsh_batch (bs : blocks) (ch : list N) : list wunit :=
    match ch with
    | [] => []
    | _ :: _ => [WBatch (map (fun x => (KHsh (numof bs x), VBlk x)) ch)]
    end.

  (* EpochState.HandleBABEDigest persists the announcement of block x under (next epoch, x);
     all blocks of a scenario lie in epoch 0, so the next epoch is 1 *)
  Definition babe_units (bd : babe) (x : N) : list wunit :=
    match bd with
    | BNone => []
    | BEpoch => [WPut (KNed 1 x) VUnit]
    | BConfig => [WPut (KNcd 1 x) VUnit]
    | BBoth => [WPut (KNed 1 x) VUnit; WPut (KNcd 1 x) VUnit]
    end.

  Definition step (st : sim) (o : sop) : list wunit * sim :=
    if negb (valid st o) then ([], st) else
    let bs := s_blocks st in
    match o with
    | Imp p ap bd =>
      let x := N.of_nat (length bs) in
      let bs' := bs ++ [mkb p (numof bs p + 1)] in
      (* core.handleBlock: StoreTrie, AddBlock, the consensus digests, ApplyForcedChanges *)
      if ap then
        ([WBatch [(KSt x, VUnit)]] ++ babe_units bd x ++ change_units (s_set st),
         mks bs' (s_fin st) 0 (s_set st + 1) None None)
      else
        ([WBatch [(KSt x, VUnit)]] ++ babe_units bd x,
         mks bs' (s_fin st) (s_round st) (s_set st) (s_sched st) (s_forced st))
    | Fin b r ap ep =>
      match chain bs (s_fin st) b with
      | None => ([], st)
      | Some ch =>
        (* lib/grandpa: votes, SetFinalisedHash, SetLatestRound; then the digest handler:
           FinalizeBABENextEpochData, FinalizeBABENextConfigData, ApplyScheduledChanges *)
        let ws := vote_units b r (s_set st) ++ concat (map (fin_block_units bs) ch) ++ hsh_batch bs ch ++
                  [WPut (KFh r (s_set st)) (VBlk b); WPut KHrs (VPair r (s_set st));
                   WPut KLfr (VNum r)] ++ map eunit_w ep in
        if ap then
          (ws ++ change_units (s_set st), mks bs b 0 (s_set st + 1) None (s_forced st))
        else
          (ws, mks bs b r (s_set st) (s_sched st) (s_forced st))
      end
    end.

  Fixpoint run (st : sim) (ops : list sop) : list wunit * sim :=
    match ops with
    | [] => ([], st)
    | o :: r => let (w, st1) := step st o in let (w', st2) := run st1 r in (w ++ w', st2)
    end.

  (* ---- the single-pending predictor: which flag gossamer's rules give when at most one
     GRANDPA change is pending (s_sched / s_forced hold it) ---- *)
  Definition forced_applies (bs : blocks) (pend : option (N * N)) (x : N) : bool :=
    match pend with
    | Some (a, d) => anc bs a x && (numof bs a + d =? numof bs x)
    | None => false
    end.
  Definition sched_applies (bs : blocks) (pend : option (N * N)) (b : N) : bool :=
    match pend with
    | Some (a, d) => anc bs a b && (numof bs a + d <=? numof bs b)
    | None => false
    end.

  (* the scenario stays within the single-pending class *)
  Definition pvalid (st : sim) (o : dop) : bool :=
    let bs := s_blocks st in
    match o with
    | DImp p d _ =>
      (p <? N.of_nat (length bs)) && anc bs (s_fin st) p &&
      match d with
      | DNone => true
      | _ => match s_sched st, s_forced st with None, None => true | _, _ => false end
      end
    | DFin b r ep =>
      (b <? N.of_nat (length bs)) && anc bs (s_fin st) b && (s_round st <? r) && forallb eunit_ok ep &&
      match s_sched st with
      | None => true
      | Some (a, d) => sched_applies bs (s_sched st) b || sanc bs b a
      end &&
      match s_forced st with
      | None => true
      | Some (a, d) => sanc bs b a
      end
    end.

  Definition with_pending (st : sim) (sch frc : option (N * N)) : sim :=
    mks (s_blocks st) (s_fin st) (s_round st) (s_set st) sch frc.

  Definition pstep (st : sim) (o : dop) : sop * sim :=
    let bs := s_blocks st in
    match o with
    | DImp p d bd =>
      let x := N.of_nat (length bs) in
      let bs' := bs ++ [mkb p (numof bs p + 1)] in
      let sched' := match d with DSched dl => Some (x, dl) | _ => s_sched st end in
      let forced' := match d with DForced dl => Some (x, dl) | _ => s_forced st end in
      let ap := forced_applies bs' forced' x in
      let o' := Imp p ap bd in
      (o', if ap then snd (step st o') else with_pending (snd (step st o')) sched' forced')
    | DFin b r ep =>
      let ap := sched_applies bs (s_sched st) b in
      let o' := Fin b r ap ep in
      (o', snd (step st o'))
    end.

  Fixpoint annot (st : sim) (ops : list dop) : list sop :=
    match ops with
    | [] => []
    | o :: r => let (o', st') := pstep st o in o' :: annot st' r
    end.
  Fixpoint pvalid_all (st : sim) (ops : list dop) : bool :=
    match ops with
    | [] => true
    | o :: r => pvalid st o && pvalid_all (snd (pstep st o)) r
    end.
End Ops.

(* ---- the restart path ---- *)
Inductive verdict :=
| VOk (b r s g : N)      (* finalised head, highest round and set id, current grandpa set id *)
| VFail (stage : N).     (* 0 start, 1 body, 2 setid, 3 auth, 4 change *)

Definition has (d : db) (k : key) : bool := match d k with Some _ => true | None => false end.

(* the state of block b can be loaded when the batches of b and of all its ancestors are there *)
Fixpoint state_ok_fuel (fuel : nat) (bs : blocks) (d : db) (b : N) : bool :=
  has d (KSt b) &&
  (if b =? 0 then true else
   match fuel with
   | O => false
   | S f => match bget bs b with
            | Some x => state_ok_fuel f bs d (b_parent x)
            | None => false
            end
   end).
Definition state_ok (bs : blocks) (d : db) (b : N) : bool := state_ok_fuel (S (N.to_nat b)) bs d b.

Definition recover (bs : blocks) (d : db) : verdict :=
  match d KHrs with
  | Some (VPair r s) =>
    match d (KFh r s) with
    | Some (VBlk b) =>
      if has d (KHsh 0) && has d (KHdr b) && state_ok bs d b then
        if has d (KBlb b) then
          match d KSetID with
          | Some (VNum g) =>
            if has d (KAuth g) then
              if has d (KChange g) then VOk b r s g else VFail 4
            else VFail 3
          | _ => VFail 2
          end
        else VFail 1
      else VFail 0
    | _ => VFail 0
    end
  | _ => VFail 0
  end.

(* (set, round) lexicographically *)
Definition le_rs (r s r' s' : N) : bool := (s <? s') || ((s =? s') && (r <=? r')).

(* the verdicts at every crash point of a log, starting from database d *)
Fixpoint crash_points (bs : blocks) (d : db) (l : list wunit) : list verdict :=
  recover bs d :: match l with [] => [] | u :: r => crash_points bs (apply_unit d u) r end.

(* all verdicts are VOk, and (set,round) and the grandpa set id never go backwards *)
Fixpoint all_ok_monotone (prev : option (N * N * N)) (l : list verdict) : bool :=
  match l with
  | [] => true
  | VFail _ :: _ => false
  | VOk b r s g :: rest =>
    (match prev with Some (r0, s0, g0) => le_rs r0 s0 r s && (g0 <=? g) | None => true end) &&
    all_ok_monotone (Some (r, s, g)) rest
  end.

(* entry points for the driver *)
Definition run_fixed := run set_change_units.
Definition run_prefix := run set_change_units_prefix.
Definition scenario_points (ops : list sop) : list wunit * list verdict :=
  let (ws, st) := run_fixed sim0 ops in (ws, crash_points (s_blocks st) db0 ws).
Definition scenario_valid (ops : list sop) : bool :=
  (fix go (st : sim) (l : list sop) : bool :=
     match l with
     | [] => true
     | o :: r => valid st o && go (snd (step set_change_units st o)) r
     end) sim0 ops.
(* the flags the single-pending predictor gives to a digest-level scenario, and whether the
   scenario is within its class *)
Definition predict (ops : list dop) : list sop := annot set_change_units sim0 ops.
Definition single_pending (ops : list dop) : bool := pvalid_all set_change_units sim0 ops.
