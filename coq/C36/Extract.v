From Coq Require Import Extraction ExtrOcamlBasic.
From Common Require Import Bytes Drv.
From C36 Require Import Model.
Extraction "model.ml" drv_b2n drv_n2b drv_z_of_n drv_n_of_z drv_nat_of_n drv_n_of_nat
  sim0 step set_change_units set_change_units_prefix valid db0 crash_points all_ok_monotone
  scenario_points scenario_valid run_fixed run_prefix predict single_pending.
