(* Hash/Keccak.v — Keccak-f[1600] and the sponge with rate 136 bytes / 256-bit output, written
   from the Keccak reference (FIPS 202 section 3 for the permutation).  [keccak256] uses the
   original ("legacy") multi-rate padding 0x01 .. 0x80 that sha3.NewLegacyKeccak256 and Substrate's
   keccak_256 use; [sha3_256] (domain byte 0x06) is defined only to check the permutation against
   the NIST vectors.  Lanes are N below 2^64; the state is the list of 25 lanes, lane (x,y) at
   index x + 5 y. *)
From Common Require Import Bytes.
From Hash Require Import XXHash.   (* mask64, rotl64 *)
Local Open Scope N_scope.

(* ---- constants, tabulated; both tables are re-derived from their definitions below *)
Definition round_constants : list N :=
  [ 1; 32898; 9223372036854808714; 9223372039002292224; 32907; 2147483649;
    9223372039002292353; 9223372036854808585; 138; 136; 2147516425; 2147483658;
    2147516555; 9223372036854775947; 9223372036854808713; 9223372036854808579;
    9223372036854808578; 9223372036854775936; 32778; 9223372039002259466;
    9223372039002292353; 9223372036854808704; 2147483649; 9223372039002292232 ].

(* rotation offset of lane (x,y) at index x + 5 y *)
Definition rho_offsets : list N :=
  [ 0; 1; 62; 28; 27;   36; 44; 6; 55; 20;   3; 10; 43; 25; 39;
    41; 45; 15; 21; 8;   18; 2; 61; 56; 14 ].

(* ---- the permutation *)
Definition lane (s : list N) (x y : nat) : N := nth ((x mod 5) + 5 * (y mod 5))%nat s 0.
Definition idx25 : list nat := seq 0 25.
Definition idx5 : list nat := seq 0 5.

Definition theta (s : list N) : list N :=
  let c := map (fun x => N.lxor (lane s x 0) (N.lxor (lane s x 1) (N.lxor (lane s x 2)
                           (N.lxor (lane s x 3) (lane s x 4))))) idx5 in
  let d := map (fun x => N.lxor (nth ((x + 4) mod 5) c 0) (rotl64 (nth ((x + 1) mod 5) c 0) 1)) idx5 in
  map (fun i => N.lxor (nth i s 0) (nth (i mod 5) d 0)) idx25.

(* rho and pi together: B[y][2x+3y] = rot(A[x][y], r[x][y]); solved for the target index
   (X,Y): the source is x = X + 3Y mod 5, y = X. *)
Definition rho_pi (s : list N) : list N :=
  map (fun i => let X := (i mod 5)%nat in let Y := (i / 5)%nat in
                let x := ((X + 3 * Y) mod 5)%nat in let y := X in
                rotl64 (lane s x y) (nth (x + 5 * y) rho_offsets 0)) idx25.

Definition chi (s : list N) : list N :=
  map (fun i => let x := (i mod 5)%nat in let y := (i / 5)%nat in
                N.lxor (lane s x y)
                  (N.land (N.lxor (lane s (x + 1) y) mask64) (lane s (x + 2) y))) idx25.

Definition iota (rc : N) (s : list N) : list N :=
  match s with a :: r => N.lxor a rc :: r | [] => [] end.

Definition keccak_round (s : list N) (rc : N) : list N := iota rc (chi (rho_pi (theta s))).
Definition keccak_f (s : list N) : list N := fold_left keccak_round round_constants s.

(* ---- the sponge, rate 136 bytes *)
Definition rate : nat := 136.

(* multi-rate padding pad10*1 with the domain bits in the first padding byte [ds]
   (0x01 legacy Keccak, 0x06 SHA-3): q = rate - len mod rate bytes are appended *)
Definition pad (ds : N) (msg : list byte) : list byte :=
  let q := (rate - length msg mod rate)%nat in
  match q with
  | 1%nat => msg ++ [n2b (N.lor ds 128)]
  | _ => msg ++ n2b ds :: zeros (q - 2) ++ [n2b 128]
  end.

Fixpoint lanes (k : nat) (b : list byte) : list N :=
  match k with O => [] | S k' => le_val (firstn 8 b) :: lanes k' (skipn 8 b) end.

Fixpoint xor_into (s blk : list N) : list N :=
  match s, blk with
  | a :: s', b :: blk' => N.lxor a b :: xor_into s' blk'
  | _, [] => s
  | [], _ => []
  end.

(* absorb all full blocks of an already padded message *)
Fixpoint absorb (fuel : nat) (s : list N) (msg : list byte) : list N :=
  match fuel with
  | O => s
  | S fuel' =>
    match msg with
    | [] => s
    | _ => absorb fuel' (keccak_f (xor_into s (lanes 17 (firstn rate msg)))) (skipn rate msg)
    end
  end.

Definition sponge256 (ds : N) (msg : list byte) : list byte :=
  let p := pad ds msg in
  let s := absorb (length p / rate) (repeat 0 25) p in
  firstn 32 (flat_map (le_bytes 8) s).

Definition keccak256 (msg : list byte) : list byte := sponge256 1 msg.
Definition sha3_256 (msg : list byte) : list byte := sponge256 6 msg.

(* ---- the tables are the ones the specification defines *)
(* rc(t): output of the LFSR x^8 + x^6 + x^5 + x^4 + 1 after t steps (FIPS 202 Algorithm 5) *)
Fixpoint lfsr (t : nat) (r : N) : N :=
  match t with
  | O => r
  | S t' => let r2 := N.shiftl r 1 in
            lfsr t' (if N.testbit r2 8 then N.lxor r2 369 (* 0x171 *) else r2)
  end.
Definition rc_bit (t : nat) : bool := N.testbit (lfsr (t mod 255) 1) 0.
Definition rc_of_round (i : nat) : N :=
  fold_left (fun acc j => if rc_bit (j + 7 * i) then N.lor acc (N.shiftl 1 (2 ^ N.of_nat j - 1)) else acc)
            (seq 0 7) 0.
Example round_constants_from_lfsr : map rc_of_round (seq 0 24) = round_constants.
Proof. vm_compute. reflexivity. Qed.

(* rho offsets: (x,y) := (1,0); for t = 0..23: r[x][y] := (t+1)(t+2)/2 mod 64; (x,y) := (y, 2x+3y) *)
Fixpoint rho_walk (t : nat) (k : N) (x y : nat) (tbl : list (nat * N)) : list (nat * N) :=
  match t with
  | O => tbl
  | S t' => rho_walk t' (k + 1) y ((2 * x + 3 * y) mod 5)%nat
              (((x + 5 * y)%nat, ((k + 1) * (k + 2) / 2) mod 64) :: tbl)
  end.
Definition rho_from_spec : list N :=
  let tbl := rho_walk 24 0 1 0 [] in
  map (fun i => match find (fun p => Nat.eqb (fst p) i) tbl with Some p => snd p | None => 0 end) idx25.
Example rho_offsets_from_spec : rho_from_spec = rho_offsets.
Proof. vm_compute. reflexivity. Qed.

(* ---- test vectors *)
Definition hex2 (l : list N) : list byte := map n2b l.
Definition be256 (l : list byte) : N := be_val l.

(* Keccak-256("") = c5d2460186f7233c927e7db2dcc703c0e500b653ca82273b7bfad8045d85a470 *)
Example keccak256_empty :
  be256 (keccak256 []) = 0xc5d2460186f7233c927e7db2dcc703c0e500b653ca82273b7bfad8045d85a470.
Proof. vm_compute. reflexivity. Qed.
(* Keccak-256("abc") *)
Example keccak256_abc :
  be256 (keccak256 (hex2 [97;98;99])) = 0x4e03657aea45a94fc7d47ba826c8d667c0d1e6e33a64a036ec44f58fa12d6c45.
Proof. vm_compute. reflexivity. Qed.
(* SHA3-256("") and SHA3-256("abc") — FIPS 202 example values: same permutation and sponge *)
Example sha3_256_empty :
  be256 (sha3_256 []) = 0xa7ffc6f8bf1ed76651c14756a061d662f580ff4de43b49fa82d80a4b80f8434a.
Proof. vm_compute. reflexivity. Qed.
Example sha3_256_abc :
  be256 (sha3_256 (hex2 [97;98;99])) = 0x3a985da74fe225b2045c172d6bd390bd855f086e3e9d525b46bfe24511431532.
Proof. vm_compute. reflexivity. Qed.
(* block boundary: 135 (one padding byte 0x81), 136 (a whole extra block), 137, 200 bytes of
   tmsg; values cross-computed with golang.org/x/crypto/sha3 *)
Example keccak256_135 :
  be256 (keccak256 (tmsg 135)) = 0x00ef96af9cf4b24c7f269d922294444a197d0a33638c2e56634c57e892103a8f.
Proof. vm_compute. reflexivity. Qed.
Example keccak256_136 :
  be256 (keccak256 (tmsg 136)) = 0x742061bcad767ed4c4f5883b1dcb1aad11afdcc140dc469d953759b127b9f9ed.
Proof. vm_compute. reflexivity. Qed.
Example keccak256_137 :
  be256 (keccak256 (tmsg 137)) = 0xe3371f61e770abf254c34239c3b0099ad90594507415bc81dd0a10b9692bbf2a.
Proof. vm_compute. reflexivity. Qed.
Example keccak256_200 :
  be256 (keccak256 (tmsg 200)) = 0x66d2cdf3ab4c5bd3c75add9b60b14ac5b7789534fa2da3f348853b847359a3a0.
Proof. vm_compute. reflexivity. Qed.
