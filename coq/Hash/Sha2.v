(* Hash/Sha2.v — SHA-256 and SHA-512 (FIPS 180-4) in Gallina; one generic definition
   instantiated with the two parameter sets.  Words are N with explicit masks.  SHA-256 is the
   reference for lib/common.Sha256 (C29); SHA-512 is needed by the Ed25519 reference. *)
From Common Require Import Bytes.
Local Open Scope N_scope.

Record sha_params := mk_sha {
  wbits : N;                 (* word size in bits: 32 / 64 *)
  wbytes : nat;              (* 4 / 8 *)
  nrounds : nat;             (* 64 / 80 *)
  kconst : list N;
  ivconst : list N;
  bs0 : N * N * N;           (* big sigma 0: three right-rotations *)
  bs1 : N * N * N;
  ss0 : N * N * N;           (* small sigma 0: two right-rotations and a right shift *)
  ss1 : N * N * N;
  lenbytes : nat             (* width of the length field of the padding: 8 / 16 *)
}.

Definition k256 : list N :=
  [
    1116352408; 1899447441; 3049323471; 3921009573; 961987163; 1508970993;
    2453635748; 2870763221; 3624381080; 310598401; 607225278; 1426881987;
    1925078388; 2162078206; 2614888103; 3248222580; 3835390401; 4022224774;
    264347078; 604807628; 770255983; 1249150122; 1555081692; 1996064986;
    2554220882; 2821834349; 2952996808; 3210313671; 3336571891; 3584528711;
    113926993; 338241895; 666307205; 773529912; 1294757372; 1396182291;
    1695183700; 1986661051; 2177026350; 2456956037; 2730485921; 2820302411;
    3259730800; 3345764771; 3516065817; 3600352804; 4094571909; 275423344;
    430227734; 506948616; 659060556; 883997877; 958139571; 1322822218;
    1537002063; 1747873779; 1955562222; 2024104815; 2227730452; 2361852424;
    2428436474; 2756734187; 3204031479; 3329325298 ].

Definition iv256 : list N :=
  [
    1779033703; 3144134277; 1013904242; 2773480762;
    1359893119; 2600822924; 528734635; 1541459225 ].

Definition k512 : list N :=
  [
    4794697086780616226; 8158064640168781261; 13096744586834688815;
    16840607885511220156; 4131703408338449720; 6480981068601479193;
    10538285296894168987; 12329834152419229976; 15566598209576043074;
    1334009975649890238; 2608012711638119052; 6128411473006802146;
    8268148722764581231; 9286055187155687089; 11230858885718282805;
    13951009754708518548; 16472876342353939154; 17275323862435702243;
    1135362057144423861; 2597628984639134821; 3308224258029322869;
    5365058923640841347; 6679025012923562964; 8573033837759648693;
    10970295158949994411; 12119686244451234320; 12683024718118986047;
    13788192230050041572; 14330467153632333762; 15395433587784984357;
    489312712824947311; 1452737877330783856; 2861767655752347644;
    3322285676063803686; 5560940570517711597; 5996557281743188959;
    7280758554555802590; 8532644243296465576; 9350256976987008742;
    10552545826968843579; 11727347734174303076; 12113106623233404929;
    14000437183269869457; 14369950271660146224; 15101387698204529176;
    15463397548674623760; 17586052441742319658; 1182934255886127544;
    1847814050463011016; 2177327727835720531; 2830643537854262169;
    3796741975233480872; 4115178125766777443; 5681478168544905931;
    6601373596472566643; 7507060721942968483; 8399075790359081724;
    8693463985226723168; 9568029438360202098; 10144078919501101548;
    10430055236837252648; 11840083180663258601; 13761210420658862357;
    14299343276471374635; 14566680578165727644; 15097957966210449927;
    16922976911328602910; 17689382322260857208; 500013540394364858;
    748580250866718886; 1242879168328830382; 1977374033974150939;
    2944078676154940804; 3659926193048069267; 4368137639120453308;
    4836135668995329356; 5532061633213252278; 6448918945643986474;
    6902733635092675308; 7801388544844847127 ].

Definition iv512 : list N :=
  [
    7640891576956012808; 13503953896175478587; 4354685564936845355;
    11912009170470909681; 5840696475078001361; 11170449401992604703;
    2270897969802886507; 6620516959819538809 ].

Definition sha256_params : sha_params :=
  mk_sha 32 4 64 k256 iv256 (2, 13, 22) (6, 11, 25) (7, 18, 3) (17, 19, 10) 8.
Definition sha512_params : sha_params :=
  mk_sha 64 8 80 k512 iv512 (28, 34, 39) (14, 18, 41) (1, 8, 7) (19, 61, 6) 16.

Section Sha.
  Variable P : sha_params.
  Let w := wbits P.
  Let mask : N := N.ones w.
  Definition addw (a b : N) : N := N.land (a + b) mask.
  Definition rotr (x k : N) : N := N.lor (N.shiftr x k) (N.land (N.shiftl x (w - k)) mask).
  Definition notw (x : N) : N := N.lxor x mask.

  Definition big_sigma (r : N * N * N) (x : N) : N :=
    let '(a, b, c) := r in N.lxor (rotr x a) (N.lxor (rotr x b) (rotr x c)).
  Definition small_sigma (r : N * N * N) (x : N) : N :=
    let '(a, b, c) := r in N.lxor (rotr x a) (N.lxor (rotr x b) (N.shiftr x c)).
  Definition ch (x y z : N) : N := N.lxor (N.land x y) (N.land (notw x) z).
  Definition maj (x y z : N) : N := N.lxor (N.land x y) (N.lxor (N.land x z) (N.land y z)).

  Record st8 := mk8 { sa : N; sb : N; sc : N; sd : N; se : N; sf : N; sg : N; sh : N }.

  (* big-endian words of a block *)
  Fixpoint bwords (k : nat) (b : list byte) : list N :=
    match k with
    | O => []
    | S k' => be_val (firstn (wbytes P) b) :: bwords k' (skipn (wbytes P) b)
    end.

  (* message schedule, kept most-recent-first: rev_w = [W_{t-1}; W_{t-2}; ...] *)
  Fixpoint schedule (k : nat) (rev_w : list N) : list N :=
    match k with
    | O => rev_w
    | S k' =>
      let wt := addw (addw (small_sigma (ss1 P) (nth 1 rev_w 0)) (nth 6 rev_w 0))
                     (addw (small_sigma (ss0 P) (nth 14 rev_w 0)) (nth 15 rev_w 0)) in
      schedule k' (wt :: rev_w)
    end.

  Definition step (s : st8) (kw : N * N) : st8 :=
    let '(k, wt) := kw in
    let t1 := addw (addw (addw (sh s) (big_sigma (bs1 P) (se s))) (ch (se s) (sf s) (sg s))) (addw k wt) in
    let t2 := addw (big_sigma (bs0 P) (sa s)) (maj (sa s) (sb s) (sc s)) in
    mk8 (addw t1 t2) (sa s) (sb s) (sc s) (addw (sd s) t1) (se s) (sf s) (sg s).

  Definition compress (h : st8) (block : list byte) : st8 :=
    let w16 := bwords 16 block in
    let ws := rev (schedule (nrounds P - 16) (rev w16)) in
    let s := fold_left step (combine (kconst P) ws) h in
    mk8 (addw (sa h) (sa s)) (addw (sb h) (sb s)) (addw (sc h) (sc s)) (addw (sd h) (sd s))
        (addw (se h) (se s)) (addw (sf h) (sf s)) (addw (sg h) (sg s)) (addw (sh h) (sh s)).

  Definition block_size : nat := (16 * wbytes P)%nat.

  (* padding: 0x80, k zero bytes, the bit length as a big-endian integer of [lenbytes] bytes;
     k is the least number making the total a multiple of the block size *)
  Definition pad_zeros (len : nat) : nat :=
    ((block_size - (len + 1 + lenbytes P) mod block_size) mod block_size)%nat.
  Definition pad (msg : list byte) : list byte :=
    msg ++ n2b 128 :: zeros (pad_zeros (length msg)) ++ be_bytes (lenbytes P) (8 * N.of_nat (length msg)).

  Fixpoint blocks (fuel : nat) (h : st8) (msg : list byte) : st8 :=
    match fuel with
    | O => h
    | S fuel' =>
      match msg with
      | [] => h
      | _ => blocks fuel' (compress h (firstn block_size msg)) (skipn block_size msg)
      end
    end.

  Definition iv_state : st8 :=
    let i k := nth k (ivconst P) 0 in
    mk8 (i 0%nat) (i 1%nat) (i 2%nat) (i 3%nat) (i 4%nat) (i 5%nat) (i 6%nat) (i 7%nat).

  Definition digest_of (s : st8) : list byte :=
    let e := be_bytes (wbytes P) in
    e (sa s) ++ e (sb s) ++ e (sc s) ++ e (sd s) ++ e (se s) ++ e (sf s) ++ e (sg s) ++ e (sh s).

  Definition sha (msg : list byte) : list byte :=
    let p := pad msg in
    digest_of (blocks (length p / block_size) iv_state p).
End Sha.

Definition sha256 (msg : list byte) : list byte := sha sha256_params msg.
Definition sha512 (msg : list byte) : list byte := sha sha512_params msg.

(* ---- the constant tables are the ones FIPS 180-4 defines: the first 32 (64) bits of the
   fractional parts of the cube roots of the first 64 (80) primes, and of the square roots of
   the first 8 primes for the initial state *)
Fixpoint iroot_bits (bits : nat) (k : N) (n acc : N) : N :=   (* floor k-th root, bit by bit *)
  match bits with
  | O => acc
  | S b => let c := N.lor acc (N.shiftl 1 (N.of_nat b)) in
           iroot_bits b k n (if c ^ k <=? n then c else acc)
  end.
Definition frac_root (k w : N) (p : N) : N :=
  N.land (iroot_bits 80 k (N.shiftl p (k * w)) 0) (N.ones w).
Definition first_primes : list N :=
  [2;3;5;7;11;13;17;19;23;29;31;37;41;43;47;53;59;61;67;71;73;79;83;89;97;101;103;107;109;113;
   127;131;137;139;149;151;157;163;167;173;179;181;191;193;197;199;211;223;227;229;233;239;241;
   251;257;263;269;271;277;281;283;293;307;311;313;317;331;337;347;349;353;359;367;373;379;383;
   389;397;401;409].
Example k256_from_spec : map (frac_root 3 32) (firstn 64 first_primes) = k256.
Proof. vm_compute. reflexivity. Qed.
Example k512_from_spec : map (frac_root 3 64) first_primes = k512.
Proof. vm_compute. reflexivity. Qed.
Example iv256_from_spec : map (frac_root 2 32) (firstn 8 first_primes) = iv256.
Proof. vm_compute. reflexivity. Qed.
Example iv512_from_spec : map (frac_root 2 64) (firstn 8 first_primes) = iv512.
Proof. vm_compute. reflexivity. Qed.

(* ---- test vectors (FIPS 180-4 / NIST examples "abc", "", the 448-bit and 896-bit messages) *)
Definition ascii (s : list N) : list byte := map n2b s.
Definition tmsg (k : nat) : list byte := map (fun i => n2b (N.of_nat i * 7 + 3)) (seq 0 k).

Example sha256_abc : be_val (sha256 (ascii [97;98;99])) =
  0xba7816bf8f01cfea414140de5dae2223b00361a396177a9cb410ff61f20015ad.
Proof. vm_compute. reflexivity. Qed.
Example sha256_empty : be_val (sha256 []) =
  0xe3b0c44298fc1c149afbf4c8996fb92427ae41e4649b934ca495991b7852b855.
Proof. vm_compute. reflexivity. Qed.
(* "abcdbcdecdefdefgefghfghighijhijkijkljklmklmnlmnomnopnopq" (56 bytes: two blocks) *)
Example sha256_two_blocks : be_val (sha256 (ascii
  [97;98;99;100;98;99;100;101;99;100;101;102;100;101;102;103;101;102;103;104;102;103;104;105;
   103;104;105;106;104;105;106;107;105;106;107;108;106;107;108;109;107;108;109;110;108;109;110;111;
   109;110;111;112;110;111;112;113])) =
  0x248d6a61d20638b8e5c026930c3e6039a33ce45964ff2167f6ecedd419db06c1.
Proof. vm_compute. reflexivity. Qed.
Example sha512_abc : be_val (sha512 (ascii [97;98;99])) =
  0xddaf35a193617abacc417349ae20413112e6fa4e89a97ea20a9eeee64b55d39a2192992a274fc1a836ba3c23a3feebbd454d4423643ce80e2a9ac94fa54ca49f.
Proof. vm_compute. reflexivity. Qed.
Example sha512_empty : be_val (sha512 []) =
  0xcf83e1357eefb8bdf1542850d66d8007d620e4050b5715dc83f4a921d36ce9ce47d0d13c5d85f2b0ff8318d2877eec2f63b931bd47417a81a538327af927da3e.
Proof. vm_compute. reflexivity. Qed.
(* block-boundary lengths of tmsg, cross-computed with Go crypto/sha256, crypto/sha512 *)
Example sha256_135 : be_val (sha256 (tmsg 135)) =
  0x357ebb96ceaad098f322cd545ff898c7948507845a63c727fcf6b27ff37ceac4.
Proof. vm_compute. reflexivity. Qed.
Example sha256_200 : be_val (sha256 (tmsg 200)) =
  0x2c7e18c942ef065b526a2d4e5546283749cd3ddfb51d8fc71f42717363685f46.
Proof. vm_compute. reflexivity. Qed.
Example sha512_137 : be_val (sha512 (tmsg 137)) =
  0x9845dde5baca2e2eba4ddec6e2609c99d2da206b61aaf425f09e2063373e9567690b770aa93af31a4c32a68519272a33e245511350c5f99b15c0f91708a2317c.
Proof. vm_compute. reflexivity. Qed.
Example sha512_200 : be_val (sha512 (tmsg 200)) =
  0xcca3c0276046ef9f2897bdfc3ec330f77f4959914b1462bd581b232ddb3e9aa98acf5f5a2b21c7f49d2e43721daa61a2b5cee6af6052dfeb766e66ddb0d1719c.
Proof. vm_compute. reflexivity. Qed.
