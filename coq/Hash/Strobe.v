(* Hash/Strobe.v — STROBE-128/1600 restricted to the operations Merlin uses (meta-AD, AD, PRF) and
   Merlin transcripts (merlin v1.0: "Merlin v1.0" protocol label, "dom-sep" application label,
   length-framed messages, challenge bytes), written from strobe.rs / transcript.rs of the merlin
   crate (the implementation schnorrkel, hence Substrate, uses).  github.com/gtank/merlin over
   github.com/mimoo/StrobeGo, which gossamer uses, implements the same functions.
   The duplex state is the list of 200 state bytes, [pos] the position inside the rate and
   [pos_begin] the start of the current operation, exactly as in strobe.rs.  Definitions only; the
   published Merlin test vectors are evaluated in Hash/StrobeVectors.v (a separate file, so that
   coqchk of a library that imports the definitions does not re-evaluate them). *)
From Coq Require Import String.
From Common Require Import Bytes.
From Hash Require Import XXHash Keccak.
Local Open Scope N_scope.

Definition strobe_r : nat := 166.     (* 200 - 128/4 - 2 *)

Record strobe := mkstrobe { st : list byte; pos : nat; pos_begin : nat }.

Definition f1600_bytes (s : list byte) : list byte :=
  flat_map (le_bytes 8) (keccak_f (lanes 25 s)).

Definition xor_byte (a b : byte) : byte := n2b (N.lxor (b2n a) (b2n b)).
Fixpoint xor_bytes (a b : list byte) : list byte :=
  match a, b with
  | x :: a', y :: b' => xor_byte x y :: xor_bytes a' b'
  | _, _ => []
  end.
(* s with d xored in at offset p (p + |d| <= |s|) *)
Definition xor_at (s : list byte) (p : nat) (d : list byte) : list byte :=
  firstn p s ++ xor_bytes (firstn (length d) (skipn p s)) d ++ skipn (p + length d) s.

(* strobe.rs run_f *)
Definition run_f (s : strobe) : strobe :=
  let st1 := xor_at (st s) (pos s) [n2b (N.of_nat (pos_begin s)); n2b 4] in
  let st2 := xor_at st1 (strobe_r + 1) [n2b 128] in
  mkstrobe (f1600_bytes st2) 0 0.

(* strobe.rs absorb, a rate-full at a time *)
Fixpoint absorb (fuel : nat) (s : strobe) (d : list byte) : strobe :=
  match fuel with
  | O => s
  | S f =>
    match d with
    | [] => s
    | _ =>
      let room := (strobe_r - pos s)%nat in
      let chunk := firstn room d in
      let s1 := mkstrobe (xor_at (st s) (pos s) chunk) (pos s + length chunk) (pos_begin s) in
      let s2 := if (pos s1 =? strobe_r)%nat then run_f s1 else s1 in
      absorb f s2 (skipn room d)
    end
  end.

(* strobe.rs squeeze: the state bytes are output and zeroed *)
Fixpoint squeeze (fuel : nat) (s : strobe) (n : nat) (acc : list byte) : list byte * strobe :=
  match fuel with
  | O => (acc, s)
  | S f =>
    match n with
    | O => (acc, s)
    | _ =>
      let room := (strobe_r - pos s)%nat in
      let k := Nat.min room n in
      let out := firstn k (skipn (pos s) (st s)) in
      let s1 := mkstrobe (firstn (pos s) (st s) ++ zeros k ++ skipn (pos s + k) (st s))
                         (pos s + k) (pos_begin s) in
      let s2 := if (pos s1 =? strobe_r)%nat then run_f s1 else s1 in
      squeeze f s2 (n - k) (acc ++ out)
    end
  end.

(* flags: I = 1, A = 2, C = 4, T = 8, M = 16, K = 32 *)
Definition begin_op (s : strobe) (flags : N) : strobe :=
  let old := pos_begin s in
  let s1 := mkstrobe (st s) (pos s) (pos s + 1) in
  let s2 := absorb 2 s1 [n2b (N.of_nat old); n2b flags] in
  if negb (N.land flags 36 =? 0) && negb (pos s2 =? 0)%nat then run_f s2 else s2.

Definition meta_ad (s : strobe) (d : list byte) : strobe := absorb (S (length d)) (begin_op s 18) d.
Definition ad (s : strobe) (d : list byte) : strobe := absorb (S (length d)) (begin_op s 2) d.
Definition prf (s : strobe) (n : nat) : list byte * strobe := squeeze (S n) (begin_op s 7) n [].

(* ASCII labels as byte lists (evaluated, so that no [string] reaches the extraction) *)
Definition lbl_strobe : list byte := Eval vm_compute in list_byte_of_string "STROBEv1.0.2".
Definition lbl_merlin : list byte := Eval vm_compute in list_byte_of_string "Merlin v1.0".
Definition lbl_dom_sep : list byte := Eval vm_compute in list_byte_of_string "dom-sep".

(* Strobe128::new *)
Definition strobe_new (label : list byte) : strobe :=
  let st0 := map n2b [1; 168; 1; 0; 1; 96] ++ lbl_strobe ++ zeros 182 in
  meta_ad (mkstrobe (f1600_bytes st0) 0 0) label.

(* ---- Merlin *)
Definition le32 (n : nat) : list byte := le_bytes 4 (N.of_nat n).
(* meta_ad(label, false); meta_ad(LE32(len), true); ad(message, false) -- the continuation
   ("more") absorbs without a new operation header, i.e. one meta-AD of label || LE32(len) *)
Definition append_message (t : strobe) (label msg : list byte) : strobe :=
  ad (meta_ad t (label ++ le32 (length msg))) msg.
Definition challenge_bytes (t : strobe) (label : list byte) (n : nat) : list byte * strobe :=
  prf (meta_ad t (label ++ le32 n)) n.
Definition transcript_new (label : list byte) : strobe :=
  append_message (strobe_new lbl_merlin) lbl_dom_sep label.
