(* Hash/ProofsHash.v — structural facts about the reference hash functions: digest lengths for
   every input, padding lemmas, adequacy of the block-loop fuel. *)
From Coq Require Import ZifyN ZifyNat ZifyBool.
From Common Require Import Bytes Blake2b.
From Hash Require Import XXHash Keccak Sha2.
Local Open Scope nat_scope.

(* ------------------------------------------------------------------ XXH64 *)
Lemma lxor_lt_two64 a b : (a < two64 -> b < two64 -> N.lxor a b < two64)%N.
Proof.
  intros Ha Hb. change two64 with (2 ^ 64)%N in *.
  destruct (N.eq_dec (N.lxor a b) 0) as [->|NZ]; [reflexivity|].
  apply N.log2_lt_pow2; [lia|].
  pose proof (N.log2_lxor a b) as H.
  destruct (N.eq_dec a 0) as [->|Na].
  - rewrite N.lxor_0_l in *. apply N.log2_lt_pow2; lia.
  - destruct (N.eq_dec b 0) as [->|Nb].
    + rewrite N.lxor_0_r in *. apply N.log2_lt_pow2; lia.
    + apply N.log2_lt_pow2 in Ha; [|lia]. apply N.log2_lt_pow2 in Hb; [|lia]. lia.
Qed.

Lemma shiftr_le a k : (N.shiftr a k <= a)%N.
Proof.
  rewrite N.shiftr_div_pow2.
  assert (0 < 2 ^ k)%N by (apply N.neq_0_lt_0, N.pow_nonzero; lia).
  apply N.div_le_upper_bound; nia.
Qed.

Lemma mul64_lt a b : (mul64 a b < two64)%N.
Proof. apply land_mask64_lt. Qed.

Lemma avalanche_lt h : (h < two64 -> avalanche h < two64)%N.
Proof.
  intro H. unfold avalanche.
  apply lxor_lt_two64; [apply mul64_lt|].
  eapply N.le_lt_trans; [apply shiftr_le|apply mul64_lt].
Qed.

Lemma tail1_lt msg : forall h, (h < two64 -> tail1 h msg < two64)%N.
Proof.
  induction msg as [|b r IH]; intros h H; cbn [tail1]; [assumption|].
  apply IH, mul64_lt.
Qed.

Lemma tail4_lt h msg : (h < two64 -> fst (tail4 h msg) < two64)%N.
Proof.
  intro H. unfold tail4. destruct (4 <=? length msg); cbn [fst]; [apply land_mask64_lt|assumption].
Qed.

Lemma tail8_lt fuel : forall h msg, (h < two64 -> fst (tail8 fuel h msg) < two64)%N.
Proof.
  induction fuel as [|f IH]; intros h msg H; cbn [tail8]; [assumption|].
  destruct (8 <=? length msg); [|assumption].
  apply IH, land_mask64_lt.
Qed.

(* the 64-bit hash value is a 64-bit number, for every seed and message *)
Theorem xxh64_lt seed msg : (xxh64 seed msg < two64)%N.
Proof.
  unfold xxh64. cbv zeta.
  match goal with |- context [let '(h, rest) := ?X in _] => destruct X as [h0 r0] end.
  pose proof (tail8_lt 4 (add64 h0 (N.land (N.of_nat (length msg)) mask64)) r0 (land_mask64_lt _)) as T8.
  destruct (tail8 4 (add64 h0 (N.land (N.of_nat (length msg)) mask64)) r0) as [h8 r8]. cbn [fst] in T8.
  pose proof (tail4_lt h8 r8 T8) as T4. destruct (tail4 h8 r8) as [h4 r4]. cbn [fst] in T4.
  now apply avalanche_lt, tail1_lt.
Qed.

(* ------------------------------------------------------------------ BLAKE2b *)
Lemma compress_length h blk t last : length (Blake2b.compress h blk t last) = 8.
Proof. reflexivity. Qed.

Lemma blocks_length fuel : forall h msg t, length h = 8 -> length (Blake2b.blocks fuel h msg t) = 8.
Proof.
  induction fuel as [|f IH]; intros h msg t H; cbn [Blake2b.blocks]; [assumption|].
  destruct (length msg <=? 128); [apply compress_length|].
  apply IH, compress_length.
Qed.

(* BLAKE2b with digest size nn <= 64 returns nn bytes, for every key and message *)
Theorem blake2b_keyed_length nn key msg : nn <= 64 -> length (blake2b_keyed nn key msg) = nn.
Proof.
  intro H. unfold blake2b_keyed.
  apply firstn_flat_le_bytes_length. rewrite blocks_length; [lia|reflexivity].
Qed.
Theorem blake2b_length nn msg : nn <= 64 -> length (blake2b nn msg) = nn.
Proof. apply blake2b_keyed_length. Qed.

(* the block loop has enough fuel: more fuel never changes the result *)
Lemma blocks_fuel_enough fuel : forall k h msg t,
  length msg <= 128 * S fuel -> Blake2b.blocks (S fuel + k) h msg t = Blake2b.blocks (S fuel) h msg t.
Proof.
  induction fuel as [|f IH]; intros k h msg t H.
  - cbn [Blake2b.blocks plus]. destruct (Nat.leb_spec (length msg) 128); [reflexivity|lia].
  - change (S (S f) + k) with (S (S f + k)). cbn [Blake2b.blocks].
    destruct (Nat.leb_spec (length msg) 128); [reflexivity|].
    apply IH. rewrite skipn_length. lia.
Qed.
Lemma blake2b_fuel (msg : list byte) : length msg <= 128 * S (length msg / 128).
Proof. pose proof (Nat.div_mod (length msg) 128 ltac:(lia)). pose proof (Nat.mod_upper_bound (length msg) 128 ltac:(lia)). lia. Qed.

(* ------------------------------------------------------------------ Keccak *)
Lemma keccak_round_length s rc : length (keccak_round s rc) = 25.
Proof.
  unfold keccak_round, iota, chi. cbn [map idx25 seq]. reflexivity.
Qed.

Lemma keccak_f_length s : length s = 25 -> length (keccak_f s) = 25.
Proof.
  intro H. unfold keccak_f.
  assert (G : forall rcs s0, length s0 = 25 -> length (fold_left keccak_round rcs s0) = 25).
  { induction rcs as [|rc rcs IH]; intros s0 H0; cbn [fold_left]; [assumption|].
    apply IH, keccak_round_length. }
  now apply G.
Qed.

Lemma xor_into_length s : forall blk, length (xor_into s blk) = length s.
Proof.
  induction s as [|a s IH]; intros [|b blk]; cbn [xor_into length]; try reflexivity.
  now rewrite IH.
Qed.

Lemma absorb_length fuel : forall s msg, length s = 25 -> length (absorb fuel s msg) = 25.
Proof.
  induction fuel as [|f IH]; intros s msg H; cbn [absorb]; [assumption|].
  destruct msg; [assumption|]. apply IH, keccak_f_length. now rewrite xor_into_length.
Qed.

(* Keccak-256 / SHA3-256 return 32 bytes for every input *)
Theorem sponge256_length ds msg : length (sponge256 ds msg) = 32.
Proof.
  unfold sponge256. apply firstn_flat_le_bytes_length.
  rewrite absorb_length; [lia|]. now rewrite repeat_length.
Qed.
Theorem keccak256_length msg : length (keccak256 msg) = 32.
Proof. apply sponge256_length. Qed.

(* pad10*1: between 1 and 136 bytes are appended, the result is a whole number of blocks and
   starts with the message *)
Lemma pad_length ds msg : length (Keccak.pad ds msg) = 136 * (length msg / 136 + 1).
Proof.
  unfold Keccak.pad, rate.
  pose proof (Nat.div_mod (length msg) 136 ltac:(lia)) as D.
  pose proof (Nat.mod_upper_bound (length msg) 136 ltac:(lia)) as U.
  destruct (136 - length msg mod 136) as [|[|q]] eqn:E.
  - lia.
  - rewrite app_length. cbn [length]. lia.
  - rewrite app_length. cbn [length]. rewrite app_length. unfold zeros. rewrite repeat_length.
    cbn [length]. lia.
Qed.
Lemma pad_length_mod ds msg : length (Keccak.pad ds msg) mod rate = 0.
Proof. rewrite pad_length. unfold rate. rewrite Nat.mul_comm. apply Nat.mod_mul. lia. Qed.
Lemma pad_longer ds msg : length msg < length (Keccak.pad ds msg) <= length msg + 136.
Proof.
  rewrite pad_length.
  pose proof (Nat.div_mod (length msg) 136 ltac:(lia)).
  pose proof (Nat.mod_upper_bound (length msg) 136 ltac:(lia)). lia.
Qed.
Lemma pad_prefix ds msg : firstn (length msg) (Keccak.pad ds msg) = msg.
Proof.
  unfold Keccak.pad. destruct (rate - length msg mod rate) as [|[|q]];
    rewrite firstn_app, Nat.sub_diag, firstn_all; cbn [firstn]; now rewrite app_nil_r.
Qed.
(* the last byte of the padded message carries the final 1 bit (0x80), the byte after the
   message the domain bits *)
Lemma pad_last ds msg : (ds < 128)%N ->
  exists body, Keccak.pad ds msg = body ++ [n2b (N.lor (if length (Keccak.pad ds msg) - length msg =? 1 then ds else 0) 128)].
Proof.
  intro Hds. unfold Keccak.pad at 1.
  pose proof (pad_length ds msg) as PL. unfold Keccak.pad in PL.
  destruct (rate - length msg mod rate) as [|[|q]] eqn:E.
  - unfold rate in E. pose proof (Nat.mod_upper_bound (length msg) 136 ltac:(lia)). lia.
  - exists msg. unfold Keccak.pad. rewrite E. rewrite app_length. cbn [length].
    replace (length msg + 1 - length msg) with 1 by lia. reflexivity.
  - exists (msg ++ n2b ds :: zeros (S (S q) - 2)). unfold Keccak.pad. rewrite E.
    rewrite app_length. cbn [length]. rewrite app_length. cbn [length].
    destruct (Nat.eqb_spec (length msg + S (length (zeros (S (S q) - 2)) + 1) - length msg) 1) as [X|X]; [lia|].
    rewrite <- app_assoc. cbn [app]. reflexivity.
Qed.

(* absorbing has enough fuel *)
Lemma absorb_fuel_enough fuel : forall k s msg,
  length msg <= 136 * fuel -> absorb (fuel + k) s msg = absorb fuel s msg.
Proof.
  induction fuel as [|f IH]; intros k s msg H.
  - destruct msg; [|cbn [length] in H; lia]. destruct k; reflexivity.
  - cbn [plus absorb]. destruct msg as [|b msg]; [reflexivity|].
    apply IH. rewrite skipn_length. unfold rate. lia.
Qed.
Lemma keccak_fuel ds msg : length (Keccak.pad ds msg) <= 136 * (length (Keccak.pad ds msg) / rate).
Proof. rewrite pad_length. unfold rate. rewrite Nat.mul_comm, Nat.div_mul by lia. lia. Qed.

(* ------------------------------------------------------------------ SHA-2 *)
Lemma digest_of_length P s : length (digest_of P s) = 8 * wbytes P.
Proof. unfold digest_of. rewrite !app_length, !be_bytes_length. lia. Qed.

Theorem sha256_length msg : length (sha256 msg) = 32.
Proof. unfold sha256, sha. now rewrite digest_of_length. Qed.
Theorem sha512_length msg : length (sha512 msg) = 64.
Proof. unfold sha512, sha. now rewrite digest_of_length. Qed.

(* padding: a whole number of blocks, starting with the message, then 0x80 *)
Lemma sha_pad_length P msg :
  length (Sha2.pad P msg) = length msg + 1 + pad_zeros P (length msg) + lenbytes P.
Proof.
  unfold Sha2.pad. rewrite app_length. cbn [length]. rewrite app_length. unfold zeros.
  rewrite repeat_length, be_bytes_length. lia.
Qed.
Lemma sha256_pad_mod msg : length (Sha2.pad sha256_params msg) mod 64 = 0.
Proof.
  rewrite sha_pad_length. unfold pad_zeros, block_size. cbn [wbytes lenbytes sha256_params].
  change (16 * 4) with 64. lia.
Qed.
Lemma sha512_pad_mod msg : length (Sha2.pad sha512_params msg) mod 128 = 0.
Proof.
  rewrite sha_pad_length. unfold pad_zeros, block_size. cbn [wbytes lenbytes sha512_params].
  change (16 * 8) with 128. lia.
Qed.
Lemma sha_pad_prefix P msg : firstn (length msg) (Sha2.pad P msg) = msg.
Proof. unfold Sha2.pad. rewrite firstn_app, Nat.sub_diag, firstn_all. cbn [firstn]. now rewrite app_nil_r. Qed.
(* minimality: fewer than one block of padding *)
Lemma sha256_pad_minimal msg : length (Sha2.pad sha256_params msg) < length msg + 9 + 64.
Proof.
  rewrite sha_pad_length. unfold pad_zeros, block_size. cbn [wbytes lenbytes sha256_params].
  change (16 * 4) with 64. lia.
Qed.

Lemma sha_blocks_fuel_enough P fuel : forall k h msg,
  0 < block_size P -> length msg <= block_size P * fuel ->
  Sha2.blocks P (fuel + k) h msg = Sha2.blocks P fuel h msg.
Proof.
  induction fuel as [|f IH]; intros k h msg B H.
  - destruct msg; [|cbn [length] in H; lia]. destruct k; reflexivity.
  - cbn [plus Sha2.blocks]. destruct msg as [|b msg]; [reflexivity|].
    apply IH; [assumption|]. rewrite skipn_length. nia.
Qed.
