(* Hash/XXHash.v — xxHash64 (Yann Collet's specification, xxhash_spec.md "XXH64") in Gallina,
   any 64-bit seed.  64-bit words are N with explicit masks.  Reference for C29
   (Twox64 / Twox128 / Twox256 of lib/common/hasher.go = XXH64 with seeds 0..3). *)
From Common Require Import Bytes.
Local Open Scope N_scope.

Definition mask64 : N := 18446744073709551615.
Definition two64 : N := 18446744073709551616.
Definition add64 (a b : N) : N := N.land (a + b) mask64.
Definition mul64 (a b : N) : N := N.land (a * b) mask64.
Definition sub64 (a b : N) : N := N.land (a + two64 - N.land b mask64) mask64.
Definition rotl64 (x : N) (k : N) : N :=
  N.lor (N.land (N.shiftl x k) mask64) (N.shiftr x (64 - k)).

Definition prime1 : N := 11400714785074694791.   (* 0x9E3779B185EBCA87 *)
Definition prime2 : N := 14029467366897019727.   (* 0xC2B2AE3D27D4EB4F *)
Definition prime3 : N := 1609587929392839161.    (* 0x165667B19E3779F9 *)
Definition prime4 : N := 9650029242287828579.    (* 0x85EBCA77C2B2AE63 *)
Definition prime5 : N := 2870177450012600261.    (* 0x27D4EB2F165667C5 *)

(* spec step 2: round(acc, lane) *)
Definition xround (acc lane : N) : N :=
  mul64 (rotl64 (add64 acc (mul64 lane prime2)) 31) prime1.

(* spec step 3: mergeAccumulator *)
Definition merge_round (acc v : N) : N :=
  add64 (mul64 (N.lxor acc (xround 0 v)) prime1) prime4.

Definition rd64 (b : list byte) : N := le_val (firstn 8 b).
Definition rd32 (b : list byte) : N := le_val (firstn 4 b).

Record acc4 := mkacc { a1 : N; a2 : N; a3 : N; a4 : N }.

(* consume all full 32-byte stripes; returns the accumulators and the unconsumed tail.
   [fuel] bounds the number of stripes (length / 32 suffices). *)
Fixpoint stripes (fuel : nat) (a : acc4) (msg : list byte) : acc4 * list byte :=
  match fuel with
  | O => (a, msg)
  | S fuel' =>
    if (32 <=? length msg)%nat then
      stripes fuel'
        (mkacc (xround (a1 a) (rd64 msg)) (xround (a2 a) (rd64 (skipn 8 msg)))
               (xround (a3 a) (rd64 (skipn 16 msg))) (xround (a4 a) (rd64 (skipn 24 msg))))
        (skipn 32 msg)
    else (a, msg)
  end.

(* spec step 5: the remaining < 32 bytes: 8-byte lanes, then one 4-byte lane, then bytes *)
Fixpoint tail8 (fuel : nat) (h : N) (msg : list byte) : N * list byte :=
  match fuel with
  | O => (h, msg)
  | S fuel' =>
    if (8 <=? length msg)%nat then
      let h := N.lxor h (xround 0 (rd64 msg)) in
      tail8 fuel' (add64 (mul64 (rotl64 h 27) prime1) prime4) (skipn 8 msg)
    else (h, msg)
  end.

Definition tail4 (h : N) (msg : list byte) : N * list byte :=
  if (4 <=? length msg)%nat then
    let h := N.lxor h (mul64 (rd32 msg) prime1) in
    (add64 (mul64 (rotl64 h 23) prime2) prime3, skipn 4 msg)
  else (h, msg).

Fixpoint tail1 (h : N) (msg : list byte) : N :=
  match msg with
  | [] => h
  | b :: r => tail1 (mul64 (rotl64 (N.lxor h (mul64 (b2n b) prime5)) 11) prime1) r
  end.

(* spec step 6: avalanche *)
Definition avalanche (h : N) : N :=
  let h := N.lxor h (N.shiftr h 33) in
  let h := mul64 h prime2 in
  let h := N.lxor h (N.shiftr h 29) in
  let h := mul64 h prime3 in
  N.lxor h (N.shiftr h 32).

Definition xxh64 (seed : N) (msg : list byte) : N :=
  let seed := N.land seed mask64 in
  let len := length msg in
  let '(h, rest) :=
    if (32 <=? len)%nat then
      let '(a, rest) := stripes (len / 32)
          (mkacc (add64 (add64 seed prime1) prime2) (add64 seed prime2) seed (sub64 seed prime1)) msg in
      let h := add64 (add64 (rotl64 (a1 a) 1) (rotl64 (a2 a) 7)) (add64 (rotl64 (a3 a) 12) (rotl64 (a4 a) 18)) in
      let h := merge_round h (a1 a) in
      let h := merge_round h (a2 a) in
      let h := merge_round h (a3 a) in
      let h := merge_round h (a4 a) in
      (h, rest)
    else (add64 seed prime5, msg) in
  let h := add64 h (N.land (N.of_nat len) mask64) in
  let '(h, rest) := tail8 4 h rest in
  let '(h, rest) := tail4 h rest in
  avalanche (tail1 h rest).

(* ---- test vectors.
   (1) the sanity vectors of the reference implementation (xxhsum.c BMK_sanityCheck, xxHash
       v0.6.x): buffer b[i] = (byte)(prime >> 24); prime *= prime (32-bit), prime0 = 2654435761,
       lengths 0/1/14/101, seeds 0 and 2654435761;
   (2) published values used by the independent Go implementation cespare/xxhash ("a", "abc",
       the 63-byte Moby-Dick sentence);
   (3) lengths 32/33/64/100 with seeds 0..3 (the seeds Twox128/256 use), cross-computed with
       OneOfOne/xxhash and (seed 0) cespare/xxhash. *)
Fixpoint sanity_buf (k : nat) (prime : N) : list byte :=
  match k with
  | O => []
  | S k' => n2b (N.shiftr prime 24) :: sanity_buf k' (N.land (prime * prime) 4294967295)
  end.
Definition sbuf (k : nat) : list byte := sanity_buf k 2654435761.
Definition sprime : N := 2654435761.

Example xxh64_sanity_0_0 : xxh64 0 (sbuf 0) = 17241709254077376921.        (* EF46DB3751D8E999 *)
Proof. vm_compute. reflexivity. Qed.
Example xxh64_sanity_0_p : xxh64 sprime (sbuf 0) = 12427117621484918767.   (* AC75FDA2929B17EF *)
Proof. vm_compute. reflexivity. Qed.
Example xxh64_sanity_1_0 : xxh64 0 (sbuf 1) = 5750596776143442648.         (* 4FCE394CC88952D8 *)
Proof. vm_compute. reflexivity. Qed.
Example xxh64_sanity_1_p : xxh64 sprime (sbuf 1) = 8329478753618994979.    (* 739840CB819FA723 *)
Proof. vm_compute. reflexivity. Qed.
Example xxh64_sanity_14_0 : xxh64 0 (sbuf 14) = 14986446533618842173.      (* CFFA8DB881BC3A3D *)
Proof. vm_compute. reflexivity. Qed.
Example xxh64_sanity_14_p : xxh64 sprime (sbuf 14) = 6599481375206459851.  (* 5B9611585EFCC9CB *)
Proof. vm_compute. reflexivity. Qed.
Example xxh64_sanity_101_0 : xxh64 0 (sbuf 101) = 1057031117799454893.     (* 0EAB543384F878AD *)
Proof. vm_compute. reflexivity. Qed.
Example xxh64_sanity_101_p : xxh64 sprime (sbuf 101) = 14602456943956008481. (* CAA65939306F1E21 *)
Proof. vm_compute. reflexivity. Qed.

Definition ascii (s : list N) : list byte := map n2b s.
Example xxh64_a_seed0 : xxh64 0 (ascii [97]) = 15154266338359012955.   (* D24EC4F1A98C6E5B *)
Proof. vm_compute. reflexivity. Qed.
Example xxh64_abc_seed0 : xxh64 0 (ascii [97;98;99]) = 4952883123889572249.   (* 44BC2CF5AD770999 *)
Proof. vm_compute. reflexivity. Qed.
(* "Call me Ishmael. Some years ago--never mind how long precisely-" *)
Example xxh64_ishmael : xxh64 0 (ascii
  [67;97;108;108;32;109;101;32;73;115;104;109;97;101;108;46;32;83;111;109;101;32;121;101;97;114;
   115;32;97;103;111;45;45;110;101;118;101;114;32;109;105;110;100;32;104;111;119;32;108;111;110;
   103;32;112;114;101;99;105;115;101;108;121;45]) = 189969583671016854.   (* 02A2E85470D6FD96 *)
Proof. vm_compute. reflexivity. Qed.

(* msg k = bytes (7 i + 3) mod 256, i < k *)
Definition tmsg (k : nat) : list byte := map (fun i => n2b (N.of_nat i * 7 + 3)) (seq 0 k).
Example xxh64_len32 : map (fun s => xxh64 s (tmsg 32)) [0;1;2;3] =
  [2577116162849570199; 8368171454729298226; 9308722485543744435; 1888792448603714056].
Proof. vm_compute. reflexivity. Qed.
Example xxh64_len33 : map (fun s => xxh64 s (tmsg 33)) [0;1;2;3] =
  [5811842300876720004; 1707954086288663566; 15667248672198167380; 14883278906908099103].
Proof. vm_compute. reflexivity. Qed.
Example xxh64_len64 : map (fun s => xxh64 s (tmsg 64)) [0;1;2;3] =
  [1060117496095223839; 3243813924987638772; 4760940981747540633; 9849002475706134528].
Proof. vm_compute. reflexivity. Qed.
Example xxh64_len100 : map (fun s => xxh64 s (tmsg 100)) [0;1;2;3] =
  [11970441692518016305; 10198779478910617550; 5986955976087328884; 748222382146190931].
Proof. vm_compute. reflexivity. Qed.

(* ---- structural facts *)
Lemma land_mask64_lt x : N.land x mask64 < two64.
Proof.
  change mask64 with (N.ones 64). rewrite N.land_ones. apply N.mod_lt. discriminate.
Qed.
