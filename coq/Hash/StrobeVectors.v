(* Hash/StrobeVectors.v — the published Merlin test vectors for Hash/Strobe.v. *)
From Coq Require Import String.
From Common Require Import Bytes.
From Hash Require Import XXHash Keccak Strobe.
Local Open Scope N_scope.

(* ---- test vectors *)
(* merlin transcript.rs equivalence_simple (also the first test of gtank/merlin):
   "test protocol", append "some label" / "some data", challenge "challenge" 32 bytes *)
Definition tv_simple : list byte :=
  let t := transcript_new (list_byte_of_string "test protocol") in
  let t := append_message t (list_byte_of_string "some label") (list_byte_of_string "some data") in
  fst (challenge_bytes t (list_byte_of_string "challenge") 32).
Example merlin_simple_transcript :
  be_val tv_simple = 0xd5a21972d0d5fe320c0d263fac7fffb8145aa640af6e9bca177c03c7efcf0615.
Proof. vm_compute. reflexivity. Qed.

(* transcript.rs equivalence_complex / gtank TestComplexTranscript: 32 rounds of challenge,
   1024-byte message (several permutations per operation), challenge fed back *)
Fixpoint tv_complex_loop (k : nat) (t : strobe) (last : list byte) : list byte :=
  match k with
  | O => last
  | S k' =>
    let '(c, t1) := challenge_bytes t (list_byte_of_string "challenge") 32 in
    let t2 := append_message t1 (list_byte_of_string "bigdata") (repeat (n2b 99) 1024) in
    let t3 := append_message t2 (list_byte_of_string "challengedata") c in
    tv_complex_loop k' t3 c
  end.
Definition tv_complex : list byte :=
  let t := transcript_new (list_byte_of_string "test protocol") in
  let t := append_message t (list_byte_of_string "step1") (list_byte_of_string "some data") in
  tv_complex_loop 32 t [].
Example merlin_complex_transcript :
  be_val tv_complex = 0xa8c933f54fae76e3f9bea93648c1308e7dfa2152dd51674ff3ca438351cf003c.
Proof. vm_compute. reflexivity. Qed.
