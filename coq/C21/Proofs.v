(* C21/Proofs.v -- lemmas about the mirror of lib/grandpa's vote handling (C21/Model.v) and its
   relation to the GRANDPA specification (Grandpa/Votes.v, RoundSpec.v). *)
From Coq Require Import List Arith Lia Bool NArith Permutation ZifyN ZifyNat ZifyBool.
From Common Require Import Outcome.
From Grandpa Require Import Tree Votes RoundSpec RoundProofs.
From C21 Require Import Model Spec.
Import ListNotations.

(* ================= association lists ================= *)
Definition keys {A} (l : list (nat * A)) : list nat := map fst l.

Lemma lookup_in {A} k (a : A) l : lookup k l = Some a -> In (k, a) l.
Proof.
  induction l as [|[k' a'] r IH]; cbn [lookup]; [discriminate|].
  destruct (Nat.eqb_spec k' k) as [->|N]; intro H.
  - injection H as <-. now left. - right. auto.
Qed.

Lemma lookup_none {A} k (l : list (nat * A)) : lookup k l = None <-> ~ In k (keys l).
Proof.
  induction l as [|[k' a'] r IH]; cbn [lookup keys map fst In]; [tauto|].
  destruct (Nat.eqb_spec k' k) as [->|N].
  - split; [discriminate|]. intro H. exfalso. apply H. now left.
  - rewrite IH. unfold keys. tauto.
Qed.

(* membership in [store], for lists with distinct keys *)
Lemma keys_store {A} k (a : A) l : NoDup (keys l) ->
  NoDup (keys (store k a l)) /\ (forall x, In x (keys (store k a l)) <-> x = k \/ In x (keys l)).
Proof.
  induction l as [|[k' a'] r IH]; cbn [store keys map fst]; intro ND.
  - split; [repeat constructor; auto|]. intro x. cbn. intuition congruence.
  - destruct (Nat.eqb_spec k' k) as [->|N]; cbn [map fst].
    + split; [exact ND|]. intro x. cbn. intuition congruence.
    + inversion ND as [|? ? NI ND']; subst. destruct (IH ND') as [ND2 M].
      split.
      * constructor; [|exact ND2]. rewrite M. intros [E|I]; [congruence|exact (NI I)].
      * intro x. cbn [In]. unfold keys in M. rewrite M. intuition congruence.
Qed.

Lemma in_store_nodup {A} k (a : A) l x : NoDup (keys l) ->
  (In x (store k a l) <-> x = (k, a) \/ (In x l /\ fst x <> k)).
Proof.
  induction l as [|[k' a'] r IH]; cbn [store keys map fst In]; intro ND.
  - split; [intros [<-|[]]; now left|]. intros [->|[[] _]]. now left.
  - inversion ND as [|? ? NI ND']; subst.
    destruct (Nat.eqb_spec k' k) as [->|N]; cbn [In].
    + split.
      * intros [<-|H]; [now left|]. right. split; [now right|].
        intro E. apply NI. apply in_map_iff. exists x. auto.
      * intros [->|[[<-|H] E]]; [now left| |now right]. cbn in E. congruence.
    + rewrite (IH ND'). split.
      * intros [<-|[->|[H E]]]; [right; split; [now left|exact N]|now left|right; split; [now right|exact E]].
      * intros [->|[[<-|H] E]]; [right; now left|now left|right; right; split; assumption].
Qed.

Lemma keys_remove {A} k (l : list (nat * A)) :
  (forall x, In x (remove_key k l) <-> In x l /\ fst x <> k) /\
  (NoDup (keys l) -> NoDup (keys (remove_key k l))).
Proof.
  induction l as [|[k' a'] r [IH1 IH2]]; cbn [remove_key keys map fst In].
  - split; [tauto|auto].
  - destruct (Nat.eqb_spec k' k) as [->|N].
    + split.
      * intro x. rewrite IH1. split; [tauto|]. intros [[<-|H] E]; [cbn in E; congruence|tauto].
      * intro ND. inversion ND; subst. auto.
    + split.
      * intro x. cbn [In]. rewrite IH1. split.
        -- intros [<-|[H E]]; [split; [now left|exact N]|tauto].
        -- intros [[<-|H] E]; [now left|tauto].
      * intro ND. inversion ND as [|? ? NI ND']; subst. cbn [map fst]. constructor; [|auto].
        intro I. apply NI. apply in_map_iff in I. destruct I as [x [E I]]. apply IH1 in I.
        apply in_map_iff. exists x. tauto.
Qed.

(* ================= the vote filter (validateVoteMessage) ================= *)
(* well-formed service state: per stage, at most one stored vote per authority, equivocators
   listed once, no authority both stored and listed as an equivocator, all indices authorities *)
Definition wf_stage (e : env) (st : vstate) (sg : stage) : Prop :=
  NoDup (keys (votes_of st sg)) /\ NoDup (keys (eqv_of st sg)) /\
  (forall v, In v (keys (votes_of st sg)) -> ~ In v (keys (eqv_of st sg))) /\
  (forall v, In v (keys (votes_of st sg)) -> v < e_voters e) /\
  (forall v, In v (keys (eqv_of st sg)) -> v < e_voters e).
Definition wf (e : env) (st : vstate) : Prop := wf_stage e st Prevote /\ wf_stage e st Precommit.

Definition init_state (head : block) : vstate := mkSt [] [] [] [] head.

Lemma wf_init e h : wf e (init_state h).
Proof. split; (split; [constructor|split; [constructor|split; [|split]]]); cbn; tauto. Qed.

Definition stage_key (sg : stage) : bool := match sg with Precommit => true | _ => false end.

Lemma votes_of_set_votes st sg sg' l :
  votes_of (set_votes st sg l) sg' = if Bool.eqb (stage_key sg) (stage_key sg') then l else votes_of st sg'.
Proof. destruct sg, sg'; reflexivity. Qed.
Lemma eqv_of_set_votes st sg sg' l : eqv_of (set_votes st sg l) sg' = eqv_of st sg'.
Proof. destruct sg, sg'; reflexivity. Qed.
Lemma votes_of_set_eqv st sg sg' l : votes_of (set_eqv st sg l) sg' = votes_of st sg'.
Proof. destruct sg, sg'; reflexivity. Qed.
Lemma eqv_of_set_eqv st sg sg' l :
  eqv_of (set_eqv st sg l) sg' = if Bool.eqb (stage_key sg) (stage_key sg') then l else eqv_of st sg'.
Proof. destruct sg, sg'; reflexivity. Qed.
Lemma head_set_votes st sg l : s_head (set_votes st sg l) = s_head st.
Proof. destruct sg; reflexivity. Qed.
Lemma head_set_eqv st sg l : s_head (set_eqv st sg l) = s_head st.
Proof. destruct sg; reflexivity. Qed.

(* wf_stage depends only on the lists of that stage *)
Lemma wf_stage_ext e st st' sg : votes_of st' sg = votes_of st sg -> eqv_of st' sg = eqv_of st sg ->
  wf_stage e st sg -> wf_stage e st' sg.
Proof. unfold wf_stage. intros -> ->. tauto. Qed.

(* stages with the same key share their lists *)
Lemma votes_of_key st sg sg' : stage_key sg = stage_key sg' -> votes_of st sg = votes_of st sg'.
Proof. destruct sg, sg'; cbn; congruence. Qed.
Lemma eqv_of_key st sg sg' : stage_key sg = stage_key sg' -> eqv_of st sg = eqv_of st sg'.
Proof. destruct sg, sg'; cbn; congruence. Qed.

Lemma wf_stage_key e st sg sg' : stage_key sg = stage_key sg' -> wf_stage e st sg -> wf_stage e st sg'.
Proof. intros K. unfold wf_stage. now rewrite (votes_of_key st sg sg' K), (eqv_of_key st sg sg' K). Qed.

Lemma wf_any e st sg : wf e st -> wf_stage e st sg.
Proof. intros [A B]. destruct sg; [exact A|exact B|exact (wf_stage_key e st Prevote PrimaryProposal eq_refl A)]. Qed.

Lemma wf_of_stage e st st' sg :
  wf e st -> wf_stage e st' sg ->
  (forall sg', stage_key sg' <> stage_key sg -> votes_of st' sg' = votes_of st sg' /\ eqv_of st' sg' = eqv_of st sg') ->
  wf e st'.
Proof.
  intros W S O. destruct (stage_key sg) eqn:K.
  - split.
    + destruct (O Prevote) as [A B]; [cbn; congruence|]. exact (wf_stage_ext e st st' Prevote A B (proj1 W)).
    + apply (wf_stage_key e st' sg Precommit); [cbn; congruence|exact S].
  - split.
    + apply (wf_stage_key e st' sg Prevote); [cbn; congruence|exact S].
    + destruct (O Precommit) as [A B]; [cbn; congruence|]. exact (wf_stage_ext e st st' Precommit A B (proj2 W)).
Qed.

(* storing a vote of an authority that is not an equivocator keeps the state well formed *)
Lemma wf_store_vote e st sg v g : wf e st -> v < e_voters e -> ~ In v (keys (eqv_of st sg)) ->
  wf e (set_votes st sg (store v g (votes_of st sg))).
Proof.
  intros W V NE. pose proof (wf_any e st sg W) as [ND [NDE [DJ [RV RE]]]].
  apply (wf_of_stage e st _ sg W).
  - unfold wf_stage. rewrite votes_of_set_votes, eqv_of_set_votes, Bool.eqb_reflx.
    destruct (keys_store v g (votes_of st sg) ND) as [ND' M].
    split; [exact ND'|]. split; [exact NDE|]. split; [|split].
    + intros x I. apply M in I. destruct I as [->|I]; auto.
    + intros x I. apply M in I. destruct I as [->|I]; auto.
    + exact RE.
  - intros sg' K. rewrite votes_of_set_votes, eqv_of_set_votes.
    destruct (Bool.eqb (stage_key sg) (stage_key sg')) eqn:E; [apply Bool.eqb_prop in E; congruence|auto].
Qed.

Lemma check_equivocation_wf e st sg v g st' : wf e st -> v < e_voters e ->
  check_equivocation st sg v g = Some st' -> wf e st' /\ s_head st' = s_head st.
Proof.
  intros W V. unfold check_equivocation.
  pose proof (wf_any e st sg W) as [ND [NDE [DJ [RV RE]]]].
  destruct (lookup v (eqv_of st sg)) as [k|] eqn:LE.
  - intro H; injection H as <-. split; [|apply head_set_eqv].
    apply (wf_of_stage e st _ sg W).
    + unfold wf_stage. rewrite votes_of_set_eqv, eqv_of_set_eqv, Bool.eqb_reflx.
      destruct (keys_store v (S k) (eqv_of st sg) NDE) as [ND' M].
      assert (IK : In v (keys (eqv_of st sg))).
      { apply lookup_in in LE. apply in_map_iff. exists (v, k). auto. }
      split; [exact ND|]. split; [exact ND'|]. split; [|split; [exact RV|]].
      * intros x I J. apply M in J. destruct J as [->|J]; [exact (DJ v I IK)|exact (DJ x I J)].
      * intros x I. apply M in I. destruct I as [->|I]; auto.
    + intros sg' K. rewrite votes_of_set_eqv, eqv_of_set_eqv.
      destruct (Bool.eqb (stage_key sg) (stage_key sg')) eqn:E; [apply Bool.eqb_prop in E; congruence|auto].
  - destruct (lookup v (votes_of st sg)) as [old|] eqn:LV; [|discriminate].
    destruct (gv_block old =? gv_block g); [discriminate|].
    intro H; injection H as <-. split; [|now rewrite head_set_eqv, head_set_votes].
    apply lookup_none in LE.
    apply (wf_of_stage e st _ sg W).
    + unfold wf_stage.
      rewrite votes_of_set_eqv, votes_of_set_votes, eqv_of_set_eqv, Bool.eqb_reflx.
      destruct (keys_remove v (votes_of st sg)) as [RM RND].
      destruct (keys_store v 2 (eqv_of st sg) NDE) as [ND' M].
      assert (KR : forall x, In x (keys (remove_key v (votes_of st sg))) -> In x (keys (votes_of st sg)) /\ x <> v).
      { intros x I. apply in_map_iff in I. destruct I as [p [<- I]]. apply RM in I.
        split; [apply in_map_iff; exists p; tauto|tauto]. }
      split; [auto|]. split; [exact ND'|]. split; [|split].
      * intros x I J. apply KR in I. apply M in J. destruct I as [I NX], J as [->|J]; [congruence|exact (DJ x I J)].
      * intros x I. apply KR in I. apply RV. tauto.
      * intros x I. apply M in I. destruct I as [->|I]; auto.
    + intros sg' K. rewrite votes_of_set_eqv, votes_of_set_votes, eqv_of_set_eqv, eqv_of_set_votes.
      destruct (Bool.eqb (stage_key sg) (stage_key sg')) eqn:E; [apply Bool.eqb_prop in E; congruence|auto].
Qed.

Lemma check_equivocation_none st sg v g : check_equivocation st sg v g = None ->
  ~ In v (keys (eqv_of st sg)).
Proof.
  unfold check_equivocation. destruct (lookup v (eqv_of st sg)) eqn:LE; [discriminate|].
  intros _. now apply lookup_none.
Qed.

(* stored votes after a message are the old ones and possibly the new one *)
Lemma check_equivocation_votes st sg v g st' sg' p : check_equivocation st sg v g = Some st' ->
  In p (votes_of st' sg') -> In p (votes_of st sg').
Proof.
  unfold check_equivocation. destruct (lookup v (eqv_of st sg)).
  - intro H; injection H as <-. now rewrite votes_of_set_eqv.
  - destruct (lookup v (votes_of st sg)); [|discriminate].
    destruct (gv_block g0 =? gv_block g); [discriminate|].
    intro H; injection H as <-. rewrite votes_of_set_eqv, votes_of_set_votes.
    destruct (Bool.eqb (stage_key sg) (stage_key sg')) eqn:E; [|auto].
    apply Bool.eqb_prop in E. intro I. apply (proj1 (keys_remove v _)) in I.
    rewrite <- (votes_of_key st sg sg' E). tauto.
Qed.

(* ---- C21_filter: a vote is stored only if the message is one the property allows ---- *)
Lemma accepted_ok e st m st' :
  validate_vote_message true e st m = (0, st') -> msg_ok e st m = true.
Proof.
  unfold validate_vote_message, msg_ok.
  destruct (m_sig_ok m); cbn [negb andb]; [|discriminate].
  destruct (m_setid_ok m); cbn [negb andb]; [|discriminate].
  destruct (m_round m); try discriminate.
  destruct (Nat.ltb_spec (m_voter m) (e_voters e)); cbn [negb andb]; [|discriminate].
  destruct (m_voter m =? e_self e); [discriminate|].
  unfold validate_vote, vote_ok.
  destruct (known e (gv_block (m_vote m))); cbn [negb andb]; [|discriminate].
  destruct (N.eqb_spec (gv_num (m_vote m)) (number e (gv_block (m_vote m)))); cbn [negb andb]; [|discriminate].
  destruct (ancb (e_tree e) (s_head st) (gv_block (m_vote m))); cbn [negb]; [|discriminate].
  reflexivity.
Qed.

(* the pinned validateVote never looked at the number *)
Lemma accepted_ok_prefix_refuted :
  exists e st m st', validate_vote_message false e st m = (0, st') /\ msg_ok e st m = false.
Proof.
  exists (mkEnv [0;1] 4 2 None 0), (init_state 0),
         (mkMsg RoundCurrent true Prevote 1 true (mkGV 2 4%N)).
  eexists. split; [vm_compute; reflexivity|reflexivity].
Qed.

(* a message that is not accepted leaves the stored votes unchanged, except that a second,
   different vote of an authority turns it into an equivocator (its stored vote is dropped) *)
Lemma rejected_unchanged cn e st m c st' : validate_vote_message cn e st m = (c, st') ->
  c <> 0 -> c <> err_equivocation -> st' = st.
Proof.
  unfold validate_vote_message.
  destruct (m_sig_ok m); cbn [negb]; [|intro H; injection H as _ <-; reflexivity].
  destruct (m_setid_ok m); cbn [negb]; [|intro H; injection H as _ <-; reflexivity].
  destruct (m_round m); try (intro H; injection H as _ <-; reflexivity).
  destruct (m_voter m <? e_voters e); cbn [negb]; [|intro H; injection H as _ <-; reflexivity].
  destruct (m_voter m =? e_self e); [intro H; injection H as _ <-; reflexivity|].
  destruct (validate_vote cn e st (m_vote m)); [intro H; injection H as _ <-; reflexivity|].
  destruct (check_equivocation st (m_stage m) (m_voter m) (m_vote m)).
  - intro H; injection H as <- _. congruence.
  - intro H; injection H as <- _. congruence.
Qed.

(* invariant: well-formedness and "every stored vote is allowed" are preserved by every message *)
Lemma step_wf cn e st m c st' : wf e st -> validate_vote_message cn e st m = (c, st') ->
  wf e st' /\ s_head st' = s_head st.
Proof.
  intro W. unfold validate_vote_message.
  destruct (m_sig_ok m); cbn [negb]; [|intro H; injection H as _ <-; auto].
  destruct (m_setid_ok m); cbn [negb]; [|intro H; injection H as _ <-; auto].
  destruct (m_round m); try (intro H; injection H as _ <-; auto).
  destruct (Nat.ltb_spec (m_voter m) (e_voters e)) as [V|V]; cbn [negb]; [|intro H; injection H as _ <-; auto].
  destruct (m_voter m =? e_self e); [intro H; injection H as _ <-; auto|].
  destruct (validate_vote cn e st (m_vote m)); [intro H; injection H as _ <-; auto|].
  destruct (check_equivocation st (m_stage m) (m_voter m) (m_vote m)) as [st2|] eqn:CE.
  - intro H; injection H as _ <-. eapply check_equivocation_wf; eauto.
  - intro H; injection H as _ <-. split; [|apply head_set_votes].
    apply wf_store_vote; auto. eapply check_equivocation_none; eauto.
Qed.

Lemma stored_ok_spec e st : stored_ok e st = true <->
  (forall sg p, In p (votes_of st sg) -> fst p < e_voters e /\ vote_ok e st (snd p) = true).
Proof.
  unfold stored_ok. rewrite andb_true_iff, !forallb_forall. split.
  - intros [A B] sg p I. destruct sg; cbn [votes_of] in I;
      [apply A in I|apply B in I|apply A in I]; apply andb_true_iff in I; destruct I as [I1 I2];
      apply Nat.ltb_lt in I1; auto.
  - intro H. split; intros p I.
    + destruct (H Prevote p I) as [A B]. apply andb_true_iff. split; [now apply Nat.ltb_lt|exact B].
    + destruct (H Precommit p I) as [A B]. apply andb_true_iff. split; [now apply Nat.ltb_lt|exact B].
Qed.

Lemma vote_ok_head e st st' g : s_head st' = s_head st -> vote_ok e st' g = vote_ok e st g.
Proof. unfold vote_ok. now intros ->. Qed.

Lemma step_stored_ok e st m c st' : wf e st -> stored_ok e st = true ->
  validate_vote_message true e st m = (c, st') -> stored_ok e st' = true.
Proof.
  intros W SO H. pose proof (step_wf true e st m c st' W H) as [_ HD].
  rewrite stored_ok_spec in *. intros sg p I.
  assert (K : (In p (votes_of st sg)) \/ (c = 0 /\ p = (m_voter m, m_vote m))).
  { revert H I. unfold validate_vote_message.
    destruct (m_sig_ok m); cbn [negb]; [|intro H; injection H as _ <-; auto].
    destruct (m_setid_ok m); cbn [negb]; [|intro H; injection H as _ <-; auto].
    destruct (m_round m); try (intro H; injection H as _ <-; auto).
    destruct (m_voter m <? e_voters e); cbn [negb]; [|intro H; injection H as _ <-; auto].
    destruct (m_voter m =? e_self e); [intro H; injection H as _ <-; auto|].
    destruct (validate_vote true e st (m_vote m)); [intro H; injection H as _ <-; auto|].
    destruct (check_equivocation st (m_stage m) (m_voter m) (m_vote m)) as [st2|] eqn:CE.
    - intro H; injection H as _ <-. intro I. left. eapply check_equivocation_votes; eauto.
    - intro H; injection H as <- <-. rewrite votes_of_set_votes.
      destruct (Bool.eqb (stage_key (m_stage m)) (stage_key sg)) eqn:E; [|auto].
      apply Bool.eqb_prop in E. intro I.
      apply (in_store_nodup _ _ _ _ (proj1 (wf_any e st (m_stage m) W))) in I.
      destruct I as [->|[I _]]; [right; auto|left]. now rewrite <- (votes_of_key st _ _ E). }
  destruct K as [K|[-> ->]].
  - destruct (SO sg p K) as [A B]. split; [exact A|]. now rewrite (vote_ok_head e st st' _ HD).
  - pose proof (accepted_ok e st m st' H) as MO. unfold msg_ok in MO.
    rewrite !andb_true_iff in MO. destruct MO as [[_ V] VO]. cbn [fst snd].
    split; [now apply Nat.ltb_lt|]. now rewrite (vote_ok_head e st st' _ HD).
Qed.

(* over whole histories of received messages *)
Fixpoint run_messages (cn : bool) (e : env) (st : vstate) (ms : list vmsg) : vstate :=
  match ms with [] => st | m :: r => run_messages cn e (snd (validate_vote_message cn e st m)) r end.

Lemma run_messages_inv e : forall ms st, wf e st -> stored_ok e st = true ->
  wf e (run_messages true e st ms) /\ stored_ok e (run_messages true e st ms) = true /\
  s_head (run_messages true e st ms) = s_head st.
Proof.
  induction ms as [|m r IH]; intros st W SO; cbn [run_messages]; [auto|].
  destruct (validate_vote_message true e st m) as [c st'] eqn:H. cbn [snd].
  destruct (step_wf true e st m c st' W H) as [W' HD].
  pose proof (step_stored_ok e st m c st' W SO H) as SO'.
  destruct (IH st' W' SO') as [A [B C]]. rewrite <- HD. auto.
Qed.

(* ================= tallies are the specification's weights ================= *)
Lemma threshold_unit n : 0 < n -> (N.of_nat n - (N.of_nat n - 1) / 3 = N.of_nat (2 * n / 3) + 1)%N.
Proof.
  destruct n as [|n]; [lia|]. intros _.
  replace (N.of_nat (S n) - 1)%N with (N.of_nat n) by lia.
  pose proof (Nat.div_mod (2 * S n) 3 ltac:(lia)) as D1. pose proof (Nat.mod_upper_bound (2 * S n) 3 ltac:(lia)) as M1.
  pose proof (N.div_mod (N.of_nat n) 3 ltac:(lia)) as D2. pose proof (N.mod_lt (N.of_nat n) 3 ltac:(lia)) as M2.
  set (q1 := (2 * S n / 3)%nat) in *. set (r1 := ((2 * S n) mod 3)%nat) in *.
  set (q2 := (N.of_nat n / 3)%N) in *. set (r2 := (N.of_nat n mod 3)%N) in *.
  lia.
Qed.

Lemma wsum_from_unit i n p : wsum_from i (repeat 1%N n) p = N.of_nat (length (filter p (seq i n))).
Proof.
  revert i. induction n as [|n IH]; intro i; cbn [repeat wsum_from seq filter]; [reflexivity|].
  rewrite IH. destruct (p i); cbn [length]; lia.
Qed.

Lemma total_unit n : total (repeat 1%N n) = N.of_nat n.
Proof.
  unfold total, wsum. rewrite wsum_from_unit.
  replace (filter (fun _ => true) (seq 0 n)) with (seq 0 n); [now rewrite seq_length|].
  induction (seq 0 n) as [|a l IH]; cbn; congruence.
Qed.

Lemma threshold_spec e : 0 < e_voters e -> Votes.threshold (unit_ws e) = (threshold e + 1)%N.
Proof. intro H. unfold Votes.threshold, unit_ws, threshold. rewrite total_unit. now apply threshold_unit. Qed.

(* counting the members of a duplicate-free list of indices below n *)
Lemma count_mem n (l : list nat) : NoDup l -> (forall x, In x l -> x < n) ->
  length (filter (fun v => existsb (Nat.eqb v) l) (seq 0 n)) = length l.
Proof.
  intros ND R. apply Permutation_length. apply NoDup_Permutation.
  - apply NoDup_filter. apply seq_NoDup.
  - exact ND.
  - intro x. rewrite filter_In, in_seq, existsb_exists. split.
    + intros [_ [y [I E]]]. apply Nat.eqb_eq in E. now subst.
    + intro I. split; [specialize (R x I); lia|]. exists x. split; [exact I|apply Nat.eqb_refl].
Qed.

Section Bridge.
Variable e : env.
Variable st : vstate.
Variable sg : stage.
Hypothesis W : wf_stage e st sg.
Hypothesis NV : 0 < e_voters e.

Let S := spec_votes st sg.

Lemma in_spec_votes x : In x S <->
  (exists p, In p (votes_of st sg) /\ x = mkVote (fst p) (gv_block (snd p)) 0) \/
  (exists p, In p (eqv_of st sg) /\ (x = mkVote (fst p) 0 1 \/ x = mkVote (fst p) 0 2)).
Proof.
  unfold S, spec_votes. rewrite in_app_iff, in_map_iff, in_flat_map. split.
  - intros [[p [E I]]|[p [I H]]]; [left; exists p; auto|right; exists p].
    split; [exact I|]. cbn in H. destruct H as [<-|[<-|[]]]; auto.
  - intros [[p [I ->]]|[p [I H]]]; [left; exists p; auto|right; exists p].
    split; [exact I|]. cbn. destruct H as [-> | ->]; auto.
Qed.

Lemma spec_equivocates v : equivocates S v = true <-> In v (keys (eqv_of st sg)).
Proof.
  destruct W as [ND [NDE [DJ _]]]. rewrite equivocates_spec. split.
  - intros [x [y [Ix [Iy [Vx [Vy N]]]]]].
    apply in_spec_votes in Ix. apply in_spec_votes in Iy.
    destruct Ix as [[p [Ip ->]]|[p [Ip Hp]]].
    2:{ apply in_map_iff. exists p. split; [|exact Ip]. destruct Hp as [-> | ->]; exact Vx. }
    destruct Iy as [[q [Iq ->]]|[q [Iq Hq]]].
    2:{ apply in_map_iff. exists q. split; [|exact Iq]. destruct Hq as [-> | ->]; exact Vy. }
    (* two stored votes of one authority: the same entry *)
    exfalso. cbn in Vx, Vy. subst v.
    assert (p = q).
    { destruct p as [a g], q as [a' g']. cbn in Vy. subst a'.
      clear - ND Ip Iq. induction (votes_of st sg) as [|[k h] r IH]; [destruct Ip|].
      cbn in ND. inversion ND as [|? ? NI ND']; subst.
      destruct Ip as [Ep|Ip], Iq as [Eq|Iq].
      - congruence.
      - injection Ep as -> ->. exfalso. apply NI. apply in_map_iff. exists (a, g'). auto.
      - injection Eq as -> ->. exfalso. apply NI. apply in_map_iff. exists (a, g). auto.
      - auto. }
    subst q. unfold same_vote in N. cbn in N. rewrite !Nat.eqb_refl in N. discriminate.
  - intro I. apply in_map_iff in I. destruct I as [p [<- I]].
    exists (mkVote (fst p) 0 1), (mkVote (fst p) 0 2). repeat split.
    + apply in_spec_votes. right. exists p. auto.
    + apply in_spec_votes. right. exists p. auto.
Qed.

Lemma spec_votes_for v b : ~ In v (keys (eqv_of st sg)) ->
  (votes_for (e_tree e) S v b = true <-> exists g, In (v, g) (votes_of st sg) /\ anc (e_tree e) b (gv_block g)).
Proof.
  intro NE. rewrite votes_for_spec. split.
  - intros [x [Ix [Vx A]]]. apply in_spec_votes in Ix. destruct Ix as [[p [Ip ->]]|[p [Ip Hp]]].
    + cbn in Vx, A. exists (snd p). subst v. destruct p; auto.
    + exfalso. apply NE. apply in_map_iff. exists p. split; [|exact Ip]. destruct Hp as [-> | ->]; exact Vx.
  - intros [g [I A]]. exists (mkVote v (gv_block g) 0). repeat split; auto.
    apply in_spec_votes. left. exists (v, g). auto.
Qed.

(* getTotalVotesForBlock = the weight of the block in the specification, with unit weights *)
Lemma total_votes_weight b :
  total_votes e st sg b = weight (e_tree e) (unit_ws e) S b.
Proof.
  clear NV. destruct W as [ND [NDE [DJ [RV RE]]]].
  unfold total_votes, votes_for_block, weight, unit_ws, wsum. rewrite wsum_from_unit.
  set (isE := fun v => existsb (Nat.eqb v) (keys (eqv_of st sg))).
  set (okv := fun p : nat * gvote => ancb (e_tree e) b (gv_block (snd p))).
  set (isV := fun v => existsb (Nat.eqb v) (keys (filter okv (votes_of st sg)))).
  assert (EQ : forall v, supports (e_tree e) S v b = isE v || isV v).
  { intro v. unfold supports, isE, isV.
    destruct (existsb (Nat.eqb v) (keys (eqv_of st sg))) eqn:E.
    - apply existsb_exists in E. destruct E as [y [I Ey]]. apply Nat.eqb_eq in Ey. subst y.
      apply spec_equivocates in I. now rewrite I.
    - assert (NE : ~ In v (keys (eqv_of st sg))).
      { intro I. assert (existsb (Nat.eqb v) (keys (eqv_of st sg)) = true); [|congruence].
        apply existsb_exists. exists v. split; [exact I|apply Nat.eqb_refl]. }
      destruct (equivocates S v) eqn:Q; [apply spec_equivocates in Q; contradiction|]. cbn [orb].
      destruct (votes_for (e_tree e) S v b) eqn:VF.
      + symmetry. apply (spec_votes_for v b NE) in VF. destruct VF as [g [I A]].
        apply existsb_exists. exists v. split; [|apply Nat.eqb_refl].
        apply in_map_iff. exists (v, g). split; [reflexivity|]. apply filter_In. split; [exact I|].
        unfold okv. cbn. now apply ancb_spec.
      + symmetry. destruct (existsb (Nat.eqb v) (keys (filter okv (votes_of st sg)))) eqn:X; [|reflexivity].
        apply existsb_exists in X. destruct X as [y [I Ey]]. apply Nat.eqb_eq in Ey. subst y.
        apply in_map_iff in I. destruct I as [[v' g] [Ev I]]. cbn in Ev. subst v'.
        apply filter_In in I. destruct I as [I O]. unfold okv in O. cbn in O. apply ancb_spec in O.
        assert (votes_for (e_tree e) S v b = true); [|congruence].
        apply (spec_votes_for v b NE). eauto. }
  rewrite (filter_ext _ _ EQ).
  (* disjoint union *)
  assert (DIS : forall v, isE v = true -> isV v = false).
  { intros v HE. unfold isE, isV in *. apply existsb_exists in HE. destruct HE as [y [I Ey]].
    apply Nat.eqb_eq in Ey. subst y.
    destruct (existsb (Nat.eqb v) (keys (filter okv (votes_of st sg)))) eqn:X; [|reflexivity].
    apply existsb_exists in X. destruct X as [y [J Ey]]. apply Nat.eqb_eq in Ey. subst y.
    exfalso. apply (DJ v); [|exact I]. apply in_map_iff in J. destruct J as [p [Ep J]].
    apply filter_In in J. apply in_map_iff. exists p. tauto. }
  assert (LEN : forall l, length (filter (fun v => isE v || isV v) l) = length (filter isE l) + length (filter isV l)).
  { induction l as [|a l IH]; [reflexivity|]. cbn [filter].
    destruct (isE a) eqn:Ea; cbn [orb].
    - rewrite (DIS a Ea). cbn [length]. lia.
    - destruct (isV a); cbn [length]; lia. }
  rewrite LEN. unfold isE, isV.
  rewrite (count_mem (e_voters e) (keys (eqv_of st sg)) NDE RE).
  rewrite (count_mem (e_voters e) (keys (filter okv (votes_of st sg)))).
  - unfold keys. rewrite !map_length. lia.
  - clear - ND. induction (votes_of st sg) as [|[k g] r IH]; [constructor|].
    cbn in ND. inversion ND as [|? ? NI ND']; subst. cbn [filter].
    destruct (okv (k, g)); [|auto]. cbn. constructor; [|auto].
    intro I. apply NI. apply in_map_iff in I. destruct I as [p [Ep I]]. apply filter_In in I.
    apply in_map_iff. exists p. tauto.
  - intros x I. apply RV. apply in_map_iff in I. destruct I as [p [Ep I]]. apply filter_In in I.
    apply in_map_iff. exists p. tauto.
Qed.

(* "more than floor(2n/3) votes" is the specification's supermajority *)
Lemma over_threshold_supermajority b :
  (threshold e <? total_votes e st sg b)%N = spec_supermajority e st sg b.
Proof.
  unfold spec_supermajority, has_supermajority. rewrite (threshold_spec e NV), total_votes_weight.
  fold S. destruct (N.ltb_spec (threshold e) (weight (e_tree e) (unit_ws e) S b));
  destruct (N.leb_spec (threshold e + 1) (weight (e_tree e) (unit_ws e) S b)); lia.
Qed.

End Bridge.
