From Coq Require Import Extraction ExtrOcamlBasic.
From Common Require Import Bytes Drv Outcome.
From Grandpa Require Import Tree Votes RoundSpec.
From C21 Require Import Model Spec.
Extraction "model.ml" drv_b2n drv_n2b drv_z_of_n drv_n_of_z drv_nat_of_n drv_n_of_nat
  mkEnv mkGV mkSt mkMsg validate_vote_message store_own prevoted_block determine_precommit
  best_final_candidate attempt_to_finalize possible_selected_blocks total_votes threshold number
  known numbers_clean no_tie prevote_candidates hash_conflict
  spec_ghost spec_tolerant spec_supermajority spec_target msg_ok stored_ok precommit_ok finalise_ok
  no_prevote_supermajority_guard depth ancb lca determine_prevote lookup.
