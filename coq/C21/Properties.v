(* C21/Properties.v -- property C21: the voter's vote choices and finalisation follow
   GRANDPA-GHOST.  Statements only.

   Model.v mirrors lib/grandpa function by function, with the three repairs
   C21-vote-number-unchecked, C21-precommit-cap-wrong-fork and C21-ghost-misses-unvoted-fork-point;
   the pinned behaviour is kept as the [false] instances of the flags / the _prefix definitions
   and refuted below.  Spec.v states what the property demands over
   the GRANDPA specification of Grandpa/ (the same [ghost], [has_supermajority] as C20, with unit
   weights).  The theorems hold for every block tree, every number of voters and every state that
   a history of received vote messages can produce (no bound). *)
From Coq Require Import List NArith.
From Common Require Import Outcome.
From Grandpa Require Import Tree Votes RoundSpec.
From C21 Require Import Model Spec Proofs Proofs2 Proofs3 Proofs4.
Import ListNotations.

(* ---- the vote filter -------------------------------------------------------------------- *)
(* A vote message is stored (counted) only if it is well signed, for the current set and round,
   from an authority, for a known block, carries that block's number and descends from the
   finalised head. *)
Theorem C21_filter : forall e st m st',
  validate_vote_message true e st m = (0, st') -> msg_ok e st m = true.
Proof. exact accepted_ok. Qed.
Print Assumptions C21_filter.

(* A message that is not accepted changes nothing, except that a second, different vote of an
   authority makes it an equivocator. *)
Theorem C21_rejected_unchanged : forall cn e st m c st',
  validate_vote_message cn e st m = (c, st') -> c <> 0 -> c <> err_equivocation -> st' = st.
Proof. exact rejected_unchanged. Qed.
Print Assumptions C21_rejected_unchanged.

(* Over all histories: starting from the empty round state, whatever messages arrive in whatever
   order, every stored vote is one the property allows, each authority has at most one stored vote
   per stage and is never both stored and an equivocator. *)
Theorem C21_filter_histories : forall e head ms,
  let st := run_messages true e (init_state head) ms in
  wf e st /\ stored_ok e st = true /\ s_head st = head.
Proof.
  intros e head ms. apply (run_messages_inv e ms (init_state head)); [apply wf_init|reflexivity].
Qed.
Print Assumptions C21_filter_histories.

(* the pinned validateVote never compared vote.Number with the header *)
Theorem C21_filter_prefix_refuted :
  exists e st m st', validate_vote_message false e st m = (0, st') /\ msg_ok e st m = false.
Proof. exact accepted_ok_prefix_refuted. Qed.
Print Assumptions C21_filter_prefix_refuted.

(* ---- tallies ---------------------------------------------------------------------------- *)
(* getTotalVotesForBlock is the specification's weight (descendants and equivocators counted), and
   "more than floor(2n/3)" is the specification's supermajority. *)
Theorem C21_totals_are_weights : forall e st sg b, wf_stage e st sg ->
  total_votes e st sg b = weight (e_tree e) (unit_ws e) (spec_votes st sg) b.
Proof. intros e st sg b W. exact (total_votes_weight e st sg W b). Qed.
Print Assumptions C21_totals_are_weights.

Theorem C21_threshold_is_supermajority : forall e st sg b, wf_stage e st sg -> 0 < e_voters e ->
  (threshold e <? total_votes e st sg b)%N = spec_supermajority e st sg b.
Proof. intros e st sg b W NV. exact (over_threshold_supermajority e st sg W NV b). Qed.
Print Assumptions C21_threshold_is_supermajority.

(* ---- the pre-commit target -------------------------------------------------------------- *)
(* Whenever some block has more than 2/3 of the prevotes (descendants and equivocators counted;
   stored votes as the filter leaves them; equivocators within the tolerance, so that "the highest
   such block" is well defined -- C20_ghost_unique), getPreVotedBlock answers the highest such
   block, for every iteration order of the Go maps the model abstracts from ... *)
Theorem C21_prevoted_is_ghost : forall e st g,
  wf e st -> stored_ok e st = true -> 0 < e_voters e -> in_tree (e_tree e) (s_head st) ->
  spec_tolerant e st Prevote = true -> spec_ghost e st Prevote = Some g ->
  prevoted_block e st = Ok (mkGV g (number e g)).
Proof. intros e st g W SO NV HK TOL GH. exact (prevoted_is_ghost e st W SO NV HK g TOL GH). Qed.
Print Assumptions C21_prevoted_is_ghost.

(* ... and determinePreCommit answers that block capped at the pending authority change: its
   ancestor at the height of the change when it lies above it. *)
Theorem C21_precommit_target : forall e st g,
  wf e st -> stored_ok e st = true -> 0 < e_voters e -> in_tree (e_tree e) (s_head st) ->
  spec_tolerant e st Prevote = true -> spec_ghost e st Prevote = Some g ->
  exists tg, spec_target e st = Some tg /\ anc (e_tree e) tg g /\
             determine_precommit true e st = Ok (mkGV tg (number e tg)).
Proof.
  intros e st g W SO NV HK TOL GH.
  destruct (target_defined e st g GH) as [tg [T A]]. exists tg. split; [exact T|]. split; [exact A|].
  pose proof (precommit_is_target e st W SO NV HK g TOL GH) as P. now rewrite T in P.
Qed.
Print Assumptions C21_precommit_target.

(* the pinned getPossibleSelectedBlocks (before fix C21-ghost-misses-unvoted-fork-point) returned as
   soon as a directly voted block qualified: 7 voters, block 1 has 5 votes through its forks (3
   below it + 2 equivocators) but is not a vote target, block 0 is one: the answer was block 0 *)
Theorem C21_ghost_prefix_refuted :
  wf ex_env ex_st /\ stored_ok ex_env ex_st = true /\ spec_tolerant ex_env ex_st Prevote = true /\
  spec_ghost ex_env ex_st Prevote = Some 1 /\
  prevoted_block_prefix ex_env ex_st = Some (mkGV 0 0%N) /\
  prevoted_block ex_env ex_st = Ok (mkGV 1 1%N).
Proof. exact ghost_prefix_refuted. Qed.
Print Assumptions C21_ghost_prefix_refuted.

(* the pinned determinePreCommit resolved the cap on the best chain: block 3 instead of block 5 *)
Theorem C21_precommit_cap_prefix_refuted :
  let e := mkEnv [0;1;2;3;2;5] 1 4 (Some 3%N) 0 in
  let st := mkSt [(0, mkGV 6 4%N)] [] [] [] 0 in
  spec_target e st = Some 5 /\ determine_precommit true e st = Ok (mkGV 5 3%N) /\
  determine_precommit false e st = Ok (mkGV 3 3%N) /\ ancb (e_tree e) 3 6 = false.
Proof. vm_compute. repeat split; reflexivity. Qed.
Print Assumptions C21_precommit_cap_prefix_refuted.

(* ---- from the received votes ------------------------------------------------------------ *)
(* After any history of events -- vote messages of every kind in any order, and the node's own
   vote of the stage cast once -- the stored votes stand for exactly the set of received votes the
   property allows to be counted ([received]: well signed, current set and round, from an
   authority other than the node, known block with its number, descending from the finalised head;
   plus the node's own vote): the same voters equivocate and every voter supports the same blocks. *)
Theorem C21_state_abstraction : forall e head sg evs,
  (forall ev, In ev evs -> own_ok e head ev) -> own_once sg evs ->
  let st := run_events e (init_state head) evs in
  wf e st /\ s_head st = head /\
  (forall v, equivocates (spec_votes st sg) v = equivocates (received e head sg evs) v) /\
  (forall v b, supports (e_tree e) (spec_votes st sg) v b = supports (e_tree e) (received e head sg evs) v b).
Proof. exact state_abstraction. Qed.
Print Assumptions C21_state_abstraction.

(* End to end, the sentence of the property: for every block tree, authority set and history of
   received votes, if some block has more than two thirds of the (counted) prevotes, the node
   pre-commits to the highest such block, capped at a pending authority change. *)
Theorem C21_precommit_from_received : forall e head evs g,
  0 < e_voters e -> in_tree (e_tree e) head ->
  (forall ev, In ev evs -> own_ok e head ev) -> own_once Prevote evs ->
  let R := received e head Prevote evs in
  tolerant (unit_ws e) R = true -> ghost (e_tree e) (unit_ws e) R = Some g ->
  let st := run_events e (init_state head) evs in
  prevoted_block e st = Ok (mkGV g (number e g)) /\
  exists tg, anc (e_tree e) tg g /\ determine_precommit true e st = Ok (mkGV tg (number e tg)) /\
    tg = match e_next_change e with
         | Some nc => if (nc <? number e g)%N
                      then match ancestor_at e g nc with Some a => a | None => g end else g
         | None => g
         end.
Proof. exact precommit_from_received. Qed.
Print Assumptions C21_precommit_from_received.

(* ---- finalisation ----------------------------------------------------------------------- *)
(* attemptToFinalize finalises only a block with more than 2/3 of the precommits that is the
   pre-voted block or one of its ancestors ... *)
Theorem C21_finalises_only_prevoted : forall e st b st',
  wf e st -> 0 < e_voters e ->
  attempt_to_finalize e st = (Ok (Some b), st') ->
  spec_supermajority e st Precommit b = true /\
  (exists p, prevoted_block e st = Ok p /\ anc (e_tree e) b (gv_block p)) /\ s_head st' = b.
Proof. exact finalises_only_prevoted. Qed.
Print Assumptions C21_finalises_only_prevoted.

(* ... and, whenever some block has more than 2/3 of the prevotes, that block is the GRANDPA ghost
   (the precommit target before the cap): the finalised block is the ghost or an ancestor of it *)
Theorem C21_finalises_only_partial : forall e st b st' g,
  wf e st -> stored_ok e st = true -> 0 < e_voters e -> in_tree (e_tree e) (s_head st) ->
  spec_tolerant e st Prevote = true -> spec_ghost e st Prevote = Some g ->
  attempt_to_finalize e st = (Ok (Some b), st') ->
  finalise_ok e st b = true.
Proof. exact finalises_only_partial. Qed.
Print Assumptions C21_finalises_only_partial.

(* without a block with more than 2/3 of the prevotes getPreVotedBlock lowers the threshold and
   attemptToFinalize still finalises (finding finalises-without-prevote-supermajority) *)
Theorem C21_finalises_only_refuted :
  let e := mkEnv [0;0;0;0;0] 3 3 None 2 in
  let st := mkSt [(1, mkGV 5 1%N); (0, mkGV 5 1%N)] [(1, mkGV 5 1%N); (2, mkGV 5 1%N); (0, mkGV 5 1%N)] [] [] 0 in
  stored_ok e st = true /\ no_prevote_supermajority_guard e st = true /\
  fst (attempt_to_finalize e st) = Ok (Some 5) /\ finalise_ok e st 5 = false.
Proof. vm_compute. repeat split; reflexivity. Qed.
Print Assumptions C21_finalises_only_refuted.

(* ---- the node's own prevote (determinePreVote) -------------------------------------------- *)
(* The property text does not constrain the prevote.  What the code guarantees (without a pending
   authority change, best block descending from the finalised head as dot/state ensures): the
   prevote is a known block carrying its own number that descends from the node's finalised head
   -- the primary's stored vote when its number is not below the head, else the best block.
   Nothing ties it to the previous round's estimate: that is C22's finding
   round-advance-ignores-estimate (C22/ModelImpl.v follows_finalised is this fact). *)
Theorem C21_prevote_descends_from_head : forall e st primary g,
  e_next_change e = None -> stored_ok e st = true ->
  known e (e_best e) = true -> anc (e_tree e) (s_head st) (e_best e) ->
  determine_prevote e st primary = Ok g ->
  known e (gv_block g) = true /\ gv_num g = number e (gv_block g) /\
  anc (e_tree e) (s_head st) (gv_block g).
Proof. exact prevote_descends_from_head. Qed.
Print Assumptions C21_prevote_descends_from_head.

(* ---- "capped at a pending authority change", from the property text ----------------------- *)
(* For EVERY state (no hypothesis on the votes): whatever determinePreCommit answers while a change
   is pending at height nc carries a number <= nc; it is the pre-voted block itself or, when that
   lies above the change, one of its ancestors (with its own number). *)
Theorem C21_precommit_never_above_change : forall e st g nc,
  e_next_change e = Some nc -> determine_precommit true e st = Ok g ->
  (gv_num g <= nc)%N /\
  exists pvb, prevoted_block e st = Ok pvb /\
    (g = pvb \/ ((nc < gv_num pvb)%N /\ anc (e_tree e) (gv_block g) (gv_block pvb) /\
                 gv_num g = number e (gv_block g))).
Proof. exact precommit_capped. Qed.
Print Assumptions C21_precommit_never_above_change.

(* determinePreVote obeys the same bound, but resolves the cap with GetHeaderByNumber, i.e. ON THE
   BEST CHAIN: the capped answer is the best chain's block of the change height -- not necessarily an
   ancestor of the primary's block it started from (C21_prevote_cap_other_fork). *)
Theorem C21_prevote_never_above_change : forall e st primary g nc,
  e_next_change e = Some nc -> determine_prevote e st primary = Ok g ->
  (gv_num g <= nc)%N /\
  (g = uncapped_prevote e st primary \/
   ((nc < gv_num (uncapped_prevote e st primary))%N /\ gv_num g = nc /\
    gv_num g = number e (gv_block g) /\ anc (e_tree e) (gv_block g) (e_best e))).
Proof. exact prevote_capped. Qed.
Print Assumptions C21_prevote_never_above_change.

Example C21_prevote_cap_other_fork :
  let e := mkEnv [0;1;0;3] 4 2 (Some 1%N) 0 in
  let st := mkSt [(1, mkGV 4 2%N)] [] [] [] 0 in
  determine_prevote e st 1 = Ok (mkGV 1 1%N) /\ ancb (e_tree e) 1 4 = false /\ ancb (e_tree e) 3 4 = true.
Proof. exact prevote_cap_other_fork. Qed.

(* the reading of "an ancestor of that target" for finalisation: lib/grandpa does NOT cap
   finalisation (C21_finalises_only_partial is stated with the uncapped ghost): with > 2/3 of the
   precommits above a pending change the node finalises above it, while it pre-commits at it *)
Example C21_finalisation_not_capped :
  let e := mkEnv [0;1] 4 2 (Some 1%N) 2 in
  let st := mkSt [(0, mkGV 2 2%N); (1, mkGV 2 2%N); (2, mkGV 2 2%N); (3, mkGV 2 2%N)]
                 [(0, mkGV 2 2%N); (1, mkGV 2 2%N); (2, mkGV 1 1%N); (3, mkGV 2 2%N)] [] [] 0 in
  determine_precommit true e st = Ok (mkGV 1 1%N) /\ fst (attempt_to_finalize e st) = Ok (Some 2).
Proof. exact finalisation_not_capped. Qed.

(* ---- non-vacuity ------------------------------------------------------------------------- *)
(* 4 voters; prevotes 3, 3, 4 on the chain 0-1-2-3-4: ghost 3; a change pending at height 2 caps the
   pre-commit at block 2; precommits 2, 3, 3 finalise block 2 *)
Example C21_nonvacuous :
  let e := mkEnv [0;1;2;3] 4 4 (Some 2%N) 3 in
  let st0 := run_messages true e (init_state 0)
     [mkMsg RoundCurrent true Prevote 0 true (mkGV 3 3%N); mkMsg RoundCurrent true Prevote 1 true (mkGV 3 3%N);
      mkMsg RoundCurrent true Prevote 2 true (mkGV 4 4%N); mkMsg RoundCurrent true Prevote 2 true (mkGV 4 9%N);
      mkMsg RoundCurrent true Precommit 0 true (mkGV 2 2%N); mkMsg RoundCurrent true Precommit 1 true (mkGV 3 3%N);
      mkMsg RoundCurrent true Precommit 2 true (mkGV 3 3%N)] in
  spec_ghost e st0 Prevote = Some 3 /\ ghost_missed_guard e st0 = false /\
  prevoted_block e st0 = Ok (mkGV 3 3%N) /\ determine_precommit true e st0 = Ok (mkGV 2 2%N) /\
  fst (attempt_to_finalize e st0) = Ok (Some 2).
Proof. vm_compute. repeat split; reflexivity. Qed.
