(* C21/Properties.v -- placeholder while the pipeline is brought up *)
From Coq Require Import List NArith.
From C21 Require Import Model Spec.
Theorem C21_placeholder : True. Proof. exact I. Qed.
Print Assumptions C21_placeholder.
