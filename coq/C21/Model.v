(* C21/Model.v -- executable mirror of the vote handling and vote selection of lib/grandpa
   (definitions only).  Mirrors, function by function:
     vote_message.go  validateVoteMessage, validateVote, checkAndReportEquivocation
     grandpa.go       getDirectVotes, getVotesForBlock, getTotalVotesForBlock,
                      getPossibleSelectedBlocks, getPossibleSelectedAncestors, getPreVotedBlock,
                      getGrandpaGHOST, getBestFinalCandidate, determinePreCommit,
                      retrieveBestFinalCandidate, attemptToFinalize (+ the effect of finalise)
     types.go         State.threshold
   Blocks are the nodes of an explicit tree (Grandpa.Tree); block 0 is the genesis block (number
   0) and the root of the block tree; a block id >= size of the tree is a hash the node does not
   know.  Voters are indices; an index >= number of voters is a key that is not an authority.
   Go's maps are association lists here; where the Go result depends on the map iteration order
   the model computes one of the possible results and [determinate] is false. *)
From Coq Require Import List Arith Bool NArith.
From Common Require Import Outcome.
From Grandpa Require Import Tree.
Import ListNotations.

(* ---- environment (what the BlockState / GrandpaState answer) ---- *)
Record env := mkEnv {
  e_tree : tree;
  e_voters : nat;            (* len(s.state.voters) *)
  e_best : block;            (* head of the best chain (GetHeaderByNumber walks it) *)
  e_next_change : option N;  (* NextGrandpaAuthorityChange: Some height | None = ErrNoNextAuthorityChange *)
  e_self : nat               (* index of the node's own key *)
}.

Definition known (e : env) (b : block) : bool := (b <? size (e_tree e))%nat.
Definition number (e : env) (b : block) : N := N.of_nat (depth (e_tree e) b).

(* blocktree.LowestCommonAncestor *)
Definition lca (t : tree) (a b : block) : block :=
  match find (fun x => ancb t x b) (chain t a) with Some x => x | None => 0%nat end.

(* types.GrandpaVote{Hash, Number} *)
Record gvote := mkGV { gv_block : block; gv_num : N }.
Definition gv_eqb (a b : gvote) : bool := (gv_block a =? gv_block b)%nat && (gv_num a =? gv_num b)%N.

Inductive stage := Prevote | Precommit | PrimaryProposal.

(* ---- service state ---- *)
Record vstate := mkSt {
  s_pv : list (nat * gvote);      (* s.prevotes: authority -> vote *)
  s_pc : list (nat * gvote);      (* s.precommits *)
  s_pv_eq : list (nat * nat);     (* s.pvEquivocations: authority -> number of recorded votes *)
  s_pc_eq : list (nat * nat);     (* s.pcEquivocations *)
  s_head : block                  (* s.head: latest finalised block *)
}.

Definition votes_of (st : vstate) (sg : stage) : list (nat * gvote) :=
  match sg with Precommit => s_pc st | _ => s_pv st end.
Definition eqv_of (st : vstate) (sg : stage) : list (nat * nat) :=
  match sg with Precommit => s_pc_eq st | _ => s_pv_eq st end.

(* State.threshold: floor(2 * len(voters) / 3) *)
Definition threshold (e : env) : N := N.of_nat (2 * e_voters e / 3).

(* ---- association lists ---- *)
Fixpoint lookup {A} (k : nat) (l : list (nat * A)) : option A :=
  match l with [] => None | (k', a) :: r => if (k' =? k)%nat then Some a else lookup k r end.
Fixpoint remove_key {A} (k : nat) (l : list (nat * A)) : list (nat * A) :=
  match l with [] => [] | (k', a) :: r => if (k' =? k)%nat then remove_key k r else (k', a) :: remove_key k r end.
(* sync.Map.Store / map assignment: replace in place or append *)
Fixpoint store {A} (k : nat) (a : A) (l : list (nat * A)) : list (nat * A) :=
  match l with
  | [] => [(k, a)]
  | (k', a') :: r => if (k' =? k)%nat then (k, a) :: r else (k', a') :: store k a r
  end.

(* ---- validateVoteMessage ---- *)
Inductive round_kind := RoundCurrent | RoundPrevious | RoundNext | RoundOutOfBounds.

Record vmsg := mkMsg {
  m_round : round_kind;
  m_setid_ok : bool;
  m_stage : stage;
  m_voter : nat;        (* key index; >= e_voters: not an authority *)
  m_sig_ok : bool;      (* ed25519 verdict on the message's own FullVote encoding *)
  m_vote : gvote
}.

(* error classes (the order of the checks is the Go order) *)
Definition err_sig := 1%nat.
Definition err_setid := 2%nat.
Definition err_round_bounds := 3%nat.
Definition err_round := 4%nat.
Definition err_not_voter := 5%nat.
Definition err_self := 6%nat.
Definition err_no_block := 7%nat.
Definition err_not_descendant := 8%nat.
Definition err_equivocation := 9%nat.
Definition err_number := 10%nat.   (* only in the repaired validateVote *)

(* validateVote.  [check_number] = the repaired code compares vote.Number with the header *)
Definition validate_vote (check_number : bool) (e : env) (st : vstate) (v : gvote) : option nat :=
  if negb (known e (gv_block v)) then Some err_no_block
  else if check_number && negb (gv_num v =? number e (gv_block v))%N then Some err_number
  else if negb (ancb (e_tree e) (s_head st) (gv_block v)) then Some err_not_descendant
  else None.

Definition set_votes (st : vstate) (sg : stage) (l : list (nat * gvote)) : vstate :=
  match sg with
  | Precommit => mkSt (s_pv st) l (s_pv_eq st) (s_pc_eq st) (s_head st)
  | _ => mkSt l (s_pc st) (s_pv_eq st) (s_pc_eq st) (s_head st)
  end.
Definition set_eqv (st : vstate) (sg : stage) (l : list (nat * nat)) : vstate :=
  match sg with
  | Precommit => mkSt (s_pv st) (s_pc st) (s_pv_eq st) l (s_head st)
  | _ => mkSt (s_pv st) (s_pc st) l (s_pc_eq st) (s_head st)
  end.

(* checkAndReportEquivocation: Some st' = ErrEquivocation with the updated state *)
Definition check_equivocation (st : vstate) (sg : stage) (voter : nat) (v : gvote) : option vstate :=
  match lookup voter (eqv_of st sg) with
  | Some k => Some (set_eqv st sg (store voter (S k) (eqv_of st sg)))
  | None =>
    match lookup voter (votes_of st sg) with
    | None => None
    | Some old =>
      if (gv_block old =? gv_block v)%nat then None
      else Some (set_eqv (set_votes st sg (remove_key voter (votes_of st sg))) sg
                         (store voter 2%nat (eqv_of st sg)))
    end
  end.

(* returns the error class (0 = accepted and stored) and the new state *)
Definition validate_vote_message (check_number : bool) (e : env) (st : vstate) (m : vmsg) : nat * vstate :=
  if negb (m_sig_ok m) then (err_sig, st)
  else if negb (m_setid_ok m) then (err_setid, st)
  else match m_round m with
  | RoundOutOfBounds => (err_round_bounds, st)
  | RoundPrevious | RoundNext => (err_round, st)
  | RoundCurrent =>
    if negb (m_voter m <? e_voters e)%nat then (err_not_voter, st)
    else if (m_voter m =? e_self e)%nat then (err_self, st)
    else match validate_vote check_number e st (m_vote m) with
    | Some c => (c, st)
    | None =>
      match check_equivocation st (m_stage m) (m_voter m) (m_vote m) with
      | Some st' => (err_equivocation, st')
      | None => (0%nat, set_votes st (m_stage m) (store (m_voter m) (m_vote m) (votes_of st (m_stage m))))
      end
    end
  end.

(* the node's own vote is stored directly (votingRoundHandler) *)
Definition store_own (e : env) (st : vstate) (sg : stage) (v : gvote) : vstate :=
  set_votes st sg (store (e_self e) v (votes_of st sg)).

(* ---- tallies ---- *)
(* getVotesForBlock: stored votes for b or a descendant of b *)
Definition votes_for_block (e : env) (st : vstate) (sg : stage) (b : block) : N :=
  N.of_nat (length (filter (fun p => ancb (e_tree e) b (gv_block (snd p))) (votes_of st sg))).
(* getTotalVotesForBlock *)
Definition total_votes (e : env) (st : vstate) (sg : stage) (b : block) : N :=
  (votes_for_block e st sg b + N.of_nat (length (eqv_of st sg)))%N.

(* getDirectVotes / getVotes: the distinct votes *)
Fixpoint dedup (l : list gvote) : list gvote :=
  match l with
  | [] => []
  | v :: r => if existsb (gv_eqb v) r then dedup r else v :: dedup r
  end.
Definition direct_votes (st : vstate) (sg : stage) : list gvote := dedup (map snd (votes_of st sg)).

(* map[common.Hash]uint32 assignment *)
Definition bset (b : block) (n : N) (m : list (block * N)) : list (block * N) := store b n m.

(* getPossibleSelectedAncestors.  [sa_loop] is the range-loop over votes for one value of curr;
   [rec] is the recursive call (for the common ancestor pred).  The recursion goes to a strict
   ancestor, whose index is smaller: fuel = index + 1 suffices. *)
Fixpoint sa_loop (e : env) (st : vstate) (sg : stage) (thr : N)
    (rec : block -> list (block * N) -> list (block * N))
    (curr : block) (vs : list gvote) (selected : list (block * N)) : list (block * N) :=
  match vs with
  | [] => selected
  | v :: r =>
    if (gv_block v =? curr)%nat then sa_loop e st sg thr rec curr r selected
    else
      let pred := lca (e_tree e) (gv_block v) curr in
      if (pred =? curr)%nat then selected      (* return from inside the loop *)
      else if (thr <? total_votes e st sg pred)%N
           then sa_loop e st sg thr rec curr r (bset pred (number e pred) selected)
           else sa_loop e st sg thr rec curr r (rec pred selected)
  end.

Fixpoint selected_ancestors (e : env) (st : vstate) (sg : stage) (thr : N) (fuel : nat)
    (votes : list gvote) (curr : block) (selected : list (block * N)) : list (block * N) :=
  match fuel with
  | O => selected
  | S fuel' => sa_loop e st sg thr (selected_ancestors e st sg thr fuel' votes) curr votes selected
  end.

(* the pairwise pass of the repaired getPossibleSelectedBlocks (fix C21-ghost-misses-unvoted-fork-
   point): the lowest common ancestor of every two voted blocks is a candidate *)
Fixpoint pair_pass_inner (e : env) (st : vstate) (sg : stage) (thr : N) (a : gvote) (vs : list gvote)
    (m : list (block * N)) : list (block * N) :=
  match vs with
  | [] => m
  | b :: r =>
    let pred := lca (e_tree e) (gv_block a) (gv_block b) in
    let m' := if existsb (fun p => (fst p =? pred)%nat) m then m
              else if (thr <? total_votes e st sg pred)%N then bset pred (number e pred) m else m in
    pair_pass_inner e st sg thr a r m'
  end.
Fixpoint pair_pass (e : env) (st : vstate) (sg : stage) (thr : N) (vs : list gvote)
    (m : list (block * N)) : list (block * N) :=
  match vs with
  | [] => m
  | a :: r => pair_pass e st sg thr r (pair_pass_inner e st sg thr a r m)
  end.

(* getPossibleSelectedBlocks.  [pairs] = with the pairwise pass (the repaired code) *)
Definition possible_selected_blocks_gen (pairs : bool) (e : env) (st : vstate) (sg : stage) (thr : N)
    : list (block * N) :=
  let votes := direct_votes st sg in
  let direct := fold_left (fun m v => if (thr <? total_votes e st sg (gv_block v))%N
                                      then bset (gv_block v) (gv_num v) m else m) votes [] in
  let direct := if pairs then pair_pass e st sg thr votes direct else direct in
  match direct with
  | _ :: _ => direct
  | [] => fold_left (fun m v => selected_ancestors e st sg thr (S (gv_block v)) votes (gv_block v) m) votes []
  end.
Definition possible_selected_blocks := possible_selected_blocks_gen true.

(* the "find the one with the highest number" loops *)
Definition highest (start : gvote) (m : list (block * N)) : gvote :=
  fold_left (fun h p => if (gv_num h <? snd p)%N then mkGV (fst p) (snd p) else h) m start.

Definition err_no_ghost := 20%nat.
Definition err_before_finalized := 21%nat.
Definition err_header_by_number := 22%nat.

(* getGrandpaGHOST: lower the threshold until some block qualifies *)
Fixpoint grandpa_ghost_loop (e : env) (st : vstate) (fuel : nat) (thr : N) : list (block * N) :=
  let blocks := possible_selected_blocks e st Prevote thr in
  match blocks with
  | _ :: _ => blocks
  | [] => match fuel with
          | O => []
          | S f => if (thr =? 0)%N then [] else grandpa_ghost_loop e st f (thr - 1)%N
          end
  end.

Definition grandpa_ghost (e : env) (st : vstate) : outcome gvote :=
  match grandpa_ghost_loop e st (S (N.to_nat (threshold e))) (threshold e) with
  | [] => Err err_no_ghost
  | m => Ok (highest (mkGV (s_head st) (number e (s_head st))) m)
  end.

(* getPreVotedBlock *)
Definition prevoted_block (e : env) (st : vstate) : outcome gvote :=
  match possible_selected_blocks e st Prevote (threshold e) with
  | [] => grandpa_ghost e st
  | [(h, n)] => Ok (mkGV h n)
  | m => Ok (highest (mkGV (s_head st) (number e (s_head st))) m)
  end.

(* getPreVotedBlock of the pinned code (no pairwise pass), when some block qualifies: kept for the
   refutation witness *)
Definition prevoted_block_prefix (e : env) (st : vstate) : option gvote :=
  match possible_selected_blocks_gen false e st Prevote (threshold e) with
  | [] => None
  | [(h, n)] => Some (mkGV h n)
  | m => Some (highest (mkGV (s_head st) (number e (s_head st))) m)
  end.

(* getBestFinalCandidate *)
Definition best_final_candidate (e : env) (st : vstate) : outcome gvote :=
  obind (prevoted_block e st) (fun prevoted =>
    match possible_selected_blocks e st Precommit (threshold e) with
    | [] => Ok prevoted
    | m =>
      Ok (fold_left (fun bfc p =>
            let '(h, n) := p in
            let '(h, n) := if ancb (e_tree e) h (gv_block prevoted) then (h, n)
                           else let pred := lca (e_tree e) h (gv_block prevoted) in (pred, number e pred) in
            if (gv_num bfc <? n)%N then mkGV h n else bfc) m (mkGV 0%nat 0%N))
    end).

(* BlockState.GetHeaderByNumber: the block of that number on the best chain *)
Definition header_by_number (e : env) (n : N) : option block :=
  find (fun x => (number e x =? n)%N) (chain (e_tree e) (e_best e)).
(* walking the parent hashes from b down to number n (the repaired determinePreCommit) *)
Definition ancestor_by_number (e : env) (b : block) (n : N) : option block :=
  find (fun x => (number e x <=? n)%N) (chain (e_tree e) b).

(* determinePreCommit.  [repaired] = the cap is resolved on the chain of the pre-voted block (fix
   C21-precommit-cap-wrong-fork); the pinned code asked GetHeaderByNumber, i.e. the best chain *)
Definition determine_precommit (repaired : bool) (e : env) (st : vstate) : outcome gvote :=
  obind (prevoted_block e st) (fun pvb =>
    match e_next_change e with
    | None => Ok pvb
    | Some nc =>
      if (nc <? gv_num pvb)%N then
        match (if repaired then ancestor_by_number e (gv_block pvb) nc else header_by_number e nc) with
        | Some b => Ok (mkGV b (number e b))
        | None => Err err_header_by_number
        end
      else Ok pvb
    end).

(* determinePreVote.  [primary] = index of the round's primary (derivePrimary: round mod number of
   voters).  The vote of the primary stored in s.prevotes (its prevote or its primary proposal) is
   taken over when its number is not below the finalised head, else the head of the node's best
   chain; a pending authority change caps the vote at the block of that height ON THE BEST CHAIN
   (GetHeaderByNumber), also when the primary's block is on another fork. *)
Definition determine_prevote (e : env) (st : vstate) (primary : nat) : outcome gvote :=
  let best := mkGV (e_best e) (number e (e_best e)) in
  let vote := match lookup primary (s_pv st) with
              | Some g => if (number e (s_head st) <=? gv_num g)%N then g else best
              | None => best
              end in
  match e_next_change e with
  | None => Ok vote
  | Some nc =>
    if (nc <? gv_num vote)%N then
      match header_by_number e nc with
      | Some b => Ok (mkGV b (number e b))
      | None => Err err_header_by_number
      end
    else Ok vote
  end.

(* attemptToFinalize: Ok None = not finalizable now; Ok (Some b) = finalised b (s.head := b) *)
Definition attempt_to_finalize (e : env) (st : vstate) : outcome (option block) * vstate :=
  match best_final_candidate e st with
  | Ok bfc =>
    if (gv_num bfc <? number e (s_head st))%N then (Err err_before_finalized, st)
    else
      let count := total_votes e st Precommit (gv_block bfc) in
      if (count <=? threshold e)%N then (Ok None, st)
      else (Ok (Some (gv_block bfc)),
            mkSt (s_pv st) (s_pc st) (s_pv_eq st) (s_pc_eq st) (gv_block bfc))
  | Err c => (Err c, st)
  | Panic => (Panic, st)
  | OutOfFuel => (OutOfFuel, st)
  end.

(* ---- when is the Go result independent of the map iteration order? ---- *)
(* two different stored votes for one hash (possible only with a wrong number) make
   blocks[v.Hash] = v.Number order dependent; two qualifying blocks with the same number make
   the "highest" loops order dependent *)
Definition numbers_clean (e : env) (st : vstate) (sg : stage) : bool :=
  forallb (fun p => (gv_num (snd p) =? number e (gv_block (snd p)))%N) (votes_of st sg).

Fixpoint no_tie (m : list (block * N)) : bool :=
  match m with
  | [] => true
  | (b, n) :: r => forallb (fun p => negb ((snd p =? n)%N && negb (fst p =? b)%nat)) r && no_tie r
  end.
