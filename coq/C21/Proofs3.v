(* C21/Proofs3.v -- state abstraction: after any history of vote messages (and the node's own
   vote), the votes the service has stored stand for exactly the SET OF RECEIVED VOTES the
   property allows to be counted: the same voters equivocate and every voter supports the same
   blocks.  Hence the selection theorems of Proofs2.v can be stated over the received votes. *)
From Coq Require Import List Arith Lia Bool NArith ZifyN ZifyNat ZifyBool.
From Common Require Import Outcome.
From Grandpa Require Import Tree Votes RoundSpec RoundProofs.
From C21 Require Import Model Spec Proofs Proofs2.
Import ListNotations.

(* what happens to a voter: a message arrives, or the node casts its own vote of a stage *)
Inductive event := Msg (m : vmsg) | Own (sg : stage) (v : gvote).

Definition apply_event (e : env) (st : vstate) (ev : event) : vstate :=
  match ev with
  | Msg m => snd (validate_vote_message true e st m)
  | Own sg v => store_own e st sg v
  end.
Fixpoint run_events (e : env) (st : vstate) (evs : list event) : vstate :=
  match evs with [] => st | ev :: r => run_events e (apply_event e st ev) r end.

Definition same_stage (sg sg' : stage) : bool := Bool.eqb (stage_key sg) (stage_key sg').

(* the vote an event contributes to the received set of stage sg (sig 0: two votes of a voter are
   different exactly when they name different blocks, as checkAndReportEquivocation compares) *)
Definition contribution (e : env) (head : block) (sg : stage) (ev : event) : option vote :=
  match ev with
  | Msg m => if msg_ok e (init_state head) m && negb (m_voter m =? e_self e)%nat && same_stage (m_stage m) sg
             then Some (mkVote (m_voter m) (gv_block (m_vote m)) 0) else None
  | Own sg' v => if same_stage sg' sg then Some (mkVote (e_self e) (gv_block v) 0) else None
  end.
Fixpoint received (e : env) (head : block) (sg : stage) (evs : list event) : list vote :=
  match evs with
  | [] => []
  | ev :: r => match contribution e head sg ev with
               | Some x => x :: received e head sg r
               | None => received e head sg r
               end
  end.

(* the node's own votes are ones it may cast, and it casts at most one per stage *)
Definition own_ok (e : env) (head : block) (ev : event) : Prop :=
  match ev with
  | Msg _ => True
  | Own sg v => vote_ok e (init_state head) v = true /\ e_self e < e_voters e
  end.
Fixpoint own_once (sg : stage) (evs : list event) : Prop :=
  match evs with
  | [] => True
  | Msg _ :: r => own_once sg r
  | Own sg' _ :: r => (same_stage sg' sg = true -> forall sg'' v, In (Own sg'' v) r -> same_stage sg'' sg = false) /\ own_once sg r
  end.

Section Abstraction.
Variable e : env.
Variable head : block.
Variable sg : stage.
Let t := e_tree e.

(* the invariant between a state and the votes received so far *)
Definition abstracts (st : vstate) (R : list vote) : Prop :=
  wf e st /\ s_head st = head /\
  (forall v, In v (keys (eqv_of st sg)) <-> equivocates R v = true) /\
  (forall v g, In (v, g) (votes_of st sg) -> In (mkVote v (gv_block g) 0) R /\ gv_num g = number e (gv_block g)) /\
  (forall x, In x R -> ~ In (vvoter x) (keys (eqv_of st sg)) ->
     In (vvoter x, mkGV (vblock x) (number e (vblock x))) (votes_of st sg)) /\
  (forall x, In x R -> vsig x = 0 /\ (vvoter x = e_self e \/ True)).

(* the node itself is never recorded as an equivocator (its own messages are refused) *)
Definition self_clean (st : vstate) : Prop := forall sg', ~ In (e_self e) (keys (eqv_of st sg')).

Lemma same_vote_sig0 x y : vsig x = 0 -> vsig y = 0 -> same_vote x y = (vblock x =? vblock y).
Proof. intros A B. unfold same_vote. rewrite A, B. cbn. apply andb_true_r. Qed.

Lemma equivocates_cons_other R x v : vvoter x <> v -> equivocates (x :: R) v = equivocates R v.
Proof.
  intro N. destruct (equivocates R v) eqn:E.
  - apply equivocates_mono with (S := R); [intros y I; now right|exact E].
  - destruct (equivocates (x :: R) v) eqn:E'; [|reflexivity]. exfalso.
    apply equivocates_spec in E'. destruct E' as [a [b [Ia [Ib [Va [Vb NS]]]]]].
    destruct Ia as [<-|Ia]; [congruence|]. destruct Ib as [<-|Ib]; [congruence|].
    assert (equivocates R v = true); [|congruence]. apply equivocates_spec. exists a, b. auto.
Qed.

Lemma in_keys {A} (l : list (nat * A)) k : In k (keys l) <-> exists a, In (k, a) l.
Proof.
  unfold keys. rewrite in_map_iff. split.
  - intros [[k' a] [E I]]. cbn in E. subst. eauto.
  - intros [a I]. exists (k, a). auto.
Qed.

Lemma lookup_some_in {A} k (l : list (nat * A)) a : NoDup (keys l) -> (lookup k l = Some a <-> In (k, a) l).
Proof.
  intro ND. split; [apply lookup_in|].
  induction l as [|[k' a'] r IH]; [intros []|]. cbn [lookup]. inversion ND as [|? ? NI ND']; subst.
  intros [E|I].
  - injection E as -> ->. now rewrite Nat.eqb_refl.
  - destruct (Nat.eqb_spec k' k) as [->|N]; [|auto]. exfalso. apply NI. apply in_keys. eauto.
Qed.

(* a contribution-less event leaves the lists of the stage unchanged *)
Lemma msg_not_counted st m : s_head st = head ->
  (msg_ok e (init_state head) m && negb (m_voter m =? e_self e)%nat && same_stage (m_stage m) sg) = false ->
  votes_of (snd (validate_vote_message true e st m)) sg = votes_of st sg /\
  eqv_of (snd (validate_vote_message true e st m)) sg = eqv_of st sg.
Proof.
  intros HD F. unfold validate_vote_message.
  destruct (m_sig_ok m) eqn:SIG; cbn [negb]; [|auto].
  destruct (m_setid_ok m) eqn:SET; cbn [negb]; [|auto].
  destruct (m_round m) eqn:RD; auto.
  destruct (Nat.ltb_spec (m_voter m) (e_voters e)) as [V|V]; cbn [negb]; [|auto].
  destruct (m_voter m =? e_self e)%nat eqn:SE; [auto|].
  unfold validate_vote.
  destruct (known e (gv_block (m_vote m))) eqn:K; cbn [negb]; [|auto].
  destruct (N.eqb_spec (gv_num (m_vote m)) (number e (gv_block (m_vote m)))) as [NM|NM]; cbn [negb andb]; [|auto].
  destruct (ancb (e_tree e) (s_head st) (gv_block (m_vote m))) eqn:AN; cbn [negb]; [|auto].
  (* the message is fine: it must be for the other stage *)
  assert (OK : msg_ok e (init_state head) m = true).
  { unfold msg_ok, vote_ok. rewrite SIG, SET, RD, K. cbn [s_head init_state]. rewrite <- HD, AN.
    apply N.eqb_eq in NM. rewrite NM. apply Nat.ltb_lt in V. rewrite V. reflexivity. }
  rewrite OK in F. cbn [negb andb] in F.
  unfold same_stage in F.
  destruct (check_equivocation st (m_stage m) (m_voter m) (m_vote m)) as [st2|] eqn:CE; cbn [snd].
  - unfold check_equivocation in CE. destruct (lookup (m_voter m) (eqv_of st (m_stage m))).
    + injection CE as <-. rewrite votes_of_set_eqv, eqv_of_set_eqv, F. auto.
    + destruct (lookup (m_voter m) (votes_of st (m_stage m))); [|discriminate].
      destruct (gv_block g =? gv_block (m_vote m)); [discriminate|]. injection CE as <-.
      rewrite votes_of_set_eqv, votes_of_set_votes, eqv_of_set_eqv, eqv_of_set_votes, F. auto.
  - rewrite votes_of_set_votes, eqv_of_set_votes, F. auto.
Qed.

Lemma abstracts_ext st st' R : abstracts st R -> wf e st' -> s_head st' = head ->
  votes_of st' sg = votes_of st sg -> eqv_of st' sg = eqv_of st sg -> abstracts st' R.
Proof.
  intros [W [HD [I1 [I2 [I3 I4]]]]] W' HD' EV EE. unfold abstracts. rewrite EV, EE. auto 10.
Qed.

(* a counted vote x of voter v arriving in a state that abstracts R *)
Lemma abstracts_add st R v g :
  abstracts st R -> v < e_voters e -> gv_num g = number e (gv_block g) ->
  (* the new state: what validateVoteMessage / store_own do for a counted vote *)
  forall st',
  wf e st' -> s_head st' = head ->
  ( (* already an equivocator: the lists of stored votes are unchanged *)
    (In v (keys (eqv_of st sg)) /\ votes_of st' sg = votes_of st sg /\
       forall u, In u (keys (eqv_of st' sg)) <-> In u (keys (eqv_of st sg)))
    \/ (* a stored vote for another block: becomes an equivocator *)
    (~ In v (keys (eqv_of st sg)) /\ (exists old, In (v, old) (votes_of st sg) /\ gv_block old <> gv_block g) /\
       (forall p, In p (votes_of st' sg) <-> In p (votes_of st sg) /\ fst p <> v) /\
       forall u, In u (keys (eqv_of st' sg)) <-> u = v \/ In u (keys (eqv_of st sg)))
    \/ (* stored (new, or again for the same block) *)
    (~ In v (keys (eqv_of st sg)) /\ (forall old, In (v, old) (votes_of st sg) -> gv_block old = gv_block g) /\
       (forall p, In p (votes_of st' sg) <-> p = (v, g) \/ (In p (votes_of st sg) /\ fst p <> v)) /\
       eqv_of st' sg = eqv_of st sg) ) ->
  abstracts st' (mkVote v (gv_block g) 0 :: R).
Proof.
  intros [W [HD [I1 [I2 [I3 I4]]]]] V NUM st' W' HD' CASES.
  set (x := mkVote v (gv_block g) 0).
  pose proof (wf_any e st sg W) as [ND [NDE [DJ _]]].
  assert (S0 : forall y, In y (x :: R) -> vsig y = 0).
  { intros y [<-|I]; [reflexivity|apply I4, I]. }
  split; [exact W'|]. split; [exact HD'|].
  destruct CASES as [[EQ [EV EE]]|[[NE [[old [IO NB]] [EV EE]]]|[NE [SB [EV EE]]]]].
  - (* already equivocator *)
    assert (EX : equivocates (x :: R) v = true).
    { apply equivocates_mono with (S := R); [intros y I; now right|now apply I1]. }
    split; [|split; [|split]].
    + intro u. rewrite EE. destruct (Nat.eq_dec u v) as [->|N].
      * split; [intros _; exact EX|intros _; exact EQ].
      * rewrite (equivocates_cons_other R x u); [apply I1|cbn; congruence].
    + intros u h I. rewrite EV in I. destruct (I2 u h I) as [A B]. split; [now right|exact B].
    + intros y [<-|I] NI; cbn [vvoter] in *.
      * exfalso. apply NI. apply EE. exact EQ.
      * rewrite EV. apply I3; [exact I|]. intro J. apply NI. now apply EE.
    + intros y I. split; [now apply S0|now right].
  - (* becomes an equivocator *)
    destruct (I2 v old IO) as [IOR _].
    assert (EX : equivocates (x :: R) v = true).
    { apply equivocates_spec. exists (mkVote v (gv_block old) 0), x.
      repeat split; [now right|now left|].
      unfold same_vote. cbn. apply andb_false_iff. left. now apply Nat.eqb_neq. }
    split; [|split; [|split]].
    + intro u. rewrite EE. destruct (Nat.eq_dec u v) as [->|N].
      * split; [intros _; exact EX|intros _; now left].
      * rewrite (equivocates_cons_other R x u); [|cbn; congruence]. rewrite <- I1. intuition congruence.
    + intros u h I. apply EV in I. destruct I as [I _]. destruct (I2 u h I) as [A B]. split; [now right|exact B].
    + intros y [<-|I] NI; cbn [vvoter] in *.
      * exfalso. apply NI. apply EE. now left.
      * assert (NV : vvoter y <> v) by (intro E; apply NI; apply EE; now left).
        apply EV. split; [|exact NV]. apply I3; [exact I|]. intro J. apply NI. apply EE. now right.
    + intros y I. split; [now apply S0|now right].
  - (* stored *)
    assert (NEQ : equivocates R v = false).
    { destruct (equivocates R v) eqn:E; [|reflexivity]. exfalso. apply NE. now apply I1. }
    (* every received vote of v is for the block of g *)
    assert (RB : forall y, In y R -> vvoter y = v -> vblock y = gv_block g).
    { intros y I Vy. assert (J : In (vvoter y, mkGV (vblock y) (number e (vblock y))) (votes_of st sg)).
      { apply I3; [exact I|]. now rewrite Vy. }
      rewrite Vy in J. exact (SB _ J). }
    assert (NX : equivocates (x :: R) v = false).
    { destruct (equivocates (x :: R) v) eqn:E; [|reflexivity]. exfalso.
      apply equivocates_spec in E. destruct E as [a [b [Ia [Ib [Va [Vb NS]]]]]].
      rewrite (same_vote_sig0 a b (S0 a Ia) (S0 b Ib)) in NS. apply Nat.eqb_neq in NS. apply NS.
      assert (BA : forall y, In y (x :: R) -> vvoter y = v -> vblock y = gv_block g).
      { intros y [<-|I] Vy; [reflexivity|now apply RB]. }
      now rewrite (BA a Ia Va), (BA b Ib Vb). }
    split; [|split; [|split]].
    + intro u. rewrite EE. destruct (Nat.eq_dec u v) as [->|N].
      * rewrite NX. split; [intro J; contradiction|discriminate].
      * rewrite (equivocates_cons_other R x u); [apply I1|cbn; congruence].
    + intros u h I. apply EV in I. destruct I as [E|[I _]].
      * injection E as -> ->. split; [now left|exact NUM].
      * destruct (I2 u h I) as [A B]. split; [now right|exact B].
    + intros y [<-|I] NI; cbn [vvoter vblock] in *.
      * apply EV. left. destruct g as [gb gn]. cbn in *. now rewrite NUM.
      * rewrite EE in NI. apply EV. destruct (Nat.eq_dec (vvoter y) v) as [Ey|Ny].
        -- left. rewrite Ey. rewrite (RB y I Ey). destruct g as [gb gn]. cbn in *. now rewrite NUM.
        -- right. split; [now apply I3|exact Ny].
    + intros y I. split; [now apply S0|now right].
Qed.


Lemma same_stage_key sg1 sg2 : same_stage sg1 sg2 = true -> stage_key sg1 = stage_key sg2.
Proof. unfold same_stage. apply Bool.eqb_prop. Qed.

Ltac to_stage K' sg1 :=
  repeat match goal with
  | |- context [votes_of ?X sg] => rewrite (votes_of_key X sg sg1 K')
  | |- context [eqv_of ?X sg] => rewrite (eqv_of_key X sg sg1 K')
  end.

(* a counted message *)
Lemma abstracts_msg st R m : abstracts st R -> self_clean st ->
  (msg_ok e (init_state head) m && negb (m_voter m =? e_self e)%nat && same_stage (m_stage m) sg) = true ->
  let st' := snd (validate_vote_message true e st m) in
  abstracts st' (mkVote (m_voter m) (gv_block (m_vote m)) 0 :: R) /\ self_clean st'.
Proof.
  intros AB SC OK. cbn zeta. pose proof AB as [W [HD _]].
  rewrite !andb_true_iff in OK. destruct OK as [[OK NS] SS].
  apply negb_true_iff in NS. pose proof (same_stage_key _ _ SS) as K. assert (K' := eq_sym K).
  unfold msg_ok in OK. rewrite !andb_true_iff in OK. destruct OK as [[[[SIG SET] RD] V] VO].
  unfold vote_ok in VO. rewrite !andb_true_iff in VO. destruct VO as [[KN NM] AN]. cbn [s_head init_state] in AN.
  apply N.eqb_eq in NM.
  destruct (validate_vote_message true e st m) as [c st'] eqn:H. cbn [snd].
  destruct (step_wf true e st m c st' W H) as [W' HD'].
  revert H. unfold validate_vote_message. rewrite SIG, SET. cbn [negb].
  destruct (m_round m); try discriminate. rewrite V, NS. cbn [negb].
  unfold validate_vote. rewrite KN, NM, N.eqb_refl, HD, AN. cbn [negb andb].
  apply Nat.ltb_lt in V.
  pose proof (wf_any e st (m_stage m) W) as [ND [NDE [DJ _]]].
  destruct (check_equivocation st (m_stage m) (m_voter m) (m_vote m)) as [st2|] eqn:CE.
  - intro H; injection H as _ <-. unfold check_equivocation in CE.
    destruct (lookup (m_voter m) (eqv_of st (m_stage m))) as [k|] eqn:LE.
    + injection CE as <-. split.
      * apply (abstracts_add st R (m_voter m) (m_vote m) AB V NM); [exact W'|now rewrite HD' in *|].
        left. to_stage K' (m_stage m).
        rewrite votes_of_set_eqv, eqv_of_set_eqv, Bool.eqb_reflx.
        assert (IK : In (m_voter m) (keys (eqv_of st (m_stage m)))) by (apply in_keys; exists k; now apply lookup_in).
        split; [exact IK|]. split; [reflexivity|].
        intro u. destruct (keys_store (m_voter m) (S k) (eqv_of st (m_stage m)) NDE) as [_ M]. rewrite M.
        intuition congruence.
      * intros sg' I. rewrite eqv_of_set_eqv in I. destruct (Bool.eqb (stage_key (m_stage m)) (stage_key sg')) eqn:E; [|exact (SC sg' I)].
        destruct (keys_store (m_voter m) (S k) (eqv_of st (m_stage m)) NDE) as [_ M]. apply M in I.
        destruct I as [I|I]; [apply Nat.eqb_neq in NS; congruence|exact (SC _ I)].
    + destruct (lookup (m_voter m) (votes_of st (m_stage m))) as [old|] eqn:LV; [|discriminate].
      destruct (Nat.eqb_spec (gv_block old) (gv_block (m_vote m))) as [EB|NB]; [discriminate|].
      injection CE as <-. apply lookup_none in LE. split.
      * apply (abstracts_add st R (m_voter m) (m_vote m) AB V NM); [exact W'|now rewrite HD' in *|].
        right. left. to_stage K' (m_stage m).
        rewrite votes_of_set_eqv, votes_of_set_votes, eqv_of_set_eqv, Bool.eqb_reflx.
        split; [exact LE|]. split; [exists old; split; [now apply lookup_in|exact NB]|]. split.
        -- intro p. apply (proj1 (keys_remove (m_voter m) (votes_of st (m_stage m)))).
        -- intro u. destruct (keys_store (m_voter m) 2 (eqv_of st (m_stage m)) NDE) as [_ M]. apply M.
      * intros sg' I. rewrite eqv_of_set_eqv in I. destruct (Bool.eqb (stage_key (m_stage m)) (stage_key sg')) eqn:E.
        -- destruct (keys_store (m_voter m) 2 (eqv_of st (m_stage m)) NDE) as [_ M]. apply M in I.
           destruct I as [I|I]; [apply Nat.eqb_neq in NS; congruence|exact (SC _ I)].
        -- rewrite eqv_of_set_votes in I. exact (SC sg' I).
  - intro H; injection H as _ <-. split.
    + apply (abstracts_add st R (m_voter m) (m_vote m) AB V NM); [exact W'|now rewrite HD' in *|].
      right. right. to_stage K' (m_stage m).
      rewrite votes_of_set_votes, eqv_of_set_votes, Bool.eqb_reflx.
      unfold check_equivocation in CE.
      destruct (lookup (m_voter m) (eqv_of st (m_stage m))) eqn:LE; [discriminate|]. apply lookup_none in LE.
      split; [exact LE|]. split; [|split; [|reflexivity]].
      * intros old IO. apply (lookup_some_in _ _ _ ND) in IO. rewrite IO in CE.
        destruct (Nat.eqb_spec (gv_block old) (gv_block (m_vote m))); [assumption|discriminate].
      * intro p. apply (in_store_nodup _ _ _ _ ND).
    + intros sg' I. rewrite eqv_of_set_votes in I. exact (SC sg' I).
Qed.

(* the node's own vote of the stage, its first *)
Lemma abstracts_own st R v : abstracts st R -> self_clean st -> e_self e < e_voters e ->
  vote_ok e (init_state head) v = true ->
  (forall x, In x R -> vvoter x <> e_self e) ->
  forall sg', same_stage sg' sg = true ->
  abstracts (store_own e st sg' v) (mkVote (e_self e) (gv_block v) 0 :: R) /\ self_clean (store_own e st sg' v).
Proof.
  intros AB SC SV VO NO sg' SS. pose proof AB as [W [HD [I1 [I2 _]]]].
  pose proof (same_stage_key _ _ SS) as K. assert (K' := eq_sym K).
  unfold vote_ok in VO. rewrite !andb_true_iff in VO. destruct VO as [[KN NM] AN]. apply N.eqb_eq in NM.
  assert (W' : wf e (store_own e st sg' v)) by (apply wf_store_vote; auto).
  pose proof (wf_any e st sg' W) as [ND _].
  split.
  - apply (abstracts_add st R (e_self e) v AB SV NM); [exact W'|unfold store_own; now rewrite head_set_votes|].
    right. right. unfold store_own. to_stage K' sg'.
    rewrite votes_of_set_votes, eqv_of_set_votes, Bool.eqb_reflx.
    split; [apply SC|]. split; [|split; [|reflexivity]].
    + intros old IO. exfalso. rewrite (votes_of_key st _ _ K) in IO. destruct (I2 _ _ IO) as [IR _].
      exact (NO _ IR eq_refl).
    + intro p. apply (in_store_nodup _ _ _ _ ND).
  - intros sg'' I. unfold store_own in I. rewrite eqv_of_set_votes in I. exact (SC sg'' I).
Qed.

(* an event that contributes nothing to the stage *)
Lemma abstracts_own_other st R v sg' : abstracts st R -> self_clean st -> e_self e < e_voters e ->
  same_stage sg' sg = false ->
  abstracts (store_own e st sg' v) R /\ self_clean (store_own e st sg' v).
Proof.
  intros AB SC SV SS. pose proof AB as [W [HD _]].
  assert (W' : wf e (store_own e st sg' v)) by (apply wf_store_vote; auto).
  unfold store_own in *. split.
  - apply (abstracts_ext st _ R AB W'); [now rewrite head_set_votes| |].
    + rewrite votes_of_set_votes. unfold same_stage in SS. now rewrite SS.
    + now rewrite eqv_of_set_votes.
  - intros sg'' I. rewrite eqv_of_set_votes in I. exact (SC sg'' I).
Qed.

Definition no_own (evs : list event) : Prop := forall sg' v, In (Own sg' v) evs -> same_stage sg' sg = false.

Lemma run_events_abstracts : forall evs st R,
  abstracts st R -> self_clean st ->
  (forall ev, In ev evs -> own_ok e head ev) -> own_once sg evs ->
  ((exists x, In x R /\ vvoter x = e_self e) -> no_own evs) ->
  exists R', abstracts (run_events e st evs) R' /\
             (forall x, In x R' <-> In x R \/ In x (received e head sg evs)).
Proof.
  induction evs as [|ev r IH]; intros st R AB SC OK OO J; cbn [run_events received].
  - exists R. split; [exact AB|]. intro x. cbn. tauto.
  - assert (OK' : forall ev, In ev r -> own_ok e head ev) by (intros; apply OK; now right).
    destruct ev as [m|sg' v]; cbn [apply_event contribution].
    + (* message *)
      cbn [own_once] in OO.
      destruct (msg_ok e (init_state head) m && negb (m_voter m =? e_self e)%nat && same_stage (m_stage m) sg) eqn:C.
      * destruct (abstracts_msg st R m AB SC C) as [AB' SC'].
        assert (NSelf : m_voter m <> e_self e).
        { rewrite !andb_true_iff in C. destruct C as [[_ NS] _]. apply negb_true_iff in NS. now apply Nat.eqb_neq. }
        destruct (IH _ _ AB' SC' OK' OO) as [R' [A' M']].
        { intros [x [[<-|I] Vx]]; [cbn in Vx; congruence|].
          intros sg'' w Iw. apply (J (ex_intro _ x (conj I Vx)) sg'' w). now right. }
        exists R'. split; [exact A'|]. intro x. rewrite M'. cbn [In]. tauto.
      * pose proof AB as [W [HD _]].
        destruct (msg_not_counted st m HD C) as [EV EE].
        destruct (validate_vote_message true e st m) as [c st'] eqn:H. cbn [snd] in *.
        destruct (step_wf true e st m c st' W H) as [W' HD'].
        assert (AB' : abstracts st' R) by (apply (abstracts_ext st st' R AB W'); [now rewrite HD'|exact EV|exact EE]).
        assert (SC' : self_clean st').
        { (* equivocator lists only gain the sender, who is not the node itself, or stay *)
          intros sg'' I. revert H. unfold validate_vote_message.
          destruct (m_sig_ok m); cbn [negb]; [|intro H; injection H as _ <-; exact (SC _ I)].
          destruct (m_setid_ok m); cbn [negb]; [|intro H; injection H as _ <-; exact (SC _ I)].
          destruct (m_round m); try (intro H; injection H as _ <-; exact (SC _ I)).
          destruct (m_voter m <? e_voters e); cbn [negb]; [|intro H; injection H as _ <-; exact (SC _ I)].
          destruct (Nat.eqb_spec (m_voter m) (e_self e)) as [SE|SE]; [intro H; injection H as _ <-; exact (SC _ I)|].
          destruct (validate_vote true e st (m_vote m)); [intro H; injection H as _ <-; exact (SC _ I)|].
          pose proof (wf_any e st (m_stage m) W) as [_ [NDE _]].
          unfold check_equivocation.
          destruct (lookup (m_voter m) (eqv_of st (m_stage m))) as [k|].
          - intro H; injection H as _ <-. rewrite eqv_of_set_eqv in I.
            destruct (Bool.eqb (stage_key (m_stage m)) (stage_key sg'')); [|exact (SC _ I)].
            destruct (keys_store (m_voter m) (S k) (eqv_of st (m_stage m)) NDE) as [_ M]. apply M in I.
            destruct I as [I|I]; [congruence|exact (SC _ I)].
          - destruct (lookup (m_voter m) (votes_of st (m_stage m))) as [old|].
            + destruct (gv_block old =? gv_block (m_vote m)).
              * intro H; injection H as _ <-. rewrite eqv_of_set_votes in I. exact (SC _ I).
              * intro H; injection H as _ <-. rewrite eqv_of_set_eqv in I.
                destruct (Bool.eqb (stage_key (m_stage m)) (stage_key sg'')).
                -- destruct (keys_store (m_voter m) 2 (eqv_of st (m_stage m)) NDE) as [_ M]. apply M in I.
                   destruct I as [I|I]; [congruence|exact (SC _ I)].
                -- rewrite eqv_of_set_votes in I. exact (SC _ I).
            + intro H; injection H as _ <-. rewrite eqv_of_set_votes in I. exact (SC _ I). }
        destruct (IH _ _ AB' SC' OK' OO) as [R' [A' M']].
        { intros X sg'' w Iw. apply (J X sg'' w). now right. }
        exists R'. split; [exact A'|exact M'].
    + (* own vote *)
      cbn [own_once] in OO. destruct OO as [OO1 OO2].
      destruct (OK (Own sg' v) (or_introl eq_refl)) as [VO SV].
      destruct (same_stage sg' sg) eqn:SS.
      * assert (NO : forall x, In x R -> vvoter x <> e_self e).
        { intros x I Vx. specialize (J (ex_intro _ x (conj I Vx)) sg' v (or_introl eq_refl)). congruence. }
        destruct (abstracts_own st R v AB SC SV VO NO sg' SS) as [AB' SC'].
        destruct (IH _ _ AB' SC' OK' OO2) as [R' [A' M']].
        { intros _. exact (OO1 eq_refl). }
        exists R'. split; [exact A'|]. intro x. rewrite M'. cbn [In]. tauto.
      * destruct (abstracts_own_other st R v sg' AB SC SV SS) as [AB' SC'].
        destruct (IH _ _ AB' SC' OK' OO2) as [R' [A' M']].
        { intros X sg'' w Iw. apply (J X sg'' w). now right. }
        exists R'. split; [exact A'|exact M'].
Qed.

(* the stored votes and the received votes give every voter the same support for every block *)
Lemma abstracts_supports st R v b : abstracts st R ->
  supports t (spec_votes st sg) v b = supports t R v b.
Proof.
  intros [W [HD [I1 [I2 [I3 I4]]]]]. pose proof (wf_any e st sg W) as WS.
  unfold supports.
  destruct (equivocates R v) eqn:ER.
  - apply I1 in ER. apply (spec_equivocates e st sg WS) in ER. now rewrite ER.
  - assert (NE : ~ In v (keys (eqv_of st sg))) by (intro I; apply I1 in I; congruence).
    destruct (equivocates (spec_votes st sg) v) eqn:ES; [apply (spec_equivocates e st sg WS) in ES; contradiction|].
    cbn [orb].
    destruct (votes_for t R v b) eqn:VR.
    + apply votes_for_spec in VR. destruct VR as [x [Ix [Vx Ax]]].
      apply (spec_votes_for e st sg v b NE). exists (mkGV (vblock x) (number e (vblock x))).
      split; [|exact Ax]. rewrite <- Vx. apply I3; [exact Ix|now rewrite Vx].
    + destruct (votes_for t (spec_votes st sg) v b) eqn:VS; [|reflexivity]. exfalso.
      apply (spec_votes_for e st sg v b NE) in VS. destruct VS as [g [Ig Ag]].
      destruct (I2 v g Ig) as [IR _].
      assert (votes_for t R v b = true); [|congruence].
      apply votes_for_spec. exists (mkVote v (gv_block g) 0). auto.
Qed.

Lemma abstracts_equivocates st R v : abstracts st R ->
  equivocates (spec_votes st sg) v = equivocates R v.
Proof.
  intros [W [HD [I1 _]]]. pose proof (wf_any e st sg W) as WS.
  destruct (equivocates R v) eqn:ER.
  - apply I1 in ER. now apply (spec_equivocates e st sg WS) in ER.
  - destruct (equivocates (spec_votes st sg) v) eqn:ES; [|reflexivity].
    apply (spec_equivocates e st sg WS) in ES. apply I1 in ES. congruence.
Qed.

End Abstraction.

(* from the empty round state *)
Lemma abstracts_init e head sg : abstracts e head sg (init_state head) [].
Proof.
  split; [apply wf_init|]. split; [reflexivity|]. split; [|split; [|split]].
  - intro v. destruct sg; cbn; split; try contradiction; discriminate.
  - intros v g I. destruct sg; destruct I.
  - intros x [].
  - intros x [].
Qed.

Lemma equivocates_same S S' v : (forall x, In x S <-> In x S') -> equivocates S v = equivocates S' v.
Proof.
  intro SV. unfold equivocates. rewrite (existsb_equiv _ S S' SV).
  apply existsb_ext_in. intros x _. f_equal. apply existsb_equiv. exact SV.
Qed.

Theorem state_abstraction e head sg evs :
  (forall ev, In ev evs -> own_ok e head ev) -> own_once sg evs ->
  let st := run_events e (init_state head) evs in
  wf e st /\ s_head st = head /\
  (forall v, equivocates (spec_votes st sg) v = equivocates (received e head sg evs) v) /\
  (forall v b, supports (e_tree e) (spec_votes st sg) v b = supports (e_tree e) (received e head sg evs) v b).
Proof.
  intros OK OO. cbn zeta.
  destruct (run_events_abstracts e head sg evs (init_state head) [] (abstracts_init e head sg)) as [R' [AB M]]; auto.
  - intros sg' I. destruct sg'; destruct I.
  - intros [x [[] _]].
  - pose proof AB as [W [HD _]]. split; [exact W|]. split; [exact HD|].
    assert (SV : forall x, In x R' <-> In x (received e head sg evs)) by (intro x; rewrite M; cbn; tauto).
    split.
    + intro v. rewrite (abstracts_equivocates e head sg _ R' v AB). now apply equivocates_same.
    + intros v b. rewrite (abstracts_supports e head sg _ R' v b AB).
      unfold supports. f_equal; [now apply equivocates_same|].
      unfold votes_for. apply existsb_equiv. exact SV.
Qed.

(* every stored vote is an allowed one, also with the node's own votes *)
Lemma store_own_stored_ok e st sg v : wf e st -> stored_ok e st = true ->
  vote_ok e st v = true -> e_self e < e_voters e -> stored_ok e (store_own e st sg v) = true.
Proof.
  intros W SO VO SV. rewrite stored_ok_spec in *. intros sg' p I. unfold store_own in I.
  rewrite votes_of_set_votes in I.
  assert (VH : forall g, vote_ok e (set_votes st sg (store (e_self e) v (votes_of st sg))) g = vote_ok e st g)
    by (intro g; apply vote_ok_head; apply head_set_votes).
  unfold store_own. rewrite VH.
  destruct (Bool.eqb (stage_key sg) (stage_key sg')) eqn:E; [|now apply (SO sg')].
  apply Bool.eqb_prop in E.
  apply (in_store_nodup _ _ _ _ (proj1 (wf_any e st sg W))) in I. destruct I as [->|[I _]].
  - cbn. auto.
  - rewrite (votes_of_key st _ _ E) in I. now apply (SO sg').
Qed.

Lemma run_events_inv e head : forall evs st, wf e st -> stored_ok e st = true -> s_head st = head ->
  (forall ev, In ev evs -> own_ok e head ev) ->
  (forall sg', ~ In (e_self e) (keys (eqv_of st sg'))) ->
  wf e (run_events e st evs) /\ stored_ok e (run_events e st evs) = true /\ s_head (run_events e st evs) = head.
Proof.
  induction evs as [|ev r IH]; intros st W SO HD OK SC; cbn [run_events]; [auto|].
  assert (OK' : forall ev, In ev r -> own_ok e head ev) by (intros; apply OK; now right).
  destruct ev as [m|sg v]; cbn [apply_event].
  - destruct (validate_vote_message true e st m) as [c st'] eqn:H. cbn [snd].
    destruct (step_wf true e st m c st' W H) as [W' HD'].
    assert (SO' : stored_ok e st' = true) by exact (step_stored_ok e st m c st' W SO H).
    assert (HD2 : s_head st' = head) by congruence.
    apply (IH st' W' SO' HD2 OK').
    (* the node's own key never becomes an equivocator *)
    intros sg'' I. revert H. unfold validate_vote_message.
    destruct (m_sig_ok m); cbn [negb]; [|intro H; injection H as _ <-; exact (SC _ I)].
    destruct (m_setid_ok m); cbn [negb]; [|intro H; injection H as _ <-; exact (SC _ I)].
    destruct (m_round m); try (intro H; injection H as _ <-; exact (SC _ I)).
    destruct (m_voter m <? e_voters e); cbn [negb]; [|intro H; injection H as _ <-; exact (SC _ I)].
    destruct (Nat.eqb_spec (m_voter m) (e_self e)) as [SE|SE]; [intro H; injection H as _ <-; exact (SC _ I)|].
    destruct (validate_vote true e st (m_vote m)); [intro H; injection H as _ <-; exact (SC _ I)|].
    pose proof (wf_any e st (m_stage m) W) as [_ [NDE _]].
    unfold check_equivocation.
    destruct (lookup (m_voter m) (eqv_of st (m_stage m))) as [k|].
    + intro H; injection H as _ <-. rewrite eqv_of_set_eqv in I.
      destruct (Bool.eqb (stage_key (m_stage m)) (stage_key sg'')); [|exact (SC _ I)].
      destruct (keys_store (m_voter m) (S k) (eqv_of st (m_stage m)) NDE) as [_ M]. apply M in I.
      destruct I as [I|I]; [congruence|exact (SC _ I)].
    + destruct (lookup (m_voter m) (votes_of st (m_stage m))) as [old|].
      * destruct (gv_block old =? gv_block (m_vote m)).
        -- intro H; injection H as _ <-. rewrite eqv_of_set_votes in I. exact (SC _ I).
        -- intro H; injection H as _ <-. rewrite eqv_of_set_eqv in I.
           destruct (Bool.eqb (stage_key (m_stage m)) (stage_key sg'')).
           ++ destruct (keys_store (m_voter m) 2 (eqv_of st (m_stage m)) NDE) as [_ M]. apply M in I.
              destruct I as [I|I]; [congruence|exact (SC _ I)].
           ++ rewrite eqv_of_set_votes in I. exact (SC _ I).
      * intro H; injection H as _ <-. rewrite eqv_of_set_votes in I. exact (SC _ I).
  - destruct (OK (Own sg v) (or_introl eq_refl)) as [VO SV].
    assert (VO' : vote_ok e st v = true) by (rewrite <- VO; apply vote_ok_head; cbn; exact HD).
    assert (W' : wf e (store_own e st sg v)) by (apply wf_store_vote; auto).
    assert (SO' : stored_ok e (store_own e st sg v) = true) by now apply store_own_stored_ok.
    assert (HD2 : s_head (store_own e st sg v) = head) by (unfold store_own; now rewrite head_set_votes).
    apply (IH _ W' SO' HD2 OK').
    intros sg'' I. unfold store_own in I. rewrite eqv_of_set_votes in I. exact (SC _ I).
Qed.

(* ---- the end-to-end statement: from the history of received votes to the pre-commit ---- *)
Theorem precommit_from_received e head evs g :
  0 < e_voters e -> in_tree (e_tree e) head ->
  (forall ev, In ev evs -> own_ok e head ev) -> own_once Prevote evs ->
  let R := received e head Prevote evs in
  tolerant (unit_ws e) R = true -> ghost (e_tree e) (unit_ws e) R = Some g ->
  let st := run_events e (init_state head) evs in
  prevoted_block e st = Ok (mkGV g (number e g)) /\
  exists tg, anc (e_tree e) tg g /\ determine_precommit true e st = Ok (mkGV tg (number e tg)) /\
    tg = match e_next_change e with
         | Some nc => if (nc <? number e g)%N
                      then match ancestor_at e g nc with Some a => a | None => g end else g
         | None => g
         end.
Proof.
  intros NV HK OK OO R TOL GH st.
  destruct (state_abstraction e head Prevote evs OK OO) as [W [HD [EQ SUP]]]. fold st in W, HD, EQ, SUP.
  destruct (run_events_inv e head evs (init_state head) (wf_init e head) eq_refl eq_refl OK) as [_ [SO _]].
  { intros sg' I. destruct sg'; destruct I. }
  fold st in SO.
  assert (WEQ : forall b, weight (e_tree e) (unit_ws e) (spec_votes st Prevote) b = weight (e_tree e) (unit_ws e) R b)
    by (intro b; apply wsum_ext; intro v; apply SUP).
  assert (TOL' : spec_tolerant e st Prevote = true).
  { unfold spec_tolerant, tolerant, eq_weight. rewrite (wsum_ext _ _ _ EQ). exact TOL. }
  assert (GH' : spec_ghost e st Prevote = Some g).
  { unfold spec_ghost, ghost. rewrite <- GH. unfold ghost. apply find_ext. intros b _.
    unfold has_supermajority. now rewrite WEQ. }
  assert (HK' : in_tree (e_tree e) (s_head st)) by now rewrite HD.
  split; [exact (prevoted_is_ghost e st W SO NV HK' g TOL' GH')|].
  destruct (target_defined e st g GH') as [tg [T A]]. exists tg. split; [exact A|].
  pose proof (precommit_is_target e st W SO NV HK' g TOL' GH') as P. rewrite T in P. split; [exact P|].
  unfold spec_target in T. rewrite GH' in T. destruct (e_next_change e) as [nc|]; [|now injection T].
  destruct (nc <? number e g)%N; [|now injection T]. now rewrite T.
Qed.
