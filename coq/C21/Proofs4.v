(* C21/Proofs4.v -- determinePreVote (Model.determine_prevote): what can be said of the node's own
   prevote.  The property text of C21 does not constrain the prevote; the lemma below is the fact
   C22's model of the implementation (C22/ModelImpl.v follows_finalised) abstracts: without a
   pending authority change the prevote is a known block with its own number that descends from
   the node's finalised head -- and nothing more (in particular nothing about the previous
   round's estimate). *)
From Coq Require Import List Arith Lia Bool NArith.
From Common Require Import Outcome.
From Grandpa Require Import Tree.
From C21 Require Import Model Spec Proofs.
Import ListNotations.

Lemma prevote_descends_from_head e st primary g :
  e_next_change e = None -> stored_ok e st = true ->
  known e (e_best e) = true -> anc (e_tree e) (s_head st) (e_best e) ->
  determine_prevote e st primary = Ok g ->
  known e (gv_block g) = true /\ gv_num g = number e (gv_block g) /\
  anc (e_tree e) (s_head st) (gv_block g).
Proof.
  intros NC SO KB AB. unfold determine_prevote. rewrite NC.
  assert (BEST : known e (e_best e) = true /\ number e (e_best e) = number e (e_best e) /\
                 anc (e_tree e) (s_head st) (e_best e)) by auto.
  destruct (lookup primary (s_pv st)) as [pv|] eqn:L.
  - destruct (number e (s_head st) <=? gv_num pv)%N.
    + intro H; injection H as <-.
      apply lookup_in in L.
      destruct (proj1 (stored_ok_spec e st) SO Prevote (primary, pv) L) as [_ VO]. cbn [snd] in VO.
      unfold vote_ok in VO. apply andb_true_iff in VO. destruct VO as [VO A].
      apply andb_true_iff in VO. destruct VO as [K N]. apply N.eqb_eq in N. apply ancb_spec in A. auto.
    + intro H; injection H as <-. exact BEST.
  - intro H; injection H as <-. exact BEST.
Qed.

(* the answer really can be a block on another fork than the one a block B with > 2/3 of the
   previous round's precommits lies on: only the head matters (tree 0-1, 1-2, 1-3, 3-4; head 1;
   best block 4; no stored prevote): the prevote is block 4 whatever happened to block 2 *)
Example prevote_ignores_other_fork :
  let e := mkEnv [0;1;1;3] 4 4 None 1 in
  let st := mkSt [] [] [] [] 1 in
  determine_prevote e st 2 = Ok (mkGV 4 3%N) /\ ancb (e_tree e) 2 4 = false.
Proof. vm_compute. split; reflexivity. Qed.

(* ---- the pending authority change ("capped at a pending authority change") ---- *)
(* the vote determinePreVote starts from, before the cap *)
Definition uncapped_prevote (e : env) (st : vstate) (primary : nat) : gvote :=
  let best := mkGV (e_best e) (number e (e_best e)) in
  match lookup primary (s_pv st) with
  | Some g => if (number e (s_head st) <=? gv_num g)%N then g else best
  | None => best
  end.

Lemma header_by_number_spec e n b : header_by_number e n = Some b ->
  anc (e_tree e) b (e_best e) /\ number e b = n.
Proof.
  unfold header_by_number. intro H. apply find_some in H. destruct H as [I E].
  apply N.eqb_eq in E. split; [exact I|exact E].
Qed.

(* determinePreVote never answers a block above the pending change; when it caps, the answer is
   the block of the change height ON THE BEST CHAIN (GetHeaderByNumber) *)
Lemma prevote_capped e st primary g nc :
  e_next_change e = Some nc -> determine_prevote e st primary = Ok g ->
  (gv_num g <= nc)%N /\
  (g = uncapped_prevote e st primary \/
   ((nc < gv_num (uncapped_prevote e st primary))%N /\ gv_num g = nc /\
    gv_num g = number e (gv_block g) /\ anc (e_tree e) (gv_block g) (e_best e))).
Proof.
  intros NC. unfold determine_prevote. fold (uncapped_prevote e st primary). rewrite NC.
  set (v := uncapped_prevote e st primary).
  destruct (N.ltb_spec nc (gv_num v)) as [L|L].
  - destruct (header_by_number e nc) as [b|] eqn:H; [|discriminate].
    intro X; injection X as <-. apply header_by_number_spec in H. destruct H as [A E]. cbn.
    split; [rewrite E; apply N.le_refl|]. right. repeat split; auto.
  - intro X; injection X as <-. split; [exact L|now left].
Qed.

Lemma ancestor_by_number_spec e b n a : ancestor_by_number e b n = Some a ->
  anc (e_tree e) a b /\ (number e a <= n)%N.
Proof.
  unfold ancestor_by_number. intro H. apply find_some in H. destruct H as [I E].
  apply N.leb_le in E. split; [exact I|exact E].
Qed.

(* determinePreCommit (repaired), for EVERY state: whatever it answers is never above the pending
   change, and when it caps the answer is an ancestor of the pre-voted block *)
Lemma precommit_capped e st g nc :
  e_next_change e = Some nc -> determine_precommit true e st = Ok g ->
  (gv_num g <= nc)%N /\
  exists pvb, prevoted_block e st = Ok pvb /\
    (g = pvb \/ ((nc < gv_num pvb)%N /\ anc (e_tree e) (gv_block g) (gv_block pvb) /\
                 gv_num g = number e (gv_block g))).
Proof.
  intros NC. unfold determine_precommit. destruct (prevoted_block e st) as [pvb| | |]; cbn [obind]; try discriminate.
  rewrite NC. destruct (N.ltb_spec nc (gv_num pvb)) as [L|L].
  - destruct (ancestor_by_number e (gv_block pvb) nc) as [b|] eqn:H; [|discriminate].
    intro X; injection X as <-. apply ancestor_by_number_spec in H. destruct H as [A E]. cbn.
    split; [exact E|]. exists pvb. split; [reflexivity|]. right. auto.
  - intro X; injection X as <-. split; [exact L|]. exists pvb. auto.
Qed.

(* the capped prevote need not be an ancestor of the primary's block: the cap is resolved on the
   best chain (tree 0-1-2 best chain, 0-3-4 the primary's fork; primary 1 prevoted block 4;
   change at height 1): the answer is block 1, not block 3 *)
Example prevote_cap_other_fork :
  let e := mkEnv [0;1;0;3] 4 2 (Some 1%N) 0 in
  let st := mkSt [(1, mkGV 4 2%N)] [] [] [] 0 in
  determine_prevote e st 1 = Ok (mkGV 1 1%N) /\ ancb (e_tree e) 1 4 = false /\ ancb (e_tree e) 3 4 = true.
Proof. vm_compute. repeat split; reflexivity. Qed.

(* finalisation is NOT capped: 4 voters prevote block 2 on the chain 0-1-2 with a change pending at
   height 1; the node (voter 2) precommits block 1, the three others precommit block 2: the node
   finalises block 2, above the change *)
Example finalisation_not_capped :
  let e := mkEnv [0;1] 4 2 (Some 1%N) 2 in
  let st := mkSt [(0, mkGV 2 2%N); (1, mkGV 2 2%N); (2, mkGV 2 2%N); (3, mkGV 2 2%N)]
                 [(0, mkGV 2 2%N); (1, mkGV 2 2%N); (2, mkGV 1 1%N); (3, mkGV 2 2%N)] [] [] 0 in
  determine_precommit true e st = Ok (mkGV 1 1%N) /\ fst (attempt_to_finalize e st) = Ok (Some 2).
Proof. vm_compute. split; reflexivity. Qed.
