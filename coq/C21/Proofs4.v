(* C21/Proofs4.v -- determinePreVote (Model.determine_prevote): what can be said of the node's own
   prevote.  The property text of C21 does not constrain the prevote; the lemma below is the fact
   C22's model of the implementation (C22/ModelImpl.v follows_finalised) abstracts: without a
   pending authority change the prevote is a known block with its own number that descends from
   the node's finalised head -- and nothing more (in particular nothing about the previous
   round's estimate). *)
From Coq Require Import List Arith Lia Bool NArith.
From Common Require Import Outcome.
From Grandpa Require Import Tree.
From C21 Require Import Model Spec Proofs.
Import ListNotations.

Lemma prevote_descends_from_head e st primary g :
  e_next_change e = None -> stored_ok e st = true ->
  known e (e_best e) = true -> anc (e_tree e) (s_head st) (e_best e) ->
  determine_prevote e st primary = Ok g ->
  known e (gv_block g) = true /\ gv_num g = number e (gv_block g) /\
  anc (e_tree e) (s_head st) (gv_block g).
Proof.
  intros NC SO KB AB. unfold determine_prevote. rewrite NC.
  assert (BEST : known e (e_best e) = true /\ number e (e_best e) = number e (e_best e) /\
                 anc (e_tree e) (s_head st) (e_best e)) by auto.
  destruct (lookup primary (s_pv st)) as [pv|] eqn:L.
  - destruct (number e (s_head st) <=? gv_num pv)%N.
    + intro H; injection H as <-.
      apply lookup_in in L.
      destruct (proj1 (stored_ok_spec e st) SO Prevote (primary, pv) L) as [_ VO]. cbn [snd] in VO.
      unfold vote_ok in VO. apply andb_true_iff in VO. destruct VO as [VO A].
      apply andb_true_iff in VO. destruct VO as [K N]. apply N.eqb_eq in N. apply ancb_spec in A. auto.
    + intro H; injection H as <-. exact BEST.
  - intro H; injection H as <-. exact BEST.
Qed.

(* the answer really can be a block on another fork than the one a block B with > 2/3 of the
   previous round's precommits lies on: only the head matters (tree 0-1, 1-2, 1-3, 3-4; head 1;
   best block 4; no stored prevote): the prevote is block 4 whatever happened to block 2 *)
Example prevote_ignores_other_fork :
  let e := mkEnv [0;1;1;3] 4 4 None 1 in
  let st := mkSt [] [] [] [] 1 in
  determine_prevote e st 2 = Ok (mkGV 4 3%N) /\ ancb (e_tree e) 2 4 = false.
Proof. vm_compute. split; reflexivity. Qed.
