(* C21/Proofs2.v -- the selection functions of lib/grandpa (getPossibleSelectedBlocks,
   getPossibleSelectedAncestors, getPreVotedBlock, getBestFinalCandidate, determinePreCommit,
   attemptToFinalize) against the GRANDPA specification. *)
From Coq Require Import List Arith Lia Bool NArith Permutation ZifyN ZifyNat ZifyBool.
From Common Require Import Outcome.
From Grandpa Require Import Tree Votes RoundSpec RoundProofs.
From C21 Require Import Model Spec Proofs.
Import ListNotations.

(* ================= lowest common ancestor ================= *)
Lemma lca_find t a b : find_anc t (fun x => ancb t x b) a = Some (lca t a b).
Proof.
  unfold lca, find_anc. destruct (find (fun x => ancb t x b) (chain t a)) as [x|] eqn:F; [reflexivity|].
  exfalso. pose proof (find_none _ _ F 0 (anc_root t a)) as H. cbn in H.
  assert (ancb t 0 b = true) by (apply ancb_spec, anc_root). congruence.
Qed.

Lemma lca_spec t a b :
  anc t (lca t a b) a /\ anc t (lca t a b) b /\ forall x, anc t x a -> anc t x b -> anc t x (lca t a b).
Proof.
  pose proof (find_anc_some t _ a _ (lca_find t a b)) as [A [B M]]. apply ancb_spec in B.
  split; [exact A|]. split; [exact B|]. intros x Xa Xb. apply M; [exact Xa|now apply ancb_spec].
Qed.

Lemma lca_anc_l t a b : anc t a b -> lca t a b = a.
Proof.
  intro A. destruct (lca_spec t a b) as [L1 [L2 M]]. apply (anc_antisym t); [exact L1|].
  apply M; [apply anc_refl|exact A].
Qed.

Lemma lca_comm t a b : lca t a b = lca t b a.
Proof.
  destruct (lca_spec t a b) as [A1 [A2 AM]]. destruct (lca_spec t b a) as [B1 [B2 BM]].
  apply (anc_antisym t); [apply BM|apply AM]; assumption.
Qed.

(* ================= "highest" ================= *)
Lemma highest_spec start m :
  let r := highest start m in
  (r = start \/ In (gv_block r, gv_num r) m) /\ (gv_num start <= gv_num r)%N /\
  (forall p, In p m -> (snd p <= gv_num r)%N).
Proof.
  unfold highest. revert start. induction m as [|p m IH]; intro start; cbn [fold_left].
  - split; [now left|]. split; [lia|]. intros p [].
  - set (s' := if (gv_num start <? snd p)%N then mkGV (fst p) (snd p) else start).
    destruct (IH s') as [A [B C]]. split; [|split].
    + destruct A as [->|A]; [|right; now right].
      unfold s'. destruct (gv_num start <? snd p)%N; [right; left; now destruct p|now left].
    + assert (gv_num start <= gv_num s')%N; [|lia].
      unfold s'. destruct (N.ltb_spec (gv_num start) (snd p)); cbn; lia.
    + intros q [<-|I]; [|auto].
      assert (snd p <= gv_num s')%N; [|lia].
      unfold s'. destruct (N.ltb_spec (gv_num start) (snd p)); cbn; lia.
Qed.

(* ================= dedup ================= *)
Lemma gv_eqb_spec a b : gv_eqb a b = true <-> a = b.
Proof.
  unfold gv_eqb. rewrite andb_true_iff, Nat.eqb_eq, N.eqb_eq. destruct a, b; cbn. split.
  - intros [-> ->]. reflexivity. - intro H; injection H; auto.
Qed.

Lemma dedup_in l v : In v (dedup l) <-> In v l.
Proof.
  induction l as [|a l IH]; cbn [dedup]; [tauto|].
  destruct (existsb (gv_eqb a) l) eqn:E.
  - rewrite IH. split; [now right|]. intros [<-|I]; [|exact I].
    apply existsb_exists in E. destruct E as [y [I Ey]]. apply gv_eqb_spec in Ey. now subst.
  - cbn [In]. rewrite IH. tauto.
Qed.

Lemma direct_votes_in st sg v : In v (direct_votes st sg) <-> exists a, In (a, v) (votes_of st sg).
Proof.
  unfold direct_votes. rewrite dedup_in, in_map_iff. split.
  - intros [[a w] [E I]]. cbn in E. subst w. eauto.
  - intros [a I]. exists (a, v). auto.
Qed.

(* ================= the selection maps ================= *)
Section Select.
Variable e : env.
Variable st : vstate.
Variable sg : stage.
Variable thr : N.
Let t := e_tree e.
Let tot (b : block) : N := total_votes e st sg b.

(* every entry names a block of the tree with its true number and more than thr votes *)
Definition good (m : list (block * N)) : Prop :=
  NoDup (keys m) /\ forall b n, In (b, n) m -> n = number e b /\ (thr < tot b)%N /\ in_tree t b.
Definition ext (m m' : list (block * N)) : Prop := forall p, In p m -> In p m'.

Lemma good_nil : good [].
Proof. split; [constructor|]. intros b n []. Qed.

Lemma good_bset m b : good m -> (thr < tot b)%N -> in_tree t b ->
  good (bset b (number e b) m) /\ ext m (bset b (number e b) m) /\ In (b, number e b) (bset b (number e b) m).
Proof.
  intros [ND G] T I. unfold bset.
  destruct (keys_store b (number e b) m ND) as [ND' _].
  split; [split; [exact ND'|]|split].
  - intros c n H. apply (in_store_nodup _ _ _ _ ND) in H. destruct H as [E|[H _]].
    + injection E as -> ->. auto.
    + now apply G.
  - intros [c n] H. apply (in_store_nodup _ _ _ _ ND).
    destruct (Nat.eq_dec c b) as [->|N]; [left|right; split; [exact H|exact N]].
    destruct (G b n H) as [-> _]. reflexivity.
  - apply (in_store_nodup _ _ _ _ ND). now left.
Qed.

Lemma ext_refl m : ext m m.
Proof. intros p I. exact I. Qed.
Lemma ext_trans m1 m2 m3 : ext m1 m2 -> ext m2 m3 -> ext m1 m3.
Proof. intros A B p I. auto. Qed.

(* all votes considered are for blocks of the tree *)
Variable votes : list gvote.
Hypothesis votes_known : forall v, In v votes -> in_tree t (gv_block v).

Definition rec_ok (rec : block -> list (block * N) -> list (block * N)) : Prop :=
  forall c m, good m -> good (rec c m) /\ ext m (rec c m).

Lemma sa_loop_sound rec curr : rec_ok rec ->
  forall vs m, (forall v, In v vs -> in_tree t (gv_block v)) -> good m ->
  good (sa_loop e st sg thr rec curr vs m) /\ ext m (sa_loop e st sg thr rec curr vs m).
Proof.
  intros R. induction vs as [|v r IH]; intros m K G; cbn [sa_loop].
  - split; [exact G|apply ext_refl].
  - assert (K' : forall v, In v r -> in_tree t (gv_block v)) by (intros; apply K; now right).
    destruct (gv_block v =? curr); [now apply IH|].
    set (pred := lca (e_tree e) (gv_block v) curr).
    destruct (pred =? curr); [split; [exact G|apply ext_refl]|].
    destruct (N.ltb_spec thr (total_votes e st sg pred)) as [L|L].
    + assert (IP : in_tree t pred).
      { apply (anc_in_tree t pred (gv_block v)); [apply lca_spec|apply K; now left]. }
      destruct (good_bset m pred G L IP) as [G' [E' _]].
      destruct (IH _ K' G') as [G2 E2]. split; [exact G2|eapply ext_trans; eauto].
    + destruct (R pred m G) as [G' E']. destruct (IH _ K' G') as [G2 E2].
      split; [exact G2|eapply ext_trans; eauto].
Qed.

Lemma selected_ancestors_ok fuel : rec_ok (selected_ancestors e st sg thr fuel votes).
Proof.
  induction fuel as [|f IH]; intros c m G; cbn [selected_ancestors].
  - split; [exact G|apply ext_refl].
  - apply sa_loop_sound; auto.
Qed.

(* a vote target with no other vote target strictly below it: the loop never returns early and
   records every qualifying common ancestor *)
Lemma sa_loop_complete rec curr : rec_ok rec ->
  forall vs m, (forall v, In v vs -> in_tree t (gv_block v)) -> good m ->
  (forall v, In v vs -> gv_block v <> curr -> lca t (gv_block v) curr <> curr) ->
  forall v, In v vs -> gv_block v <> curr -> (thr < tot (lca t (gv_block v) curr))%N ->
  In (lca t (gv_block v) curr, number e (lca t (gv_block v) curr)) (sa_loop e st sg thr rec curr vs m).
Proof.
  intros R. induction vs as [|v0 r IH]; intros m K G LM v I NC T; [destruct I|].
  assert (K' : forall v, In v r -> in_tree t (gv_block v)) by (intros; apply K; now right).
  assert (LM' : forall v, In v r -> gv_block v <> curr -> lca t (gv_block v) curr <> curr)
    by (intros; apply LM; [now right|assumption]).
  cbn [sa_loop]. destruct (Nat.eqb_spec (gv_block v0) curr) as [E0|N0].
  - destruct I as [<-|I]; [congruence|]. now apply IH.
  - fold t. set (pred := lca t (gv_block v0) curr).
    destruct (Nat.eqb_spec pred curr) as [EP|NP]; [exfalso; exact (LM v0 (or_introl eq_refl) N0 EP)|].
    assert (IP : in_tree t pred).
    { apply (anc_in_tree t pred (gv_block v0)); [apply lca_spec|apply K; now left]. }
    destruct (N.ltb_spec thr (total_votes e st sg pred)) as [L|L].
    + destruct (good_bset m pred G L IP) as [G' [E' IN']].
      destruct I as [<-|I].
      * destruct (sa_loop_sound rec curr R r _ K' G') as [_ E2]. apply E2. exact IN'.
      * now apply IH.
    + destruct (R pred m G) as [G' E'].
      destruct I as [<-|I]; [unfold tot in T; fold pred in T; lia|]. now apply IH.
Qed.

(* the fold over all vote targets of getPossibleSelectedBlocks (second part) *)
Definition anc_pass (vs : list gvote) (m : list (block * N)) : list (block * N) :=
  fold_left (fun m v => selected_ancestors e st sg thr (S (gv_block v)) votes (gv_block v) m) vs m.

Lemma anc_pass_sound vs : forall m, good m -> good (anc_pass vs m) /\ ext m (anc_pass vs m).
Proof.
  induction vs as [|v r IH]; intros m G; cbn [anc_pass fold_left].
  - split; [exact G|apply ext_refl].
  - destruct (selected_ancestors_ok (S (gv_block v)) (gv_block v) m G) as [G' E'].
    destruct (IH _ G') as [G2 E2]. split; [exact G2|eapply ext_trans; eauto].
Qed.

Lemma anc_pass_complete vs : forall m, good m ->
  forall a, In a vs ->
  (forall v, In v votes -> gv_block v <> gv_block a -> lca t (gv_block v) (gv_block a) <> gv_block a) ->
  forall v, In v votes -> gv_block v <> gv_block a -> (thr < tot (lca t (gv_block v) (gv_block a)))%N ->
  In (lca t (gv_block v) (gv_block a), number e (lca t (gv_block v) (gv_block a))) (anc_pass vs m).
Proof.
  induction vs as [|v0 r IH]; intros m G a Ia LM v Iv NC T; [destruct Ia|].
  cbn [anc_pass fold_left].
  destruct (selected_ancestors_ok (S (gv_block v0)) (gv_block v0) m G) as [G' E'].
  destruct Ia as [<-|Ia]; [|now apply (IH _ G' a)].
  destruct (anc_pass_sound r _ G') as [_ E2]. apply E2.
  cbn [selected_ancestors].
  apply (sa_loop_complete _ (gv_block v0) (selected_ancestors_ok (gv_block v0)) votes m votes_known G LM v Iv NC T).
Qed.

(* the pairwise pass of the repaired getPossibleSelectedBlocks *)
Lemma has_key_spec (m : list (block * N)) b :
  existsb (fun p => (fst p =? b)%nat) m = true <-> exists n, In (b, n) m.
Proof.
  rewrite existsb_exists. split.
  - intros [[c n] [I E]]. cbn in E. apply Nat.eqb_eq in E. subst c. eauto.
  - intros [n I]. exists (b, n). split; [exact I|apply Nat.eqb_refl].
Qed.

Lemma pair_step m pred : good m -> in_tree t pred ->
  let m' := if existsb (fun p => (fst p =? pred)%nat) m then m
            else if (thr <? total_votes e st sg pred)%N then bset pred (number e pred) m else m in
  good m' /\ ext m m' /\ ((thr < tot pred)%N -> In (pred, number e pred) m').
Proof.
  intros G IP. cbn zeta.
  destruct (existsb (fun p => (fst p =? pred)%nat) m) eqn:K.
  - split; [exact G|]. split; [apply ext_refl|]. intros _.
    apply has_key_spec in K. destruct K as [n I]. destruct (proj2 G pred n I) as [-> _]. exact I.
  - destruct (N.ltb_spec thr (total_votes e st sg pred)) as [L|L].
    + destruct (good_bset m pred G L IP) as [G' [E' IN']]. auto.
    + split; [exact G|]. split; [apply ext_refl|]. unfold tot. lia.
Qed.

Lemma pair_inner_spec a : in_tree t (gv_block a) ->
  forall vs m, good m ->
  good (pair_pass_inner e st sg thr a vs m) /\ ext m (pair_pass_inner e st sg thr a vs m) /\
  (forall b, In b vs -> (thr < tot (lca t (gv_block a) (gv_block b)))%N ->
     In (lca t (gv_block a) (gv_block b), number e (lca t (gv_block a) (gv_block b))) (pair_pass_inner e st sg thr a vs m)).
Proof.
  intros IA. induction vs as [|b r IH]; intros m G; cbn [pair_pass_inner].
  - split; [exact G|]. split; [apply ext_refl|]. intros b [].
  - fold t. set (pred := lca t (gv_block a) (gv_block b)).
    assert (IP : in_tree t pred) by (apply (anc_in_tree t pred (gv_block a)); [apply lca_spec|exact IA]).
    destruct (pair_step m pred G IP) as [G' [E' C']].
    destruct (IH _ G') as [G2 [E2 C2]].
    split; [exact G2|]. split; [eapply ext_trans; eauto|].
    intros c [<-|I] T; [apply E2, C'; exact T|now apply C2].
Qed.

Lemma pair_pass_spec : forall vs m, (forall v, In v vs -> in_tree t (gv_block v)) -> good m ->
  good (pair_pass e st sg thr vs m) /\ ext m (pair_pass e st sg thr vs m) /\
  (forall a b, In a vs -> In b vs -> gv_block a <> gv_block b ->
     (thr < tot (lca t (gv_block a) (gv_block b)))%N ->
     In (lca t (gv_block a) (gv_block b), number e (lca t (gv_block a) (gv_block b))) (pair_pass e st sg thr vs m)).
Proof.
  induction vs as [|x r IH]; intros m K G; cbn [pair_pass].
  - split; [exact G|]. split; [apply ext_refl|]. intros a b [].
  - assert (K' : forall v, In v r -> in_tree t (gv_block v)) by (intros; apply K; now right).
    destruct (pair_inner_spec x (K x (or_introl eq_refl)) r m G) as [G1 [E1 C1]].
    destruct (IH _ K' G1) as [G2 [E2 C2]].
    split; [exact G2|]. split; [eapply ext_trans; eauto|].
    intros a b [<-|Ia] [<-|Ib] NE T.
    + congruence.
    + apply E2. now apply C1.
    + rewrite (lca_comm t (gv_block a) (gv_block x)) in *. apply E2. now apply C1.
    + now apply C2.
Qed.

(* the first part: directly voted blocks *)
Definition direct_pass (vs : list gvote) (m : list (block * N)) : list (block * N) :=
  fold_left (fun m v => if (thr <? total_votes e st sg (gv_block v))%N
                        then bset (gv_block v) (gv_num v) m else m) vs m.

Hypothesis votes_clean : forall v, In v votes -> gv_num v = number e (gv_block v).

Lemma direct_pass_spec vs : (forall v, In v vs -> In v votes) -> forall m, good m ->
  good (direct_pass vs m) /\ ext m (direct_pass vs m) /\
  (forall v, In v vs -> (thr < tot (gv_block v))%N -> In (gv_block v, number e (gv_block v)) (direct_pass vs m)) /\
  (forall p, In p (direct_pass vs m) -> In p m \/ exists v, In v vs /\ gv_block v = fst p).
Proof.
  induction vs as [|v r IH]; intros S m G; cbn [direct_pass fold_left].
  - split; [exact G|]. split; [apply ext_refl|]. split; [intros v []|]. intros p I. now left.
  - assert (S' : forall v, In v r -> In v votes) by (intros; apply S; now right).
    destruct (N.ltb_spec thr (total_votes e st sg (gv_block v))) as [L|L].
    + rewrite (votes_clean v (S v (or_introl eq_refl))).
      destruct (good_bset m (gv_block v) G L (votes_known v (S v (or_introl eq_refl)))) as [G' [E' IN']].
      destruct (IH S' _ G') as [G2 [E2 [C2 O2]]].
      split; [exact G2|]. split; [eapply ext_trans; eauto|]. split.
      * intros w [<-|I] T; [apply E2; exact IN'|now apply C2].
      * intros p I. apply O2 in I. destruct I as [I|[w [Iw Ew]]].
        -- unfold bset in I. apply (in_store_nodup _ _ _ _ (proj1 G)) in I.
           destruct I as [->|[I _]]; [right; exists v; split; [now left|reflexivity]|now left].
        -- right. exists w. split; [now right|exact Ew].
    + destruct (IH S' _ G) as [G2 [E2 [C2 O2]]].
      split; [exact G2|]. split; [exact E2|]. split.
      * intros w [<-|I] T; [unfold tot in T; lia|now apply C2].
      * intros p I. apply O2 in I. destruct I as [I|[w [Iw Ew]]]; [now left|].
        right. exists w. split; [now right|exact Ew].
Qed.

End Select.

Lemma ancestor_by_number_at e b n : (n <= number e b)%N -> ancestor_by_number e b n = ancestor_at e b n.
Proof.
  unfold ancestor_by_number, ancestor_at, number.
  induction b as [|b NZ IH] using (block_ind (e_tree e)); intro L.
  - rewrite chain_0. cbn [find]. rewrite depth_0 in *. assert (n = 0%N) by lia. subst. reflexivity.
  - rewrite (chain_nz _ b NZ). cbn [find]. rewrite (depth_nz _ b NZ) in *.
    set (d := depth (e_tree e) (parent (e_tree e) b)) in *.
    destruct (N.leb_spec (N.of_nat (S d)) n) as [X|X]; destruct (N.eqb_spec (N.of_nat (S d)) n) as [Y|Y];
      try lia; try reflexivity.
    apply IH. lia.
Qed.

(* ================= the main theorems ================= *)
Section Main.
Variable e : env.
Variable st : vstate.
Let t := e_tree e.
Hypothesis W : wf e st.
Hypothesis SO : stored_ok e st = true.
Hypothesis NV : 0 < e_voters e.
Hypothesis HK : in_tree t (s_head st).

Let thr := threshold e.

Lemma total_pos : (0 < total (unit_ws e))%N.
Proof. unfold unit_ws. rewrite total_unit. lia. Qed.

Lemma stored_known sg v : In v (direct_votes st sg) ->
  in_tree t (gv_block v) /\ gv_num v = number e (gv_block v) /\ anc t (s_head st) (gv_block v).
Proof.
  intro I. apply direct_votes_in in I. destruct I as [a I].
  pose proof (proj1 (stored_ok_spec e st) SO sg (a, v) I) as [_ VO]. cbn in VO.
  unfold vote_ok in VO. rewrite !andb_true_iff in VO. destruct VO as [[K N] A].
  unfold known in K. apply Nat.ltb_lt in K. apply N.eqb_eq in N. apply ancb_spec in A. auto.
Qed.

Lemma sm_iff sg b : (thr <? total_votes e st sg b)%N = spec_supermajority e st sg b.
Proof. apply over_threshold_supermajority; [now apply wf_any|exact NV]. Qed.

Lemma sm_lt sg b : (thr < total_votes e st sg b)%N <-> spec_supermajority e st sg b = true.
Proof. rewrite <- sm_iff. symmetry. apply N.ltb_lt. Qed.

(* the finalised head carries every vote *)
Lemma head_total_max sg b : (total_votes e st sg b <= total_votes e st sg (s_head st))%N.
Proof.
  unfold total_votes, votes_for_block.
  assert (length (filter (fun p => ancb (e_tree e) b (gv_block (snd p))) (votes_of st sg))
          <= length (filter (fun p => ancb (e_tree e) (s_head st) (gv_block (snd p))) (votes_of st sg))); [|lia].
  replace (filter (fun p => ancb (e_tree e) (s_head st) (gv_block (snd p))) (votes_of st sg)) with (votes_of st sg).
  - apply filter_length_le || (induction (votes_of st sg) as [|a l IH]; cbn; [lia|destruct (ancb _ _ _); cbn; lia]).
  - symmetry. apply forallb_filter_id || idtac.
    assert (A : forall p, In p (votes_of st sg) -> ancb (e_tree e) (s_head st) (gv_block (snd p)) = true).
    { intros [a v] I. cbn. apply ancb_spec. apply (stored_known sg v). apply direct_votes_in. eauto. }
    clear - A. induction (votes_of st sg) as [|p l IH]; [reflexivity|]. cbn [filter].
    rewrite (A p (or_introl eq_refl)). f_equal. apply IH. intros q I. apply A. now right.
Qed.

Section WithGhost.
Variable g : block.
Hypothesis TOL : spec_tolerant e st Prevote = true.
Hypothesis GH : spec_ghost e st Prevote = Some g.

Lemma ghost_facts : in_tree t g /\ spec_supermajority e st Prevote g = true /\
  forall b, in_tree t b -> spec_supermajority e st Prevote b = true -> anc t b g.
Proof. exact (ghost_spec (e_tree e) (unit_ws e) (spec_votes st Prevote) g total_pos TOL GH). Qed.

Lemma head_anc_ghost : anc t (s_head st) g.
Proof.
  destruct ghost_facts as [IG [SG M]]. apply M; [exact HK|].
  apply sm_lt. apply sm_lt in SG. pose proof (head_total_max Prevote g). lia.
Qed.

Let votes := direct_votes st Prevote.

Lemma votes_known : forall v, In v votes -> in_tree t (gv_block v).
Proof. intros v I. now apply (stored_known Prevote v). Qed.
Lemma votes_clean : forall v, In v votes -> gv_num v = number e (gv_block v).
Proof. intros v I. now apply (stored_known Prevote v). Qed.

Let direct := direct_pass e st Prevote thr votes [].
Let paired := pair_pass e st Prevote thr votes direct.

Lemma psb_unfold : possible_selected_blocks e st Prevote thr =
  match paired with
  | _ :: _ => paired
  | [] => anc_pass e st Prevote thr votes votes []
  end.
Proof. reflexivity. Qed.

Lemma direct_good : good e st Prevote thr direct /\
  (forall v, In v votes -> (thr < total_votes e st Prevote (gv_block v))%N -> In (gv_block v, number e (gv_block v)) direct).
Proof.
  destruct (direct_pass_spec e st Prevote thr votes votes_known votes_clean votes (fun v I => I) [] (good_nil _ _ _ _))
    as [G [_ [C _]]]. split; [exact G|exact C].
Qed.

Lemma paired_good : good e st Prevote thr paired /\ ext direct paired /\
  (forall a b, In a votes -> In b votes -> gv_block a <> gv_block b ->
     (thr < total_votes e st Prevote (lca t (gv_block a) (gv_block b)))%N ->
     In (lca t (gv_block a) (gv_block b), number e (lca t (gv_block a) (gv_block b))) paired).
Proof. exact (pair_pass_spec e st Prevote thr votes direct votes_known (proj1 direct_good)). Qed.

Lemma psb_good : good e st Prevote thr (possible_selected_blocks e st Prevote thr).
Proof.
  rewrite psb_unfold. destruct paired_good as [G _].
  destruct paired eqn:D; [|exact G].
  apply anc_pass_sound; [exact votes_known|apply good_nil].
Qed.

Lemma psb_of_paired p : In p paired -> In p (possible_selected_blocks e st Prevote thr).
Proof. intro I. rewrite psb_unfold. destruct paired; [destruct I|exact I]. Qed.

(* every selected block has more than 2/3 of the prevotes, hence is the ghost or above it *)
Lemma psb_anc_ghost b n : In (b, n) (possible_selected_blocks e st Prevote thr) ->
  n = number e b /\ anc t b g.
Proof.
  intro I. destruct psb_good as [_ G]. destruct (G b n I) as [-> [T IT]]. split; [reflexivity|].
  apply ghost_facts; [exact IT|]. now apply sm_lt.
Qed.

Lemma number_anc a b : anc t a b -> (number e a <= number e b)%N.
Proof. intro A. unfold number. apply anc_depth_le in A. fold t. lia. Qed.

Lemma number_anc_eq a b : anc t a b -> number e a = number e b -> a = b.
Proof. intros A E. apply (anc_depth_eq t a b A). unfold number in E. fold t in E. lia. Qed.

(* if the ghost is among the selected blocks, getPreVotedBlock answers it *)
Lemma prevoted_when_selected :
  In (g, number e g) (possible_selected_blocks e st Prevote thr) ->
  prevoted_block e st = Ok (mkGV g (number e g)).
Proof.
  intro IG. unfold prevoted_block. fold thr.
  pose proof psb_anc_ghost as AG.
  remember (possible_selected_blocks e st Prevote thr) as m eqn:P. clear P.
  assert (HH : highest (mkGV (s_head st) (number e (s_head st))) m = mkGV g (number e g)).
  { pose proof (highest_spec (mkGV (s_head st) (number e (s_head st))) m) as [A [B C]].
    cbn [gv_num gv_block] in *.
    set (r0 := highest (mkGV (s_head st) (number e (s_head st))) m) in *.
    pose proof (C _ IG) as CG. cbn in CG.
    destruct A as [A|A].
    - rewrite A in *. cbn [gv_num] in CG.
      pose proof (number_anc _ _ head_anc_ghost).
      assert (s_head st = g) by (apply number_anc_eq; [exact head_anc_ghost|lia]). congruence.
    - destruct (AG _ _ A) as [En An].
      pose proof (number_anc _ _ An).
      assert (gv_block r0 = g) by (apply number_anc_eq; [exact An|lia]).
      destruct r0 as [rb rn]. cbn in *. congruence. }
  destruct m as [|[h n] [|q r]].
  - destruct IG.
  - destruct IG as [E|[]]. now injection E as -> ->.
  - now rewrite HH.
Qed.

(* ---- case A: the ghost is a vote target ---- *)
Lemma direct_has_ghost : directly_voted st Prevote g = true ->
  In (g, number e g) (possible_selected_blocks e st Prevote thr).
Proof.
  intro DV. unfold directly_voted in DV. apply existsb_exists in DV. destruct DV as [[a v] [I E]].
  cbn in E. apply Nat.eqb_eq in E.
  assert (Iv : In v votes) by (apply direct_votes_in; eauto).
  assert (T : (thr < total_votes e st Prevote (gv_block v))%N) by (rewrite E; apply sm_lt; apply ghost_facts).
  pose proof (proj2 direct_good v Iv T) as IN. rewrite E in IN.
  apply psb_of_paired. now apply paired_good.
Qed.

(* ---- case B: no vote target has more than 2/3: the ghost is a fork point of vote targets ---- *)
(* the vote target of largest index below the ghost *)
Lemma max_target (P : block -> bool) (l : list gvote) : (exists v, In v l /\ P (gv_block v) = true) ->
  exists a, In a l /\ P (gv_block a) = true /\
            forall v, In v l -> P (gv_block v) = true -> gv_block v <= gv_block a.
Proof.
  induction l as [|x l IH]; intros [v [I Pv]]; [destruct I|].
  destruct (existsb (fun v => P (gv_block v)) l) eqn:E.
  - apply existsb_exists in E. destruct (IH E) as [a [Ia [Pa M]]].
    destruct (P (gv_block x)) eqn:Px.
    + destruct (le_lt_dec (gv_block x) (gv_block a)) as [L|L].
      * exists a. split; [now right|]. split; [exact Pa|]. intros w [<-|Iw] Pw; [exact L|now apply M].
      * exists x. split; [now left|]. split; [exact Px|]. intros w [<-|Iw] Pw; [lia|].
        specialize (M w Iw Pw). lia.
    + exists a. split; [now right|]. split; [exact Pa|]. intros w [<-|Iw] Pw; [congruence|now apply M].
  - assert (N : forall w, In w l -> P (gv_block w) = false).
    { intros w Iw. destruct (P (gv_block w)) eqn:Pw; [|reflexivity].
      assert (existsb (fun v => P (gv_block v)) l = true) by (apply existsb_exists; eauto). congruence. }
    destruct I as [<-|I]; [|rewrite (N v I) in Pv; discriminate].
    exists x. split; [now left|]. split; [exact Pv|]. intros w [<-|Iw] Pw; [lia|].
    rewrite (N w Iw) in Pw. discriminate.
Qed.

(* the ancestor of a just below g *)
Lemma child_towards a : anc t g a -> a <> g ->
  exists c, anc t c a /\ c <> 0 /\ parent t c = g.
Proof.
  induction a as [|a NZ IHa] using (block_ind t); intros A N.
  - apply anc_0 in A. congruence.
  - destruct (Nat.eq_dec (parent t a) g) as [E|NE].
    + exists a. split; [apply anc_refl|]. auto.
    + apply anc_step in A; [|assumption]. destruct A as [->|A]; [congruence|].
      destruct (IHa A NE) as [c [C1 [C2 C3]]]. exists c. split; [|auto].
      apply anc_step; auto.
Qed.

Lemma votes_for_block_filter sg b :
  votes_for_block e st sg b = N.of_nat (length (filter (fun p => ancb t b (gv_block (snd p))) (votes_of st sg))).
Proof. reflexivity. Qed.

Lemma fork_point_exists :
  directly_voted st Prevote g = false ->
  exists a b, In a votes /\ In b votes /\ gv_block b <> gv_block a /\ lca t (gv_block b) (gv_block a) = g /\
    (forall v, In v votes -> gv_block v <> gv_block a -> lca t (gv_block v) (gv_block a) <> gv_block a).
Proof.
  intros NDV.
  destruct ghost_facts as [IG [SG MG]].
  assert (TG : (thr < total_votes e st Prevote g)%N) by now apply sm_lt.
  (* some stored vote is below g: otherwise the equivocators alone would exceed the threshold *)
  assert (EX : exists v, In v votes /\ ancb t g (gv_block v) = true).
  { destruct (existsb (fun v => ancb t g (gv_block v)) votes) eqn:X.
    - apply existsb_exists in X. exact X.
    - exfalso.
      assert (Z : votes_for_block e st Prevote g = 0%N).
      { rewrite votes_for_block_filter.
        replace (filter (fun p => ancb t g (gv_block (snd p))) (votes_of st Prevote)) with (@nil (nat * gvote)); [reflexivity|].
        symmetry. apply (proj2 (filter_nil_iff _ _)) || idtac.
        assert (F : forall p, In p (votes_of st Prevote) -> ancb t g (gv_block (snd p)) = false).
        { intros [a v] I. cbn. destruct (ancb t g (gv_block v)) eqn:Y; [|reflexivity].
          assert (existsb (fun v => ancb t g (gv_block v)) votes = true); [|congruence].
          apply existsb_exists. exists v. split; [apply direct_votes_in; eauto|exact Y]. }
        clear - F. induction (votes_of st Prevote) as [|p l IH]; [reflexivity|]. cbn [filter].
        rewrite (F p (or_introl eq_refl)). apply IH. intros q I. apply F. now right. }
      (* total = number of equivocators <= tolerance < threshold *)
      unfold total_votes in TG. rewrite Z in TG.
      pose proof (total_votes_weight e st Prevote (wf_any e st Prevote W) g) as TW.
      unfold total_votes in TW. rewrite Z in TW.
      pose proof TOL as TL. unfold spec_tolerant, tolerant in TL. apply N.leb_le in TL.
      pose proof (eq_weight_le_weight t (unit_ws e) (spec_votes st Prevote) g) as EW.
      pose proof (wsum_le_total (unit_ws e) (fun v => supports t (spec_votes st Prevote) v g)) as WT.
      fold (weight t (unit_ws e) (spec_votes st Prevote) g) in WT.
      (* weight g = |eq| > thr, but also weight g = eq_weight... use: weight g <= eq_weight is false in general;
         instead: every supporter of g is an equivocator *)
      assert (WE : (weight t (unit_ws e) (spec_votes st Prevote) g <= eq_weight (unit_ws e) (spec_votes st Prevote))%N).
      { apply wsum_mono. intros v Sp. unfold supports in Sp.
        destruct (equivocates (spec_votes st Prevote) v) eqn:Q; [reflexivity|]. cbn [orb] in Sp. exfalso.
        assert (NE : ~ In v (keys (eqv_of st Prevote))).
        { intro I. apply (spec_equivocates e st Prevote (wf_any e st Prevote W)) in I. congruence. }
        apply (spec_votes_for e st Prevote v g NE) in Sp. destruct Sp as [gv [I A]].
        assert (existsb (fun v => ancb t g (gv_block v)) votes = true); [|congruence].
        apply existsb_exists. exists gv. split; [apply direct_votes_in; eauto|now apply ancb_spec]. }
      pose proof (three_threshold (unit_ws e) total_pos) as TT.
      pose proof (threshold_spec e NV) as TS. unfold tolerance in TL.
      pose proof (threshold_le_total (unit_ws e)). fold thr in TS.
      unfold t in *. lia. }
  destruct (max_target (fun b => ancb t g b) votes EX) as [a [Ia [Ga Ma]]].
  apply ancb_spec in Ga.
  assert (NAG : gv_block a <> g).
  { intro E. apply direct_votes_in in Ia. destruct Ia as [x Ia].
    assert (directly_voted st Prevote g = true); [|congruence].
    unfold directly_voted. apply existsb_exists. exists (x, a). split; [exact Ia|]. cbn. now apply Nat.eqb_eq. }
  destruct (child_towards (gv_block a) Ga NAG) as [c [Ca [Cnz Cp]]].
  assert (Gc : anc t g c) by (rewrite <- Cp; apply anc_parent).
  assert (IC : in_tree t c) by (apply (anc_in_tree t c (gv_block a) Ca), votes_known, Ia).
  assert (NSc : spec_supermajority e st Prevote c = false).
  { destruct (spec_supermajority e st Prevote c) eqn:Sc; [|reflexivity]. exfalso.
    pose proof (MG c IC Sc) as A. assert (c = g) by (apply (anc_antisym t); assumption). subst c.
    pose proof (parent_lt t g Cnz). lia. }
  (* a stored vote below g that is not below c *)
  assert (EB : exists b, In b votes /\ anc t g (gv_block b) /\ ~ anc t c (gv_block b)).
  { destruct (existsb (fun p => ancb t g (gv_block (snd p)) && negb (ancb t c (gv_block (snd p)))) (votes_of st Prevote)) eqn:X.
    - apply existsb_exists in X. destruct X as [[x b] [I H]]. cbn in H. apply andb_true_iff in H.
      destruct H as [H1 H2]. apply negb_true_iff in H2. exists b.
      split; [apply direct_votes_in; eauto|]. split; [now apply ancb_spec|now apply ancb_false].
    - exfalso.
      assert (LE : (votes_for_block e st Prevote g <= votes_for_block e st Prevote c)%N).
      { rewrite !votes_for_block_filter.
        assert (F : forall p, In p (votes_of st Prevote) -> ancb t g (gv_block (snd p)) = true -> ancb t c (gv_block (snd p)) = true).
        { intros p I H. destruct (ancb t c (gv_block (snd p))) eqn:Y; [reflexivity|].
          assert (existsb (fun p => ancb t g (gv_block (snd p)) && negb (ancb t c (gv_block (snd p)))) (votes_of st Prevote) = true); [|congruence].
          apply existsb_exists. exists p. split; [exact I|]. now rewrite H, Y. }
        clear - F. induction (votes_of st Prevote) as [|p l IH]; [cbn; lia|]. cbn [filter].
        assert (IH' := IH (fun q I => F q (or_intror I))).
        destruct (ancb t g (gv_block (snd p))) eqn:Y.
        - rewrite (F p (or_introl eq_refl) Y). cbn [length]. lia.
        - destruct (ancb t c (gv_block (snd p))); cbn [length]; lia. }
      assert (thr < total_votes e st Prevote c)%N by (unfold total_votes in *; lia).
      apply sm_lt in H. congruence. }
  destruct EB as [b [Ib [Gb NCb]]].
  (* lca b a = g *)
  assert (LG : lca t (gv_block b) (gv_block a) = g).
  { destruct (lca_spec t (gv_block b) (gv_block a)) as [L1 [L2 LM]].
    apply (anc_antisym t); [|now apply LM].
    (* the lca is on a's chain, as is c; it is not below c *)
    destruct (anc_linear t _ _ _ L2 Ca) as [X|X].
    - (* lca above or at c: then anc lca c; lca <> c since c is not an ancestor of b; so anc lca (parent c) = g *)
      destruct (Nat.eq_dec (lca t (gv_block b) (gv_block a)) c) as [E|NE]; [rewrite E in L1; contradiction|].
      rewrite <- Cp. now apply anc_parent_of.
    - exfalso. apply NCb. eapply anc_trans; eauto. }
  assert (NBA : gv_block b <> gv_block a) by (intro E; apply NCb; now rewrite E).
  (* a has no vote target strictly below it *)
  assert (LM : forall v, In v votes -> gv_block v <> gv_block a -> lca t (gv_block v) (gv_block a) <> gv_block a).
  { intros v Iv NE E. destruct (lca_spec t (gv_block v) (gv_block a)) as [L1 _]. rewrite E in L1.
    assert (ancb t g (gv_block v) = true) by (apply ancb_spec; exact (anc_trans t _ _ _ Ga L1)).
    pose proof (Ma v Iv H). apply anc_le in L1. lia. }
  exists a, b. auto.
Qed.

(* the ghost is the fork point of two vote targets: the pairwise pass selects it *)
Lemma fork_point_selected : directly_voted st Prevote g = false ->
  In (g, number e g) (possible_selected_blocks e st Prevote thr).
Proof.
  intro NDV. destruct (fork_point_exists NDV) as [a [b [Ia [Ib [NE [LG _]]]]]].
  apply psb_of_paired. rewrite <- LG. apply paired_good; auto.
  rewrite LG. apply sm_lt. apply ghost_facts.
Qed.

(* ---- C21_precommit_target ---- *)
(* getPreVotedBlock is the GRANDPA ghost *)
Lemma prevoted_is_ghost : prevoted_block e st = Ok (mkGV g (number e g)).
Proof.
  apply prevoted_when_selected.
  destruct (directly_voted st Prevote g) eqn:DV; [now apply direct_has_ghost|now apply fork_point_selected].
Qed.

Lemma precommit_is_target :
  match spec_target e st with
  | Some tg => determine_precommit true e st = Ok (mkGV tg (number e tg))
  | None => True
  end.
Proof.
  unfold spec_target, determine_precommit. rewrite GH, prevoted_is_ghost. cbn [obind gv_num gv_block].
  destruct (e_next_change e) as [nc|]; [|reflexivity].
  destruct (N.ltb_spec nc (number e g)) as [L|L]; [|reflexivity].
  rewrite ancestor_by_number_at by lia. destruct (ancestor_at e g nc); [reflexivity|exact I].
Qed.

(* the capped target always exists: it is the ancestor of the ghost at the height of the change *)
Lemma target_defined : exists tg, spec_target e st = Some tg /\ anc t tg g.
Proof.
  unfold spec_target. rewrite GH. destruct (e_next_change e) as [nc|]; [|exists g; split; [reflexivity|apply anc_refl]].
  destruct (N.ltb_spec nc (number e g)) as [L|L]; [|exists g; split; [reflexivity|apply anc_refl]].
  unfold ancestor_at. fold t.
  destruct (find (fun x => (number e x =? nc)%N) (chain t g)) as [x|] eqn:F.
  - exists x. split; [reflexivity|]. apply find_some in F. exact (proj1 F).
  - exfalso. clear - F L. revert F L. unfold number. fold t.
    induction g as [|b NZ IH] using (block_ind t); intros F L.
    + rewrite depth_0 in L. lia.
    + rewrite (chain_nz t b NZ) in F. cbn [find] in F. rewrite (depth_nz t b NZ) in *.
      destruct (N.eqb_spec (N.of_nat (S (depth t (parent t b)))) nc) as [E|NE]; [discriminate|].
      destruct (N.eq_dec (N.of_nat (depth t (parent t b))) nc) as [E2|NE2].
      * destruct (parent t b) as [|pb] eqn:P.
        -- rewrite chain_0 in F. cbn [find] in F. rewrite depth_0 in *. cbn in E2. subst nc. cbn in F. discriminate.
        -- rewrite (chain_nz t (S pb)) in F by discriminate. cbn [find] in F.
           rewrite <- E2 in F. rewrite N.eqb_refl in F. discriminate.
      * apply IH; [exact F|lia].
Qed.

End WithGhost.

(* ---- getBestFinalCandidate is the pre-voted block or one of its ancestors ---- *)
Lemma bfc_anc_prevoted bfc : best_final_candidate e st = Ok bfc ->
  exists p, prevoted_block e st = Ok p /\ anc t (gv_block bfc) (gv_block p).
Proof.
  unfold best_final_candidate. destruct (prevoted_block e st) as [p| | |]; cbn [obind]; try discriminate.
  destruct (possible_selected_blocks e st Precommit (threshold e)) as [|x m] eqn:P.
  - intro H; injection H as <-. exists p. split; [reflexivity|apply anc_refl].
  - rewrite <- P. clear P. intro H; injection H as <-. exists p. split; [reflexivity|].
    generalize (possible_selected_blocks e st Precommit (threshold e)). intro l.
    assert (INV : anc t (gv_block (mkGV 0 0%N)) (gv_block p)) by apply anc_root.
    revert INV. generalize (mkGV 0 0%N). induction l as [|[h n] l IH]; intros acc INV; cbn [fold_left]; [exact INV|].
    apply IH. destruct (ancb (e_tree e) h (gv_block p)) eqn:A.
    + destruct (gv_num acc <? n)%N; [cbn; now apply ancb_spec|exact INV].
    + destruct (gv_num acc <? number e (lca (e_tree e) h (gv_block p)))%N; [cbn; apply lca_spec|exact INV].
Qed.

(* ---- C21_finalises_only ---- *)
Lemma finalise_spec b st' : attempt_to_finalize e st = (Ok (Some b), st') ->
  spec_supermajority e st Precommit b = true /\
  (exists p, prevoted_block e st = Ok p /\ anc t b (gv_block p)) /\
  s_head st' = b /\ (number e (s_head st) <= number e b \/ True)%N.
Proof.
  unfold attempt_to_finalize. destruct (best_final_candidate e st) as [bfc| | |] eqn:B; try discriminate.
  destruct (gv_num bfc <? number e (s_head st))%N; [discriminate|].
  destruct (N.leb_spec (total_votes e st Precommit (gv_block bfc)) (threshold e)) as [L|L]; [discriminate|].
  intro H. injection H as <- <-. split; [now apply sm_lt|]. split; [now apply bfc_anc_prevoted|].
  split; [reflexivity|now right].
Qed.

Lemma finalises_only b st' g :
  spec_tolerant e st Prevote = true -> spec_ghost e st Prevote = Some g ->
  attempt_to_finalize e st = (Ok (Some b), st') ->
  spec_supermajority e st Precommit b = true /\ anc t b g.
Proof.
  intros TOL GH F. destruct (finalise_spec b st' F) as [S [[p [P A]] _]]. split; [exact S|].
  rewrite (prevoted_is_ghost g TOL GH) in P. injection P as <-. exact A.
Qed.

End Main.

(* ---- statements of Properties.v with longer proofs ---- *)
Definition ex_env := mkEnv [0;0;1;0;1;1;3] 7 5 None 6.
Definition ex_st := mkSt [(6, mkGV 3 2%N); (1, mkGV 7 3%N); (2, mkGV 4 1%N); (3, mkGV 0 0%N); (4, mkGV 6 2%N)]
                         [] [(5, 2); (0, 2)] [] 0.
Lemma wf_ex : wf ex_env ex_st.
Proof.
  split; unfold wf_stage; cbn; repeat split; try (repeat constructor; cbn; intuition discriminate);
    intros v H; cbn in H; intuition (subst; cbn; try lia; try discriminate).
Qed.
(* the pinned getPossibleSelectedBlocks (no pairwise pass) answered block 0 although block 1, the
   fork point of the votes for 3, 6 and 7, has 5 of the 7 votes *)
Lemma ghost_prefix_refuted :
  wf ex_env ex_st /\ stored_ok ex_env ex_st = true /\ spec_tolerant ex_env ex_st Prevote = true /\
  spec_ghost ex_env ex_st Prevote = Some 1 /\
  prevoted_block_prefix ex_env ex_st = Some (mkGV 0 0%N) /\
  prevoted_block ex_env ex_st = Ok (mkGV 1 1%N).
Proof. split; [exact wf_ex|]. vm_compute. repeat split; reflexivity. Qed.

Lemma finalises_only_prevoted : forall e st b st',
  wf e st -> 0 < e_voters e ->
  attempt_to_finalize e st = (Ok (Some b), st') ->
  spec_supermajority e st Precommit b = true /\
  (exists p, prevoted_block e st = Ok p /\ anc (e_tree e) b (gv_block p)) /\ s_head st' = b.
Proof.
  intros e st b st' W NV F.
  unfold attempt_to_finalize in F. destruct (best_final_candidate e st) as [bfc| | |] eqn:B; try discriminate.
  destruct (gv_num bfc <? number e (s_head st))%N; [discriminate|].
  destruct (N.leb_spec (total_votes e st Precommit (gv_block bfc)) (threshold e)) as [L|L]; [discriminate|].
  injection F as <- <-. split; [|split; [|reflexivity]].
  - rewrite <- (over_threshold_supermajority e st Precommit (wf_any e st Precommit W) NV). now apply N.ltb_lt.
  - now apply bfc_anc_prevoted.
Qed.

Lemma finalises_only_partial : forall e st b st' g,
  wf e st -> stored_ok e st = true -> 0 < e_voters e -> in_tree (e_tree e) (s_head st) ->
  spec_tolerant e st Prevote = true -> spec_ghost e st Prevote = Some g ->
  attempt_to_finalize e st = (Ok (Some b), st') ->
  finalise_ok e st b = true.
Proof.
  intros e st b st' g W SO NV HK TOL GH F.
  destruct (finalises_only e st W SO NV HK b st' g TOL GH F) as [S A].
  unfold finalise_ok. rewrite S, GH. now apply ancb_spec.
Qed.
