(* C21/Spec.v -- what property C21 demands, written over the GRANDPA specification of
   Grandpa/Votes.v + RoundSpec.v (definitions only).

   The stored votes of a stage become a vote set with unit weights: a stored vote of authority a
   for block b is the vote (a, b); an authority recorded as an equivocator contributes two
   different votes (so that it equivocates in the sense of the paper and counts for every block).
   "More than two thirds of the voters" is has_supermajority with unit weights
   (Proofs.threshold_unit: n - (n-1)/3 = 2n/3 + 1). *)
From Coq Require Import List Arith Bool NArith.
From Grandpa Require Import Tree Votes RoundSpec.
From C21 Require Import Model.
Import ListNotations.

Definition unit_ws (e : env) : list N := repeat 1%N (e_voters e).

Definition spec_votes (st : vstate) (sg : stage) : list vote :=
  map (fun p => mkVote (fst p) (gv_block (snd p)) 0) (votes_of st sg)
  ++ flat_map (fun p => [mkVote (fst p) 0 1; mkVote (fst p) 0 2]) (eqv_of st sg).

(* the highest block with more than two thirds of the votes of the stage, counting descendants
   and equivocators *)
Definition spec_ghost (e : env) (st : vstate) (sg : stage) : option block :=
  ghost (e_tree e) (unit_ws e) (spec_votes st sg).
Definition spec_tolerant (e : env) (st : vstate) (sg : stage) : bool :=
  tolerant (unit_ws e) (spec_votes st sg).
Definition spec_supermajority (e : env) (st : vstate) (sg : stage) (b : block) : bool :=
  has_supermajority (e_tree e) (unit_ws e) (spec_votes st sg) b.

(* the ancestor of b with number n *)
Definition ancestor_at (e : env) (b : block) (n : N) : option block :=
  find (fun x => (number e x =? n)%N) (chain (e_tree e) b).

(* the precommit target: the prevote ghost, capped at a pending authority change *)
Definition spec_target (e : env) (st : vstate) : option block :=
  match spec_ghost e st Prevote with
  | None => None
  | Some g =>
    match e_next_change e with
    | Some nc => if (nc <? number e g)%N then ancestor_at e g nc else Some g
    | None => Some g
    end
  end.

(* every stored vote is one the property allows to be counted *)
Definition vote_ok (e : env) (st : vstate) (v : gvote) : bool :=
  known e (gv_block v) && (gv_num v =? number e (gv_block v))%N && ancb (e_tree e) (s_head st) (gv_block v).
Definition msg_ok (e : env) (st : vstate) (m : vmsg) : bool :=
  m_sig_ok m && m_setid_ok m && (match m_round m with RoundCurrent => true | _ => false end)
  && (m_voter m <? e_voters e)%nat && vote_ok e st (m_vote m).
Definition stored_ok (e : env) (st : vstate) : bool :=
  forallb (fun p => (fst p <? e_voters e)%nat && vote_ok e st (snd p)) (s_pv st)
  && forallb (fun p => (fst p <? e_voters e)%nat && vote_ok e st (snd p)) (s_pc st).

(* property predicates on an observed answer *)
(* determinePreCommit / getPreVotedBlock answered r *)
Definition precommit_ok (e : env) (st : vstate) (capped : bool) (r : gvote) : bool :=
  match (if capped then spec_target e st else spec_ghost e st Prevote) with
  | Some g => (gv_block r =? g)%nat && (gv_num r =? number e g)%N
  | None => false
  end.
(* attemptToFinalize finalised b: b has more than two thirds of the precommits and is the prevote
   ghost or one of its ancestors (the reading of "an ancestor of that target" that does not apply
   the authority-change cap to finalisation: the cap is a voting rule) *)
Definition finalise_ok (e : env) (st : vstate) (b : block) : bool :=
  spec_supermajority e st Precommit b &&
  match spec_ghost e st Prevote with
  | Some g => ancb (e_tree e) b g
  | None => false
  end.

(* ---- guards of the recorded findings ---- *)
Definition directly_voted (st : vstate) (sg : stage) (b : block) : bool :=
  existsb (fun p => (gv_block (snd p) =? b)%nat) (votes_of st sg).
(* getPossibleSelectedBlocks returns as soon as some directly voted block has > 2/3; the ghost is
   missed exactly when it is not itself a vote target (it is then the fork point of vote targets) *)
Definition ghost_missed_guard (e : env) (st : vstate) : bool :=
  match spec_ghost e st Prevote with
  | Some g => negb (directly_voted st Prevote g)
              && existsb (fun p => spec_supermajority e st Prevote (gv_block (snd p))) (s_pv st)
  | None => false
  end.
(* attemptToFinalize without any block having > 2/3 of the prevotes (getGrandpaGHOST lowers the
   threshold) *)
Definition no_prevote_supermajority_guard (e : env) (st : vstate) : bool :=
  match spec_ghost e st Prevote with Some _ => false | None => true end.

(* the selection functions' candidates, for the determinacy test of the driver *)
Definition prevote_candidates (e : env) (st : vstate) : list (block * N) :=
  match possible_selected_blocks e st Prevote (threshold e) with
  | [] => grandpa_ghost_loop e st (S (N.to_nat (threshold e))) (threshold e)
  | m => m
  end.
Definition hash_conflict (st : vstate) (sg : stage) : bool :=
  existsb (fun p => existsb (fun q => (gv_block (snd p) =? gv_block (snd q))%nat
                                      && negb (gv_num (snd p) =? gv_num (snd q))%N) (votes_of st sg))
          (votes_of st sg).
