From Coq Require Import Extraction ExtrOcamlBasic.
From Common Require Import Bytes Drv Outcome.
From BlockTree Require Import Model Spec.
Extraction "model.ml" drv_b2n drv_n2b drv_z_of_n drv_n_of_z drv_nat_of_n drv_n_of_nat
  new_tree add_block prune get_all_blocks get_leaves_of best_block_hash best_block_hash_ord
  leaf_infos abs s_add s_fin s_step s_leaves s_best_hash s_best s_leaf_infos s_pcount better.
