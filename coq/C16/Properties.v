(* C16/Properties.v — property C16: fork choice selects the best leaf deterministically.
   Only statements, each closed by `exact <lemma>`, with Print Assumptions beneath.

   best_block_hash_ord pi sigma t is the model of BlockTree.BestBlockHash (leafMap.bestBlock +
   highestLeaf + node.primaryAncestorCount) where pi is the order in which sync.Map.Range visits
   bt.leaves and sigma the order in which it visits the second map lm2; [permuting f] says f only
   reorders.  s_best_hash is defined on the specification (a set of blocks with parent links):
   the argmax of the childless blocks under [fork_choice_better], the count being the number of
   primary blocks met walking the parent links up to (excluding) the root. *)
From Coq Require Import List NArith ZArith Bool Permutation.
From Common Require Import Outcome.
From BlockTree Require Import Model Spec ProofsTree ProofsPath ProofsSpec ProofsSim ProofsQuery
  ProofsBest ProofsHist ProofsPre ProofsOrder ProofsShape ProofsInterleave.
Import ListNotations.
Local Open Scope N_scope.

(* a is preferred to b: more primary-slot blocks on its chain after the finalised root, then
   greater height, then earlier arrival, then lower hash *)
Definition fork_choice_better (a b : linfo) : Prop :=
  l_count b < l_count a \/
  (l_count a = l_count b /\
   (l_number b < l_number a \/
    (l_number a = l_number b /\
     ((l_arrival a < l_arrival b)%Z \/
      (l_arrival a = l_arrival b /\ l_hash a < l_hash b))))).

(* For every history and every pair of iteration orders, BestBlockHash answers the
   specification's best block; it never fails. *)
Theorem C16_best_is_spec_best : forall h x a ops pi sigma,
  permuting pi -> permuting sigma ->
  exists b, s_best_hash (spec_after h x ops) = Some b
            /\ best_block_hash_ord pi sigma (tree_after h x a ops) = Ok b.
Proof.
  intros h x a ops pi sigma Hp Hs.
  destruct (sim_best_some _ _ (sim_after h x a ops)) as (b & Hb). exists b. split; auto.
  rewrite (sim_best_block_hash pi sigma _ _ (sim_after h x a ops) Hp Hs), Hb. reflexivity.
Qed.
Print Assumptions C16_best_is_spec_best.

(* The specification's best block is a leaf (a held block that is nobody's parent), and when the
   tree has more than the root it is the unique maximum of the leaves for the order above:
   every other leaf is strictly worse. *)
Theorem C16_best_is_leaf_and_argmax : forall h x ops b,
  let s := spec_after h x ops in
  s_best_hash s = Some b ->
  In b (s_leaves s)
  /\ (s_blocks s <> [] ->
      exists m, In m (s_leaf_infos s) /\ l_hash m = b /\ l_count m = s_pcount s b
                /\ forall y, In y (s_leaf_infos s) -> y = m \/ fork_choice_better m y).
Proof.
  intros h x ops b s Hb. pose proof (sim_swf _ _ (sim_after h x 0%Z ops)) as SW. split.
  - exact (s_best_hash_leaf s b SW Hb).
  - intros Hne. unfold s_best_hash in Hb. destruct (s_blocks s) eqn:Eb; [congruence|].
    destruct (s_best s) as [m|] eqn:Em; [|discriminate]. simpl in Hb. inversion Hb; subst b.
    destruct (s_best_is_max s m SW Em) as (Hin & Hmax). exists m. repeat split; auto.
    unfold s_leaf_infos in Hin. apply in_flat_map in Hin as (y & _ & Hy).
    destruct (s_find s y); [|contradiction]. destruct Hy as [<-|[]]. reflexivity.
Qed.
Print Assumptions C16_best_is_leaf_and_argmax.

(* the choice does not depend on the iteration order of the leaf maps *)
Theorem C16_iteration_order_free : forall h x a ops pi sigma pi' sigma',
  permuting pi -> permuting sigma -> permuting pi' -> permuting sigma' ->
  best_block_hash_ord pi sigma (tree_after h x a ops) =
  best_block_hash_ord pi' sigma' (tree_after h x a ops).
Proof.
  intros h x a ops pi sigma pi' sigma' H1 H2 H3 H4.
  rewrite (sim_best_block_hash pi sigma _ _ (sim_after h x a ops) H1 H2).
  rewrite (sim_best_block_hash pi' sigma' _ _ (sim_after h x a ops) H3 H4). reflexivity.
Qed.
Print Assumptions C16_iteration_order_free.

(* nor on the order in which the blocks were added: two histories of accepted additions that are
   permutations of each other (hence both parent-first) give the same best block *)
Theorem C16_insertion_order_free : forall h x a1 a2 ops1 ops2 pi1 sigma1 pi2 sigma2,
  Permutation ops1 ops2 ->
  all_adds_ok (snd (run (new_tree h x a1) ops1)) ->
  all_adds_ok (snd (run (new_tree h x a2) ops2)) ->
  permuting pi1 -> permuting sigma1 -> permuting pi2 -> permuting sigma2 ->
  best_block_hash_ord pi1 sigma1 (tree_after h x a1 ops1) =
  best_block_hash_ord pi2 sigma2 (tree_after h x a2 ops2).
Proof. exact insertion_order_free. Qed.
Print Assumptions C16_insertion_order_free.

(* ... in EVERY parent-first order: if a set of additions is accepted in one order, then any
   permutation of it in which every block comes after its parent (parent_first: the parent is
   the root or an earlier addition) is accepted as well, block by block, and gives the same best
   block.  No acceptance hypothesis on the second order. *)
Theorem C16_every_parent_first_order : forall h x a1 a2 ops1 ops2 pi1 sigma1 pi2 sigma2,
  Permutation ops1 ops2 ->
  all_adds_ok (snd (run (new_tree h x a1) ops1)) ->
  parent_first h [] ops2 ->
  permuting pi1 -> permuting sigma1 -> permuting pi2 -> permuting sigma2 ->
  all_adds_ok (snd (run (new_tree h x a2) ops2))
  /\ best_block_hash_ord pi1 sigma1 (tree_after h x a1 ops1) =
     best_block_hash_ord pi2 sigma2 (tree_after h x a2 ops2).
Proof. exact insertion_order_free_pf. Qed.
Print Assumptions C16_every_parent_first_order.

(* ... and WITH finalisations in between.  General form: two histories made of the same
   additions and any finalisations (Permutation), one header and arrival time per hash
   (one_addition_per_hash), that end on the same finalised root and in which every addition that
   matters is accepted (accepts_below: every record of the history whose block is reached from
   that root through the records' parent links is among the accepted ones -- additions on
   abandoned forks may be accepted in one history and refused in the other) hold the same blocks
   and choose the same best block, whatever the iteration orders. *)
Theorem C16_interleavings_same_best : forall h x a1 a2 ops1 ops2 pi1 sigma1 pi2 sigma2,
  Permutation ops1 ops2 ->
  one_addition_per_hash h ops1 ->
  nhash (root (tree_after h x a1 ops1)) = nhash (root (tree_after h x a2 ops2)) ->
  accepts_below h x ops1 (nhash (root (tree_after h x a1 ops1))) ->
  accepts_below h x ops2 (nhash (root (tree_after h x a2 ops2))) ->
  permuting pi1 -> permuting sigma1 -> permuting pi2 -> permuting sigma2 ->
  best_block_hash_ord pi1 sigma1 (tree_after h x a1 ops1) =
  best_block_hash_ord pi2 sigma2 (tree_after h x a2 ops2)
  /\ Permutation (get_all_blocks (tree_after h x a1 ops1)) (get_all_blocks (tree_after h x a2 ops2)).
Proof. exact interleavings_same_best. Qed.
Print Assumptions C16_interleavings_same_best.

(* Checkable special case: two interleavings of the same additions and the same finalisation
   events (same targets in the same order, each target held when requested), every AddBlock
   answering nil in both. *)
Theorem C16_interleavings_with_finalisations : forall h x a1 a2 ops1 ops2 pi1 sigma1 pi2 sigma2,
  Permutation ops1 ops2 ->
  one_addition_per_hash h ops1 ->
  adds_ok (snd (run (new_tree h x a1) ops1)) ->
  adds_ok (snd (run (new_tree h x a2) ops2)) ->
  fin_targets ops1 = fin_targets ops2 ->
  fins_known (mkSst h x []) ops1 -> fins_known (mkSst h x []) ops2 ->
  permuting pi1 -> permuting sigma1 -> permuting pi2 -> permuting sigma2 ->
  best_block_hash_ord pi1 sigma1 (tree_after h x a1 ops1) =
  best_block_hash_ord pi2 sigma2 (tree_after h x a2 ops2)
  /\ Permutation (get_all_blocks (tree_after h x a1 ops1)) (get_all_blocks (tree_after h x a2 ops2)).
Proof. exact interleavings_with_finalisations. Qed.
Print Assumptions C16_interleavings_with_finalisations.

(* bestBlock itself (used by GetHashByNumber and GetHashesAtNumber), whenever the root has a
   child: the argmax, for every pair of iteration orders *)
Theorem C16_best_block_argmax : forall h x a ops pi sigma,
  permuting pi -> permuting sigma ->
  let t := tree_after h x a ops in
  nchildren (root t) <> [] ->
  best_block_ord pi sigma t = match argmax (s_leaf_infos (abs t)) with Some m => Ok m | None => Panic end.
Proof.
  intros h x a ops pi sigma Hp Hs t Hc.
  exact (best_block_abs pi sigma t (proj1 (sim_after h x a ops)) Hp Hs Hc).
Qed.
Print Assumptions C16_best_block_argmax.

(* non-vacuity: two forks with equal primary counts and heights, the tie broken by arrival; a
   longer fork with fewer primaries loses *)
Example C16_nonvacuous :
  let ops := [OAdd (mkHeader 1 100 1 DPrimary) 5%Z; OAdd (mkHeader 2 100 1 DPrimary) 3%Z;
              OAdd (mkHeader 3 100 1 DSecondaryPlain) 0%Z; OAdd (mkHeader 4 3 2 DSecondaryVRF) 0%Z] in
  best_block_hash (tree_after 100 0 0%Z ops) = Ok 2
  /\ s_best_hash (spec_after 100 0 ops) = Some 2
  /\ get_leaves_of (tree_after 100 0 0%Z ops) = [1; 2; 4]
  /\ best_block_hash_ord (@rev linfo) (@rev linfo) (tree_after 100 0 0%Z ops) = Ok 2.
Proof. vm_compute. repeat split; reflexivity. Qed.

(* the hypotheses of C16_every_parent_first_order are met by a real reordering *)
Example C16_parent_first_nonvacuous :
  let b1 := OAdd (mkHeader 1 100 1 DPrimary) 5%Z in
  let b2 := OAdd (mkHeader 2 100 1 DPrimary) 3%Z in
  let b3 := OAdd (mkHeader 3 100 1 DSecondaryPlain) 0%Z in
  let b4 := OAdd (mkHeader 4 3 2 DSecondaryVRF) 0%Z in
  Permutation [b1; b2; b3; b4] [b3; b4; b2; b1]
  /\ all_adds_ok (snd (run (new_tree 100 0 0%Z) [b1; b2; b3; b4]))
  /\ parent_first 100 [] [b3; b4; b2; b1]
  /\ ~ parent_first 100 [] [b4; b3; b2; b1]
  /\ best_block_hash (tree_after 100 0 0%Z [b3; b4; b2; b1]) = Ok 2.
Proof.
  cbv zeta. split; [|split; [|split; [|split]]].
  - apply Permutation_sym.
    apply (Permutation_trans (l' := [OAdd (mkHeader 3 100 1 DSecondaryPlain) 0%Z; OAdd (mkHeader 4 3 2 DSecondaryVRF) 0%Z;
                                    OAdd (mkHeader 1 100 1 DPrimary) 5%Z; OAdd (mkHeader 2 100 1 DPrimary) 3%Z])).
    + do 2 apply perm_skip. apply perm_swap.
    + apply (Permutation_app_comm [_; _] [_; _]).
  - vm_compute. repeat constructor.
  - simpl. intuition.
  - simpl. intros ([E|[]] & _). discriminate.
  - vm_compute. reflexivity.
Qed.

(* the hypotheses of C16_interleavings_with_finalisations are met by two real interleavings: the
   finalisation of block 1 comes before the addition of its child 3 in one and last in the other;
   block 2 is abandoned by it in both *)
Example C16_interleavings_nonvacuous :
  let b1 := OAdd (mkHeader 1 100 1 DPrimary) 5%Z in
  let b2 := OAdd (mkHeader 2 100 1 DPrimary) 3%Z in
  let b3 := OAdd (mkHeader 3 1 2 DSecondaryPlain) 0%Z in
  let b4 := OAdd (mkHeader 4 1 2 DPrimary) 9%Z in
  let o1 := [b1; b2; OFin 1; b3; b4] in
  let o2 := [b2; b1; b4; b3; OFin 1] in
  Permutation o1 o2
  /\ one_addition_per_hash 100 o1
  /\ adds_ok (snd (run (new_tree 100 0 0%Z) o1)) /\ adds_ok (snd (run (new_tree 100 0 0%Z) o2))
  /\ fin_targets o1 = fin_targets o2
  /\ fins_known (mkSst 100 0 []) o1 /\ fins_known (mkSst 100 0 []) o2
  /\ snd (run (new_tree 100 0 0%Z) o2) = [RAdd (Ok tt); RAdd (Ok tt); RAdd (Ok tt); RAdd (Ok tt); RFin [2]]
  /\ best_block_hash (tree_after 100 0 0%Z o1) = Ok 4
  /\ best_block_hash (tree_after 100 0 0%Z o2) = Ok 4.
Proof.
  cbv zeta. split; [|split; [split|]].
  - apply (perm_trans (l' := [OAdd (mkHeader 2 100 1 DPrimary) 3%Z; OAdd (mkHeader 1 100 1 DPrimary) 5%Z;
                              OFin 1; OAdd (mkHeader 3 1 2 DSecondaryPlain) 0%Z; OAdd (mkHeader 4 1 2 DPrimary) 9%Z])).
    + apply perm_swap.
    + do 2 apply perm_skip.
      apply (perm_trans (l' := [OAdd (mkHeader 3 1 2 DSecondaryPlain) 0%Z; OAdd (mkHeader 4 1 2 DPrimary) 9%Z; OFin 1])).
      * apply (Permutation_app_comm [_] [_; _]).
      * apply (perm_trans (l' := [OAdd (mkHeader 4 1 2 DPrimary) 9%Z; OAdd (mkHeader 3 1 2 DSecondaryPlain) 0%Z; OFin 1])).
        -- apply perm_swap.
        -- apply Permutation_refl.
  - intros hd a hd' a' H1 H2 E. simpl in H1, H2.
    assert (K : forall hd a, OAdd (mkHeader 1 100 1 DPrimary) 5%Z = OAdd hd a \/
                             OAdd (mkHeader 2 100 1 DPrimary) 3%Z = OAdd hd a \/ OFin 1 = OAdd hd a \/
                             OAdd (mkHeader 3 1 2 DSecondaryPlain) 0%Z = OAdd hd a \/
                             OAdd (mkHeader 4 1 2 DPrimary) 9%Z = OAdd hd a \/ False ->
                (hd, a) = match h_hash hd with
                          | 1 => (mkHeader 1 100 1 DPrimary, 5%Z) | 2 => (mkHeader 2 100 1 DPrimary, 3%Z)
                          | 3 => (mkHeader 3 1 2 DSecondaryPlain, 0%Z) | _ => (mkHeader 4 1 2 DPrimary, 9%Z) end).
    { intros hd0 a0 H. repeat (destruct H as [H|H]; [inversion H; reflexivity|]). contradiction. }
    pose proof (K _ _ H1) as K1. pose proof (K _ _ H2) as K2. rewrite E in K1.
    assert (Ep : (hd, a) = (hd', a')) by congruence. inversion Ep. auto.
  - intros hd a H. simpl in H. repeat (destruct H as [H|H]; [inversion H; simpl; discriminate|]). contradiction.
  - vm_compute. repeat split; repeat constructor.
Qed.
