(* C18/Model.v — executable model of the commit-message path of lib/grandpa (definitions only).

   Mirrors, statement by statement:
     Service.handleCommitMessage, verifyCommitMessageJustification, verifyJustification
                                                          (lib/grandpa/grandpa.go)
     getEquivocatoryVoters, verifyBlockHashAgainstBlockNumber  (lib/grandpa/message_handler.go)
     State.threshold                                            (lib/grandpa/types.go)

   External facts are inputs: the ed25519 verdict of every (authority key, vote, signature)
   triple is the bit [a_ok] (ed25519 itself is C29's subject); block hashes, authority keys and
   signatures are labels in N (equal labels iff equal bytes); the block state is the record
   [chain] of the two queries the code makes (GetHeader(h).Number, IsDescendantOf).

   [verify_commit] mirrors the code after the three repairs (count each authority once; only
   correctly signed precommits make an equivocator; strictly more than floor(2n/3) backers:
   fixes/C18-3-commit-threshold-strict.patch); [verify_commit_prefix] is the code of the pinned
   tree before them, kept for the refutation witnesses. *)
From Coq Require Import List NArith Bool.
Import ListNotations.
Local Open Scope N_scope.

(* ---- data ---- *)
Record vote := mkVote { v_hash : N; v_num : N }.
Definition vote_eqb (a b : vote) : bool := (v_hash a =? v_hash b) && (v_num a =? v_num b).

(* AuthData[i] together with the verdict of ed25519 for Precommits[i] *)
Record authdata := mkAuth {
  a_key : N;       (* AuthorityID *)
  a_sig : N;       (* Signature bytes, as a label *)
  a_ok  : bool     (* publicKey.Verify(scale(FullVote{precommit, Precommits[i], Round, setID}), Signature) *)
}.

Record commit := mkCommit {
  cm_round : N;
  cm_setid : N;
  cm_vote  : vote;
  cm_precommits : list vote;
  cm_authdata   : list authdata
}.

Definition entry : Type := vote * authdata.
Definition entries (m : commit) : list entry := combine (cm_precommits m) (cm_authdata m).
Definition e_vote (e : entry) : vote := fst e.
Definition e_key (e : entry) : N := a_key (snd e).
Definition e_sig (e : entry) : N := a_sig (snd e).
Definition e_ok (e : entry) : bool := a_ok (snd e).

(* IsDescendantOf(parent, child): a verdict, or an error; the caller distinguishes
   blocktree.ErrStartNodeNotFound *)
Inductive dres := DOk (b : bool) | DErrStart | DErrOther.

Record chain := mkChain {
  hdr_num : N -> option N;           (* GetHeader(h): Some Number | None (not found) *)
  is_desc : N -> N -> dres
}.

Inductive cerr :=
| ELen            (* ErrPrecommitSignatureMismatch *)
| ESetID          (* ErrSetIDMismatch *)
| EDescStart      (* IsDescendantOf(highest finalised, target) failed with ErrStartNodeNotFound *)
| EDescOther      (* ... failed otherwise *)
| ENotDesc        (* errVoteBlockMismatch *)
| ENoHeader       (* GetHeader(precommit hash) failed *)
| EPcNum          (* ErrBlockNumbersMismatch *)
| EMinVotes.      (* ErrMinVotesNotMet *)

Inductive result (A : Type) := ROk (a : A) | RErr (e : cerr).
Arguments ROk {A} a.
Arguments RErr {A} e.

(* ---- small finite sets / maps keyed by N (Go maps; only membership and size are observed) ---- *)
Definition mem (k : N) (l : list N) : bool := existsb (N.eqb k) l.
Definition add (k : N) (l : list N) : list N := if mem k l then l else k :: l.
Definition remove_all (ks l : list N) : list N := filter (fun x => negb (mem x ks)) l.
Fixpoint lookup {A} (k : N) (m : list (N * A)) : option A :=
  match m with
  | [] => None
  | (k', a) :: r => if k =? k' then Some a else lookup k r
  end.
(* m[k] = a *)
Fixpoint set_key {A} (k : N) (a : A) (m : list (N * A)) : list (N * A) :=
  match m with
  | [] => [(k, a)]
  | (k', a') :: r => if k =? k' then (k, a) :: r else (k', a') :: set_key k a r
  end.

(* State.threshold: uint64(2 * len(s.voters) / 3) *)
Definition threshold (auths : list N) : N := 2 * N.of_nat (length auths) / 3.

(* verifyJustification: signature first, then membership in authorityKeySet; every failure makes
   the caller skip the entry *)
Definition verified (auths : list N) (e : entry) : bool := e_ok e && mem (e_key e) auths.

(* ---- the counting loop of verifyCommitMessageJustification (repaired code) ---- *)
Record lstate := mkL {
  signed : list (N * vote);   (* signedVotes *)
  eqv    : list N;            (* eqvVoters *)
  valid  : list N             (* validVoters *)
}.
Definition l0 : lstate := mkL [] [] [].

Definition note_vote (st : lstate) (k : N) (v : vote) : lstate :=
  match lookup k (signed st) with
  | None => mkL ((k, v) :: signed st) (eqv st) (valid st)
  | Some v0 => if vote_eqb v0 v then st else mkL (signed st) (add k (eqv st)) (valid st)
  end.

Definition step (c : chain) (auths : list N) (tgt : vote) (st : lstate) (e : entry) : result lstate :=
  if negb (verified auths e) then ROk st else
  let k := e_key e in
  let v := e_vote e in
  let st1 := note_vote st k v in
  match is_desc c (v_hash tgt) (v_hash v) with
  | DErrStart | DErrOther => ROk st1
  | DOk d =>
    match hdr_num c (v_hash v) with
    | None => RErr ENoHeader
    | Some num =>
      if negb (num =? v_num v) then RErr EPcNum
      else ROk (if d then mkL (signed st1) (eqv st1) (add k (valid st1)) else st1)
    end
  end.

Fixpoint loop (c : chain) (auths : list N) (tgt : vote) (st : lstate) (es : list entry) : result lstate :=
  match es with
  | [] => ROk st
  | e :: r => match step c auths tgt st e with
              | ROk st' => loop c auths tgt st' r
              | RErr x => RErr x
              end
  end.

(* validAndEqv after `for id := range eqvVoters { delete(validVoters, id) }` *)
Definition final_count (st : lstate) : N :=
  N.of_nat (length (remove_all (eqv st) (valid st))) + N.of_nat (length (eqv st)).

(* the checks that precede the loop; hf = hash of the highest finalised header *)
Definition prechecks (c : chain) (setid : N) (hf : N) (m : commit) : result unit :=
  if negb (Nat.eqb (length (cm_precommits m)) (length (cm_authdata m))) then RErr ELen else
  if negb (cm_setid m =? setid) then RErr ESetID else
  match is_desc c hf (v_hash (cm_vote m)) with
  | DErrStart => RErr EDescStart
  | DErrOther => RErr EDescOther
  | DOk false => RErr ENotDesc
  | DOk true => ROk tt
  end.

Definition verify_commit (c : chain) (auths : list N) (setid : N) (thr : N) (hf : N) (m : commit)
  : result unit :=
  match prechecks c setid hf m with
  | RErr x => RErr x
  | ROk _ =>
    match loop c auths (cm_vote m) l0 (entries m) with
    | RErr x => RErr x
    | ROk st => if final_count st <=? thr then RErr EMinVotes else ROk tt
    end
  end.

(* ---- handleCommitMessage ---- *)
Inductive hres :=
| HAccepted                 (* nil after SetFinalisedHash and SetPrecommits *)
| HAlreadyFinalised         (* nil: HasFinalisedBlock(round, setID) *)
| HNoTargetHeader           (* GetHeader(target) failed (database.ErrNotFound): commit is tracked *)
| HTargetNum                (* ErrBlockHashMismatch *)
| HRejected (e : cerr).     (* verifyCommitMessageJustification failed *)

Record effects := mkEff {
  finalised : option (N * N * N);   (* SetFinalisedHash(hash, round, setID) *)
  stored    : option (N * N);       (* SetPrecommits(round, setID, ...) *)
  tracked   : bool                  (* tracker.addCommit *)
}.
Definition no_effect : effects := mkEff None None false.

Definition handle_commit (c : chain) (auths : list N) (setid : N) (has_finalised : bool) (hf : N)
  (m : commit) : hres * effects :=
  match hdr_num c (v_hash (cm_vote m)) with
  | None => (HNoTargetHeader, mkEff None None true)
  | Some num =>
    if negb (num =? v_num (cm_vote m)) then (HTargetNum, no_effect) else
    if has_finalised then (HAlreadyFinalised, no_effect) else
    match verify_commit c auths setid (threshold auths) hf m with
    | RErr EDescStart => (HRejected EDescStart, mkEff None None true)
    | RErr x => (HRejected x, no_effect)
    | ROk _ => (HAccepted,
                mkEff (Some (v_hash (cm_vote m), cm_round m, setid)) (Some (cm_round m, cm_setid m)) false)
    end
  end.

(* ---- the pinned tree before the two fixes ---- *)
(* getEquivocatoryVoters: over the raw AuthData, before any signature check; compares signatures *)
Fixpoint eqv_raw (voters : list (N * N)) (eq : list N) (ads : list authdata) : list N :=
  match ads with
  | [] => eq
  | a :: r =>
    match lookup (a_key a) voters with
    | Some s => if negb (s =? a_sig a) then eqv_raw voters (add (a_key a) eq) r
                else eqv_raw (set_key (a_key a) (a_sig a) voters) eq r
    | None => eqv_raw (set_key (a_key a) (a_sig a) voters) eq r
    end
  end.
Definition get_equivocatory_voters (ads : list authdata) : list N := eqv_raw [] [] ads.

Definition step_prefix (c : chain) (auths : list N) (tgt : vote) (eq : list N) (total : N) (e : entry)
  : result N :=
  if negb (verified auths e) then ROk total else
  match is_desc c (v_hash tgt) (v_hash (e_vote e)) with
  | DErrStart | DErrOther => ROk total
  | DOk d =>
    match hdr_num c (v_hash (e_vote e)) with
    | None => RErr ENoHeader
    | Some num =>
      if negb (num =? v_num (e_vote e)) then RErr EPcNum
      else if mem (e_key e) eq then ROk total
      else ROk (if d then total + 1 else total)
    end
  end.
Fixpoint loop_prefix (c : chain) (auths : list N) (tgt : vote) (eq : list N) (total : N) (es : list entry)
  : result N :=
  match es with
  | [] => ROk total
  | e :: r => match step_prefix c auths tgt eq total e with
              | ROk t => loop_prefix c auths tgt eq t r
              | RErr x => RErr x
              end
  end.
Definition verify_commit_prefix (c : chain) (auths : list N) (setid : N) (thr : N) (hf : N) (m : commit)
  : result unit :=
  match prechecks c setid hf m with
  | RErr x => RErr x
  | ROk _ =>
    let eq := get_equivocatory_voters (cm_authdata m) in
    match loop_prefix c auths (cm_vote m) eq 0 (entries m) with
    | RErr x => RErr x
    | ROk total => if total + N.of_nat (length eq) <? thr then RErr EMinVotes else ROk tt
    end
  end.
Definition handle_commit_prefix (c : chain) (auths : list N) (setid : N) (has_finalised : bool) (hf : N)
  (m : commit) : hres * effects :=
  match hdr_num c (v_hash (cm_vote m)) with
  | None => (HNoTargetHeader, mkEff None None true)
  | Some num =>
    if negb (num =? v_num (cm_vote m)) then (HTargetNum, no_effect) else
    if has_finalised then (HAlreadyFinalised, no_effect) else
    match verify_commit_prefix c auths setid (threshold auths) hf m with
    | RErr EDescStart => (HRejected EDescStart, mkEff None None true)
    | RErr x => (HRejected x, no_effect)
    | ROk _ => (HAccepted,
                mkEff (Some (v_hash (cm_vote m), cm_round m, setid)) (Some (cm_round m, cm_setid m)) false)
    end
  end.

(* ---- specification: the property text ---- *)
(* a precommit of authority k, correctly signed for this round and set, for the target or a
   descendant of it *)
Definition supports (c : chain) (auths : list N) (tgt : vote) (k : N) (e : entry) : bool :=
  verified auths e && (e_key e =? k) &&
  match is_desc c (v_hash tgt) (v_hash (e_vote e)) with DOk true => true | _ => false end.
Definition supporter (c : chain) (auths : list N) (m : commit) (k : N) : bool :=
  existsb (supports c auths (cm_vote m) k) (entries m).
(* k signed two different valid precommits *)
Definition equivocator (auths : list N) (m : commit) (k : N) : bool :=
  existsb (fun e1 => existsb (fun e2 =>
     verified auths e1 && verified auths e2 && (e_key e1 =? k) && (e_key e2 =? k)
     && negb (vote_eqb (e_vote e1) (e_vote e2))) (entries m)) (entries m).
Definition counted (c : chain) (auths : list N) (m : commit) (k : N) : bool :=
  supporter c auths m k || equivocator auths m k.
(* the number of distinct current authorities behind the commit *)
Definition spec_count (c : chain) (auths : list N) (m : commit) : N :=
  N.of_nat (length (filter (counted c auths m) (nodup N.eq_dec auths))).
(* "more than two thirds of the current authority set" *)
Definition supermajority (c : chain) (auths : list N) (m : commit) : bool :=
  2 * N.of_nat (length auths) <? 3 * spec_count c auths m.

(* exactly floor(2n/3) backers: accepted by the pinned tree (`validAndEqv < threshold`), not a
   supermajority *)
Definition at_threshold (c : chain) (auths : list N) (m : commit) : bool :=
  spec_count c auths m =? threshold auths.

(* the property predicate evaluated by the driver on the implementation's observables:
   [fin] = the recorded SetFinalisedHash calls, [returned_nil] = the call returned no error,
   [has] = HasFinalisedBlock(round, setID) (the round was finalised before: a no-op).
   "A commit finalises its target only if [supermajority]; any commit that falls short is
   rejected and finalises nothing." *)
Definition triple_eqb (x y : N * N * N) : bool :=
  let '(a, b, c) := x in let '(a', b', c') := y in (a =? a') && (b =? b') && (c =? c').
Definition prop_holds (c : chain) (auths : list N) (setid : N) (m : commit)
  (has returned_nil : bool) (fin : list (N * N * N)) : bool :=
  match fin with
  | [] => supermajority c auths m || negb returned_nil || has
  | [x] => supermajority c auths m && triple_eqb x (v_hash (cm_vote m), cm_round m, setid)
  | _ => false
  end.
Definition returns_nil (r : hres) : bool :=
  match r with HAccepted | HAlreadyFinalised => true | _ => false end.
Definition fin_calls (e : effects) : list (N * N * N) :=
  match finalised e with Some x => [x] | None => [] end.

(* ---- a concrete chain for the driver and the witnesses: blocks 0..len-1, block i+1 has parent
   [nth i parents], block 0 is the root with number [base]; unknown labels are unknown blocks;
   [badstart] makes IsDescendantOf fail with ErrStartNodeNotFound for that parent ---- *)
Definition parent_of (parents : list N) (b : N) : option N :=
  if b =? 0 then None else nth_error parents (N.to_nat (b - 1)).
Fixpoint depth_fuel (fuel : nat) (parents : list N) (b : N) : N :=
  match fuel with
  | O => 0
  | S f => match parent_of parents b with None => 0 | Some p => 1 + depth_fuel f parents p end
  end.
Definition known (parents : list N) (b : N) : bool := b <=? N.of_nat (length parents).
Fixpoint anc_fuel (fuel : nat) (parents : list N) (a b : N) : bool :=
  if a =? b then true else
  match fuel with
  | O => false
  | S f => match parent_of parents b with None => false | Some p => anc_fuel f parents a p end
  end.
Definition tree_chain (base : N) (parents : list N) (badstart : option N) : chain :=
  let fuel := S (length parents) in
  mkChain
    (fun h => if known parents h then Some (base + depth_fuel fuel parents h) else None)
    (fun a b =>
       if a =? b then DOk true else
       match badstart with
       | Some x => if a =? x then DErrStart else
                   if known parents a && known parents b then DOk (anc_fuel fuel parents a b) else DErrOther
       | None => if known parents a && known parents b then DOk (anc_fuel fuel parents a b) else DErrOther
       end).

(* ---- second round (audit): code paths of handleCommitMessage the first model left out ----
   The collaborators can fail; handleCommitMessage propagates every such error:
     HasFinalisedBlock           -> "checking for a finalized block in the block state"
     GetHighestFinalisedHeader   -> "getting highest finalised header"  (inside
                                    verifyCommitMessageJustification, after the length and set-id
                                    checks, before IsDescendantOf)
     SetFinalisedHash            -> "setting finalised hash"   (SetPrecommits is then NOT called)
     SetPrecommits               -> "setting precommits"       (after SetFinalisedHash succeeded)
   [finalised eff = Some x] / [stored eff = Some y] record that the CALL was made with these
   arguments, whether or not it returned an error. *)
Record faults := mkFaults {
  f_has_err : bool;
  f_hf_err : bool;
  f_fin_err : bool;
  f_store_err : bool
}.
Definition no_faults : faults := mkFaults false false false false.

Inductive fres := FRes (r : hres) | FHasErr | FHfErr | FFinErr | FStoreErr.

(* the two checks of verifyCommitMessageJustification that precede GetHighestFinalisedHeader *)
Definition pre_len_setid (setid : N) (m : commit) : result unit :=
  if negb (Nat.eqb (length (cm_precommits m)) (length (cm_authdata m))) then RErr ELen else
  if negb (cm_setid m =? setid) then RErr ESetID else ROk tt.

Definition handle_commit_f (fl : faults) (c : chain) (auths : list N) (setid : N) (has_finalised : bool)
  (hf : N) (m : commit) : fres * effects :=
  match hdr_num c (v_hash (cm_vote m)) with
  | None => (FRes HNoTargetHeader, mkEff None None true)
  | Some num =>
    if negb (num =? v_num (cm_vote m)) then (FRes HTargetNum, no_effect) else
    if f_has_err fl then (FHasErr, no_effect) else
    if has_finalised then (FRes HAlreadyFinalised, no_effect) else
    match pre_len_setid setid m with
    | RErr x => (FRes (HRejected x), no_effect)
    | ROk _ =>
      if f_hf_err fl then (FHfErr, no_effect) else
      match verify_commit c auths setid (threshold auths) hf m with
      | RErr EDescStart => (FRes (HRejected EDescStart), mkEff None None true)
      | RErr x => (FRes (HRejected x), no_effect)
      | ROk _ =>
        let fin := Some (v_hash (cm_vote m), cm_round m, setid) in
        if f_fin_err fl then (FFinErr, mkEff fin None false) else
        if f_store_err fl then (FStoreErr, mkEff fin (Some (cm_round m, cm_setid m)) false) else
        (FRes HAccepted, mkEff fin (Some (cm_round m, cm_setid m)) false)
      end
    end
  end.
Definition freturns_nil (r : fres) : bool :=
  match r with FRes r => returns_nil r | _ => false end.

(* GetHeader can fail for a block IsDescendantOf knows (label [nohdr]): the ENoHeader branch of the
   counting loop *)
Definition tree_chain_h (base : N) (parents : list N) (badstart nohdr : option N) : chain :=
  let c := tree_chain base parents badstart in
  mkChain (fun h => match nohdr with
                    | Some x => if h =? x then None else hdr_num c h
                    | None => hdr_num c h
                    end)
          (is_desc c).

(* ---- the specification in words (Prop level), proved equivalent to the boolean one ---- *)
(* the commit lists, at some position, a precommit for [v] carrying authority key [k] whose
   signature verifies for (precommit, v, commit round, current set id) *)
Definition signed_by (m : commit) (k : N) (v : vote) : Prop :=
  exists e, In e (entries m) /\ e_key e = k /\ e_vote e = v /\ e_ok e = true.
(* "precommitted to the target or its descendants" *)
Definition backs_target (c : chain) (m : commit) (k : N) : Prop :=
  exists v, signed_by m k v /\ is_desc c (v_hash (cm_vote m)) (v_hash v) = DOk true.
(* "signed two different valid precommits" *)
Definition equivocates (m : commit) (k : N) : Prop :=
  exists v1 v2, signed_by m k v1 /\ signed_by m k v2 /\ v1 <> v2.

(* a precommit entry that makes the counting loop fail the whole message: correctly signed by a
   current authority, ancestry decidable, but the header is missing or carries another number *)
Definition entry_fault (c : chain) (auths : list N) (tgt : vote) (e : entry) : bool :=
  verified auths e &&
  match is_desc c (v_hash tgt) (v_hash (e_vote e)) with
  | DOk _ => match hdr_num c (v_hash (e_vote e)) with
             | None => true
             | Some num => negb (num =? v_num (e_vote e))
             end
  | _ => false
  end.

(* the commit without the entries that fail verifyJustification *)
Definition strip (auths : list N) (m : commit) : commit :=
  let es := filter (verified auths) (entries m) in
  mkCommit (cm_round m) (cm_setid m) (cm_vote m) (map fst es) (map snd es).
