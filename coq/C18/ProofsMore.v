(* C18/ProofsMore.v — second round (audit) lemmas:
   - the boolean specification [supporter] / [equivocator] / [spec_count] read in words
     ([backs_target], [equivocates], the largest duplicate-free set of backing authorities);
   - the counting loop completes exactly when no entry is an [entry_fault];
   - entries that fail verifyJustification have no influence at all ([strip]);
   - acceptance does not depend on the order of the entries;
   - handleCommitMessage with failing collaborators ([handle_commit_f]). *)
From Coq Require Import List NArith PeanoNat Bool Lia Permutation ZifyN ZifyNat ZifyBool.
From C18 Require Import Model Proofs.
Import ListNotations.
Local Open Scope N_scope.

(* ---------- the specification in words ---------- *)
Lemma desc_true_iff (d : dres) : match d with DOk true => true | _ => false end = true <-> d = DOk true.
Proof. destruct d as [[|]| |]; split; congruence. Qed.

Lemma supporter_iff c auths m k :
  supporter c auths m k = true <-> In k auths /\ backs_target c m k.
Proof.
  unfold supporter, backs_target, signed_by. rewrite existsb_exists. split.
  - intros [e [Hin H]]. unfold supports, verified in H.
    rewrite !andb_true_iff, N.eqb_eq, desc_true_iff in H. destruct H as [[[Ok M] K] D].
    apply mem_In in M. subst k. split; [assumption|].
    exists (e_vote e). split; [|assumption]. exists e. auto.
  - intros [Ha [v [[e [Hin [K [V Ok]]]] D]]]. exists e. split; [assumption|].
    unfold supports, verified. rewrite !andb_true_iff, N.eqb_eq, desc_true_iff, V.
    subst k. repeat split; auto. now apply mem_In.
Qed.

Lemma equivocator_iff auths m k :
  equivocator auths m k = true <-> In k auths /\ equivocates m k.
Proof.
  unfold equivocator, equivocates, signed_by. rewrite existsb_exists. split.
  - intros [e1 [Hin1 H]]. rewrite existsb_exists in H. destruct H as [e2 [Hin2 H]].
    apply eq_pair_unpack in H. destruct H as [V1 [V2 [K1 [K2 D]]]].
    unfold verified in V1, V2. apply andb_true_iff in V1, V2. destruct V1 as [O1 M1], V2 as [O2 _].
    split; [subst k; now apply mem_In|].
    exists (e_vote e1), (e_vote e2). split; [exists e1; auto|]. split; [exists e2; auto|].
    intros E. rewrite E, vote_eqb_refl in D. discriminate.
  - intros [Ha [v1 [v2 [[e1 [Hin1 [K1 [E1 O1]]]] [[e2 [Hin2 [K2 [E2 O2]]]] D]]]]].
    exists e1. split; [assumption|]. rewrite existsb_exists. exists e2. split; [assumption|].
    apply eq_pair_unpack. unfold verified. rewrite O1, O2, K1, K2. cbn [andb].
    rewrite (proj2 (mem_In k auths) Ha). repeat split; auto.
    destruct (vote_eqb_spec (e_vote e1) (e_vote e2)); congruence.
Qed.

Definition backer (c : chain) (auths : list N) (m : commit) (k : N) : Prop :=
  In k auths /\ (backs_target c m k \/ equivocates m k).

Lemma counted_iff c auths m k : counted c auths m k = true <-> backer c auths m k.
Proof.
  unfold counted, backer. rewrite orb_true_iff, supporter_iff, equivocator_iff. tauto.
Qed.

(* [spec_count] is the size of the set of backing authorities: it is reached by a duplicate-free
   list of backers, and no duplicate-free list of backers is longer *)
Lemma spec_count_witness c auths m :
  exists ks, NoDup ks /\ (forall k, In k ks <-> backer c auths m k)
             /\ spec_count c auths m = N.of_nat (length ks).
Proof.
  exists (filter (counted c auths m) (nodup N.eq_dec auths)). split.
  - apply NoDup_filter, NoDup_nodup.
  - split; [|reflexivity]. intros k. rewrite filter_In, nodup_In, counted_iff. unfold backer. tauto.
Qed.

Lemma spec_count_max c auths m ks :
  NoDup ks -> (forall k, In k ks -> backer c auths m k) ->
  N.of_nat (length ks) <= spec_count c auths m.
Proof.
  intros ND H. destruct (spec_count_witness c auths m) as [ks0 [_ [Hk ->]]].
  assert (L : (length ks <= length ks0)%nat).
  { apply NoDup_incl_length; [assumption|]. intros k Hin. apply Hk. now apply H. }
  lia.
Qed.

(* ---------- completion of the counting loop ---------- *)
Lemma step_no_fault c auths tgt st e :
  entry_fault c auths tgt e = false -> exists st', step c auths tgt st e = ROk st'.
Proof.
  unfold entry_fault, step. destruct (verified auths e); cbn [negb andb]; [|eauto].
  destruct (is_desc c (v_hash tgt) (v_hash (e_vote e))) as [d| |]; [|eauto|eauto].
  destruct (hdr_num c (v_hash (e_vote e))) as [num|]; [|discriminate].
  intros ->. eauto.
Qed.
Lemma step_fault c auths tgt st e :
  entry_fault c auths tgt e = true -> exists x, step c auths tgt st e = RErr x.
Proof.
  unfold entry_fault, step. destruct (verified auths e); cbn [negb andb]; [|discriminate].
  destruct (is_desc c (v_hash tgt) (v_hash (e_vote e))) as [d| |]; [|discriminate|discriminate].
  destruct (hdr_num c (v_hash (e_vote e))) as [num|]; [|eauto].
  intros ->. eauto.
Qed.

Lemma loop_ok_iff c auths tgt es : forall st,
  (exists st', loop c auths tgt st es = ROk st') <->
  forallb (fun e => negb (entry_fault c auths tgt e)) es = true.
Proof.
  induction es as [|e r IH]; intros st; cbn [loop forallb].
  - split; eauto.
  - rewrite andb_true_iff, negb_true_iff. destruct (entry_fault c auths tgt e) eqn:F.
    + destruct (step_fault c auths tgt st e F) as [x ->]. split; [intros [? ?]; discriminate|].
      intros [? _]. discriminate.
    + destruct (step_no_fault c auths tgt st e F) as [st1 ->]. rewrite (IH st1). tauto.
Qed.

Lemma forallb_perm {A} (f : A -> bool) l l' : Permutation l l' -> forallb f l = forallb f l'.
Proof.
  intros P. destruct (forallb f l) eqn:E.
  - symmetry. rewrite forallb_forall in *. intros x Hin. apply E. eapply Permutation_in; [|eassumption].
    now apply Permutation_sym.
  - symmetry. destruct (forallb f l') eqn:E'; [|reflexivity].
    rewrite forallb_forall in E'. assert (forallb f l = true); [|congruence].
    apply forallb_forall. intros x Hin. apply E'. eapply Permutation_in; eassumption.
Qed.
Lemma existsb_perm {A} (f : A -> bool) l l' : Permutation l l' -> existsb f l = existsb f l'.
Proof.
  intros P. destruct (existsb f l) eqn:E.
  - symmetry. rewrite existsb_exists in *. destruct E as [x [Hin Hx]]. exists x. split; [|assumption].
    eapply Permutation_in; eassumption.
  - symmetry. destruct (existsb f l') eqn:E'; [|reflexivity].
    rewrite existsb_exists in E'. destruct E' as [x [Hin Hx]].
    assert (existsb f l = true); [|congruence]. apply existsb_exists. exists x. split; [|assumption].
    eapply Permutation_in; [|eassumption]. now apply Permutation_sym.
Qed.

(* ---------- a commit given by its entry list ---------- *)
Definition commit_of (round setid : N) (v : vote) (es : list entry) : commit :=
  mkCommit round setid v (map fst es) (map snd es).

Lemma combine_fst_snd {A B} (l : list (A * B)) : combine (map fst l) (map snd l) = l.
Proof. induction l as [|[a b] r IH]; cbn; [reflexivity|]. now rewrite IH. Qed.

Lemma entries_commit_of round setid v es : entries (commit_of round setid v es) = es.
Proof. unfold entries, commit_of. cbn. apply combine_fst_snd. Qed.

Lemma prechecks_commit_of c setid hf round sid v es es' :
  prechecks c setid hf (commit_of round sid v es) = prechecks c setid hf (commit_of round sid v es').
Proof. unfold prechecks, commit_of. cbn. rewrite !map_length, !Nat.eqb_refl. reflexivity. Qed.

Lemma existsb_ext {A} (f g : A -> bool) l : (forall x, f x = g x) -> existsb f l = existsb g l.
Proof. intros H. induction l as [|a r IH]; cbn; [reflexivity|]. now rewrite H, IH. Qed.

Lemma counted_perm c auths m m' k :
  cm_vote m = cm_vote m' -> Permutation (entries m) (entries m') ->
  counted c auths m k = counted c auths m' k.
Proof.
  intros V P. unfold counted, supporter, equivocator. rewrite V.
  rewrite (existsb_perm _ _ _ P). f_equal.
  rewrite (existsb_perm _ _ _ P). apply existsb_ext. intros e1. apply (existsb_perm _ _ _ P).
Qed.

Lemma spec_count_perm c auths m m' :
  cm_vote m = cm_vote m' -> Permutation (entries m) (entries m') ->
  spec_count c auths m = spec_count c auths m'.
Proof.
  intros V P. unfold spec_count. do 2 f_equal. apply filter_ext. intros k. now apply counted_perm.
Qed.

(* acceptance does not depend on the order in which the (precommit, auth data) pairs are listed *)
Lemma accept_order_free c auths setid has hf round sid v es es' :
  Permutation es es' ->
  ((exists eff, handle_commit c auths setid has hf (commit_of round sid v es) = (HAccepted, eff)) <->
   (exists eff, handle_commit c auths setid has hf (commit_of round sid v es') = (HAccepted, eff))).
Proof.
  intros P. rewrite !handle_accepted_supermajority_iff.
  rewrite (prechecks_commit_of c setid hf round sid v es es').
  rewrite !entries_commit_of. cbn [commit_of cm_vote].
  rewrite !loop_ok_iff, (forallb_perm _ _ _ P).
  unfold supermajority.
  rewrite (spec_count_perm c auths (commit_of round sid v es) (commit_of round sid v es'));
    [tauto | reflexivity | now rewrite !entries_commit_of].
Qed.

(* ---------- entries that fail verifyJustification have no influence ---------- *)
Lemma loop_filter c auths tgt es : forall st,
  loop c auths tgt st (filter (verified auths) es) = loop c auths tgt st es.
Proof.
  induction es as [|e r IH]; intros st; cbn [filter loop]; [reflexivity|].
  destruct (verified auths e) eqn:V.
  - cbn [loop]. destruct (step c auths tgt st e); [apply IH | reflexivity].
  - cbn [loop]. unfold step. rewrite V. cbn [negb]. apply IH.
Qed.

Lemma entries_strip auths m : entries (strip auths m) = filter (verified auths) (entries m).
Proof. unfold strip, entries at 1. cbn. apply combine_fst_snd. Qed.

Lemma verify_commit_strip c auths setid thr hf m :
  length (cm_precommits m) = length (cm_authdata m) ->
  verify_commit c auths setid thr hf (strip auths m) = verify_commit c auths setid thr hf m.
Proof.
  intros L. unfold verify_commit.
  assert (Hp : prechecks c setid hf (strip auths m) = prechecks c setid hf m).
  { unfold prechecks, strip. cbn. rewrite !map_length, Nat.eqb_refl, L, Nat.eqb_refl. reflexivity. }
  rewrite Hp, entries_strip, loop_filter. reflexivity.
Qed.

Lemma handle_commit_strip c auths setid has hf m :
  length (cm_precommits m) = length (cm_authdata m) ->
  handle_commit c auths setid has hf (strip auths m) = handle_commit c auths setid has hf m.
Proof.
  intros L. unfold handle_commit. rewrite (verify_commit_strip _ _ _ _ _ _ L). reflexivity.
Qed.

(* ---------- handleCommitMessage with failing collaborators ---------- *)
Lemma pre_len_setid_err c setid hf m x :
  pre_len_setid setid m = RErr x -> prechecks c setid hf m = RErr x /\ x <> EDescStart.
Proof.
  unfold pre_len_setid, prechecks.
  destruct (negb (Nat.eqb (length (cm_precommits m)) (length (cm_authdata m)))).
  - intros H. inversion H. split; [reflexivity | discriminate].
  - destruct (negb (cm_setid m =? setid)); [|discriminate].
    intros H. inversion H. split; [reflexivity | discriminate].
Qed.

Lemma handle_commit_f_no_faults c auths setid has hf m :
  handle_commit_f no_faults c auths setid has hf m =
  (FRes (fst (handle_commit c auths setid has hf m)), snd (handle_commit c auths setid has hf m)).
Proof.
  unfold handle_commit_f, handle_commit. cbn [no_faults f_has_err f_hf_err f_fin_err f_store_err].
  destruct (hdr_num c (v_hash (cm_vote m))) as [num|]; [|reflexivity].
  destruct (negb (num =? v_num (cm_vote m))); [reflexivity|].
  destruct has; [reflexivity|].
  destruct (pre_len_setid setid m) as [[]|x] eqn:P.
  - destruct (verify_commit c auths setid (threshold auths) hf m) as [[]|x]; [reflexivity|].
    destruct x; reflexivity.
  - destruct (pre_len_setid_err c setid hf m x P) as [Hp Hx].
    unfold verify_commit. rewrite Hp. destruct x; try reflexivity. congruence.
Qed.

(* every SetFinalisedHash CALL (successful or not) is for the commit's target, round and the
   current set, and is made only for a supermajority commit that passed every check *)
Lemma handle_commit_f_call fl c auths setid has hf m r eff x :
  handle_commit_f fl c auths setid has hf m = (r, eff) -> finalised eff = Some x ->
  x = (v_hash (cm_vote m), cm_round m, setid)
  /\ has = false
  /\ verify_commit c auths setid (threshold auths) hf m = ROk tt
  /\ supermajority c auths m = true.
Proof.
  unfold handle_commit_f.
  destruct (hdr_num c (v_hash (cm_vote m))) as [num|]; [|intros H; inversion H; subst; discriminate].
  destruct (negb (num =? v_num (cm_vote m))); [intros H; inversion H; subst; discriminate|].
  destruct (f_has_err fl); [intros H; inversion H; subst; discriminate|].
  destruct has; [intros H; inversion H; subst; discriminate|].
  destruct (pre_len_setid setid m) as [[]|y]; [|intros H; inversion H; subst; discriminate].
  destruct (f_hf_err fl); [intros H; inversion H; subst; discriminate|].
  destruct (verify_commit c auths setid (threshold auths) hf m) as [[]|y] eqn:Vc.
  - assert (S : supermajority c auths m = true).
    { apply supermajority_iff. apply verify_commit_ok in Vc. tauto. }
    destruct (f_fin_err fl); [|destruct (f_store_err fl)];
      intros H F; inversion H; subst; cbn in F; inversion F; auto.
  - destruct y; intros H; inversion H; subst; discriminate.
Qed.

Lemma handle_commit_f_nil fl c auths setid has hf m r eff :
  handle_commit_f fl c auths setid has hf m = (r, eff) -> freturns_nil r = true ->
  (has = true /\ finalised eff = None) \/
  (has = false /\ supermajority c auths m = true
   /\ finalised eff = Some (v_hash (cm_vote m), cm_round m, setid)).
Proof.
  unfold handle_commit_f.
  destruct (hdr_num c (v_hash (cm_vote m))) as [num|]; [|intros H; inversion H; subst; discriminate].
  destruct (negb (num =? v_num (cm_vote m))); [intros H; inversion H; subst; discriminate|].
  destruct (f_has_err fl); [intros H; inversion H; subst; discriminate|].
  destruct has; [intros H; inversion H; subst; auto|].
  destruct (pre_len_setid setid m) as [[]|y]; [|intros H; inversion H; subst; discriminate].
  destruct (f_hf_err fl); [intros H; inversion H; subst; discriminate|].
  destruct (verify_commit c auths setid (threshold auths) hf m) as [[]|y] eqn:Vc.
  - assert (S : supermajority c auths m = true).
    { apply supermajority_iff. apply verify_commit_ok in Vc. tauto. }
    destruct (f_fin_err fl); [intros H; inversion H; subst; discriminate|].
    destruct (f_store_err fl); [intros H; inversion H; subst; discriminate|].
    intros H _. inversion H; subst. right. auto.
  - destruct y; intros H; inversion H; subst; discriminate.
Qed.

Lemma handle_commit_f_prop fl c auths setid has hf m r eff :
  handle_commit_f fl c auths setid has hf m = (r, eff) ->
  prop_holds c auths setid m has (freturns_nil r) (fin_calls eff) = true.
Proof.
  intros H. unfold prop_holds, fin_calls. destruct (finalised eff) as [x|] eqn:F.
  - destruct (handle_commit_f_call _ _ _ _ _ _ _ _ _ _ H F) as [-> [_ [_ S]]].
    rewrite S. cbn. now rewrite !N.eqb_refl.
  - destruct (freturns_nil r) eqn:R; [|now rewrite orb_true_r].
    destruct (handle_commit_f_nil _ _ _ _ _ _ _ _ _ H R) as [[-> _]|[_ [_ F']]].
    + now rewrite orb_true_r.
    + congruence.
Qed.

(* SetPrecommits is called only after a successful SetFinalisedHash *)
Lemma handle_commit_f_stored fl c auths setid has hf m r eff y :
  handle_commit_f fl c auths setid has hf m = (r, eff) -> stored eff = Some y ->
  f_fin_err fl = false /\ finalised eff = Some (v_hash (cm_vote m), cm_round m, setid)
  /\ y = (cm_round m, cm_setid m).
Proof.
  unfold handle_commit_f.
  destruct (hdr_num c (v_hash (cm_vote m))) as [num|]; [|intros H; inversion H; subst; discriminate].
  destruct (negb (num =? v_num (cm_vote m))); [intros H; inversion H; subst; discriminate|].
  destruct (f_has_err fl); [intros H; inversion H; subst; discriminate|].
  destruct has; [intros H; inversion H; subst; discriminate|].
  destruct (pre_len_setid setid m) as [[]|z]; [|intros H; inversion H; subst; discriminate].
  destruct (f_hf_err fl); [intros H; inversion H; subst; discriminate|].
  destruct (verify_commit c auths setid (threshold auths) hf m) as [[]|z].
  - destruct (f_fin_err fl); [intros H; inversion H; subst; discriminate|].
    destruct (f_store_err fl); intros H S; inversion H; subst; cbn in S; inversion S; auto.
  - destruct z; intros H; inversion H; subst; discriminate.
Qed.

(* ---------- witnesses for the second-round definitions ---------- *)
(* GetHeader fails for block 2 although IsDescendantOf knows it: the whole message is rejected *)
Lemma nohdr_witness :
  handle_commit (tree_chain_h 0 [0; 1; 1] None (Some 2)) w_auths 0 false 0 w_good
    = (HRejected ENoHeader, no_effect)
  /\ entry_fault (tree_chain_h 0 [0; 1; 1] None (Some 2)) w_auths (mkVote 1 1)
       (mkVote 2 2, mkAuth 1 101 true) = true.
Proof. vm_compute. auto. Qed.

(* SetFinalisedHash fails: one call, no SetPrecommits, an error is returned *)
Lemma fin_err_witness :
  handle_commit_f (mkFaults false false true false) w_chain w_auths 0 false 0 w_good
    = (FFinErr, mkEff (Some (1, 1, 0)) None false).
Proof. vm_compute. reflexivity. Qed.

(* the voter list of the Service repeats authority 0: n = 5, floor(2n/3) = 3, and the three
   distinct backers of [w_good] are no longer a supermajority *)
Lemma repeated_voter_witness :
  threshold (w_auths ++ [0]) = 3
  /\ spec_count w_chain (w_auths ++ [0]) w_good = 3
  /\ handle_commit w_chain (w_auths ++ [0]) 0 false 0 w_good = (HRejected EMinVotes, no_effect).
Proof. vm_compute. auto. Qed.

(* stripping: the non-authority entry of [w_good] and nothing else goes away *)
Lemma strip_witness :
  length (cm_precommits (strip w_auths w_good)) = 4%nat
  /\ handle_commit w_chain w_auths 0 false 0 (strip w_auths w_good)
     = handle_commit w_chain w_auths 0 false 0 w_good.
Proof. vm_compute. auto. Qed.

(* ---------- ErrMinVotesNotMet is returned exactly for a well-formed commit that falls short ---------- *)
Lemma step_err_kind c auths tgt st e x :
  step c auths tgt st e = RErr x -> x = ENoHeader \/ x = EPcNum.
Proof.
  unfold step. destruct (negb (verified auths e)); [discriminate|].
  destruct (is_desc c (v_hash tgt) (v_hash (e_vote e))) as [d| |]; try discriminate.
  destruct (hdr_num c (v_hash (e_vote e))) as [num|].
  - destruct (negb (num =? v_num (e_vote e))); [|discriminate]. intros H. inversion H. auto.
  - intros H. inversion H. auto.
Qed.
Lemma loop_err_kind c auths tgt es : forall st x,
  loop c auths tgt st es = RErr x -> x = ENoHeader \/ x = EPcNum.
Proof.
  induction es as [|e r IH]; intros st x; cbn [loop]; [discriminate|].
  destruct (step c auths tgt st e) as [st1|y] eqn:S.
  - apply IH.
  - intros H. inversion H; subst. eapply step_err_kind; eassumption.
Qed.

Lemma verify_commit_minvotes c auths setid thr hf m :
  verify_commit c auths setid thr hf m = RErr EMinVotes <->
  prechecks c setid hf m = ROk tt /\
  (exists st, loop c auths (cm_vote m) l0 (entries m) = ROk st) /\
  spec_count c auths m <= thr.
Proof.
  unfold verify_commit. destruct (prechecks c setid hf m) as [[]|x] eqn:P.
  - destruct (loop c auths (cm_vote m) l0 (entries m)) as [st|x] eqn:L.
    + rewrite (final_count_spec _ _ _ _ L). destruct (N.leb_spec (spec_count c auths m) thr).
      * split; [|reflexivity]. intros _. split; [reflexivity|]. split; [eauto|assumption].
      * split; [discriminate|]. intros [_ [_ ?]]. lia.
    + split.
      * intros H. inversion H; subst. destruct (loop_err_kind _ _ _ _ _ _ L); discriminate.
      * intros [_ [[st ?] _]]. discriminate.
  - split.
    + intros H. inversion H; subst. unfold prechecks in P.
      destruct (negb _) in P; [discriminate|]. destruct (negb _) in P; [discriminate|].
      destruct (is_desc _ _ _) as [[|]| |] in P; discriminate.
    + intros [? _]. discriminate.
Qed.

Lemma handle_minvotes c auths setid has hf m eff :
  handle_commit c auths setid has hf m = (HRejected EMinVotes, eff) ->
  supermajority c auths m = false /\ eff = no_effect.
Proof.
  unfold handle_commit. destruct (hdr_num c (v_hash (cm_vote m))) as [num|]; [|discriminate].
  destruct (negb (num =? v_num (cm_vote m))); [discriminate|].
  destruct has; [discriminate|].
  destruct (verify_commit c auths setid (threshold auths) hf m) as [[]|x] eqn:Vc; [discriminate|].
  destruct x; intros H; inversion H; subst. split; [|reflexivity].
  apply verify_commit_minvotes in Vc. destruct Vc as [_ [_ Le]].
  destruct (supermajority c auths m) eqn:S; [|reflexivity].
  apply supermajority_iff in S. lia.
Qed.

(* an accepted commit exhibits a duplicate-free set of more than two thirds of the authority
   list, every member of which is a current authority that precommitted (correct signature) to
   the target or a descendant, or signed two different precommits *)
Lemma accept_backers c auths setid has hf m eff :
  handle_commit c auths setid has hf m = (HAccepted, eff) ->
  exists ks, NoDup ks /\ (forall k, In k ks -> backer c auths m k)
             /\ 2 * N.of_nat (length auths) < 3 * N.of_nat (length ks).
Proof.
  intros H. apply handle_accepted_supermajority in H. unfold supermajority in H.
  apply N.ltb_lt in H. destruct (spec_count_witness c auths m) as [ks [ND [Hk E]]].
  exists ks. split; [assumption|]. split; [intros k Hin; now apply Hk|]. now rewrite <- E.
Qed.

(* a commit rejected for ErrMinVotesNotMet has no such set *)
Lemma minvotes_no_backers c auths setid has hf m eff ks :
  handle_commit c auths setid has hf m = (HRejected EMinVotes, eff) ->
  NoDup ks -> (forall k, In k ks -> backer c auths m k) ->
  3 * N.of_nat (length ks) <= 2 * N.of_nat (length auths).
Proof.
  intros H ND Hk. destruct (handle_minvotes _ _ _ _ _ _ _ H) as [S _].
  unfold supermajority in S. apply N.ltb_ge in S.
  pose proof (spec_count_max c auths m ks ND Hk). lia.
Qed.
