(* C18/ProofsPayload.v — third round: "correctly signed for that round and set" stated about BYTES.
   The ed25519 verdict [a_ok] of the model is an input bit.  Here it is tied to a signature verdict
   function over byte strings ([sigv], external: ed25519 is C29's subject) applied to the message
   bytes the code signs over: scale.Marshal(FullVote{precommit, vote, round, setID}) =
   [vote_payload 4 stage_precommit hash number round setid] (GrandpaPayload/Payload.v; the harness
   compares the implementation's encoder with these bytes on every run and signs / verifies over
   bytes built by hand, not by the implementation's encoder). *)
From Coq Require Import List NArith Bool Lia.
From Common Require Import Bytes.
From GrandpaPayload Require Import Payload.
From C18 Require Import Model Proofs ProofsMore.
Import ListNotations.
Local Open Scope N_scope.

Section Signed.
Variable sigv : N -> list byte -> N -> bool.  (* key label, message bytes, signature label -> ed25519 verdict *)
Variable hb : N -> list byte.                  (* the bytes of a block-hash label *)

(* the bytes verifyJustification hands to ed25519 for entry e *)
Definition entry_payload (round setid : N) (e : entry) : list byte :=
  vote_payload 4 stage_precommit (hb (v_hash (e_vote e))) (v_num (e_vote e)) round setid.

(* every verdict bit of the message is the verdict of [sigv] on those bytes *)
Definition well_signed (setid : N) (m : commit) : Prop :=
  forall e, In e (entries m) -> e_ok e = sigv (e_key e) (entry_payload (cm_round m) setid e) (e_sig e).

(* k's signature listed in the commit verifies over the precommit payload of vote v for the
   commit's round and the CURRENT set id *)
Definition signed_bytes (setid : N) (m : commit) (k : N) (v : vote) : Prop :=
  exists e, In e (entries m) /\ e_key e = k /\ e_vote e = v
            /\ sigv k (entry_payload (cm_round m) setid e) (e_sig e) = true.

Lemma signed_by_bytes setid m k v : well_signed setid m -> signed_by m k v -> signed_bytes setid m k v.
Proof.
  intros W [e [Hin [K [V Ok]]]]. exists e. repeat split; auto. rewrite <- K, <- (W e Hin). exact Ok.
Qed.

Lemma accept_signed_bytes c auths setid has hf m eff :
  well_signed setid m ->
  handle_commit c auths setid has hf m = (HAccepted, eff) ->
  exists ks, NoDup ks /\ 2 * N.of_nat (length auths) < 3 * N.of_nat (length ks)
    /\ forall k, In k ks -> In k auths /\
         ((exists v, signed_bytes setid m k v /\ is_desc c (v_hash (cm_vote m)) (v_hash v) = DOk true)
          \/ (exists v1 v2, signed_bytes setid m k v1 /\ signed_bytes setid m k v2 /\ v1 <> v2)).
Proof.
  intros W H. destruct (accept_backers _ _ _ _ _ _ _ H) as [ks [ND [Hk L]]].
  exists ks. split; [assumption|]. split; [assumption|]. intros k Hin.
  destruct (Hk k Hin) as [Ha [[v [S D]]|[v1 [v2 [S1 [S2 Ne]]]]]]; (split; [assumption|]).
  - left. exists v. split; [now apply signed_by_bytes | assumption].
  - right. exists v1, v2. split; [now apply signed_by_bytes|]. split; [now apply signed_by_bytes | assumption].
Qed.

(* the payload of an entry determines stage, block hash bytes, number, round and set id *)
Lemma entry_payload_determines round setid e st h n r i :
  length (hb (v_hash (e_vote e))) = length h -> st < 256 ->
  v_num (e_vote e) < 256 ^ N.of_nat 4 -> n < 256 ^ N.of_nat 4 ->
  round < 256 ^ N.of_nat 8 -> r < 256 ^ N.of_nat 8 -> setid < 256 ^ N.of_nat 8 -> i < 256 ^ N.of_nat 8 ->
  entry_payload round setid e = vote_payload 4 st h n r i ->
  st = stage_precommit /\ h = hb (v_hash (e_vote e)) /\ n = v_num (e_vote e) /\ r = round /\ i = setid.
Proof.
  intros Lh Hs Hn Hn' Hr Hr' Hi Hi' E. unfold entry_payload in E.
  assert (S1 : stage_precommit < 256) by (unfold stage_precommit; lia).
  destruct (vote_payload_inj 4 _ _ _ _ _ _ _ _ _ _ Lh S1 Hs Hn Hn' Hr Hr' Hi Hi' E) as [A [B [C [D F]]]].
  repeat split; congruence.
Qed.
End Signed.
