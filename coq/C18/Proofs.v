(* C18/Proofs.v — lemmas about the commit-message model. *)
From Coq Require Import List NArith Bool Lia Permutation ZifyN ZifyNat ZifyBool.
From C18 Require Import Model.
Import ListNotations.
Local Open Scope N_scope.

(* ---------- small facts ---------- *)
Lemma vote_eqb_spec a b : reflect (a = b) (vote_eqb a b).
Proof.
  destruct a as [h1 n1], b as [h2 n2]. unfold vote_eqb. cbn [v_hash v_num].
  destruct (N.eqb_spec h1 h2), (N.eqb_spec n1 n2); cbn; constructor; congruence.
Qed.
Lemma vote_eqb_refl a : vote_eqb a a = true.
Proof. destruct (vote_eqb_spec a a); congruence. Qed.

Lemma mem_In k l : mem k l = true <-> In k l.
Proof.
  unfold mem. rewrite existsb_exists. split.
  - intros [x [Hx He]]. apply N.eqb_eq in He. now subst.
  - intros H. exists k. split; [assumption | apply N.eqb_refl].
Qed.
Lemma mem_false k l : mem k l = false <-> ~ In k l.
Proof. rewrite <- mem_In. destruct (mem k l); split; congruence. Qed.

Lemma In_add x k l : In x (add k l) <-> x = k \/ In x l.
Proof.
  unfold add. destruct (mem k l) eqn:E.
  - apply mem_In in E. split; [now right | intros [->|H]; assumption].
  - cbn. split; intros [H|H]; auto.
Qed.
Lemma NoDup_add k l : NoDup l -> NoDup (add k l).
Proof.
  intros H. unfold add. destruct (mem k l) eqn:E; [assumption|].
  constructor; [now apply mem_false | assumption].
Qed.

Lemma In_remove_all x ks l : In x (remove_all ks l) <-> In x l /\ ~ In x ks.
Proof.
  unfold remove_all. rewrite filter_In. rewrite negb_true_iff, mem_false. tauto.
Qed.

Lemma NoDup_app_intro {A} (l1 l2 : list A) :
  NoDup l1 -> NoDup l2 -> (forall x, In x l1 -> In x l2 -> False) -> NoDup (l1 ++ l2).
Proof.
  induction l1 as [|a l1 IH]; cbn; intros N1 N2 D; [assumption|].
  inversion N1; subst. constructor.
  - rewrite in_app_iff. intros [?|?]; [contradiction | eapply D; eauto].
  - apply IH; auto. intros x ? ?. eapply D; eauto.
Qed.

(* ---------- the loop ---------- *)
Section Loop.
Variable c : chain.
Variable auths : list N.
Variable tgt : vote.

(* the first correctly signed vote of k among the entries *)
Fixpoint first_vote (k : N) (es : list entry) : option vote :=
  match es with
  | [] => None
  | e :: r => if verified auths e && (e_key e =? k) then Some (e_vote e) else first_vote k r
  end.

Definition desc_true (e : entry) : bool :=
  match is_desc c (v_hash tgt) (v_hash (e_vote e)) with DOk true => true | _ => false end.

Lemma supports_unfold k e :
  supports c auths tgt k e = verified auths e && (e_key e =? k) && desc_true e.
Proof. reflexivity. Qed.

(* what a successful step does *)
Lemma step_ok st e st' :
  step c auths tgt st e = ROk st' ->
  (verified auths e = false /\ st' = st) \/
  (verified auths e = true /\
   signed st' = signed (note_vote st (e_key e) (e_vote e)) /\
   eqv st' = eqv (note_vote st (e_key e) (e_vote e)) /\
   valid st' = if desc_true e then add (e_key e) (valid st) else valid st).
Proof.
  unfold step, desc_true. destruct (verified auths e) eqn:V; cbn [negb].
  - intros H. right. split; [reflexivity|].
    assert (Hv : valid (note_vote st (e_key e) (e_vote e)) = valid st).
    { unfold note_vote. destruct (lookup _ _); [destruct (vote_eqb _ _)|]; reflexivity. }
    destruct (is_desc c (v_hash tgt) (v_hash (e_vote e))) as [d| |].
    + destruct (hdr_num c (v_hash (e_vote e))) as [num|]; [|discriminate].
      destruct (negb (num =? v_num (e_vote e))); [discriminate|].
      inversion H; subst; clear H. destruct d; cbn [signed eqv valid]; rewrite ?Hv; auto.
    + inversion H; subst. rewrite Hv. auto.
    + inversion H; subst. rewrite Hv. auto.
  - intros H. inversion H. now left.
Qed.

Lemma lookup_note_vote st k v k' :
  lookup k' (signed (note_vote st k v)) =
  match lookup k' (signed st) with
  | Some x => Some x
  | None => if k' =? k then Some v else None
  end.
Proof.
  unfold note_vote. destruct (lookup k (signed st)) as [v0|] eqn:L.
  - destruct (vote_eqb v0 v); cbn [signed];
      destruct (lookup k' (signed st)) eqn:L'; try reflexivity;
      destruct (N.eqb_spec k' k); try reflexivity; subst; congruence.
  - cbn [signed lookup]. destruct (N.eqb_spec k' k).
    + subst. now rewrite L.
    + destruct (lookup k' (signed st)); reflexivity.
Qed.

Lemma loop_signed es : forall st st',
  loop c auths tgt st es = ROk st' ->
  forall k, lookup k (signed st') =
            match lookup k (signed st) with Some v => Some v | None => first_vote k es end.
Proof.
  induction es as [|e r IH]; intros st st' H k; cbn [loop] in H.
  - inversion H; subst. cbn. now destruct (lookup k (signed st')).
  - destruct (step c auths tgt st e) as [st1|] eqn:S; [|discriminate].
    rewrite (IH _ _ H k). cbn [first_vote].
    destruct (step_ok _ _ _ S) as [[V ->]|[V [Hs _]]].
    + rewrite V. cbn. reflexivity.
    + rewrite Hs, lookup_note_vote, V. cbn [andb].
      destruct (lookup k (signed st)); [reflexivity|].
      rewrite (N.eqb_sym (e_key e) k). destruct (k =? e_key e); reflexivity.
Qed.

Lemma loop_signed_stable es st st' k v :
  loop c auths tgt st es = ROk st' -> lookup k (signed st) = Some v -> lookup k (signed st') = Some v.
Proof. intros H L. rewrite (loop_signed _ _ _ H k), L. reflexivity. Qed.

Lemma loop_valid es : forall st st',
  loop c auths tgt st es = ROk st' ->
  forall k, In k (valid st') <-> In k (valid st) \/ existsb (supports c auths tgt k) es = true.
Proof.
  induction es as [|e r IH]; intros st st' H k; cbn [loop] in H.
  - inversion H; subst. cbn. intuition congruence.
  - destruct (step c auths tgt st e) as [st1|] eqn:S; [|discriminate].
    rewrite (IH _ _ H k). cbn [existsb]. rewrite orb_true_iff, supports_unfold.
    destruct (step_ok _ _ _ S) as [[V ->]|[V [_ [_ Hv]]]].
    + rewrite V. cbn. intuition congruence.
    + rewrite Hv, V. cbn [andb]. destruct (desc_true e).
      * rewrite In_add, andb_true_r, N.eqb_eq. intuition congruence.
      * rewrite andb_false_r. intuition congruence.
Qed.

Definition differs (st' : lstate) (k : N) (e : entry) : Prop :=
  verified auths e = true /\ e_key e = k /\
  exists v0, lookup k (signed st') = Some v0 /\ vote_eqb v0 (e_vote e) = false.

Lemma loop_eqv es : forall st st',
  loop c auths tgt st es = ROk st' ->
  forall k, In k (eqv st') <-> In k (eqv st) \/ exists e, In e es /\ differs st' k e.
Proof.
  induction es as [|e r IH]; intros st st' H k; cbn [loop] in H.
  - inversion H; subst. cbn. split; [auto|]. intros [?|[e [[] _]]]. assumption.
  - destruct (step c auths tgt st e) as [st1|] eqn:S; [|discriminate].
    rewrite (IH _ _ H k).
    assert (Hhead : In k (eqv st1) <-> In k (eqv st) \/ differs st' k e).
    { destruct (step_ok _ _ _ S) as [[V ->]|[V [Hs [He _]]]].
      - unfold differs. rewrite V. intuition congruence.
      - rewrite He. unfold differs. rewrite V.
        pose proof (fun v => loop_signed_stable _ _ _ (e_key e) v H) as Stab. rewrite Hs in Stab.
        unfold note_vote in *. destruct (lookup (e_key e) (signed st)) as [v0|] eqn:L.
        + destruct (vote_eqb v0 (e_vote e)) eqn:Q.
          * specialize (Stab v0 L). split; [auto|]. intros [?|[_ [<- [v1 [L1 Q1]]]]]; [assumption|].
            rewrite Stab in L1. inversion L1; subst. congruence.
          * cbn [eqv signed] in *. specialize (Stab v0 L). rewrite In_add. split.
            -- intros [->|?]; [|auto]. right. split; [reflexivity|]. split; [reflexivity|]. eauto.
            -- intros [?|[_ [<- _]]]; auto.
        + cbn [eqv signed lookup] in *. rewrite N.eqb_refl in Stab. specialize (Stab _ eq_refl).
          split; [auto|]. intros [?|[_ [<- [v1 [L1 Q1]]]]]; [assumption|].
          rewrite Stab in L1. inversion L1; subst. rewrite vote_eqb_refl in Q1. discriminate. }
    rewrite Hhead. split.
    + intros [[?|?]|[e' [? ?]]]; [now left| right; exists e; cbn; auto | right; exists e'; cbn; auto].
    + intros [?|[e' [[<-|?] ?]]]; [auto | auto | right; eauto].
Qed.

Lemma loop_nodup es : forall st st',
  loop c auths tgt st es = ROk st' -> NoDup (eqv st) -> NoDup (valid st) ->
  NoDup (eqv st') /\ NoDup (valid st').
Proof.
  induction es as [|e r IH]; intros st st' H N1 N2; cbn [loop] in H.
  - inversion H; subst. auto.
  - destruct (step c auths tgt st e) as [st1|] eqn:S; [|discriminate].
    apply (IH _ _ H).
    + destruct (step_ok _ _ _ S) as [[V ->]|[V [_ [He _]]]]; [assumption|].
      rewrite He. unfold note_vote. destruct (lookup _ _); [destruct (vote_eqb _ _)|]; cbn [eqv]; auto.
      now apply NoDup_add.
    + destruct (step_ok _ _ _ S) as [[V ->]|[V [_ [_ Hv]]]]; [assumption|].
      rewrite Hv. destruct (desc_true e); auto. now apply NoDup_add.
Qed.

(* first_vote finds a verified entry of k *)
Lemma first_vote_some k es v :
  first_vote k es = Some v -> exists e, In e es /\ verified auths e = true /\ e_key e = k /\ e_vote e = v.
Proof.
  induction es as [|e r IH]; cbn; [discriminate|].
  destruct (verified auths e && (e_key e =? k)) eqn:Q.
  - intros H. inversion H; subst. apply andb_true_iff in Q. destruct Q as [V K]. apply N.eqb_eq in K.
    exists e. auto.
  - intros H. destruct (IH H) as [e' [? ?]]. exists e'. auto.
Qed.
Lemma first_vote_none k es :
  first_vote k es = None -> forall e, In e es -> verified auths e = true -> e_key e <> k.
Proof.
  induction es as [|e r IH]; cbn; [intros _ ? []|].
  destruct (verified auths e && (e_key e =? k)) eqn:Q; [discriminate|].
  intros H e' [<-|Hin] V.
  - rewrite V in Q. cbn in Q. now apply N.eqb_neq.
  - now apply IH.
Qed.

End Loop.

(* ---------- the loop's sets are the specification's sets ---------- *)
Section Count.
Variable c : chain.
Variable auths : list N.
Variable m : commit.
Variable st : lstate.
Hypothesis Hloop : loop c auths (cm_vote m) l0 (entries m) = ROk st.

Lemma valid_iff k : In k (valid st) <-> supporter c auths m k = true.
Proof.
  rewrite (loop_valid _ _ _ _ _ _ Hloop k). cbn. unfold supporter. tauto.
Qed.

Lemma eq_pair_unpack (e1 e2 : entry) k :
  verified auths e1 && verified auths e2 && (e_key e1 =? k) && (e_key e2 =? k)
    && negb (vote_eqb (e_vote e1) (e_vote e2)) = true <->
  verified auths e1 = true /\ verified auths e2 = true /\ e_key e1 = k /\ e_key e2 = k /\
  vote_eqb (e_vote e1) (e_vote e2) = false.
Proof.
  rewrite !andb_true_iff, !N.eqb_eq, negb_true_iff. tauto.
Qed.

Lemma eqv_iff k : In k (eqv st) <-> equivocator auths m k = true.
Proof.
  rewrite (loop_eqv _ _ _ _ _ _ Hloop k). cbn [l0 eqv In].
  pose proof (loop_signed _ _ _ _ _ _ Hloop k) as Hs. cbn [l0 signed lookup] in Hs.
  unfold equivocator. split.
  - intros [[]|[e [Hin [V [K [v0 [L Q]]]]]]].
    rewrite Hs in L. destruct (first_vote_some _ _ _ _ L) as [e0 [Hin0 [V0 [K0 E0]]]].
    apply existsb_exists. exists e0. split; [assumption|].
    apply existsb_exists. exists e. split; [assumption|].
    apply eq_pair_unpack. rewrite E0. auto.
  - intros H. apply existsb_exists in H. destruct H as [e1 [Hin1 H]].
    apply existsb_exists in H. destruct H as [e2 [Hin2 H]].
    apply eq_pair_unpack in H. destruct H as [V1 [V2 [K1 [K2 D]]]].
    right. destruct (first_vote auths k (entries m)) as [v0|] eqn:F.
    + destruct (vote_eqb v0 (e_vote e1)) eqn:Q1.
      * destruct (vote_eqb_spec v0 (e_vote e1)) as [->|]; [|discriminate].
        exists e2. split; [assumption|]. split; [assumption|]. split; [assumption|].
        exists (e_vote e1). rewrite Hs. auto.
      * exists e1. split; [assumption|]. split; [assumption|]. split; [assumption|].
        exists v0. rewrite Hs. auto.
    + exfalso. exact (first_vote_none _ _ _ F e1 Hin1 V1 K1).
Qed.

Lemma supporter_auth k : supporter c auths m k = true -> In k auths.
Proof.
  unfold supporter. rewrite existsb_exists. intros [e [_ H]]. unfold supports, verified in H.
  rewrite !andb_true_iff, N.eqb_eq in H. destruct H as [[[_ M] K] _]. subst. now apply mem_In.
Qed.
Lemma equivocator_auth k : equivocator auths m k = true -> In k auths.
Proof.
  unfold equivocator. rewrite existsb_exists. intros [e1 [_ H]].
  rewrite existsb_exists in H. destruct H as [e2 [_ H]].
  apply eq_pair_unpack in H. destruct H as [V1 [_ [K1 _]]]. unfold verified in V1.
  apply andb_true_iff in V1. destruct V1 as [_ M]. subst. now apply mem_In.
Qed.

Lemma final_count_spec : final_count st = spec_count c auths m.
Proof.
  unfold final_count, spec_count. rewrite <- Nat2N.inj_add, <- app_length. f_equal.
  apply Permutation_length. apply NoDup_Permutation.
  - destruct (loop_nodup _ _ _ _ _ _ Hloop) as [N1 N2]; try constructor.
    apply NoDup_app_intro.
    + unfold remove_all. now apply NoDup_filter.
    + assumption.
    + intros x H1 H2. apply In_remove_all in H1. tauto.
  - apply NoDup_filter, NoDup_nodup.
  - intros x. rewrite in_app_iff, In_remove_all, filter_In, nodup_In. unfold counted.
    rewrite orb_true_iff, <- valid_iff, <- eqv_iff.
    pose proof (supporter_auth x). pose proof (equivocator_auth x).
    rewrite <- valid_iff in H. rewrite <- eqv_iff in H0.
    destruct (mem x (eqv st)) eqn:M; [apply mem_In in M | apply mem_false in M]; tauto.
Qed.

End Count.

(* ---------- verifyCommitMessageJustification ---------- *)
Lemma verify_commit_ok c auths setid thr hf m :
  verify_commit c auths setid thr hf m = ROk tt <->
  prechecks c setid hf m = ROk tt /\
  (exists st, loop c auths (cm_vote m) l0 (entries m) = ROk st) /\
  thr < spec_count c auths m.
Proof.
  unfold verify_commit. destruct (prechecks c setid hf m) as [[]|x].
  - destruct (loop c auths (cm_vote m) l0 (entries m)) as [st|x] eqn:L.
    + rewrite (final_count_spec _ _ _ _ L). destruct (N.leb_spec (spec_count c auths m) thr).
      * split; [discriminate|]. intros [_ [_ ?]]. lia.
      * split; [|reflexivity]. intros _. split; [reflexivity|]. split; [eauto|assumption].
    + split; [discriminate|]. intros [_ [[st ?] _]]. discriminate.
  - split; [discriminate|]. intros [? _]. discriminate.
Qed.

(* strictly more than floor(2n/3) is exactly "more than two thirds" *)
Lemma above_threshold_iff (n cnt : N) : 2 * n / 3 < cnt <-> 2 * n < 3 * cnt.
Proof. pose proof (N.mod_lt (2*n) 3). pose proof (N.div_mod' (2*n) 3). lia. Qed.

Lemma at_threshold_no_supermajority (n : N) : ~ 2 * n < 3 * (2 * n / 3).
Proof. pose proof (N.div_mod' (2*n) 3). lia. Qed.

Lemma supermajority_iff c auths m :
  supermajority c auths m = true <-> threshold auths < spec_count c auths m.
Proof. unfold supermajority, threshold. rewrite N.ltb_lt. symmetry. apply above_threshold_iff. Qed.

(* ---------- handleCommitMessage ---------- *)
Lemma handle_accepted_iff c auths setid has hf m eff :
  handle_commit c auths setid has hf m = (HAccepted, eff) <->
  hdr_num c (v_hash (cm_vote m)) = Some (v_num (cm_vote m)) /\ has = false /\
  verify_commit c auths setid (threshold auths) hf m = ROk tt /\
  eff = mkEff (Some (v_hash (cm_vote m), cm_round m, setid)) (Some (cm_round m, cm_setid m)) false.
Proof.
  unfold handle_commit. destruct (hdr_num c (v_hash (cm_vote m))) as [num|].
  - destruct (N.eqb_spec num (v_num (cm_vote m))); cbn [negb].
    + subst. destruct has.
      * split; [discriminate|]. intros [_ [? _]]. discriminate.
      * destruct (verify_commit c auths setid (threshold auths) hf m) as [[]|x].
        -- split.
           ++ intros H. inversion H. auto.
           ++ intros [_ [_ [_ ->]]]. reflexivity.
        -- split; [destruct x; discriminate|]. intros [_ [_ [? _]]]. discriminate.
    + split; [discriminate|]. intros [H _]. inversion H. contradiction.
  - split; [discriminate|]. intros [? _]. discriminate.
Qed.

Lemma handle_not_accepted_no_effect c auths setid has hf m r eff :
  handle_commit c auths setid has hf m = (r, eff) -> r <> HAccepted ->
  finalised eff = None /\ stored eff = None.
Proof.
  unfold handle_commit. destruct (hdr_num c (v_hash (cm_vote m))) as [num|].
  - destruct (negb (num =? v_num (cm_vote m))).
    + intros H. inversion H. auto.
    + destruct has.
      * intros H. inversion H. auto.
      * destruct (verify_commit c auths setid (threshold auths) hf m) as [[]|x].
        -- intros H. inversion H. congruence.
        -- destruct x; intros H; inversion H; auto.
  - intros H. inversion H. auto.
Qed.

Lemma handle_finalised_only_accepted c auths setid has hf m r eff x :
  handle_commit c auths setid has hf m = (r, eff) -> finalised eff = Some x ->
  r = HAccepted /\ x = (v_hash (cm_vote m), cm_round m, setid).
Proof.
  intros H F. destruct r; try (destruct (handle_not_accepted_no_effect _ _ _ _ _ _ _ _ H) as [F' _];
    [discriminate | congruence]).
  apply handle_accepted_iff in H. destruct H as [_ [_ [_ ->]]]. cbn in F. inversion F. auto.
Qed.

(* accepted <-> the structural checks pass and a supermajority of distinct authorities backs it *)
Lemma handle_accepted_supermajority_iff c auths setid has hf m :
  (exists eff, handle_commit c auths setid has hf m = (HAccepted, eff)) <->
  hdr_num c (v_hash (cm_vote m)) = Some (v_num (cm_vote m)) /\ has = false /\
  prechecks c setid hf m = ROk tt /\
  (exists st, loop c auths (cm_vote m) l0 (entries m) = ROk st) /\
  supermajority c auths m = true.
Proof.
  rewrite supermajority_iff. split.
  - intros [eff H]. apply handle_accepted_iff in H. destruct H as [H1 [H2 [H3 _]]].
    apply verify_commit_ok in H3. tauto.
  - intros [H1 [H2 [H3 [H4 H5]]]]. eexists. apply handle_accepted_iff.
    split; [assumption|]. split; [assumption|]. split; [|reflexivity].
    apply verify_commit_ok. tauto.
Qed.

Lemma handle_accepted_supermajority c auths setid has hf m eff :
  handle_commit c auths setid has hf m = (HAccepted, eff) -> supermajority c auths m = true.
Proof.
  intros H. apply (handle_accepted_supermajority_iff c auths setid has hf m). eauto.
Qed.

Lemma at_threshold_not_supermajority c auths m :
  at_threshold c auths m = true -> supermajority c auths m = false.
Proof.
  unfold at_threshold, supermajority, threshold. intros G. apply N.eqb_eq in G. rewrite G.
  apply N.ltb_ge. pose proof (at_threshold_no_supermajority (N.of_nat (length auths))). lia.
Qed.

Lemma handle_already_has c auths setid has hf m eff :
  handle_commit c auths setid has hf m = (HAlreadyFinalised, eff) -> has = true.
Proof.
  unfold handle_commit. destruct (hdr_num c (v_hash (cm_vote m))) as [num|]; [|discriminate].
  destruct (negb (num =? v_num (cm_vote m))); [discriminate|].
  destruct has; [reflexivity|].
  destruct (verify_commit c auths setid (threshold auths) hf m) as [[]|x]; [discriminate|].
  destruct x; discriminate.
Qed.

Lemma handle_prop c auths setid has hf m r eff :
  handle_commit c auths setid has hf m = (r, eff) ->
  prop_holds c auths setid m has (returns_nil r) (fin_calls eff) = true.
Proof.
  intros H. destruct r.
  - pose proof (handle_accepted_supermajority _ _ _ _ _ _ _ H) as S.
    apply handle_accepted_iff in H. destruct H as [_ [_ [_ ->]]].
    cbn. rewrite S, !N.eqb_refl. reflexivity.
  - rewrite (handle_already_has _ _ _ _ _ _ _ H).
    destruct (handle_not_accepted_no_effect _ _ _ _ _ _ _ _ H) as [F _]; [discriminate|].
    unfold fin_calls. rewrite F. cbn. now rewrite !orb_true_r.
  - destruct (handle_not_accepted_no_effect _ _ _ _ _ _ _ _ H) as [F _]; [discriminate|].
    unfold fin_calls. rewrite F. cbn. now rewrite orb_true_r.
  - destruct (handle_not_accepted_no_effect _ _ _ _ _ _ _ _ H) as [F _]; [discriminate|].
    unfold fin_calls. rewrite F. cbn. now rewrite orb_true_r.
  - destruct (handle_not_accepted_no_effect _ _ _ _ _ _ _ _ H) as [F _]; [discriminate|].
    unfold fin_calls. rewrite F. cbn. now rewrite orb_true_r.
Qed.

(* ---------- witnesses ---------- *)
(* a chain 0 <- 1 <- 2 with a sibling 3 of 2; four authorities 0..3; target = block 1 *)
Definition w_chain : chain := tree_chain 0 [0; 1; 1] None.
Definition w_auths : list N := [0; 1; 2; 3].
Definition w_commit (pcs : list vote) (ads : list authdata) : commit :=
  mkCommit 1 0 (mkVote 1 1) pcs ads.

(* two honest precommits out of four authorities: accepted by the pinned tree, rejected now *)
Definition w_threshold : commit :=
  w_commit [mkVote 1 1; mkVote 2 2] [mkAuth 0 100 true; mkAuth 1 101 true].
Lemma threshold_witness :
  handle_commit_prefix w_chain w_auths 0 false 0 w_threshold
    = (HAccepted, mkEff (Some (1, 1, 0)) (Some (1, 0)) false)
  /\ supermajority w_chain w_auths w_threshold = false
  /\ at_threshold w_chain w_auths w_threshold = true
  /\ handle_commit w_chain w_auths 0 false 0 w_threshold = (HRejected EMinVotes, no_effect).
Proof. vm_compute. auto. Qed.

(* one authority's precommit listed three times *)
Definition w_dup : commit :=
  w_commit [mkVote 1 1; mkVote 1 1; mkVote 1 1]
           [mkAuth 0 100 true; mkAuth 0 100 true; mkAuth 0 100 true].
Lemma dup_witness :
  verify_commit_prefix w_chain w_auths 0 (threshold w_auths) 0 w_dup = ROk tt
  /\ spec_count w_chain w_auths w_dup = 1 /\ threshold w_auths = 2
  /\ verify_commit w_chain w_auths 0 (threshold w_auths) 0 w_dup = RErr EMinVotes.
Proof. vm_compute. auto. Qed.

(* one honest precommit + two authorities listed twice with forged, differing signatures *)
Definition w_forged : commit :=
  w_commit [mkVote 1 1; mkVote 1 1; mkVote 1 1; mkVote 1 1; mkVote 1 1]
           [mkAuth 0 100 true; mkAuth 1 201 false; mkAuth 1 202 false;
            mkAuth 2 203 false; mkAuth 2 204 false].
Lemma forged_witness :
  verify_commit_prefix w_chain w_auths 0 (threshold w_auths) 0 w_forged = ROk tt
  /\ spec_count w_chain w_auths w_forged = 1 /\ threshold w_auths = 2
  /\ verify_commit w_chain w_auths 0 (threshold w_auths) 0 w_forged = RErr EMinVotes.
Proof. vm_compute. auto. Qed.

(* non-vacuity: a commit with three of four authorities (one of them a true equivocator voting
   off the target's chain as well) is accepted and is a supermajority *)
Definition w_good : commit :=
  w_commit [mkVote 1 1; mkVote 2 2; mkVote 3 2; mkVote 0 0; mkVote 2 2]
           [mkAuth 0 100 true; mkAuth 1 101 true; mkAuth 2 102 true; mkAuth 2 103 true;
            mkAuth 7 104 true].
Lemma good_witness :
  handle_commit w_chain w_auths 0 false 0 w_good
    = (HAccepted, mkEff (Some (1, 1, 0)) (Some (1, 0)) false)
  /\ spec_count w_chain w_auths w_good = 3
  /\ supermajority w_chain w_auths w_good = true
  /\ equivocator w_auths w_good 2 = true /\ supporter w_chain w_auths w_good 2 = true
  /\ counted w_chain w_auths w_good 7 = false.
Proof. vm_compute. repeat split; reflexivity. Qed.
