(* C18/VmCheck.v — boolean checks evaluated with vm_compute on a sample of the traced cases
   (bin/check `vm_sample`): the model's answer is recomputed INSIDE Coq from the case and compared
   with the implementation's observables, so the extraction and the OCaml driver are cross-checked.
   Definitions only. [res_code] numbers the result classes as props/C18/driver.ml [code_of_res]. *)
From Coq Require Import List NArith Bool.
From C18 Require Import Model.
Import ListNotations.
Local Open Scope N_scope.

Definition cerr_code (e : cerr) : N :=
  match e with
  | ELen => 3 | ESetID => 4 | EDescStart => 5 | EDescOther => 6 | ENotDesc => 7
  | ENoHeader => 8 | EPcNum => 9 | EMinVotes => 10
  end.
Definition hres_code (r : hres) : N :=
  match r with
  | HAccepted | HAlreadyFinalised => 0 | HNoTargetHeader => 1 | HTargetNum => 2
  | HRejected e => cerr_code e
  end.
Definition res_code (r : fres) : N :=
  match r with
  | FRes r => hres_code r | FHasErr => 11 | FHfErr => 12 | FFinErr => 13 | FStoreErr => 14
  end.
Definition opt_triple_eqb (a b : option (N * N * N)) : bool :=
  match a, b with
  | None, None => true
  | Some x, Some y => triple_eqb x y
  | _, _ => false
  end.

(* observed: result class [code], number of SetFinalisedHash calls [nfin] and the arguments of the
   last one [fin], number of SetPrecommits calls, number of tracked commits *)
Definition vm_handle (fl : faults) (c : chain) (auths : list N) (setid : N) (has : bool) (hf : N)
  (m : commit) (code nfin : N) (fin : option (N * N * N)) (nstored ntracked : N) : bool :=
  let '(r, eff) := handle_commit_f fl c auths setid has hf m in
  (res_code r =? code)
  && opt_triple_eqb (finalised eff) fin
  && (nfin =? match finalised eff with Some _ => 1 | None => 0 end)
  && (nstored =? match stored eff with Some _ => 1 | None => 0 end)
  && (ntracked =? if tracked eff then 1 else 0)
  && prop_holds c auths setid m has (code =? 0) (match fin with Some x => [x] | None => [] end).

Definition vm_verify (c : chain) (auths : list N) (setid thr hf : N) (m : commit) (code : N) : bool :=
  match verify_commit c auths setid thr hf m with
  | ROk _ => (code =? 0) && (thr <? spec_count c auths m)
  | RErr e => code =? cerr_code e
  end.
