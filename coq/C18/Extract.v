From Coq Require Import Extraction ExtrOcamlBasic.
From Common Require Import Bytes Drv.
From GrandpaPayload Require Import Payload.
From C18 Require Import Model.
Extraction "model.ml" drv_b2n drv_n2b drv_z_of_n drv_n_of_z drv_nat_of_n drv_n_of_nat
  mkVote mkAuth mkCommit entries tree_chain threshold
  handle_commit handle_commit_prefix verify_commit verify_commit_prefix
  get_equivocatory_voters supporter equivocator counted spec_count supermajority at_threshold
  prop_holds returns_nil fin_calls vote_eqb
  mkFaults handle_commit_f freturns_nil tree_chain_h entry_fault strip vote_payload.
