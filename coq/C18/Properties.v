(* C18/Properties.v — property C18: only supermajority-signed commits finalise blocks.
   Statements only, each closed by `exact <lemma>`, with Print Assumptions beneath.

   Vocabulary (C18/Model.v): [handle_commit] = Service.handleCommitMessage with
   verifyCommitMessageJustification / verifyJustification inlined, as repaired by
   fixes/C18-1-duplicate-precommits.patch and fixes/C18-2-forged-equivocators.patch;
   [spec_count c auths m] = the number of DISTINCT current authorities k such that the commit
   lists a precommit correctly signed by k (for the commit's round and the current set) for the
   target or a descendant of it, or lists two different correctly signed precommits of k
   (an equivocator); [supermajority] = 3 * spec_count > 2 * |authority set|.

   FULL STATEMENT (the property text):
     forall c auths setid has hf m eff,
       handle_commit c auths setid has hf m = (HAccepted, eff) -> supermajority c auths m = true.
   It is FALSE of the code, also after the two fixes: the acceptance test is
   `validAndEqv < threshold` with threshold = floor(2n/3), so a commit backed by exactly
   floor(2n/3) authorities is accepted (C18_threshold_refuted).  The package's own tests
   (-tags integration) expect that behaviour, so it is a recorded finding
   (commit-threshold-not-strict) and the theorem is proved outside that class. *)
From Coq Require Import List NArith Bool.
From C18 Require Import Model Proofs.
Import ListNotations.
Local Open Scope N_scope.

(* The counting of the repaired code is exact: the number compared with the threshold is the
   number of distinct current authorities that back the commit; duplicated entries, entries with
   invalid signatures, non-authorities and forged "equivocations" contribute nothing. *)
Theorem C18_count_exact : forall c auths m st,
  loop c auths (cm_vote m) l0 (entries m) = ROk st ->
  final_count st = spec_count c auths m
  /\ (forall k, In k (eqv st) <-> equivocator auths m k = true)
  /\ (forall k, In k (valid st) <-> supporter c auths m k = true).
Proof.
  intros c auths m st H. split; [exact (final_count_spec c auths m st H)|].
  split; [exact (eqv_iff c auths m st H) | exact (valid_iff c auths m st H)].
Qed.
Print Assumptions C18_count_exact.

(* verifyCommitMessageJustification succeeds exactly when its structural checks pass and at
   least [thr] distinct authorities back the commit *)
Theorem C18_verify_iff : forall c auths setid thr hf m,
  verify_commit c auths setid thr hf m = ROk tt <->
  prechecks c setid hf m = ROk tt /\
  (exists st, loop c auths (cm_vote m) l0 (entries m) = ROk st) /\
  thr <= spec_count c auths m.
Proof. exact verify_commit_ok. Qed.
Print Assumptions C18_verify_iff.

(* An accepted commit is backed by at least floor(2n/3) distinct authorities, and by a
   supermajority unless it lies in the class of the recorded finding (exactly floor(2n/3)). *)
Theorem C18_accept_sound_partial : forall c auths setid has hf m eff,
  handle_commit c auths setid has hf m = (HAccepted, eff) ->
  threshold auths <= spec_count c auths m
  /\ (threshold_guard c auths m = false -> supermajority c auths m = true).
Proof.
  intros c auths setid has hf m eff H. split.
  - exact (handle_accepted_count _ _ _ _ _ _ _ H).
  - exact (handle_accepted_supermajority_partial _ _ _ _ _ _ _ H).
Qed.
Print Assumptions C18_accept_sound_partial.

(* Any commit that is not accepted finalises nothing and stores no precommits; the only block
   ever finalised is the commit's target, for the commit's round and the current set. *)
Theorem C18_reject_no_effect : forall c auths setid has hf m r eff,
  handle_commit c auths setid has hf m = (r, eff) ->
  (r <> HAccepted -> finalised eff = None /\ stored eff = None)
  /\ (forall x, finalised eff = Some x ->
        r = HAccepted /\ x = (v_hash (cm_vote m), cm_round m, setid)).
Proof.
  intros c auths setid has hf m r eff H. split.
  - exact (handle_not_accepted_no_effect _ _ _ _ _ _ _ _ H).
  - intros x. exact (handle_finalised_only_accepted _ _ _ _ _ _ _ _ x H).
Qed.
Print Assumptions C18_reject_no_effect.

(* The predicate the correspondence check evaluates on the implementation's observables
   ([prop_holds]: finalise only on a supermajority, exactly the target; a commit that falls short
   returns an error and finalises nothing) holds of the model on every input outside the
   finding's class. *)
Theorem C18_prop_partial : forall c auths setid has hf m r eff,
  handle_commit c auths setid has hf m = (r, eff) ->
  threshold_guard c auths m = false ->
  prop_holds c auths setid m has (returns_nil r) (fin_calls eff) = true.
Proof. exact handle_prop_partial. Qed.
Print Assumptions C18_prop_partial.

(* the finding: with four authorities, two honest precommits are accepted *)
Theorem C18_threshold_refuted : exists c auths setid has hf m eff,
  handle_commit c auths setid has hf m = (HAccepted, eff)
  /\ supermajority c auths m = false /\ threshold_guard c auths m = true.
Proof.
  exists w_chain, w_auths, 0, false, 0, w_threshold, (mkEff (Some (1, 1, 0)) (Some (1, 0)) false).
  exact threshold_witness.
Qed.
Print Assumptions C18_threshold_refuted.

(* the guard class never is a supermajority: the finding is not wider than the defect *)
Theorem C18_guard_exact : forall c auths m,
  threshold_guard c auths m = true -> supermajority c auths m = false.
Proof. exact guard_no_supermajority. Qed.
Print Assumptions C18_guard_exact.

(* the pinned tree before the fixes: one authority's precommit listed three times is accepted
   (one backer, threshold two), and so is one honest precommit plus two authorities listed
   twice with forged, differing signatures; the repaired code rejects both *)
Theorem C18_prefix_duplicates_refuted : exists c auths setid hf m,
  verify_commit_prefix c auths setid (threshold auths) hf m = ROk tt
  /\ spec_count c auths m < threshold auths
  /\ verify_commit c auths setid (threshold auths) hf m = RErr EMinVotes.
Proof.
  exists w_chain, w_auths, 0, 0, w_dup. destruct dup_witness as [H1 [H2 [H3 H4]]].
  split; [exact H1|]. split; [rewrite H2, H3; reflexivity | exact H4].
Qed.
Print Assumptions C18_prefix_duplicates_refuted.

Theorem C18_prefix_forged_equivocators_refuted : exists c auths setid hf m,
  verify_commit_prefix c auths setid (threshold auths) hf m = ROk tt
  /\ spec_count c auths m < threshold auths
  /\ verify_commit c auths setid (threshold auths) hf m = RErr EMinVotes.
Proof.
  exists w_chain, w_auths, 0, 0, w_forged. destruct forged_witness as [H1 [H2 [H3 H4]]].
  split; [exact H1|]. split; [rewrite H2, H3; reflexivity | exact H4].
Qed.
Print Assumptions C18_prefix_forged_equivocators_refuted.

(* non-vacuity: three of four authorities, one of them a true equivocator, a non-authority entry
   ignored: accepted, supermajority *)
Example C18_nonvacuous :
  handle_commit w_chain w_auths 0 false 0 w_good
    = (HAccepted, mkEff (Some (1, 1, 0)) (Some (1, 0)) false)
  /\ spec_count w_chain w_auths w_good = 3
  /\ supermajority w_chain w_auths w_good = true.
Proof. destruct good_witness as [H1 [H2 [H3 _]]]. auto. Qed.
