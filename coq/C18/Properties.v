(* C18/Properties.v — property C18: only supermajority-signed commits finalise blocks.
   Statements only, each closed by `exact <lemma>`, with Print Assumptions beneath.

   Vocabulary (C18/Model.v): [handle_commit] = Service.handleCommitMessage with
   verifyCommitMessageJustification / verifyJustification inlined, as repaired by the three
   "fix:" commits (count each authority once; only correctly signed precommits make an
   equivocator; fixes/C18-3-commit-threshold-strict.patch: strictly more than floor(2n/3));
   [spec_count c auths m] = the number of DISTINCT current authorities k such that the commit
   lists a precommit correctly signed by k (for the commit's round and the current set) for the
   target or a descendant of it, or lists two different correctly signed precommits of k
   (an equivocator); [supermajority] = 3 * spec_count > 2 * |authority set|.
   [handle_commit_prefix] / [verify_commit_prefix] = the pinned tree before the repairs. *)
From Coq Require Import List NArith Bool.
From C18 Require Import Model Proofs.
Import ListNotations.
Local Open Scope N_scope.

(* The counting of the repaired code is exact: the number compared with the threshold is the
   number of distinct current authorities that back the commit; duplicated entries, entries with
   invalid signatures, non-authorities and forged "equivocations" contribute nothing. *)
Theorem C18_count_exact : forall c auths m st,
  loop c auths (cm_vote m) l0 (entries m) = ROk st ->
  final_count st = spec_count c auths m
  /\ (forall k, In k (eqv st) <-> equivocator auths m k = true)
  /\ (forall k, In k (valid st) <-> supporter c auths m k = true).
Proof.
  intros c auths m st H. split; [exact (final_count_spec c auths m st H)|].
  split; [exact (eqv_iff c auths m st H) | exact (valid_iff c auths m st H)].
Qed.
Print Assumptions C18_count_exact.

(* verifyCommitMessageJustification succeeds exactly when its structural checks pass and more
   than [thr] distinct authorities back the commit *)
Theorem C18_verify_iff : forall c auths setid thr hf m,
  verify_commit c auths setid thr hf m = ROk tt <->
  prechecks c setid hf m = ROk tt /\
  (exists st, loop c auths (cm_vote m) l0 (entries m) = ROk st) /\
  thr < spec_count c auths m.
Proof. exact verify_commit_ok. Qed.
Print Assumptions C18_verify_iff.

(* THE PROPERTY: a commit is accepted (finalises its target) exactly when the structural checks
   pass and more than two thirds of the current authority set back it *)
Theorem C18_accept_iff : forall c auths setid has hf m,
  (exists eff, handle_commit c auths setid has hf m = (HAccepted, eff)) <->
  hdr_num c (v_hash (cm_vote m)) = Some (v_num (cm_vote m)) /\ has = false /\
  prechecks c setid hf m = ROk tt /\
  (exists st, loop c auths (cm_vote m) l0 (entries m) = ROk st) /\
  supermajority c auths m = true.
Proof. exact handle_accepted_supermajority_iff. Qed.
Print Assumptions C18_accept_iff.

Theorem C18_accept_sound : forall c auths setid has hf m eff,
  handle_commit c auths setid has hf m = (HAccepted, eff) -> supermajority c auths m = true.
Proof. exact handle_accepted_supermajority. Qed.
Print Assumptions C18_accept_sound.

(* Any commit that is not accepted finalises nothing and stores no precommits; the only block
   ever finalised is the commit's target, for the commit's round and the current set. *)
Theorem C18_reject_no_effect : forall c auths setid has hf m r eff,
  handle_commit c auths setid has hf m = (r, eff) ->
  (r <> HAccepted -> finalised eff = None /\ stored eff = None)
  /\ (forall x, finalised eff = Some x ->
        r = HAccepted /\ x = (v_hash (cm_vote m), cm_round m, setid)).
Proof.
  intros c auths setid has hf m r eff H. split.
  - exact (handle_not_accepted_no_effect _ _ _ _ _ _ _ _ H).
  - intros x. exact (handle_finalised_only_accepted _ _ _ _ _ _ _ _ x H).
Qed.
Print Assumptions C18_reject_no_effect.

(* The predicate the correspondence check evaluates on the implementation's observables
   ([prop_holds]: finalise only on a supermajority, exactly the target; a commit that falls short
   returns an error and finalises nothing) holds of the model on every input. *)
Theorem C18_prop : forall c auths setid has hf m r eff,
  handle_commit c auths setid has hf m = (r, eff) ->
  prop_holds c auths setid m has (returns_nil r) (fin_calls eff) = true.
Proof. exact handle_prop. Qed.
Print Assumptions C18_prop.

(* the pinned tree: with four authorities, two honest precommits were accepted
   (`validAndEqv < threshold`, threshold = floor(2n/3)); exactly floor(2n/3) backers never are a
   supermajority *)
Theorem C18_prefix_threshold_refuted : exists c auths setid has hf m eff,
  handle_commit_prefix c auths setid has hf m = (HAccepted, eff)
  /\ supermajority c auths m = false
  /\ handle_commit c auths setid has hf m = (HRejected EMinVotes, no_effect).
Proof.
  exists w_chain, w_auths, 0, false, 0, w_threshold, (mkEff (Some (1, 1, 0)) (Some (1, 0)) false).
  destruct threshold_witness as [H1 [H2 [_ H4]]]. auto.
Qed.
Print Assumptions C18_prefix_threshold_refuted.

Theorem C18_at_threshold_not_supermajority : forall c auths m,
  at_threshold c auths m = true -> supermajority c auths m = false.
Proof. exact at_threshold_not_supermajority. Qed.
Print Assumptions C18_at_threshold_not_supermajority.

(* the pinned tree before the fixes: one authority's precommit listed three times is accepted
   (one backer, threshold two), and so is one honest precommit plus two authorities listed
   twice with forged, differing signatures; the repaired code rejects both *)
Theorem C18_prefix_duplicates_refuted : exists c auths setid hf m,
  verify_commit_prefix c auths setid (threshold auths) hf m = ROk tt
  /\ spec_count c auths m < threshold auths
  /\ verify_commit c auths setid (threshold auths) hf m = RErr EMinVotes.
Proof.
  exists w_chain, w_auths, 0, 0, w_dup. destruct dup_witness as [H1 [H2 [H3 H4]]].
  split; [exact H1|]. split; [rewrite H2, H3; reflexivity | exact H4].
Qed.
Print Assumptions C18_prefix_duplicates_refuted.

Theorem C18_prefix_forged_equivocators_refuted : exists c auths setid hf m,
  verify_commit_prefix c auths setid (threshold auths) hf m = ROk tt
  /\ spec_count c auths m < threshold auths
  /\ verify_commit c auths setid (threshold auths) hf m = RErr EMinVotes.
Proof.
  exists w_chain, w_auths, 0, 0, w_forged. destruct forged_witness as [H1 [H2 [H3 H4]]].
  split; [exact H1|]. split; [rewrite H2, H3; reflexivity | exact H4].
Qed.
Print Assumptions C18_prefix_forged_equivocators_refuted.

(* non-vacuity: three of four authorities, one of them a true equivocator, a non-authority entry
   ignored: accepted, supermajority *)
Example C18_nonvacuous :
  handle_commit w_chain w_auths 0 false 0 w_good
    = (HAccepted, mkEff (Some (1, 1, 0)) (Some (1, 0)) false)
  /\ spec_count w_chain w_auths w_good = 3
  /\ supermajority w_chain w_auths w_good = true.
Proof. destruct good_witness as [H1 [H2 [H3 _]]]. auto. Qed.
