(* C18/Properties.v — property C18: only supermajority-signed commits finalise blocks.
   Statements only, each closed by `exact <lemma>`, with Print Assumptions beneath.

   Vocabulary (C18/Model.v): [handle_commit] = Service.handleCommitMessage with
   verifyCommitMessageJustification / verifyJustification inlined, as repaired by the three
   "fix:" commits (count each authority once; only correctly signed precommits make an
   equivocator; fixes/C18-3-commit-threshold-strict.patch: strictly more than floor(2n/3));
   [spec_count c auths m] = the number of DISTINCT current authorities k such that the commit
   lists a precommit correctly signed by k (for the commit's round and the current set) for the
   target or a descendant of it, or lists two different correctly signed precommits of k
   (an equivocator); [supermajority] = 3 * spec_count > 2 * |authority set|.
   [handle_commit_prefix] / [verify_commit_prefix] = the pinned tree before the repairs. *)
From Coq Require Import List NArith Bool.
From Coq Require Import Permutation.
From Common Require Import Bytes.
From GrandpaPayload Require Import Payload.
From C18 Require Import Model Proofs ProofsMore ProofsPayload.
Import ListNotations.
Local Open Scope N_scope.

(* The counting of the repaired code is exact: the number compared with the threshold is the
   number of distinct current authorities that back the commit; duplicated entries, entries with
   invalid signatures, non-authorities and forged "equivocations" contribute nothing. *)
Theorem C18_count_exact : forall c auths m st,
  loop c auths (cm_vote m) l0 (entries m) = ROk st ->
  final_count st = spec_count c auths m
  /\ (forall k, In k (eqv st) <-> equivocator auths m k = true)
  /\ (forall k, In k (valid st) <-> supporter c auths m k = true).
Proof.
  intros c auths m st H. split; [exact (final_count_spec c auths m st H)|].
  split; [exact (eqv_iff c auths m st H) | exact (valid_iff c auths m st H)].
Qed.
Print Assumptions C18_count_exact.

(* verifyCommitMessageJustification succeeds exactly when its structural checks pass and more
   than [thr] distinct authorities back the commit *)
Theorem C18_verify_iff : forall c auths setid thr hf m,
  verify_commit c auths setid thr hf m = ROk tt <->
  prechecks c setid hf m = ROk tt /\
  (exists st, loop c auths (cm_vote m) l0 (entries m) = ROk st) /\
  thr < spec_count c auths m.
Proof. exact verify_commit_ok. Qed.
Print Assumptions C18_verify_iff.

(* THE PROPERTY: a commit is accepted (finalises its target) exactly when the structural checks
   pass and more than two thirds of the current authority set back it *)
Theorem C18_accept_iff : forall c auths setid has hf m,
  (exists eff, handle_commit c auths setid has hf m = (HAccepted, eff)) <->
  hdr_num c (v_hash (cm_vote m)) = Some (v_num (cm_vote m)) /\ has = false /\
  prechecks c setid hf m = ROk tt /\
  (exists st, loop c auths (cm_vote m) l0 (entries m) = ROk st) /\
  supermajority c auths m = true.
Proof. exact handle_accepted_supermajority_iff. Qed.
Print Assumptions C18_accept_iff.

Theorem C18_accept_sound : forall c auths setid has hf m eff,
  handle_commit c auths setid has hf m = (HAccepted, eff) -> supermajority c auths m = true.
Proof. exact handle_accepted_supermajority. Qed.
Print Assumptions C18_accept_sound.

(* Any commit that is not accepted finalises nothing and stores no precommits; the only block
   ever finalised is the commit's target, for the commit's round and the current set. *)
Theorem C18_reject_no_effect : forall c auths setid has hf m r eff,
  handle_commit c auths setid has hf m = (r, eff) ->
  (r <> HAccepted -> finalised eff = None /\ stored eff = None)
  /\ (forall x, finalised eff = Some x ->
        r = HAccepted /\ x = (v_hash (cm_vote m), cm_round m, setid)).
Proof.
  intros c auths setid has hf m r eff H. split.
  - exact (handle_not_accepted_no_effect _ _ _ _ _ _ _ _ H).
  - intros x. exact (handle_finalised_only_accepted _ _ _ _ _ _ _ _ x H).
Qed.
Print Assumptions C18_reject_no_effect.

(* The predicate the correspondence check evaluates on the implementation's observables
   ([prop_holds]: finalise only on a supermajority, exactly the target; a commit that falls short
   returns an error and finalises nothing) holds of the model on every input. *)
Theorem C18_prop : forall c auths setid has hf m r eff,
  handle_commit c auths setid has hf m = (r, eff) ->
  prop_holds c auths setid m has (returns_nil r) (fin_calls eff) = true.
Proof. exact handle_prop. Qed.
Print Assumptions C18_prop.

(* the pinned tree: with four authorities, two honest precommits were accepted
   (`validAndEqv < threshold`, threshold = floor(2n/3)); exactly floor(2n/3) backers never are a
   supermajority *)
Theorem C18_prefix_threshold_refuted : exists c auths setid has hf m eff,
  handle_commit_prefix c auths setid has hf m = (HAccepted, eff)
  /\ supermajority c auths m = false
  /\ handle_commit c auths setid has hf m = (HRejected EMinVotes, no_effect).
Proof.
  exists w_chain, w_auths, 0, false, 0, w_threshold, (mkEff (Some (1, 1, 0)) (Some (1, 0)) false).
  destruct threshold_witness as [H1 [H2 [_ H4]]]. auto.
Qed.
Print Assumptions C18_prefix_threshold_refuted.

Theorem C18_at_threshold_not_supermajority : forall c auths m,
  at_threshold c auths m = true -> supermajority c auths m = false.
Proof. exact at_threshold_not_supermajority. Qed.
Print Assumptions C18_at_threshold_not_supermajority.

(* the pinned tree before the fixes: one authority's precommit listed three times is accepted
   (one backer, threshold two), and so is one honest precommit plus two authorities listed
   twice with forged, differing signatures; the repaired code rejects both *)
Theorem C18_prefix_duplicates_refuted : exists c auths setid hf m,
  verify_commit_prefix c auths setid (threshold auths) hf m = ROk tt
  /\ spec_count c auths m < threshold auths
  /\ verify_commit c auths setid (threshold auths) hf m = RErr EMinVotes.
Proof.
  exists w_chain, w_auths, 0, 0, w_dup. destruct dup_witness as [H1 [H2 [H3 H4]]].
  split; [exact H1|]. split; [rewrite H2, H3; reflexivity | exact H4].
Qed.
Print Assumptions C18_prefix_duplicates_refuted.

Theorem C18_prefix_forged_equivocators_refuted : exists c auths setid hf m,
  verify_commit_prefix c auths setid (threshold auths) hf m = ROk tt
  /\ spec_count c auths m < threshold auths
  /\ verify_commit c auths setid (threshold auths) hf m = RErr EMinVotes.
Proof.
  exists w_chain, w_auths, 0, 0, w_forged. destruct forged_witness as [H1 [H2 [H3 H4]]].
  split; [exact H1|]. split; [rewrite H2, H3; reflexivity | exact H4].
Qed.
Print Assumptions C18_prefix_forged_equivocators_refuted.

(* non-vacuity: three of four authorities, one of them a true equivocator, a non-authority entry
   ignored: accepted, supermajority *)
Example C18_nonvacuous :
  handle_commit w_chain w_auths 0 false 0 w_good
    = (HAccepted, mkEff (Some (1, 1, 0)) (Some (1, 0)) false)
  /\ spec_count w_chain w_auths w_good = 3
  /\ supermajority w_chain w_auths w_good = true.
Proof. destruct good_witness as [H1 [H2 [H3 _]]]. auto. Qed.

(* ======================= second round (audit) =======================
   The specification read in words.  [signed_by m k v]: the commit lists a precommit for vote v
   carrying key k whose signature verifies for (precommit, v, commit round, current set id);
   [backs_target]: k signed a precommit for the target or a descendant ("precommitted to the target
   or its descendants"); [equivocates]: k signed two different precommits; [backer] = current
   authority that does one of the two.  [spec_count] is the size of the SET of backers. *)
Theorem C18_spec_in_words : forall c auths m,
  (forall k, supporter c auths m k = true <-> In k auths /\ backs_target c m k)
  /\ (forall k, equivocator auths m k = true <-> In k auths /\ equivocates m k)
  /\ (exists ks, NoDup ks /\ (forall k, In k ks <-> backer c auths m k)
                 /\ spec_count c auths m = N.of_nat (length ks))
  /\ (forall ks, NoDup ks -> (forall k, In k ks -> backer c auths m k) ->
                 N.of_nat (length ks) <= spec_count c auths m).
Proof.
  intros c auths m. split; [exact (supporter_iff c auths m)|]. split; [exact (equivocator_iff auths m)|].
  split; [exact (spec_count_witness c auths m) | exact (spec_count_max c auths m)].
Qed.
Print Assumptions C18_spec_in_words.

(* "finalises its target only if more than two thirds of the current authority set precommitted":
   an accepted commit exhibits a duplicate-free list of backers, strictly longer than two thirds
   of the authority list *)
Theorem C18_accept_backers : forall c auths setid has hf m eff,
  handle_commit c auths setid has hf m = (HAccepted, eff) ->
  exists ks, NoDup ks /\ (forall k, In k ks -> backer c auths m k)
             /\ 2 * N.of_nat (length auths) < 3 * N.of_nat (length ks).
Proof. exact accept_backers. Qed.
Print Assumptions C18_accept_backers.

(* "any commit that falls short is rejected": ErrMinVotesNotMet is returned exactly for a commit
   that passes every structural check and has no supermajority; then no duplicate-free list of
   backers exceeds two thirds, and nothing is finalised, stored or tracked *)
Theorem C18_minvotes_iff : forall c auths setid thr hf m,
  verify_commit c auths setid thr hf m = RErr EMinVotes <->
  prechecks c setid hf m = ROk tt /\
  (exists st, loop c auths (cm_vote m) l0 (entries m) = ROk st) /\
  spec_count c auths m <= thr.
Proof. exact verify_commit_minvotes. Qed.
Print Assumptions C18_minvotes_iff.

Theorem C18_minvotes_falls_short : forall c auths setid has hf m eff,
  handle_commit c auths setid has hf m = (HRejected EMinVotes, eff) ->
  supermajority c auths m = false /\ eff = no_effect
  /\ forall ks, NoDup ks -> (forall k, In k ks -> backer c auths m k) ->
                3 * N.of_nat (length ks) <= 2 * N.of_nat (length auths).
Proof.
  intros c auths setid has hf m eff H. destruct (handle_minvotes _ _ _ _ _ _ _ H) as [S E].
  split; [exact S|]. split; [exact E|]. intros ks. exact (minvotes_no_backers _ _ _ _ _ _ _ ks H).
Qed.
Print Assumptions C18_minvotes_falls_short.

(* the counting loop fails the whole message exactly when some entry is correctly signed by a
   current authority for a block whose ancestry is decidable but whose header is missing or
   carries another number than the precommit ([entry_fault]) *)
Theorem C18_loop_completes_iff : forall c auths tgt es st,
  (exists st', loop c auths tgt st es = ROk st') <->
  forallb (fun e => negb (entry_fault c auths tgt e)) es = true.
Proof. intros c auths tgt es st. exact (loop_ok_iff c auths tgt es st). Qed.
Print Assumptions C18_loop_completes_iff.

(* acceptance does not depend on the order of the (precommit, auth data) pairs *)
Theorem C18_accept_order_free : forall c auths setid has hf round sid v es es',
  Permutation es es' ->
  ((exists eff, handle_commit c auths setid has hf (commit_of round sid v es) = (HAccepted, eff)) <->
   (exists eff, handle_commit c auths setid has hf (commit_of round sid v es') = (HAccepted, eff))).
Proof. exact accept_order_free. Qed.
Print Assumptions C18_accept_order_free.

(* entries with an invalid signature (wrong round, set, stage, number, key, forged bytes) or from a
   non-authority have no influence whatsoever: removing them changes neither result nor effects *)
Theorem C18_unverified_irrelevant : forall c auths setid has hf m,
  length (cm_precommits m) = length (cm_authdata m) ->
  handle_commit c auths setid has hf (strip auths m) = handle_commit c auths setid has hf m.
Proof. exact handle_commit_strip. Qed.
Print Assumptions C18_unverified_irrelevant.

(* handleCommitMessage with failing collaborators ([handle_commit_f], the model the driver
   replays): without failures it is [handle_commit]; with any combination of failures every
   SetFinalisedHash CALL is for the target of a supermajority commit that passed every check,
   SetPrecommits is called only after SetFinalisedHash succeeded, a nil return finalised exactly
   the target (or the round was finalised before), and [prop_holds] holds. *)
Theorem C18_faults_conservative : forall c auths setid has hf m,
  handle_commit_f no_faults c auths setid has hf m =
  (FRes (fst (handle_commit c auths setid has hf m)), snd (handle_commit c auths setid has hf m)).
Proof. exact handle_commit_f_no_faults. Qed.
Print Assumptions C18_faults_conservative.

Theorem C18_faults_sound : forall fl c auths setid has hf m r eff,
  handle_commit_f fl c auths setid has hf m = (r, eff) ->
  (forall x, finalised eff = Some x ->
     x = (v_hash (cm_vote m), cm_round m, setid) /\ has = false
     /\ verify_commit c auths setid (threshold auths) hf m = ROk tt
     /\ supermajority c auths m = true)
  /\ (forall y, stored eff = Some y ->
        f_fin_err fl = false /\ finalised eff = Some (v_hash (cm_vote m), cm_round m, setid)
        /\ y = (cm_round m, cm_setid m))
  /\ (freturns_nil r = true ->
        (has = true /\ finalised eff = None) \/
        (has = false /\ supermajority c auths m = true
         /\ finalised eff = Some (v_hash (cm_vote m), cm_round m, setid)))
  /\ prop_holds c auths setid m has (freturns_nil r) (fin_calls eff) = true.
Proof.
  intros fl c auths setid has hf m r eff H.
  split; [intros x; exact (handle_commit_f_call _ _ _ _ _ _ _ _ _ x H)|].
  split; [intros y; exact (handle_commit_f_stored _ _ _ _ _ _ _ _ _ y H)|].
  split; [exact (handle_commit_f_nil _ _ _ _ _ _ _ _ _ H) | exact (handle_commit_f_prop _ _ _ _ _ _ _ _ _ H)].
Qed.
Print Assumptions C18_faults_sound.

(* non-vacuity of the second-round definitions: a hidden header rejects the whole message
   (ENoHeader, entry_fault); a failing SetFinalisedHash leaves one call and no SetPrecommits; a
   voter list that repeats an authority raises n, not the number of backers; stripping removes
   exactly the non-authority entry of the accepted witness *)
Example C18_nonvacuous_more :
  handle_commit (tree_chain_h 0 [0; 1; 1] None (Some 2)) w_auths 0 false 0 w_good
    = (HRejected ENoHeader, no_effect)
  /\ handle_commit_f (mkFaults false false true false) w_chain w_auths 0 false 0 w_good
     = (FFinErr, mkEff (Some (1, 1, 0)) None false)
  /\ handle_commit w_chain (w_auths ++ [0]) 0 false 0 w_good = (HRejected EMinVotes, no_effect)
  /\ length (cm_precommits (strip w_auths w_good)) = 4%nat.
Proof.
  destruct nohdr_witness as [H1 _]. destruct repeated_voter_witness as [_ [_ H3]].
  destruct strip_witness as [H4 _]. split; [exact H1|]. split; [exact fin_err_witness|]. auto.
Qed.

(* ======================= third round =======================
   "Correctly signed for that round and set", about bytes.  [sigv key bytes sig] is the signature
   verdict on a byte string (ed25519: C29), [hb] gives the bytes of a block hash; the code hands
   ed25519 the SCALE encoding of FullVote{precommit, vote, round, setID}, which is
   [vote_payload 4 stage_precommit hash number round setid] = 1 ++ hash ++ number(4 LE) ++
   round(8 LE) ++ set id(8 LE) (compared with the implementation's encoder on every run).
   If every verdict bit of the message is [sigv] on those bytes ([well_signed], the situation of
   the real code), an accepted commit exhibits more than 2n/3 distinct current authorities whose
   listed signature verifies over the precommit payload, FOR THE COMMIT'S ROUND AND THE CURRENT SET
   ID, of a vote on the target's chain (or of two different votes). *)
Theorem C18_accept_signed_bytes : forall sigv hb c auths setid has hf m eff,
  well_signed sigv hb setid m ->
  handle_commit c auths setid has hf m = (HAccepted, eff) ->
  exists ks, NoDup ks /\ 2 * N.of_nat (length auths) < 3 * N.of_nat (length ks)
    /\ forall k, In k ks -> In k auths /\
         ((exists v, signed_bytes sigv hb setid m k v /\ is_desc c (v_hash (cm_vote m)) (v_hash v) = DOk true)
          \/ (exists v1 v2, signed_bytes sigv hb setid m k v1 /\ signed_bytes sigv hb setid m k v2 /\ v1 <> v2)).
Proof. exact accept_signed_bytes. Qed.
Print Assumptions C18_accept_signed_bytes.

(* those bytes determine the stage, the vote, the round and the set id: they are not the payload
   of a prevote, of another vote, of another round or of another set *)
Theorem C18_payload_determines_round_and_set : forall hb round setid e st h n r i,
  length (hb (v_hash (e_vote e))) = length h -> st < 256 ->
  v_num (e_vote e) < 256 ^ N.of_nat 4 -> n < 256 ^ N.of_nat 4 ->
  round < 256 ^ N.of_nat 8 -> r < 256 ^ N.of_nat 8 -> setid < 256 ^ N.of_nat 8 -> i < 256 ^ N.of_nat 8 ->
  entry_payload hb round setid e = vote_payload 4 st h n r i ->
  st = stage_precommit /\ h = hb (v_hash (e_vote e)) /\ n = v_num (e_vote e) /\ r = round /\ i = setid.
Proof. exact (entry_payload_determines (fun _ _ _ => true)). Qed.
Print Assumptions C18_payload_determines_round_and_set.
