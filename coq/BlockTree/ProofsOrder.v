(* BlockTree/ProofsOrder.v — every parent-first order of an accepted set of additions is itself
   accepted (so "the same blocks added in another parent-first order" needs no side condition in
   C16_insertion_order_free). *)
From Coq Require Import List NArith ZArith Bool Lia Permutation.
From Common Require Import Outcome.
From BlockTree Require Import Model Spec ProofsTree ProofsPath ProofsSpec ProofsSim ProofsQuery
  ProofsBest ProofsHist.
Import ListNotations.
Local Open Scope N_scope.

Definition op_hash (o : op) : list N := match o with OAdd hd _ => [h_hash hd] | OFin _ => [] end.

(* every operation is an addition whose parent is the root or the block of an earlier addition *)
Fixpoint parent_first (h : N) (seen : list N) (ops : list op) : Prop :=
  match ops with
  | [] => True
  | OAdd hd _ :: r => (h_parent hd = h \/ In (h_parent hd) seen) /\ parent_first h (h_hash hd :: seen) r
  | OFin _ :: _ => False
  end.

Definition digest_ok (hd : header) : Prop :=
  exists prim, (if h_number hd =? 0 then Ok false else is_primary (h_digest hd)) = Ok prim.

(* order-independent validity of a set of additions over the root (h, x) *)
Record valid_set (h x : N) (ops : list op) : Prop := mkValid {
  v_adds : forall o, In o ops -> exists hd a, o = OAdd hd a;
  v_nodup : NoDup (h :: flat_map op_hash ops);
  v_each : forall hd a, In (OAdd hd a) ops ->
    digest_ok hd
    /\ ((h_parent hd = h /\ h_number hd = x + 1)
        \/ exists hd' a', In (OAdd hd' a') ops /\ h_hash hd' = h_parent hd
                          /\ h_number hd = h_number hd' + 1) }.

Lemma flat_map_perm' {A B} (f : A -> list B) l1 l2 :
  Permutation l1 l2 -> Permutation (flat_map f l1) (flat_map f l2).
Proof.
  induction 1; simpl; auto.
  - apply Permutation_app_head; auto.
  - rewrite !app_assoc. apply Permutation_app_tail. apply Permutation_app_comm.
  - eapply Permutation_trans; eauto.
Qed.

Lemma valid_set_perm h x l1 l2 : Permutation l1 l2 -> valid_set h x l1 -> valid_set h x l2.
Proof.
  intros P [A N E]. pose proof (Permutation_sym P) as P'. constructor.
  - intros o Ho. apply A. apply (Permutation_in _ P' Ho).
  - eapply Permutation_NoDup; [|exact N]. constructor. apply flat_map_perm'. exact P.
  - intros hd a Hi. destruct (E hd a (Permutation_in _ P' Hi)) as (D & [C|(hd' & a' & Hi' & C)]).
    + split; auto.
    + split; auto. right. exists hd', a'. split; auto. apply (Permutation_in _ P Hi').
Qed.

Lemma s_run_app s l1 l2 :
  s_run s (l1 ++ l2) = (fst (s_run (fst (s_run s l1)) l2), snd (s_run s l1) ++ snd (s_run (fst (s_run s l1)) l2)).
Proof.
  revert s. induction l1 as [|o r IH]; intros s.
  - simpl. destruct (s_run s l2); reflexivity.
  - rewrite <- app_comm_cons, !s_run_unfold. cbn [fst snd]. rewrite IH. reflexivity.
Qed.

(* the records of a valid set *)
Lemma blk_of_op_valid hd a : digest_ok hd ->
  exists prim, blk_of_op (OAdd hd a) = [mkBlk (h_hash hd) (h_parent hd) (h_number hd) a prim].
Proof. intros (prim & E). exists prim. unfold blk_of_op. rewrite E. reflexivity. Qed.

Lemma blocks_hashes h x ops all : (forall o, In o ops -> In o all) -> valid_set h x all ->
  map b_hash (flat_map blk_of_op ops) = flat_map op_hash ops.
Proof.
  intros Hi V. induction ops as [|o r IH]; [reflexivity|].
  simpl. rewrite map_app, IH by (intros; apply Hi; right; auto). f_equal.
  destruct (v_adds _ _ _ V o (Hi o (or_introl eq_refl))) as (hd & a & ->).
  destruct (v_each _ _ _ V hd a (Hi _ (or_introl eq_refl))) as (D & _).
  destruct (blk_of_op_valid hd a D) as (prim & ->). reflexivity.
Qed.

Lemma in_blocks_op ops b : In b (flat_map blk_of_op ops) ->
  exists hd a, In (OAdd hd a) ops /\ b_hash b = h_hash hd /\ b_number b = h_number hd.
Proof.
  intros H. apply in_flat_map in H as (o & Ho & Hb). destruct o as [hd a|f]; [|contradiction].
  simpl in Hb. destruct (if h_number hd =? 0 then Ok false else is_primary (h_digest hd)); try contradiction.
  destruct Hb as [<-|[]]. exists hd, a. auto.
Qed.

Lemma hash_unique_op l : NoDup (flat_map op_hash l) -> forall h1 a1 h2 a2,
  In (OAdd h1 a1) l -> In (OAdd h2 a2) l -> h_hash h1 = h_hash h2 -> OAdd h1 a1 = OAdd h2 a2.
Proof.
  induction l as [|o r IH]; intros ND h1 a1 h2 a2 H1 H2 E; [contradiction|].
  simpl in ND. apply NoDup_app_inv in ND as (_ & NDr & Hd).
  assert (K : forall hd a, In (OAdd hd a) r -> In (h_hash hd) (flat_map op_hash r)).
  { intros hd a Hi. apply in_flat_map. exists (OAdd hd a). split; auto. left; reflexivity. }
  destruct H1 as [->|H1], H2 as [E2|H2].
  - exact E2.
  - exfalso. apply (Hd (h_hash h1)); [left; reflexivity|]. rewrite E. eapply K; eauto.
  - subst o. exfalso. apply (Hd (h_hash h2)); [left; reflexivity|]. rewrite <- E. eapply K; eauto.
  - apply IH; auto.
Qed.

(* A. a fully accepted add-only history is a valid set *)
Lemma accepted_valid h x ops : all_adds_ok (snd (s_run (mkSst h x []) ops)) -> valid_set h x ops.
Proof.
  induction ops as [|o r IH] using rev_ind; intros H.
  - constructor; simpl; [intros ? []|constructor; [intros []|constructor]|intros ? ? []].
  - rewrite s_run_app in H. cbn [snd] in H. unfold all_adds_ok in H. apply Forall_app in H as (Hr & Ho).
    specialize (IH Hr). destruct (s_run_adds r _ Hr) as (Er & En & Eb). simpl in Er, En, Eb.
    remember (fst (s_run (mkSst h x []) r)) as s eqn:Hs. clear Hs.
    destruct o as [hd a|f];
      [|simpl in Ho; destruct (s_fin s f) as [s' p]; simpl in Ho; inversion Ho; discriminate].
    assert (Hres : exists s', s_add s hd a = Ok s').
    { simpl in Ho. destruct (s_add s hd a) as [s'| | |]; simpl in Ho; inversion Ho as [|? ? E _];
        try discriminate. eauto. }
    destruct Hres as (s' & Hres). clear Ho.
    unfold s_add in Hres.
    destruct (s_number s (h_parent hd)) as [pn|] eqn:Epn; [|discriminate].
    destruct (s_known s (h_hash hd)) eqn:Ekn; [discriminate|].
    destruct (N.eqb_spec (pn + 1) (h_number hd)) as [Enum|]; [|discriminate]. cbn [negb] in Hres.
    destruct (if h_number hd =? 0 then Ok false else is_primary (h_digest hd)) as [prim| | |] eqn:Edg; try discriminate.
    clear Hres.
    assert (Hbh : map b_hash (s_blocks s) = flat_map op_hash r).
    { rewrite Eb. apply (blocks_hashes h x r r); auto. }
    assert (Hnew : h_hash hd <> h /\ ~ In (h_hash hd) (flat_map op_hash r)).
    { unfold s_known in Ekn. apply orb_false_iff in Ekn as (E1 & E2). rewrite Er in E1.
      apply N.eqb_neq in E1. split; auto. rewrite <- Hbh.
      destruct (s_find s (h_hash hd)) eqn:Ef; [discriminate|]. apply find_blk_none in Ef. exact Ef. }
    destruct IH as [A N E]. constructor.
    + intros o Hi. apply in_app_or in Hi as [Hi|[<-|[]]]; [apply A; auto|eauto].
    + rewrite flat_map_app. simpl.
      inversion N as [|? ? Nh Nr]; subst. constructor.
      * intro Hi. apply in_app_or in Hi as [Hi|[Hi|[]]]; [contradiction|]. apply (proj1 Hnew). auto.
      * apply NoDup_app_intro; auto; [constructor; [intros []|constructor]|].
        intros y Hy [<-|[]]. apply (proj2 Hnew). exact Hy.
    + intros hd0 a0 Hi. apply in_app_or in Hi as [Hi|[Hi|[]]].
      * destruct (E hd0 a0 Hi) as (D & [C|(hd' & a' & Hi' & C)]); split; auto.
        right. exists hd', a'. split; auto. apply in_or_app; auto.
      * inversion Hi; subst hd0 a0. split; [exists prim; exact Edg|].
        unfold s_number in Epn. rewrite Er, En in Epn.
        destruct (N.eqb_spec (h_parent hd) h) as [Ep|Hne].
        -- left. inversion Epn; subst pn. auto.
        -- right. destruct (s_find s (h_parent hd)) as [b|] eqn:Ef; [|discriminate].
           simpl in Epn. inversion Epn; subst pn. apply find_blk_some in Ef as (Hb & Ehb).
           rewrite Eb in Hb. destruct (in_blocks_op r b Hb) as (hd' & a' & Hi' & E1 & E2).
           exists hd', a'. split; [apply in_or_app; auto|]. split; [congruence|]. rewrite <- E2. auto.
Qed.

(* B. a valid set is accepted in every parent-first order *)
Lemma valid_accepted h x all : valid_set h x all ->
  forall rest pre seen,
    (forall o, In o (pre ++ rest) -> In o all) ->
    NoDup (flat_map op_hash (pre ++ rest)) ->
    (forall y, In y seen -> In y (flat_map op_hash pre)) ->
    parent_first h seen rest ->
    all_adds_ok (snd (s_run (mkSst h x (flat_map blk_of_op pre)) rest)).
Proof.
  intros V. induction rest as [|o r IH]; intros pre seen Hall ND Hseen PF; [constructor|].
  destruct o as [hd a|f]; [|contradiction]. simpl in PF. destruct PF as (Hpar & PF).
  assert (Hin : In (OAdd hd a) all) by (apply Hall; apply in_or_app; right; left; reflexivity).
  destruct (v_each _ _ _ V hd a Hin) as ((prim & Edg) & Hnum).
  pose proof (v_nodup _ _ _ V) as NDall. inversion NDall as [|? ? Nh NDa]; subst.
  assert (Hpre : forall o, In o pre -> In o all) by (intros; apply Hall; apply in_or_app; auto).
  assert (Hbh : map b_hash (flat_map blk_of_op pre) = flat_map op_hash pre)
    by (apply (blocks_hashes h x pre all); auto).
  set (s := mkSst h x (flat_map blk_of_op pre)).
  (* the hash is new *)
  assert (Hk : s_known s (h_hash hd) = false).
  { unfold s_known. apply orb_false_iff. split.
    - apply N.eqb_neq. intro E. unfold s in E. cbn [s_root] in E. apply Nh. rewrite <- E.
      apply in_flat_map. exists (OAdd hd a). split; auto. left; auto.
    - destruct (s_find s (h_hash hd)) eqn:Ef; auto. exfalso.
      apply find_blk_some in Ef as (Hb & Eb). simpl in Hb.
      assert (Hi : In (h_hash hd) (flat_map op_hash pre)) by (rewrite <- Hbh, <- Eb; apply in_map; auto).
      rewrite flat_map_app in ND. apply NoDup_app_inv in ND as (_ & _ & Hd). apply (Hd _ Hi). simpl. left; auto. }
  (* the parent is held with the right number *)
  assert (Hn : exists pn, s_number s (h_parent hd) = Some pn /\ pn + 1 = h_number hd).
  { unfold s_number, s. cbn [s_root s_rootnum].
    assert (Hh : forall hd' a', In (OAdd hd' a') all -> h_hash hd' <> h).
    { intros hd' a' Hi E. apply Nh. rewrite <- E. apply in_flat_map. exists (OAdd hd' a'). split; auto. left; auto. }
    destruct Hpar as [Ep|Hs].
    - rewrite Ep, N.eqb_refl. exists x. split; auto.
      destruct Hnum as [(_ & ->)|(hd' & a' & Hi' & E1 & _)]; auto. exfalso. apply (Hh hd' a' Hi'). congruence.
    - apply Hseen in Hs. apply in_flat_map in Hs as (o' & Ho' & Hy). destruct o' as [hd1 a1|]; [|contradiction].
      destruct Hy as [Ey|[]].
      assert (Hne : h_parent hd <> h) by (rewrite <- Ey; apply (Hh hd1 a1); auto).
      destruct (N.eqb_spec (h_parent hd) h); [contradiction|].
      destruct (v_each _ _ _ V hd1 a1 (Hpre _ Ho')) as (D1 & _).
      destruct (blk_of_op_valid hd1 a1 D1) as (p1 & Eb1).
      set (b1 := mkBlk (h_hash hd1) (h_parent hd1) (h_number hd1) a1 p1).
      assert (Hb1 : In b1 (flat_map blk_of_op pre)).
      { apply in_flat_map. exists (OAdd hd1 a1). split; auto. rewrite Eb1. left; reflexivity. }
      assert (NDb : NoDup (map b_hash (flat_map blk_of_op pre))).
      { rewrite Hbh. rewrite flat_map_app in ND. apply NoDup_app_inv in ND as (ND1 & _). exact ND1. }
      unfold s_find. cbn [s_blocks]. rewrite <- Ey. change (h_hash hd1) with (b_hash b1).
      rewrite (find_blk_in _ b1 NDb Hb1). simpl. exists (h_number hd1). split; auto.
      destruct Hnum as [(Ep & _)|(hd' & a' & Hi' & E1 & E2)]; [congruence|].
      assert (OAdd hd' a' = OAdd hd1 a1).
      { apply (hash_unique_op all NDa); auto. congruence. }
      inversion H; subst. auto. }
  destruct Hn as (pn & Epn & Enum).
  rewrite s_run_unfold. cbn [snd]. simpl s_step.
  unfold s_add. fold s. rewrite Epn, Hk. destruct (N.eqb_spec (pn + 1) (h_number hd)); [|contradiction].
  cbn [negb]. rewrite Edg. cbn [fst snd]. constructor; [reflexivity|].
  assert (Es : mkSst (s_root s) (s_rootnum s)
                     (s_blocks s ++ [mkBlk (h_hash hd) (h_parent hd) (h_number hd) a prim])
               = mkSst h x (flat_map blk_of_op (pre ++ [OAdd hd a]))).
  { simpl. rewrite flat_map_app. simpl. rewrite Edg. simpl. reflexivity. }
  rewrite Es. apply (IH (pre ++ [OAdd hd a]) (h_hash hd :: seen)).
  - intros o Ho. apply Hall. rewrite <- app_assoc in Ho. exact Ho.
  - rewrite <- app_assoc. exact ND.
  - intros y [<-|Hy]; rewrite flat_map_app; apply in_or_app; [right; simpl; auto|left; auto].
  - exact PF.
Qed.

Theorem parent_first_accepted h x ops1 ops2 :
  Permutation ops1 ops2 ->
  all_adds_ok (snd (s_run (mkSst h x []) ops1)) ->
  parent_first h [] ops2 ->
  all_adds_ok (snd (s_run (mkSst h x []) ops2)).
Proof.
  intros P H PF. pose proof (valid_set_perm h x _ _ P (accepted_valid h x ops1 H)) as V.
  apply (valid_accepted h x ops2 V ops2 [] []); auto.
  pose proof (v_nodup _ _ _ V) as N. inversion N; auto.
Qed.

(* transfer between the tree model and the specification *)
Lemma all_adds_ok_transfer h x a ops :
  all_adds_ok (snd (run (new_tree h x a) ops)) <-> all_adds_ok (snd (s_run (mkSst h x []) ops)).
Proof.
  pose proof (results_after h x a ops) as R. unfold all_adds_ok.
  revert R. generalize (snd (run (new_tree h x a) ops)) (snd (s_run (mkSst h x []) ops)).
  intros l1 l2 R. induction R as [|r1 r2 l1 l2 Hr R IH]; [split; constructor|].
  split; intros H; inversion H; subst; constructor; try (apply IH; auto).
  - destruct r2; simpl in Hr; [congruence|contradiction].
  - destruct r1; simpl in Hr; [congruence|contradiction].
Qed.

(* two parent-first orders of the same additions, the first of which is accepted: same best
   block, whatever the iteration orders *)
Theorem insertion_order_free_pf h x a1 a2 ops1 ops2 pi1 sigma1 pi2 sigma2 :
  Permutation ops1 ops2 ->
  all_adds_ok (snd (run (new_tree h x a1) ops1)) ->
  parent_first h [] ops2 ->
  permuting pi1 -> permuting sigma1 -> permuting pi2 -> permuting sigma2 ->
  all_adds_ok (snd (run (new_tree h x a2) ops2))
  /\ best_block_hash_ord pi1 sigma1 (tree_after h x a1 ops1) =
     best_block_hash_ord pi2 sigma2 (tree_after h x a2 ops2).
Proof.
  intros P H1 PF Hp1 Hs1 Hp2 Hs2.
  assert (H2 : all_adds_ok (snd (run (new_tree h x a2) ops2))).
  { apply all_adds_ok_transfer. apply (parent_first_accepted h x ops1 ops2 P); auto.
    apply (all_adds_ok_transfer h x a1). exact H1. }
  split; auto. apply insertion_order_free; auto.
Qed.
