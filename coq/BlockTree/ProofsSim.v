(* BlockTree/ProofsSim.v — the tree model refines the set-of-blocks specification:
   AddBlock and Prune on a well-formed tree correspond to s_add and s_fin on its abstraction,
   for every history. *)
From Coq Require Import List NArith ZArith Bool Lia Permutation.
From Common Require Import Outcome.
From BlockTree Require Import Model Spec ProofsTree ProofsPath ProofsSpec.
Import ListNotations.
Local Open Scope N_scope.

(* well-formed trees: hashes pairwise different, numbers increase by one along edges, the leaf
   map holds exactly the childless nodes *)
Definition wf (t : btree) : Prop :=
  uniq (root t) /\ nums_okb (root t) = true /\ Permutation (leaves t) (get_leaves (root t)).

Lemma abs_hashes t : s_hashes (abs t) = all_hashes (root t).
Proof. unfold s_hashes, abs. simpl. symmetry. apply edges_hashes. Qed.

Lemma abs_swf t : uniq (root t) -> swf (abs t).
Proof. unfold swf. rewrite abs_hashes. auto. Qed.

(* ------------------------------------------------------------------ lookups *)

Lemma edge_node n b : In b (edges n) ->
  exists x c, In x (all_nodes n) /\ In c (nchildren x) /\ In c (all_nodes n) /\ b = edge_of x c.
Proof.
  intros H. apply edges_in in H as (x & c & Hx & Hc & ->). exists x, c. repeat split; auto.
  eapply all_nodes_trans; eauto. eapply all_nodes_child; eauto. apply all_nodes_self.
Qed.

Lemma abs_find_node t h m :
  uniq (root t) -> find_node h (root t) = Some m -> h <> nhash (root t) ->
  exists b, s_find (abs t) h = Some b /\ b_hash b = h /\ b_number b = nnumber m
            /\ b_arrival b = narrival m /\ b_primary b = nprimary m
            /\ exists x, In x (all_nodes (root t)) /\ In m (nchildren x) /\ b_parent b = nhash x.
Proof.
  intros U Hf Hne. destruct (find_node_some _ _ _ Hf) as (Hm & Hh).
  destruct (s_find (abs t) h) as [b|] eqn:E.
  - exists b. apply find_blk_some in E as (Hi & Hb). simpl in Hi.
    apply edge_node in Hi as (x & c & Hx & Hc & Hcn & ->). simpl in Hb.
    assert (c = m) by (eapply node_eq_of_hash; eauto; congruence). subst c.
    repeat split; auto. exists x. auto.
  - exfalso. apply find_blk_none in E. apply E. simpl.
    pose proof (node_hash_in _ _ Hm) as Hi. rewrite edges_hashes in Hi. destruct Hi as [Hi|Hi].
    + congruence.
    + rewrite <- Hh. exact Hi.
Qed.

Lemma abs_known t h : s_known (abs t) h = true <-> In h (all_hashes (root t)).
Proof.
  unfold s_known. rewrite edges_hashes. simpl. split.
  - intros H. apply orb_true_iff in H as [H|H].
    + apply N.eqb_eq in H. auto.
    + right. destruct (s_find (abs t) h) eqn:E; [|discriminate].
      apply find_blk_some in E as (Hi & <-). apply in_map. exact Hi.
  - intros [H|H]; apply orb_true_iff.
    + left. apply N.eqb_eq. auto.
    + right. destruct (s_find (abs t) h) eqn:E; auto. apply find_blk_none in E. contradiction.
Qed.

Lemma abs_known_find t h :
  s_known (abs t) h = match find_node h (root t) with Some _ => true | None => false end.
Proof.
  destruct (find_node h (root t)) eqn:E.
  - apply abs_known. apply find_node_some in E as (Hm & <-). apply node_hash_in; auto.
  - apply find_node_none in E. destruct (s_known (abs t) h) eqn:K; auto.
    apply abs_known in K. contradiction.
Qed.

Lemma abs_number t h : uniq (root t) ->
  s_number (abs t) h = option_map nnumber (find_node h (root t)).
Proof.
  intros U. unfold s_number. simpl s_root.
  destruct (N.eqb_spec h (nhash (root t))) as [->|Hne].
  - rewrite find_node_unfold, N.eqb_refl. reflexivity.
  - destruct (find_node h (root t)) as [m|] eqn:E.
    + destruct (abs_find_node t h m U E Hne) as (b & -> & _ & Hn & _). simpl. congruence.
    + simpl. apply find_node_none in E.
      destruct (s_find (abs t) h) eqn:F; auto. apply find_blk_some in F as (Hi & <-).
      exfalso. apply E. rewrite edges_hashes. right. apply in_map. exact Hi.
Qed.

(* ------------------------------------------------------------------ insert_child *)

Lemma insert_child_hash ph c n : nhash (insert_child ph c n) = nhash n.
Proof. destruct n; simpl. destruct (_ =? _); reflexivity. Qed.
Lemma insert_child_number ph c n : nnumber (insert_child ph c n) = nnumber n.
Proof. destruct n; simpl. destruct (_ =? _); reflexivity. Qed.
Lemma insert_child_arrival ph c n : narrival (insert_child ph c n) = narrival n.
Proof. destruct n; simpl. destruct (_ =? _); reflexivity. Qed.
Lemma insert_child_primary ph c n : nprimary (insert_child ph c n) = nprimary n.
Proof. destruct n; simpl. destruct (_ =? _); reflexivity. Qed.

Lemma insert_child_id ph c n : ~ In ph (all_hashes n) -> insert_child ph c n = n.
Proof.
  induction n as [h x a p ch IH] using bnode_ind'. intros Hn. simpl.
  destruct (N.eqb_spec h ph) as [->|Hne]; [exfalso; apply Hn; simpl; auto|].
  f_equal. rewrite Forall_forall in IH. rewrite <- (map_id ch) at 2. apply map_ext_in.
  intros d Hd. apply IH; auto. intro Hi. apply Hn. simpl. right. apply in_flat_map; eauto.
Qed.

(* where the insertion happens *)
Lemma insert_child_shape ph c n : uniq n -> In ph (all_hashes n) ->
  (nhash n = ph /\ insert_child ph c n = BNode (nhash n) (nnumber n) (narrival n) (nprimary n) (nchildren n ++ [c]))
  \/ (nhash n <> ph /\ exists l1 d l2, nchildren n = l1 ++ d :: l2 /\ In ph (all_hashes d) /\
      insert_child ph c n = BNode (nhash n) (nnumber n) (narrival n) (nprimary n)
                                  (l1 ++ insert_child ph c d :: l2)).
Proof.
  intros U Hi. destruct n as [h x a p ch]. simpl.
  destruct (N.eqb_spec h ph) as [->|Hne]; [left; auto|]. right. split; auto.
  simpl in Hi. destruct Hi as [Hi|Hi]; [congruence|].
  apply in_flat_map in Hi as (d & Hd & Hi). apply in_split in Hd as (l1 & l2 & ->).
  exists l1, d, l2. repeat split; auto. f_equal.
  destruct (children_disjoint _ l1 d l2 ph U eq_refl Hi) as (N1 & N2 & _).
  rewrite map_app. simpl. f_equal; [|f_equal].
  - rewrite <- (map_id l1) at 2. apply map_ext_in. intros e He. apply insert_child_id.
    intro Hx. apply N1. apply in_flat_map; eauto.
  - rewrite <- (map_id l2) at 2. apply map_ext_in. intros e He. apply insert_child_id.
    intro Hx. apply N2. apply in_flat_map; eauto.
Qed.

Lemma perm_insert_middle {A} (l1 m l2 : list A) e :
  Permutation (l1 ++ (m ++ [e]) ++ l2) ((l1 ++ m ++ l2) ++ [e]).
Proof.
  rewrite <- !app_assoc. apply Permutation_app_head. apply Permutation_app_head.
  simpl. apply Permutation_cons_append.
Qed.

Lemma insert_child_hashes ph c n : uniq n -> In ph (all_hashes n) -> nchildren c = [] ->
  Permutation (all_hashes (insert_child ph c n)) (all_hashes n ++ [nhash c]).
Proof.
  induction n as [h x a p ch IH] using bnode_ind'. intros U Hi Hc.
  destruct (insert_child_shape ph c _ U Hi) as [(E1 & ->)|(Hne & l1 & d & l2 & Ech & Hd & ->)].
  - simpl. constructor. rewrite flat_map_app. simpl. rewrite app_nil_r.
    rewrite (all_hashes_unfold c), Hc. simpl. reflexivity.
  - simpl in Ech. subst ch. simpl. constructor. rewrite !flat_map_app. simpl.
    rewrite Forall_forall in IH.
    assert (Hp : Permutation (all_hashes (insert_child ph c d)) (all_hashes d ++ [nhash c])).
    { apply IH; auto. apply in_elt. eapply uniq_child; eauto. simpl. apply in_elt. }
    eapply Permutation_trans.
    + apply Permutation_app_head. apply Permutation_app_tail. exact Hp.
    + apply perm_insert_middle.
Qed.

Lemma flat_map_edges_ext (n n' : bnode) l :
  nhash n = nhash n' -> flat_map (fun c => edge_of n c :: edges c) l = flat_map (fun c => edge_of n' c :: edges c) l.
Proof. intros E. apply flat_map_ext_in. intros c _. unfold edge_of. rewrite E. reflexivity. Qed.

Lemma insert_child_edges ph c n : uniq n -> In ph (all_hashes n) -> nchildren c = [] ->
  Permutation (edges (insert_child ph c n))
              (edges n ++ [mkBlk (nhash c) ph (nnumber c) (narrival c) (nprimary c)]).
Proof.
  induction n as [h x a p ch IH] using bnode_ind'. intros U Hi Hc.
  destruct (insert_child_shape ph c _ U Hi) as [(E1 & ->)|(Hne & l1 & d & l2 & Ech & Hd & ->)].
  - simpl in E1. subst ph. rewrite !edges_unfold. simpl nchildren. rewrite flat_map_app. simpl.
    rewrite (edges_unfold c), Hc. simpl. reflexivity.
  - simpl in Ech. subst ch. rewrite !edges_unfold. simpl nchildren. rewrite !flat_map_app. simpl.
    rewrite Forall_forall in IH.
    assert (Hp : Permutation (edges (insert_child ph c d))
                             (edges d ++ [mkBlk (nhash c) ph (nnumber c) (narrival c) (nprimary c)])).
    { apply IH; auto. apply in_elt. eapply uniq_child; eauto. simpl. apply in_elt. }
    set (P := BNode h x a p (l1 ++ d :: l2)).
    set (P' := BNode h x a p (l1 ++ insert_child ph c d :: l2)).
    rewrite (flat_map_edges_ext P' P l1), (flat_map_edges_ext P' P l2) by reflexivity.
    assert (Ee : edge_of P' (insert_child ph c d) = edge_of P d).
    { unfold edge_of. rewrite insert_child_hash, insert_child_number, insert_child_arrival,
        insert_child_primary. reflexivity. }
    rewrite Ee.
    eapply Permutation_trans.
    + apply Permutation_app_head.
      change (edge_of P d :: edges (insert_child ph c d) ++ ?r)
        with ((edge_of P d :: edges (insert_child ph c d)) ++ r).
      apply Permutation_app_tail. apply perm_skip. exact Hp.
    + change (edge_of P d :: edges d ++ ?e) with ((edge_of P d :: edges d) ++ e).
      apply perm_insert_middle.
Qed.

Lemma insert_child_nums ph c n : nums_okb n = true -> nums_okb c = true ->
  (forall m, In m (all_nodes n) -> nhash m = ph -> nnumber c = nnumber m + 1) ->
  nums_okb (insert_child ph c n) = true.
Proof.
  induction n as [h x a p ch IH] using bnode_ind'. intros Hn Hc Hnum. simpl.
  rewrite nums_okb_unfold in Hn. simpl in Hn. rewrite forallb_forall in Hn.
  destruct (N.eqb_spec h ph) as [->|Hne].
  - simpl. rewrite forallb_app. apply andb_true_iff. split.
    + apply forallb_forall. exact Hn.
    + simpl. rewrite Hc. rewrite (Hnum (BNode ph x a p ch) (all_nodes_self _) eq_refl). simpl.
      rewrite N.eqb_refl. reflexivity.
  - simpl. apply forallb_forall. intros d' Hd'. apply in_map_iff in Hd' as (d & <- & Hd).
    rewrite insert_child_number. specialize (Hn d Hd). apply andb_true_iff in Hn as (H1 & H2).
    rewrite H1. simpl. rewrite Forall_forall in IH. apply IH; auto.
    intros m Hm. apply Hnum. eapply all_nodes_child; eauto.
Qed.

Lemma get_leaves_unfold n :
  get_leaves n = (match nchildren n with [] => [nhash n] | _ => [] end) ++ flat_map get_leaves (nchildren n).
Proof. destruct n; reflexivity. Qed.

Lemma get_leaves_incl n : incl (get_leaves n) (all_hashes n).
Proof.
  induction n as [h x a p ch IH] using bnode_ind'. rewrite get_leaves_unfold, all_hashes_unfold.
  simpl nchildren; simpl nhash. intros y Hy. apply in_app_or in Hy as [Hy|Hy].
  - destruct ch; simpl in Hy; [|contradiction]. destruct Hy as [<-|[]]. left; auto.
  - right. apply in_flat_map in Hy as (c & Hc & Hy). apply in_flat_map. exists c. split; auto.
    rewrite Forall_forall in IH. apply IH; auto.
Qed.

Lemma filter_app_single (f : N -> bool) l1 l2 : filter f (l1 ++ l2) = filter f l1 ++ filter f l2.
Proof. apply filter_app. Qed.

Lemma filter_all_true {A} (f : A -> bool) l : (forall x, In x l -> f x = true) -> filter f l = l.
Proof.
  induction l as [|a l IH]; simpl; intros H; auto. rewrite H by auto. f_equal. apply IH. auto.
Qed.

(* leaves after an insertion: the parent stops being a leaf, the new node is one *)
Lemma insert_child_leaves ph c n : uniq n -> In ph (all_hashes n) -> nchildren c = [] ->
  Permutation (get_leaves (insert_child ph c n))
              (filter (fun x => negb (x =? ph)) (get_leaves n) ++ [nhash c]).
Proof.
  induction n as [h x a p ch IH] using bnode_ind'. intros U Hi Hc.
  destruct (insert_child_shape ph c _ U Hi) as [(E1 & ->)|(Hne & l1 & d & l2 & Ech & Hd & ->)].
  - simpl in E1. subst ph. rewrite !get_leaves_unfold. simpl nchildren. simpl nhash.
    assert (Hkeep : filter (fun y => negb (y =? h)) (flat_map get_leaves ch) = flat_map get_leaves ch).
    { apply filter_all_true. intros y Hy. apply negb_true_iff. apply N.eqb_neq. intros ->.
      apply uniq_children in U as (U & _). apply U. simpl.
      apply in_flat_map in Hy as (e & He & Hy). apply in_flat_map. exists e. split; auto.
      apply get_leaves_incl; auto. }
    rewrite filter_app, Hkeep. rewrite flat_map_app. simpl flat_map at 2.
    rewrite (get_leaves_unfold c), Hc. simpl.
    destruct ch; simpl.
    + rewrite N.eqb_refl. simpl. reflexivity.
    + rewrite <- app_assoc. reflexivity.
  - simpl in Ech. subst ch. rewrite !get_leaves_unfold. simpl nchildren. simpl nhash.
    rewrite Forall_forall in IH.
    assert (Hp : Permutation (get_leaves (insert_child ph c d))
                             (filter (fun x => negb (x =? ph)) (get_leaves d) ++ [nhash c])).
    { apply IH; auto. apply in_elt. eapply uniq_child; eauto. simpl. apply in_elt. }
    destruct (children_disjoint _ l1 d l2 ph U eq_refl Hd) as (N1 & N2 & _).
    assert (K1 : filter (fun y => negb (y =? ph)) (flat_map get_leaves l1) = flat_map get_leaves l1).
    { apply filter_all_true. intros y Hy. apply negb_true_iff. apply N.eqb_neq. intros ->.
      apply N1. apply in_flat_map in Hy as (e & He & Hy). apply in_flat_map. exists e. split; auto.
      apply get_leaves_incl; auto. }
    assert (K2 : filter (fun y => negb (y =? ph)) (flat_map get_leaves l2) = flat_map get_leaves l2).
    { apply filter_all_true. intros y Hy. apply negb_true_iff. apply N.eqb_neq. intros ->.
      apply N2. apply in_flat_map in Hy as (e & He & Hy). apply in_flat_map. exists e. split; auto.
      apply get_leaves_incl; auto. }
    replace (match l1 ++ insert_child ph c d :: l2 with [] => [h] | _ :: _ => [] end) with (@nil N)
      by (destruct l1; reflexivity).
    replace (match l1 ++ d :: l2 with [] => [h] | _ :: _ => [] end) with (@nil N)
      by (destruct l1; reflexivity).
    simpl. rewrite !flat_map_app. simpl. rewrite !filter_app, K1, K2.
    eapply Permutation_trans.
    + apply Permutation_app_head. apply Permutation_app_tail. exact Hp.
    + apply perm_insert_middle.
Qed.

(* ------------------------------------------------------------------ AddBlock *)

Definition blk_of (hd : header) (arrival : Z) (prim : bool) : blk :=
  mkBlk (h_hash hd) (h_parent hd) (h_number hd) arrival prim.

Lemma add_block_abs t hd a : wf t ->
  match add_block t hd a, s_add (abs t) hd a with
  | Ok t', Ok s' => wf t' /\ seq (abs t') s'
  | Err c, Err d => c = d
  | _, _ => False
  end.
Proof.
  intros (U & Hn & Hl). unfold add_block, s_add.
  rewrite !get_node_find, (abs_number t _ U), abs_known_find.
  destruct (find_node (h_parent hd) (root t)) as [p|] eqn:Ep; simpl; auto.
  destruct (find_node (h_hash hd) (root t)) as [e|] eqn:Ee; simpl; auto.
  destruct (N.eqb_spec (nnumber p + 1) (h_number hd)) as [En|]; simpl; auto.
  destruct (if h_number hd =? 0 then Ok false else is_primary (h_digest hd)) as [prim| | |] eqn:Ei;
    auto.
  destruct (find_node_some _ _ _ Ep) as (Hp & Hph).
  apply find_node_none in Ee.
  set (c := BNode (h_hash hd) (nnumber p + 1) a prim []).
  assert (Hin : In (h_parent hd) (all_hashes (root t))) by (rewrite <- Hph; apply node_hash_in; auto).
  assert (Hc : nchildren c = []) by reflexivity.
  split.
  - (* wf *)
    repeat split; simpl.
    + unfold uniq. eapply Permutation_NoDup.
      * apply Permutation_sym. apply (insert_child_hashes _ c _ U Hin Hc).
      * apply NoDup_app_intro; auto.
        -- constructor; [intros []|constructor].
        -- intros y Hy [<-|[]]. contradiction.
    + apply insert_child_nums; auto. intros m Hm Hmh. simpl.
      assert (m = p) by (eapply node_eq_of_hash; eauto; congruence). subst. reflexivity.
    + unfold replace_leaf. eapply Permutation_trans.
      2:{ apply Permutation_sym. apply (insert_child_leaves _ c _ U Hin Hc). }
      apply Permutation_app_tail. apply filter_perm. exact Hl.
  - (* abstraction *)
    repeat split; simpl.
    + apply insert_child_hash.
    + apply insert_child_number.
    + eapply Permutation_trans; [apply (insert_child_edges _ c _ U Hin Hc)|].
      simpl. rewrite En. reflexivity.
Qed.

(* ------------------------------------------------------------------ Prune *)

Lemma NoDup_flat_map_sub {A B} (f g : A -> list B) l :
  NoDup (flat_map g l) -> (forall a, In a l -> NoDup (f a)) -> (forall a, In a l -> incl (f a) (g a)) ->
  NoDup (flat_map f l).
Proof.
  induction l as [|a l IH]; simpl; intros H H1 H2; [constructor|].
  apply NoDup_app_inv in H as (Ha & Hl & Hd). apply NoDup_app_intro; auto.
  intros y Hy1 Hy2. apply (Hd y).
  - apply H2; auto.
  - apply in_flat_map in Hy2 as (b & Hb & Hy2). apply in_flat_map. exists b. split; auto. apply H2; auto.
Qed.

Lemma prune_list_unfold fin n :
  prune_list fin n =
  if in_subtree (nhash n) fin then []
  else (if in_subtree (nhash fin) n then [] else [nhash n]) ++ flat_map (prune_list fin) (nchildren n).
Proof. destruct n; reflexivity. Qed.

Lemma prune_list_incl fin n : incl (prune_list fin n) (all_hashes n).
Proof.
  induction n as [h x a p ch IH] using bnode_ind'. rewrite prune_list_unfold, all_hashes_unfold.
  simpl nhash; simpl nchildren. destruct (in_subtree h fin); [intros ? []|].
  intros y Hy. apply in_app_or in Hy as [Hy|Hy].
  - destruct (in_subtree (nhash fin) _); [contradiction|]. destruct Hy as [<-|[]]. left; auto.
  - right. apply in_flat_map in Hy as (c & Hc & Hy). apply in_flat_map. exists c. split; auto.
    rewrite Forall_forall in IH. apply IH; auto.
Qed.

Lemma prune_list_nodup fin n : uniq n -> NoDup (prune_list fin n).
Proof.
  induction n as [h x a p ch IH] using bnode_ind'. intros U. rewrite prune_list_unfold.
  simpl nhash; simpl nchildren. destruct (in_subtree h fin); [constructor|].
  rewrite Forall_forall in IH.
  assert (ND : NoDup (flat_map (prune_list fin) ch)).
  { apply (NoDup_flat_map_sub _ all_hashes).
    - apply uniq_children in U as (_ & U). exact U.
    - intros c Hc. apply IH; auto. eapply uniq_child; eauto.
    - intros c Hc. apply prune_list_incl. }
  destruct (in_subtree (nhash fin) _); auto. simpl. constructor; auto.
  intro Hi. apply uniq_children in U as (U & _). apply U. simpl.
  apply in_flat_map in Hi as (c & Hc & Hi). apply in_flat_map. exists c. split; auto.
  apply prune_list_incl in Hi. auto.
Qed.

(* membership: the nodes of n outside the subtree of fin that do not have fin below them *)
Lemma prune_list_in r fin : uniq r -> In fin (all_nodes r) ->
  forall n, In n (all_nodes r) -> forall y,
  In y (prune_list fin n) <->
  exists m, In m (all_nodes n) /\ nhash m = y /\ ~ In y (all_hashes fin) /\ ~ In (nhash fin) (all_hashes m).
Proof.
  intros U Hfin n. induction n as [h x a p ch IH] using bnode_ind'. intros Hn y.
  rewrite prune_list_unfold. simpl nhash; simpl nchildren. rewrite Forall_forall in IH.
  destruct (in_subtree h fin) eqn:E1.
  - (* the whole subtree of n lies in fin *)
    apply in_subtree_spec in E1. split; [intros []|].
    intros (m & Hm & <- & Hnot & _). apply Hnot.
    apply in_hashes_nodes in E1 as (k & Hk & Hkh).
    assert (k = BNode h x a p ch).
    { apply (node_eq_of_hash r); auto. apply (all_nodes_trans r fin k); auto. }
    subst k. apply in_hashes_nodes. exists m. split; auto. eapply all_nodes_trans; eauto.
  - apply in_subtree_false in E1. rewrite in_app_iff. split.
    + intros [Hy|Hy].
      * destruct (in_subtree (nhash fin) (BNode h x a p ch)) eqn:E2; [contradiction|].
        destruct Hy as [<-|[]]. apply in_subtree_false in E2.
        exists (BNode h x a p ch). repeat split; auto. apply all_nodes_self.
      * apply in_flat_map in Hy as (c & Hc & Hy).
        apply (IH c Hc) in Hy as (m & Hm & Hmy & H1 & H2).
        -- exists m. repeat split; auto. eapply all_nodes_child; eauto.
        -- eapply all_nodes_trans; eauto. eapply all_nodes_child; eauto. apply all_nodes_self.
    + intros (m & Hm & <- & H1 & H2). apply all_nodes_inv in Hm as [->|(c & Hc & Hm)].
      * left. destruct (in_subtree (nhash fin) (BNode h x a p ch)) eqn:E2.
        -- apply in_subtree_spec in E2. contradiction.
        -- left; reflexivity.
      * right. simpl in Hc. apply in_flat_map. exists c. split; auto. apply (IH c Hc).
        -- eapply all_nodes_trans; eauto. eapply all_nodes_child; eauto. apply all_nodes_self.
        -- exists m. repeat split; auto.
Qed.

Lemma prune_abs t h : wf t ->
  wf (fst (prune t h)) /\ seq (abs (fst (prune t h))) (fst (s_fin (abs t) h)) /\
  Permutation (snd (prune t h)) (snd (s_fin (abs t) h)).
Proof.
  intros W. pose proof W as (U & Hn & Hl). unfold prune, s_fin. simpl s_root.
  rewrite N.eqb_sym.
  destruct (N.eqb_spec (nhash (root t)) h) as [E|Hne]; simpl.
  { repeat split; auto. }
  rewrite get_node_find. destruct (find_node h (root t)) as [m|] eqn:Ef.
  2:{ apply find_node_none in Ef. destruct (s_find (abs t) h) eqn:F.
      - apply find_blk_some in F as (Hi & <-). exfalso. apply Ef. rewrite edges_hashes. right.
        apply in_map. exact Hi.
      - simpl. repeat split; auto. }
  destruct (abs_find_node t h m U Ef (not_eq_sym Hne)) as (fb & -> & Hfh & Hfn & _).
  destruct (find_node_some _ _ _ Ef) as (Hm & Hmh). simpl.
  assert (Um : uniq m) by (eapply uniq_sub; eauto).
  split; [|split].
  - repeat split; simpl; auto. eapply nums_ok_sub; eauto.
  - repeat split; simpl; auto. apply NoDup_Permutation.
    + apply (NoDup_map_NoDup b_hash). apply edges_keys_nodup; auto.
    + apply NoDup_filter. apply (NoDup_map_NoDup b_hash). apply edges_keys_nodup; auto.
    + intros b. rewrite filter_In. split.
      * intros Hb. apply edge_node in Hb as (x & c & Hx & Hc & _ & ->). split.
        -- apply edges_in. exists x, c. repeat split; auto. eapply all_nodes_trans; eauto.
        -- simpl. apply (s_desc_subtree t h (nhash x) m U Hm Hmh).
           ++ apply node_hash_in. eapply all_nodes_trans; eauto.
           ++ apply node_hash_in; auto.
      * intros (Hb & Hd). apply edge_node in Hb as (x & c & Hx & Hc & _ & ->). simpl in Hd.
        apply (s_desc_subtree t h (nhash x) m U Hm Hmh) in Hd; [|apply node_hash_in; auto].
        apply in_hashes_nodes in Hd as (x' & Hx' & Hxh).
        assert (x' = x).
        { apply (node_eq_of_hash (root t)); auto. apply (all_nodes_trans (root t) m x'); auto. }
        subst x'. apply edges_in. exists x, c. auto.
  - apply NoDup_Permutation.
    + apply prune_list_nodup; auto.
    + assert (ND : NoDup (map b_hash (edges (root t)))) by (apply edges_keys_nodup; auto).
      clear -ND. induction (edges (root t)) as [|b l IH]; simpl; [constructor|].
      inversion ND; subst. destruct (_ && _); auto. simpl. constructor; auto.
      intro Hi. apply H1. apply in_map_iff in Hi as (b' & Hb' & Hi). apply filter_In in Hi as (Hi & _).
      rewrite <- Hb'. apply in_map. auto.
    + intros y. rewrite (prune_list_in (root t) m U Hm (root t) (all_nodes_self _) y).
      rewrite in_map_iff. split.
      * intros (k & Hk & <- & H1 & H2).
        assert (Hkr : k <> root t).
        { intros ->. apply H2. apply node_hash_in. auto. }
        pose proof (node_hash_in _ _ Hk) as Hkh. rewrite edges_hashes in Hkh.
        destruct Hkh as [Hkh|Hkh].
        { exfalso. apply Hkr. apply (node_eq_of_hash (root t)); auto. apply all_nodes_self. }
        apply in_map_iff in Hkh as (b & Hb & Hbi). exists b. split; auto.
        apply filter_In. split; auto. rewrite Hb. apply andb_true_iff. split; apply negb_true_iff.
        -- destruct (s_desc (abs t) h (nhash k)) eqn:D; auto.
           apply (s_desc_subtree t h (nhash k) m U Hm Hmh) in D; [contradiction|].
           apply node_hash_in; auto.
        -- destruct (s_desc (abs t) (nhash k) h) eqn:D; auto.
           apply (s_desc_subtree t (nhash k) h k U Hk eq_refl) in D.
           ++ rewrite <- Hmh in D. contradiction.
           ++ rewrite <- Hmh. apply node_hash_in; auto.
      * intros (b & <- & Hb). apply filter_In in Hb as (Hb & Hc).
        apply andb_true_iff in Hc as (C1 & C2). apply negb_true_iff in C1, C2.
        apply edge_node in Hb as (x & c & Hx & Hc & Hcn & ->). simpl in *.
        exists c. repeat split; auto.
        -- intro Hi. apply (s_desc_subtree t h (nhash c) m U Hm Hmh) in Hi; [congruence|].
           apply node_hash_in; auto.
        -- intro Hi. rewrite Hmh in Hi.
           apply (s_desc_subtree t (nhash c) h c U Hcn eq_refl) in Hi; [congruence|].
           rewrite <- Hmh. apply node_hash_in; auto.
Qed.

(* ------------------------------------------------------------------ histories *)

Definition sim (t : btree) (s : sst) : Prop := wf t /\ seq (abs t) s.

Lemma sim_swf t s : sim t s -> swf s.
Proof. intros (W & E). eapply seq_swf; eauto. apply abs_swf. apply W. Qed.

Lemma sim_step t s o : sim t s ->
  sim (fst (step t o)) (fst (s_step s o)) /\ res_eq (snd (step t o)) (snd (s_step s o)).
Proof.
  intros (W & E). pose proof (abs_swf t (proj1 W)) as SW.
  destruct (seq_step (abs t) s o E SW) as (E2 & R2).
  assert (H : sim (fst (step t o)) (fst (s_step (abs t) o)) /\
              res_eq (snd (step t o)) (snd (s_step (abs t) o))).
  { destruct o as [hd a|h]; simpl.
    - pose proof (add_block_abs t hd a W) as H.
      destruct (add_block t hd a), (s_add (abs t) hd a); simpl; try contradiction.
      + destruct H. split; [split; auto|reflexivity].
      + subst. split; [split; auto; apply seq_refl|reflexivity].
    - pose proof (prune_abs t h W) as (H1 & H2 & H3).
      destruct (prune t h), (s_fin (abs t) h); simpl in *. split; [split; auto|auto]. }
  destruct H as ((W' & E') & R'). split.
  - split; auto. eapply seq_trans; eauto.
  - destruct (snd (step t o)), (snd (s_step (abs t) o)), (snd (s_step s o)); simpl in *;
      try contradiction; try congruence. eapply Permutation_trans; eauto.
Qed.

Lemma run_unfold t o r :
  run t (o :: r) = (fst (run (fst (step t o)) r), snd (step t o) :: snd (run (fst (step t o)) r)).
Proof. simpl. destruct (step t o) as [t1 x]. simpl. destruct (run t1 r). reflexivity. Qed.

Lemma s_run_unfold s o r :
  s_run s (o :: r) = (fst (s_run (fst (s_step s o)) r), snd (s_step s o) :: snd (s_run (fst (s_step s o)) r)).
Proof. simpl. destruct (s_step s o) as [s1 x]. simpl. destruct (s_run s1 r). reflexivity. Qed.

Theorem sim_run ops : forall t s, sim t s ->
  sim (fst (run t ops)) (fst (s_run s ops)) /\
  Forall2 res_eq (snd (run t ops)) (snd (s_run s ops)).
Proof.
  induction ops as [|o r IH]; intros t s H.
  - simpl. split; auto.
  - rewrite run_unfold, s_run_unfold. simpl.
    destruct (sim_step t s o H) as (H1 & H2). destruct (IH _ _ H1) as (H3 & H4). split; auto.
Qed.

Lemma wf_new_tree h x a : wf (new_tree h x a).
Proof.
  repeat split; simpl.
  - unfold uniq. simpl. constructor; [intros []|constructor].
  - reflexivity.
Qed.

Lemma sim_new_tree h x a : sim (new_tree h x a) (mkSst h x []).
Proof. split; [apply wf_new_tree|]. repeat split; simpl; auto. Qed.
