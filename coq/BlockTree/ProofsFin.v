(* BlockTree/ProofsFin.v — what a finalisation does to the nodes of a well-formed tree: every
   node other than the root is on the path to the finalised node, or strictly below it, or
   reported as pruned; exactly one of the three. *)
From Coq Require Import List NArith ZArith Bool Lia Permutation.
From Common Require Import Outcome.
From BlockTree Require Import Model Spec ProofsTree ProofsPath ProofsSpec ProofsSim ProofsQuery ProofsBest ProofsNum.
Import ListNotations.
Local Open Scope N_scope.

Lemma prune_unfold t h m : find_node h (root t) = Some m -> h <> nhash (root t) ->
  prune t h = ({| root := m; leaves := get_leaves m |}, prune_list m (root t)).
Proof.
  intros Hf Hne. unfold prune. destruct (N.eqb_spec h (nhash (root t))); [contradiction|].
  rewrite get_node_find, Hf. reflexivity.
Qed.

Section Partition.
  Variables (t : btree) (m : bnode) (q : list bnode).
  Hypothesis W : wf t.
  Hypothesis Hp : is_path (root t) (root t :: q) m.

  Let U : uniq (root t) := proj1 W.
  Let Hm : In m (all_nodes (root t)) := is_path_end _ _ _ Hp.

  Lemma on_chain_iff k : In k (all_nodes (root t)) -> (In k q <-> In m (all_nodes k) /\ k <> root t).
  Proof.
    intros Hk. pose proof (on_path_iff _ _ _ k U Hp Hk) as H. split.
    - intros Hi. split; [apply H; right; auto|]. intros ->.
      pose proof (is_path_nodup _ _ _ U Hp) as ND. simpl in ND. inversion ND; subst.
      apply H2. apply in_map. exact Hi.
    - intros (A & B). apply H in A as [A|A]; auto. congruence.
  Qed.

  Lemma pruned_iff k : In k (all_nodes (root t)) ->
    (In (nhash k) (prune_list m (root t)) <-> ~ In k (all_nodes m) /\ ~ In m (all_nodes k)).
  Proof.
    intros Hk. rewrite (prune_list_in (root t) m U Hm (root t) (all_nodes_self _)). split.
    - intros (k' & Hk' & Eh & H1 & H2).
      assert (k' = k) by (apply (node_eq_of_hash (root t)); auto). subst k'. split.
      + intro Hi. apply H1. apply node_hash_in; auto.
      + intro Hi. apply H2. apply node_hash_in; auto.
    - intros (H1 & H2). exists k. repeat split; auto.
      + intro Hi. apply H1. apply in_hashes_nodes in Hi as (k' & Hk' & Eh).
        assert (k' = k).
        { apply (node_eq_of_hash (root t)); auto. apply (all_nodes_trans (root t) m k'); auto. }
        subst; auto.
      + intro Hi. apply H2. apply in_hashes_nodes in Hi as (m' & Hm' & Eh).
        assert (m' = m).
        { apply (node_eq_of_hash (root t)); auto. apply (all_nodes_trans (root t) k m'); auto. }
        subst; auto.
  Qed.

  (* a node below m that has m below it is m *)
  Lemma below_antisym k : In k (all_nodes m) -> In m (all_nodes k) -> k = m.
  Proof.
    intros H1 H2. pose proof (nums_ok_sub _ _ (proj1 (proj2 W)) Hm) as Nm.
    assert (Hk : In k (all_nodes (root t))) by (eapply all_nodes_trans; eauto).
    pose proof (nums_ok_sub _ _ (proj1 (proj2 W)) Hk) as Nk.
    pose proof (node_number_ge _ _ Nm H1). pose proof (node_number_ge _ _ Nk H2).
    destruct (node_has_path _ _ H1) as (p & Hpk).
    pose proof (is_path_end_number _ _ _ Hpk Nm) as E.
    inversion Hpk as [|? c p' ? Hc Hp']; subst; auto.
    destruct (is_path_head _ _ _ Hp') as (p'' & ->). simpl in E. lia.
  Qed.

  (* the hash-level partition *)
  Lemma hash_on_chain x : In x (map nhash q) ->
    In x (all_hashes (root t)) /\ x <> nhash (root t) /\ ~ In x (prune_list m (root t))
    /\ (In x (all_hashes m) -> x = nhash m).
  Proof.
    intros Hx. apply in_map_iff in Hx as (k & <- & Hk).
    assert (Hkn : In k (all_nodes (root t))) by (eapply is_path_nodes; eauto; right; auto).
    apply (on_chain_iff k Hkn) in Hk as (Hmk & Hkr). repeat split.
    - apply node_hash_in; auto.
    - intro E. apply Hkr. apply (node_eq_of_hash (root t)); auto. apply all_nodes_self.
    - intro Hi. apply (pruned_iff k Hkn) in Hi as (_ & Hi). contradiction.
    - intros Hi. apply in_hashes_nodes in Hi as (k' & Hk' & E).
      assert (k' = k).
      { apply (node_eq_of_hash (root t)); auto. apply (all_nodes_trans (root t) m k'); auto. }
      subst k'. f_equal. apply below_antisym; auto.
  Qed.

  Lemma hash_pruned x : In x (prune_list m (root t)) ->
    In x (all_hashes (root t)) /\ ~ In x (map nhash q) /\ ~ In x (all_hashes m) /\ x <> nhash (root t).
  Proof.
    intros Hx. pose proof (prune_list_incl _ _ _ Hx) as Hin.
    apply in_hashes_nodes in Hin as (k & Hk & <-). apply (pruned_iff k Hk) in Hx as (H1 & H2).
    repeat split.
    - apply node_hash_in; auto.
    - intro Hi. apply in_map_iff in Hi as (k' & E & Hk').
      assert (Hk'n : In k' (all_nodes (root t))) by (eapply is_path_nodes; eauto; right; auto).
      assert (k' = k) by (apply (node_eq_of_hash (root t)); auto). subst k'.
      apply (on_chain_iff k Hk) in Hk' as (A & _). contradiction.
    - intro Hi. apply H1. apply in_hashes_nodes in Hi as (k' & Hk' & E).
      assert (k' = k).
      { apply (node_eq_of_hash (root t)); auto. apply (all_nodes_trans (root t) m k'); auto. }
      subst; auto.
    - intro E. apply H2. assert (k = root t).
      { apply (node_eq_of_hash (root t)); auto. apply all_nodes_self. }
      subst k. exact Hm.
  Qed.

  Lemma hash_rest x : In x (all_hashes (root t)) -> x <> nhash (root t) ->
    ~ In x (map nhash q) -> ~ In x (prune_list m (root t)) -> In x (all_hashes m).
  Proof.
    intros Hx Hr Hq Hpr. apply in_hashes_nodes in Hx as (k & Hk & <-).
    destruct (in_dec N.eq_dec (nhash k) (all_hashes m)) as [|Hn]; auto. exfalso.
    assert (Hkm : ~ In k (all_nodes m)) by (intro; apply Hn; apply node_hash_in; auto).
    destruct (in_dec N.eq_dec (nhash m) (all_hashes k)) as [Hi|Hi].
    - apply Hq. apply in_map. apply (on_chain_iff k Hk). split.
      + apply in_hashes_nodes in Hi as (m' & Hm' & E).
        assert (m' = m).
        { apply (node_eq_of_hash (root t)); auto. apply (all_nodes_trans (root t) k m'); auto. }
        subst; auto.
      + intros ->. apply Hr. reflexivity.
    - apply Hpr. apply (pruned_iff k Hk). split; auto.
      intro Hmk. apply Hi. apply node_hash_in; auto.
  Qed.
End Partition.
