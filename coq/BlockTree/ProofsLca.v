(* BlockTree/ProofsLca.v — LowestCommonAncestor agrees with the parent links: it answers the
   first block on the chain of a that b descends from. *)
From Coq Require Import List NArith ZArith Bool Lia Permutation.
From Common Require Import Outcome.
From BlockTree Require Import Model Spec ProofsTree ProofsPath ProofsSpec ProofsSim ProofsQuery ProofsBest ProofsNum.
Import ListNotations.
Local Open Scope N_scope.

(* first position at which two aligned lists hold the same block *)
Fixpoint first_eq (xs ys : list bnode) : option N :=
  match xs, ys with
  | x :: xs', y :: ys' => if nhash x =? nhash y then Some (nhash x) else first_eq xs' ys'
  | _, _ => None
  end.

Lemma first_eq_sym xs : forall ys, first_eq xs ys = first_eq ys xs.
Proof.
  induction xs as [|x xs IH]; intros [|y ys]; simpl; auto.
  rewrite (N.eqb_sym (nhash y)). destruct (N.eqb_spec (nhash x) (nhash y)) as [->|]; auto.
Qed.

Lemma lca_walk_first_eq xs : forall ys h, length xs = length ys -> first_eq xs ys = Some h ->
  lca_walk xs ys = Ok h.
Proof.
  induction xs as [|x xs IH]; intros [|y ys] h Hl Hf; try discriminate.
  cbn [first_eq] in Hf. cbn [lca_walk].
  destruct (nhash x =? nhash y); [congruence|].
  destruct xs as [|x' xs']; [simpl in Hf; discriminate|].
  destruct ys as [|y' ys']; [simpl in Hl; discriminate|].
  apply IH; [simpl in *; lia|exact Hf].
Qed.

Lemma first_eq_some xs : forall ys i k, length xs = length ys ->
  nth_error xs i = Some k -> nth_error ys i = Some k -> exists h, first_eq xs ys = Some h.
Proof.
  induction xs as [|x xs IH]; intros [|y ys] i k Hl Hx Hy; simpl in *; try discriminate.
  - destruct i; discriminate.
  - destruct (N.eqb_spec (nhash x) (nhash y)); [eauto|].
    destruct i as [|i]; simpl in *; [congruence|]. eapply IH; eauto.
Qed.

(* find over the hashes of xs with a predicate that, at position i, compares with ys[i] *)
Lemma find_aligned (P : N -> bool) xs : forall ys,
  (forall i kx, nth_error xs i = Some kx ->
     P (nhash kx) = match nth_error ys i with Some ky => nhash kx =? nhash ky | None => false end) ->
  length xs = length ys ->
  find P (map nhash xs) = first_eq xs ys.
Proof.
  induction xs as [|x xs IH]; intros [|y ys] H Hl; simpl in *; try discriminate; auto.
  rewrite (H O x eq_refl). simpl. destruct (nhash x =? nhash y); auto.
  apply IH; auto. intros i kx Hi. apply (H (S i) kx Hi).
Qed.

Lemma find_skip {A} (P : A -> bool) (l : list A) k :
  (forall x, In x (firstn k l) -> P x = false) -> find P l = find P (skipn k l).
Proof.
  revert l. induction k as [|k IH]; intros [|a l] H; simpl; auto.
  rewrite (H a (or_introl eq_refl)). apply IH. intros x Hx. apply H. right; auto.
Qed.

Lemma nth_error_skipn_add {A} (l : list A) d i : nth_error (skipn d l) i = nth_error l (d + i).
Proof. revert l. induction d as [|d IH]; intros [|a l]; simpl; auto. destruct i; reflexivity. Qed.

Lemma in_firstn_nth {A} (l : list A) d x : In x (firstn d l) -> exists i, (i < d)%nat /\ nth_error l i = Some x.
Proof.
  revert l. induction d as [|d IH]; intros [|a l] H; simpl in *; try contradiction.
  destruct H as [->|H]; [exists O; split; [lia|reflexivity]|].
  destruct (IH l H) as (i & Hi & E). exists (S i). split; [lia|exact E].
Qed.

Lemma skipn_map_comm {A B} (f : A -> B) l d : skipn d (map f l) = map f (skipn d l).
Proof. revert l. induction d; intros [|a l]; simpl; auto. Qed.

(* ------------------------------------------------------------------ numbers on ancestor lists *)

Lemma anc_number n p m i k : is_path n p m -> nums_okb n = true ->
  nth_error (rev p) i = Some k -> nnumber k + N.of_nat i = nnumber m.
Proof.
  intros Hp Hn Hi.
  assert (Hlt : (i < length p)%nat).
  { rewrite <- rev_length. apply nth_error_Some. congruence. }
  assert (Hi' : nth_error p (length p - S i) = Some k).
  { apply nth_error_nth' with (d := k) in Hlt as Hlt'.
    assert (Hlt2 : (length p - S i < length p)%nat) by lia.
    rewrite (nth_error_nth' p k Hlt2). f_equal.
    assert (Hr : nth i (rev p) k = k).
    { apply nth_error_nth with (d := k) in Hi. exact Hi. }
    rewrite rev_nth in Hr by exact Hlt. exact Hr. }
  rewrite (is_path_numbers _ _ _ Hp Hn _ _ Hi'), (is_path_end_number _ _ _ Hp Hn). lia.
Qed.

Lemma rev_path_last n q m : is_path n (n :: q) m ->
  nth_error (rev (n :: q)) (length q) = Some n.
Proof.
  intros _. simpl. rewrite nth_error_app2 by (rewrite rev_length; lia).
  rewrite rev_length, Nat.sub_diag. reflexivity.
Qed.

Section Lca.
  Variables (t : btree) (an bn : bnode) (qa qb : list bnode).
  Hypothesis W : wf t.
  Hypothesis Hpa : is_path (root t) (root t :: qa) an.
  Hypothesis Hpb : is_path (root t) (root t :: qb) bn.

  Let U : uniq (root t) := proj1 W.
  Let Hn : nums_okb (root t) = true := proj1 (proj2 W).
  Let la := rev (root t :: qa).
  Let lb := rev (root t :: qb).

  Lemma la_nodes k : In k la -> In k (all_nodes (root t)).
  Proof. intros H. apply in_rev in H. apply (is_path_nodes _ _ _ Hpa k H). Qed.
  Lemma lb_nodes k : In k lb -> In k (all_nodes (root t)).
  Proof. intros H. apply in_rev in H. apply (is_path_nodes _ _ _ Hpb k H). Qed.

  Lemma la_len : N.of_nat (length la) = nnumber an - nnumber (root t) + 1.
  Proof. unfold la. rewrite rev_length. apply (path_length_number _ _ _ Hpa Hn). Qed.
  Lemma lb_len : N.of_nat (length lb) = nnumber bn - nnumber (root t) + 1.
  Proof. unfold lb. rewrite rev_length. apply (path_length_number _ _ _ Hpb Hn). Qed.
  Lemma an_ge : nnumber (root t) <= nnumber an.
  Proof. apply node_number_ge; auto. eapply is_path_end; eauto. Qed.
  Lemma bn_ge : nnumber (root t) <= nnumber bn.
  Proof. apply node_number_ge; auto. eapply is_path_end; eauto. Qed.

  (* the same block at position i of la and j of lb: the positions are tied by the numbers *)
  Lemma aligned_membership i j kx ky :
    nth_error la i = Some kx -> nth_error lb j = Some ky -> nhash kx = nhash ky ->
    nnumber an + N.of_nat j = nnumber bn + N.of_nat i.
  Proof.
    intros Hi Hj E.
    assert (kx = ky).
    { apply (node_eq_of_hash (root t)); auto; [apply la_nodes|apply lb_nodes]; eapply nth_error_In; eauto. }
    subst ky. pose proof (anc_number _ _ _ _ _ Hpa Hn Hi). pose proof (anc_number _ _ _ _ _ Hpb Hn Hj). lia.
  Qed.

  Definition da : nat := N.to_nat (nnumber an - nnumber bn).
  Definition db : nat := N.to_nat (nnumber bn - nnumber an).

  Lemma aligned_len : length (skipn da la) = length (skipn db lb).
  Proof.
    rewrite !skipn_length. pose proof la_len. pose proof lb_len. pose proof an_ge. pose proof bn_ge.
    unfold da, db. lia.
  Qed.

  Lemma aligned_root : exists h, first_eq (skipn da la) (skipn db lb) = Some h.
  Proof.
    pose proof la_len as La. pose proof lb_len as Lb. pose proof an_ge. pose proof bn_ge.
    assert (Hla : length la = S (length qa)) by (unfold la; rewrite rev_length; reflexivity).
    assert (Hlb : length lb = S (length qb)) by (unfold lb; rewrite rev_length; reflexivity).
    apply (first_eq_some _ _ (length qa - da) (root t) aligned_len).
    - rewrite nth_error_skipn_add. replace (da + (length qa - da))%nat with (length qa) by (unfold da; lia).
      apply (rev_path_last _ _ _ Hpa).
    - rewrite nth_error_skipn_add. replace (db + (length qa - da))%nat with (length qb) by (unfold da, db; lia).
      apply (rev_path_last _ _ _ Hpb).
  Qed.

  Lemma spec_side :
    find (fun x => existsb (N.eqb x) (map nhash lb)) (map nhash la) = first_eq (skipn da la) (skipn db lb).
  Proof.
    pose proof la_len as La. pose proof lb_len as Lb. pose proof an_ge. pose proof bn_ge.
    rewrite (find_skip _ (map nhash la) da).
    - rewrite skipn_map_comm. apply find_aligned; [|apply aligned_len].
      intros i kx Hi. rewrite nth_error_skipn_add in Hi. rewrite nth_error_skipn_add.
      destruct (nth_error lb (db + i)) as [ky|] eqn:Ej.
      + destruct (N.eqb_spec (nhash kx) (nhash ky)) as [E|Hne].
        * apply existsb_eqb_in. rewrite E. apply in_map. eapply nth_error_In; eauto.
        * destruct (existsb (N.eqb (nhash kx)) (map nhash lb)) eqn:X; auto. exfalso.
          apply existsb_eqb_in in X. apply in_map_iff in X as (ky' & E' & Hin).
          apply In_nth_error in Hin as (j & Hj).
          pose proof (aligned_membership _ _ _ _ Hi Hj (eq_sym E')) as A.
          assert (j = (db + i)%nat) by (unfold da, db in *; lia). subst j. congruence.
      + (* impossible: the aligned lists have the same length *)
        exfalso. apply nth_error_None in Ej.
        assert (da + i < length la)%nat by (apply nth_error_Some; congruence).
        pose proof aligned_len as AL. rewrite !skipn_length in AL. lia.
    - intros x Hx. apply in_firstn_nth in Hx as (i & Hi & Ex).
      rewrite nth_error_map in Ex. destruct (nth_error la i) as [kx|] eqn:Ei; [|discriminate].
      simpl in Ex. inversion Ex; subst x.
      destruct (existsb (N.eqb (nhash kx)) (map nhash lb)) eqn:X; auto. exfalso.
      apply existsb_eqb_in in X. apply in_map_iff in X as (ky' & E' & Hin).
      apply In_nth_error in Hin as (j & Hj).
      pose proof (aligned_membership _ _ _ _ Ei Hj (eq_sym E')) as A. unfold da in Hi. lia.
  Qed.

  Theorem lca_paths :
    (let '(hi, lo, diff) :=
       if nnumber bn <? nnumber an then (la, lb, nnumber an - nnumber bn)
       else (lb, la, nnumber bn - nnumber an) in
     if N.of_nat (length hi) <=? diff then Panic else lca_walk (skipn (N.to_nat diff) hi) lo)
    = match find (fun x => existsb (N.eqb x) (map nhash lb)) (map nhash la) with
      | Some x => Ok x
      | None => Panic
      end.
  Proof.
    rewrite spec_side. destruct aligned_root as (h & Eh). rewrite Eh.
    pose proof la_len as La. pose proof lb_len as Lb. pose proof an_ge. pose proof bn_ge.
    pose proof aligned_len as AL.
    destruct (N.ltb_spec (nnumber bn) (nnumber an)) as [Hlt|Hge].
    - destruct (N.leb_spec (N.of_nat (length la)) (nnumber an - nnumber bn)); [lia|].
      assert (Edb : db = O) by (unfold db; lia). rewrite Edb in *. simpl skipn in *.
      apply lca_walk_first_eq; auto.
    - destruct (N.leb_spec (N.of_nat (length lb)) (nnumber bn - nnumber an)); [lia|].
      assert (Eda : da = O) by (unfold da; lia). rewrite Eda in *. simpl skipn in *.
      apply lca_walk_first_eq; [symmetry; exact AL|]. rewrite first_eq_sym. exact Eh.
  Qed.
End Lca.

Theorem abs_lca t a b : wf t -> lowest_common_ancestor t a b = s_lca (abs t) a b.
Proof.
  intros W. pose proof W as (U & Hn & _). unfold lowest_common_ancestor, s_lca.
  rewrite !get_node_find, !abs_known_find.
  destruct (find_node a (root t)) as [an|] eqn:Ea; simpl; auto.
  destruct (find_node b (root t)) as [bn|] eqn:Eb; simpl; auto.
  destruct (find_node_some _ _ _ Ea) as (Han & Hah). destruct (find_node_some _ _ _ Eb) as (Hbn & Hbh).
  destruct (node_has_path _ _ Han) as (pa & Hpa). destruct (is_path_head _ _ _ Hpa) as (qa & ->).
  destruct (node_has_path _ _ Hbn) as (pb & Hpb). destruct (is_path_head _ _ _ Hpb) as (qb & ->).
  unfold ancestors. rewrite (path_to_complete _ _ _ U Hpa), (path_to_complete _ _ _ U Hpb).
  cbn [option_map].
  rewrite (lca_paths t an bn qa qb W Hpa Hpb).
  rewrite <- Hah. rewrite (s_chain_path t _ _ U (path_to_complete _ _ _ U Hpa)), <- map_rev.
  erewrite find_ext_fun; [reflexivity|]. intros x. simpl.
  rewrite s_desc_chain, <- Hbh, (s_chain_path t _ _ U (path_to_complete _ _ _ U Hpb)), <- map_rev.
  reflexivity.
Qed.

Lemma seq_lca s1 s2 a b : seq s1 s2 -> swf s1 -> s_lca s1 a b = s_lca s2 a b.
Proof.
  intros E W. unfold s_lca. rewrite !(seq_known _ _ E W), (seq_chain _ _ E W).
  destruct (negb (s_known s2 a) || negb (s_known s2 b)); auto.
  erewrite find_ext_fun; [reflexivity|]. intros x. simpl. apply (seq_desc _ _ E W).
Qed.

Theorem sim_lca t s a b : sim t s -> lowest_common_ancestor t a b = s_lca s a b.
Proof.
  intros (W & E). rewrite abs_lca; auto. apply seq_lca; auto. apply abs_swf. apply W.
Qed.

