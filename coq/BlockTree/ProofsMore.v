(* BlockTree/ProofsMore.v — GetAllDescendants and GetHashesAtNumber against the specification. *)
From Coq Require Import List NArith ZArith Bool Lia Permutation.
From Common Require Import Outcome.
From BlockTree Require Import Model Spec ProofsTree ProofsPath ProofsSpec ProofsSim ProofsQuery ProofsBest ProofsNum.
Import ListNotations.
Local Open Scope N_scope.

Lemma abs_descendants_perm t h m : wf t -> find_node h (root t) = Some m ->
  Permutation (all_hashes m) (filter (s_desc (abs t) h) (s_hashes (abs t))).
Proof.
  intros W Ef. pose proof W as (U & _). destruct (find_node_some _ _ _ Ef) as (Hm & Hmh).
  rewrite abs_hashes. apply NoDup_Permutation.
  - apply (uniq_sub _ _ U Hm).
  - apply NoDup_filter. exact U.
  - intros x. rewrite filter_In. split.
    + intros Hx. assert (Hr : In x (all_hashes (root t))) by (apply (hashes_incl _ _ Hm); auto).
      split; auto. apply (s_desc_subtree t h x m U Hm Hmh Hr). exact Hx.
    + intros (Hr & Hd). apply (s_desc_subtree t h x m U Hm Hmh Hr). exact Hd.
Qed.

Lemma sim_descendants t s h : sim t s -> check_descendants s h (get_all_descendants t h) = true.
Proof.
  intros (W & E). pose proof (abs_swf t (proj1 W)) as SW.
  unfold check_descendants, get_all_descendants. rewrite <- (seq_known _ _ E SW).
  rewrite get_node_find, abs_known_find. destruct (find_node h (root t)) as [m|] eqn:Ef; [|reflexivity].
  apply perm_eqb_complete. eapply Permutation_trans; [apply (abs_descendants_perm t h m W Ef)|].
  apply filter_perm_ext; [apply seq_hashes; auto|]. intros x _. apply (seq_desc _ _ E SW).
Qed.

(* GetHashesAtNumber: every reported hash is a block of the tree with that number, once *)
Lemma hashes_at_number_sound num n : forall x,
  In x (hashes_at_number num n) -> exists m, In m (all_nodes n) /\ nhash m = x /\ nnumber m = num.
Proof.
  induction n as [h k a p ch IH] using bnode_ind'. intros x. simpl.
  destruct (N.eqb_spec num k) as [->|Hne].
  - intros [<-|[]]. exists (BNode h k a p ch). repeat split; auto.
  - destruct (k <? num); [|intros []]. intros Hx. apply in_flat_map in Hx as (c & Hc & Hx).
    rewrite Forall_forall in IH. destruct (IH c Hc x Hx) as (m & Hm & E1 & E2).
    exists m. repeat split; auto. right. apply in_flat_map. eauto.
Qed.

Lemma hashes_at_number_incl num n : incl (hashes_at_number num n) (all_hashes n).
Proof.
  intros x Hx. destruct (hashes_at_number_sound num n x Hx) as (m & Hm & <- & _).
  apply node_hash_in; auto.
Qed.

Lemma hashes_at_number_nodup num n : uniq n -> NoDup (hashes_at_number num n).
Proof.
  induction n as [h k a p ch IH] using bnode_ind'. intros U. simpl.
  destruct (num =? k); [constructor; [intros []|constructor]|].
  destruct (k <? num); [|constructor]. rewrite Forall_forall in IH.
  apply (NoDup_flat_map_sub _ all_hashes).
  - apply uniq_children in U as (_ & U). exact U.
  - intros c Hc. apply IH; auto. eapply uniq_child; eauto.
  - intros c Hc. apply hashes_at_number_incl.
Qed.

Lemma count_of_nodup x l : NoDup l -> In x l -> count_of x l = 1%nat.
Proof.
  unfold count_of. induction l as [|a l IH]; intros ND Hi; [contradiction|].
  inversion ND; subst. simpl. destruct (N.eqb_spec x a) as [->|Hne].
  - simpl. f_equal. destruct (filter (N.eqb a) l) eqn:E; auto.
    assert (In n (filter (N.eqb a) l)) by (rewrite E; left; auto).
    apply filter_In in H as (H & H'). apply N.eqb_eq in H'. subst. contradiction.
  - destruct Hi as [->|Hi]; [congruence|]. apply IH; auto.
Qed.

Lemma abs_at_number t num : wf t ->
  match get_hashes_at_number t num with Ok l => check_at_number (abs t) num l = true | _ => False end.
Proof.
  intros W. pose proof W as (U & _). unfold get_hashes_at_number.
  destruct (num <? nnumber (root t)); [reflexivity|].
  destruct (best_block_info t W) as (b & -> & _).
  destruct (l_number b <? num); [reflexivity|].
  unfold check_at_number. apply andb_true_iff. split; apply forallb_forall; intros x Hx.
  - destruct (hashes_at_number_sound _ _ _ Hx) as (m & Hm & <- & <-).
    rewrite (abs_number_node t m U Hm). apply N.eqb_refl.
  - apply Nat.eqb_eq. apply count_of_nodup; auto. apply hashes_at_number_nodup; auto.
Qed.

Lemma sim_at_number t s num : sim t s ->
  match get_hashes_at_number t num with Ok l => check_at_number s num l = true | _ => False end.
Proof.
  intros (W & E). pose proof (abs_swf t (proj1 W)) as SW. pose proof (abs_at_number t num W) as H.
  destruct (get_hashes_at_number t num) as [l| | |]; auto. unfold check_at_number in *.
  apply andb_true_iff in H as (H1 & H2). apply andb_true_iff. split; auto.
  rewrite forallb_forall in *. intros x Hx. specialize (H1 x Hx).
  rewrite <- (seq_number _ _ E SW). exact H1.
Qed.
