(* BlockTree/ProofsQuery.v — the query methods of a well-formed tree agree with the parent-link
   definitions of the specification: membership, leaves, IsDescendantOf, Range/RangeInMemory,
   LowestCommonAncestor. *)
From Coq Require Import List NArith ZArith Bool Lia Permutation.
From Common Require Import Outcome.
From BlockTree Require Import Model Spec ProofsTree ProofsPath ProofsSpec ProofsSim.
Import ListNotations.
Local Open Scope N_scope.

(* ------------------------------------------------------------------ perm_eqb *)

Lemma count_of_perm x l1 l2 : Permutation l1 l2 -> count_of x l1 = count_of x l2.
Proof. intros P. unfold count_of. apply Permutation_length. apply filter_perm. auto. Qed.

Lemma perm_eqb_complete l1 l2 : Permutation l1 l2 -> perm_eqb l1 l2 = true.
Proof.
  intros P. unfold perm_eqb. apply andb_true_iff. split.
  - apply Nat.eqb_eq. apply Permutation_length; auto.
  - apply forallb_forall. intros x _. apply Nat.eqb_eq. apply count_of_perm; auto.
Qed.

(* ------------------------------------------------------------------ blocks and leaves *)

Lemma sim_blocks t s : sim t s -> Permutation (get_all_blocks t) (s_hashes s).
Proof.
  intros (W & E). unfold get_all_blocks. rewrite <- abs_hashes.
  apply seq_hashes; auto.
Qed.

Lemma get_leaves_in n : forall y,
  In y (get_leaves n) <-> exists m, In m (all_nodes n) /\ nhash m = y /\ nchildren m = [].
Proof.
  induction n as [h x a p ch IH] using bnode_ind'. intros y. rewrite get_leaves_unfold.
  simpl nhash; simpl nchildren. rewrite Forall_forall in IH. rewrite in_app_iff. split.
  - intros [Hy|Hy].
    + destruct ch; [|contradiction]. destruct Hy as [<-|[]].
      exists (BNode h x a p []). repeat split; auto. apply all_nodes_self.
    + apply in_flat_map in Hy as (c & Hc & Hy). apply (IH c Hc) in Hy as (m & Hm & Hmy & Hmc).
      exists m. repeat split; auto. eapply all_nodes_child; eauto.
  - intros (m & Hm & <- & Hmc). apply all_nodes_inv in Hm as [->|(c & Hc & Hm)].
    + simpl in Hmc. subst ch. left. left. reflexivity.
    + right. simpl in Hc. apply in_flat_map. exists c. split; auto. apply (IH c Hc). eauto.
Qed.

Lemma get_leaves_nodup n : uniq n -> NoDup (get_leaves n).
Proof.
  induction n as [h x a p ch IH] using bnode_ind'. intros U. rewrite get_leaves_unfold.
  simpl nhash; simpl nchildren. rewrite Forall_forall in IH.
  assert (ND : NoDup (flat_map get_leaves ch)).
  { apply (NoDup_flat_map_sub _ all_hashes).
    - apply uniq_children in U as (_ & U). exact U.
    - intros c Hc. apply IH; auto. eapply uniq_child; eauto.
    - intros c Hc. apply get_leaves_incl. }
  destruct ch; simpl; auto.
Qed.

Lemma abs_leaves t : uniq (root t) -> Permutation (get_leaves (root t)) (s_leaves (abs t)).
Proof.
  intros U. apply NoDup_Permutation.
  - apply get_leaves_nodup; auto.
  - unfold s_leaves. apply NoDup_filter. rewrite abs_hashes. exact U.
  - intros y. rewrite get_leaves_in. unfold s_leaves. rewrite filter_In, abs_hashes.
    rewrite negb_true_iff. split.
    + intros (m & Hm & <- & Hc). split; [apply node_hash_in; auto|].
      destruct (existsb _ _) eqn:E; auto. apply existsb_exists in E as (b & Hb & Hp).
      apply N.eqb_eq in Hp. simpl in Hb. apply edge_node in Hb as (x & c & Hx & Hcx & _ & ->).
      simpl in Hp. assert (x = m) by (apply (node_eq_of_hash (root t)); auto). subst x.
      rewrite Hc in Hcx. contradiction.
    + intros (Hy & E). apply in_hashes_nodes in Hy as (m & Hm & <-). exists m. repeat split; auto.
      destruct (nchildren m) as [|c r] eqn:Ec; auto. exfalso.
      assert (Hb : In (edge_of m c) (edges (root t))).
      { apply edges_in. exists m, c. repeat split; auto. rewrite Ec. left; auto. }
      assert (existsb (fun b => b_parent b =? nhash m) (s_blocks (abs t)) = true).
      { apply existsb_exists. exists (edge_of m c). split; auto. simpl. apply N.eqb_refl. }
      congruence.
Qed.

Lemma sim_leaves t s : sim t s -> Permutation (leaves t) (s_leaves s).
Proof.
  intros (W & E). pose proof W as (U & _ & Hl).
  eapply Permutation_trans; [exact Hl|]. eapply Permutation_trans; [apply abs_leaves; auto|].
  apply seq_leaves; auto. apply abs_swf; auto.
Qed.

(* ------------------------------------------------------------------ IsDescendantOf *)

Lemma abs_is_descendant_of t a b : wf t ->
  is_descendant_of t a b = s_is_descendant_of (abs t) a b.
Proof.
  intros (U & _ & _). unfold is_descendant_of, s_is_descendant_of.
  destruct (a =? b); auto. rewrite !get_node_find, !abs_known_find.
  destruct (find_node a (root t)) as [pn|] eqn:Ea; simpl; auto.
  destruct (find_node b (root t)) as [cn|] eqn:Eb; simpl; auto.
  destruct (find_node_some _ _ _ Ea) as (Hp & Hph). destruct (find_node_some _ _ _ Eb) as (Hc & Hch).
  f_equal. rewrite Hch.
  destruct (s_desc (abs t) a b) eqn:D.
  - apply in_subtree_spec. apply (s_desc_subtree t a b pn U Hp Hph); auto.
    rewrite <- Hch. apply node_hash_in; auto.
  - apply in_subtree_false. intro Hi.
    apply (s_desc_subtree t a b pn U Hp Hph) in Hi; [congruence|].
    rewrite <- Hch. apply node_hash_in; auto.
Qed.

Lemma sim_is_descendant_of t s a b : sim t s ->
  is_descendant_of t a b = s_is_descendant_of s a b.
Proof.
  intros (W & E). rewrite abs_is_descendant_of; auto. pose proof (abs_swf t (proj1 W)) as SW.
  unfold s_is_descendant_of. rewrite !(seq_known _ _ E SW), (seq_desc _ _ E SW). reflexivity.
Qed.

(* ------------------------------------------------------------------ paths have no repeated hash *)

Lemma is_path_nodup n p m : uniq n -> is_path n p m -> NoDup (map nhash p).
Proof.
  intros U H. induction H as [n|n c p m Hc Hp IH].
  - simpl. constructor; [intros []|constructor].
  - simpl. constructor.
    + intro Hi. apply in_map_iff in Hi as (k & Hk & Hin).
      apply uniq_children in U as (U & _). apply U. apply in_flat_map. exists c. split; auto.
      rewrite <- Hk. apply node_hash_in. eapply is_path_nodes; eauto.
    + apply IH. eapply uniq_child; eauto.
Qed.

(* the index of a node on a path from the root is its number minus the root's *)
Lemma path_index n p m i k : is_path n p m -> nums_okb n = true ->
  nth_error p i = Some k -> N.of_nat i = nnumber k - nnumber n.
Proof. intros Hp Hn Hi. rewrite (is_path_numbers _ _ _ Hp Hn i k Hi). lia. Qed.

Lemma path_length_number n p m : is_path n p m -> nums_okb n = true ->
  N.of_nat (length p) = nnumber m - nnumber n + 1.
Proof.
  intros Hp Hn. rewrite (is_path_end_number _ _ _ Hp Hn).
  destruct (is_path_head _ _ _ Hp) as (q & ->). simpl. lia.
Qed.

(* ------------------------------------------------------------------ Range *)

(* the "collect the chain up to a" loop of s_path *)
Fixpoint upto (a : N) (l : list N) : option (list N) :=
  match l with
  | [] => None
  | x :: r => if x =? a then Some [x]
              else match upto a r with Some p => Some (p ++ [x]) | None => None end
  end.

Lemma s_path_upto s a e : s_path s a e = if s_desc s a e then upto a (s_chain s e) else None.
Proof.
  unfold s_path. destruct (s_desc s a e); auto.
  induction (s_chain s e) as [|x r IH]; simpl; auto. rewrite IH. reflexivity.
Qed.

Lemma upto_split a l1 l2 : ~ In a l1 -> upto a (l1 ++ a :: l2) = Some (a :: rev l1).
Proof.
  induction l1 as [|x l1 IH]; simpl; intros H.
  - rewrite N.eqb_refl. reflexivity.
  - destruct (N.eqb_spec x a) as [->|Hne]; [exfalso; apply H; auto|].
    rewrite IH by (intro; apply H; auto). reflexivity.
Qed.

(* the core of accumulateHashesInDescedingOrder on a well-formed tree *)
Lemma accumulate_spec t en sn pe :
  wf t -> is_path (root t) pe en -> In sn (all_nodes (root t)) ->
  accumulate (rev pe) en sn =
  if nnumber en <? nnumber sn then Err e_start_greater
  else if s_desc (abs t) (nhash sn) (nhash en)
       then match upto (nhash sn) (map nhash (rev pe)) with Some l => Ok l | None => Panic end
       else Err e_start_not_found.
Proof.
  intros (U & Hn & _) Hpe Hsn. unfold accumulate, accumulate_pre.
  destruct (N.ltb_spec (nnumber en) (nnumber sn)) as [Hlt|Hge]; auto.
  pose proof (path_length_number _ _ _ Hpe Hn) as Hlen.
  destruct (node_has_path _ _ Hsn) as (ps & Hps).
  pose proof (path_length_number _ _ _ Hps Hn) as Hlens.
  pose proof (is_path_end_number _ _ _ Hps Hn) as Hsnum.
  pose proof (is_path_end_number _ _ _ Hpe Hn) as Henum.
  set (k := N.to_nat (nnumber en - nnumber sn)).
  assert (Hk : (k < length pe)%nat) by (unfold k; lia).
  rewrite rev_length. destruct (Nat.leb_spec (length pe) k) as [|_]; [lia|].
  (* the k-th ancestor *)
  destruct (nth_error (rev pe) k) as [c|] eqn:Ec.
  2:{ apply nth_error_None in Ec. rewrite rev_length in Ec. lia. }
  assert (Hsplit : exists l1 l2, rev pe = l1 ++ c :: l2 /\ length l1 = k).
  { apply nth_error_split in Ec. exact Ec. }
  destruct Hsplit as (l1 & l2 & Erev & Hl1).
  assert (Hpe' : pe = rev l2 ++ c :: rev l1).
  { rewrite <- (rev_involutive pe), Erev, rev_app_distr. simpl. rewrite <- app_assoc. reflexivity. }
  assert (Hcn : In c (all_nodes (root t))).
  { apply (is_path_nodes _ _ _ Hpe). rewrite Hpe'. apply in_elt. }
  assert (Hcnum : nnumber c = nnumber sn).
  { assert (Hi : nth_error pe (length (rev l2)) = Some c).
    { rewrite Hpe'. rewrite nth_error_app2 by lia. rewrite Nat.sub_diag. reflexivity. }
    rewrite (is_path_numbers _ _ _ Hpe Hn _ _ Hi).
    assert (length pe = length (rev l2) + S k)%nat.
    { rewrite Hpe', app_length. simpl. rewrite !rev_length. lia. }
    unfold k in *. lia. }
  assert (Hfirst : firstn k (rev pe) = l1).
  { rewrite Erev, <- Hl1. rewrite firstn_app, Nat.sub_diag, firstn_all. simpl. apply app_nil_r. }
  rewrite Hfirst.
  pose proof (is_path_nodup _ _ _ U Hpe) as NDp.
  assert (NDr : NoDup (map nhash (rev pe))).
  { rewrite map_rev. apply NoDup_rev. exact NDp. }
  rewrite s_desc_chain.
  rewrite (s_chain_path t pe (nhash en) U (path_to_complete _ _ _ U Hpe)).
  rewrite <- (map_rev nhash pe).
  destruct (N.eqb_spec (nhash c) (nhash sn)) as [Ecs|Hcs].
  - (* the start is the k-th ancestor *)
    assert (Hex : existsb (N.eqb (nhash sn)) (map nhash (rev pe)) = true).
    { apply existsb_eqb_in. rewrite <- Ecs. apply in_map. rewrite Erev. apply in_elt. }
    rewrite Hex. rewrite Erev, map_app. simpl map. rewrite Ecs.
    rewrite upto_split.
    + reflexivity.
    + rewrite Erev, map_app in NDr. simpl in NDr. apply NoDup_remove_2 in NDr.
      rewrite <- Ecs. intro Hi. apply NDr. apply in_or_app. left; auto.
  - (* it is not: the start is not on the chain at all *)
    assert (Hex : existsb (N.eqb (nhash sn)) (map nhash (rev pe)) = false).
    { destruct (existsb _ _) eqn:Ex; auto. apply existsb_eqb_in in Ex.
      apply in_map_iff in Ex as (k' & Hk' & Hin). apply in_rev in Hin.
      assert (k' = sn).
      { apply (node_eq_of_hash (root t)); auto. apply (is_path_nodes _ _ _ Hpe); auto. }
      subst k'. exfalso. apply Hcs.
      (* sn and c are both on the path with the same number, hence the same index *)
      apply In_nth_error in Hin as (i & Hi).
      assert (Hic : nth_error pe (length (rev l2)) = Some c).
      { rewrite Hpe'. rewrite nth_error_app2 by lia. rewrite Nat.sub_diag. reflexivity. }
      pose proof (path_index _ _ _ _ _ Hpe Hn Hi) as I1.
      pose proof (path_index _ _ _ _ _ Hpe Hn Hic) as I2.
      pose proof (is_path_numbers _ _ _ Hpe Hn _ _ Hi) as N1.
      assert (i = length (rev l2)) by lia. subst i. congruence. }
    rewrite Hex. reflexivity.
Qed.

Definition outcome_list_ok (s : sst) (a e : N) (r : outcome (list N)) : Prop :=
  match s_path s a e with
  | Some p => r = Ok p
  | None => exists c, r = Err c
  end.

Lemma list_eqb_refl l : list_eqb l l = true.
Proof.
  unfold list_eqb. rewrite Nat.eqb_refl. simpl. induction l; simpl; auto.
  rewrite N.eqb_refl. auto.
Qed.

Lemma upto_some_of_in a l : In a l -> exists p, upto a l = Some p.
Proof.
  induction l as [|x l IH]; simpl; intros H; [contradiction|].
  destruct (N.eqb_spec x a); eauto. destruct H as [?|H]; [congruence|].
  destruct (IH H) as (p & ->). eauto.
Qed.

Lemma range_core t a' e en sn pe :
  wf t -> find_node e (root t) = Some en -> find_node a' (root t) = Some sn ->
  path_to (nhash en) (root t) = Some pe ->
  match s_path (abs t) a' e with
  | Some p => accumulate (rev pe) en sn = Ok p
  | None => exists c, accumulate (rev pe) en sn = Err c
  end.
Proof.
  intros W He Ha Hpe. pose proof W as (U & Hn & _).
  destruct (find_node_some _ _ _ He) as (Hen & Heh). destruct (find_node_some _ _ _ Ha) as (Hsn & Hsh).
  destruct (path_to_is_path _ _ _ Hpe) as (en' & Hip & Hh').
  assert (en' = en).
  { apply (node_eq_of_hash (root t)); auto. eapply is_path_end; eauto. }
  subst en'.
  rewrite (accumulate_spec t en sn pe W Hip Hsn). rewrite s_path_upto. subst e a'.
  rewrite (s_chain_path t pe (nhash en) U Hpe), <- (map_rev nhash pe).
  destruct (s_desc (abs t) (nhash sn) (nhash en)) eqn:D.
  - (* sn is an ancestor of en: its number is not greater *)
    assert (Hle : nnumber sn <= nnumber en).
    { pose proof D as D'.
      apply (s_desc_subtree t (nhash sn) (nhash en) sn U Hsn eq_refl) in D';
        [|apply node_hash_in; auto].
      apply in_hashes_nodes in D' as (k & Hk & Hkh).
      assert (k = en).
      { apply (node_eq_of_hash (root t)); auto. apply (all_nodes_trans (root t) sn k); auto. }
      subst k. destruct (node_has_path _ _ Hk) as (q & Hq).
      rewrite (is_path_end_number _ _ _ Hq (nums_ok_sub _ _ Hn Hsn)). lia. }
    destruct (N.ltb_spec (nnumber en) (nnumber sn)); [lia|].
    rewrite s_desc_chain in D.
    rewrite (s_chain_path t pe (nhash en) U Hpe), <- (map_rev nhash pe) in D.
    apply existsb_eqb_in in D. destruct (upto_some_of_in _ _ D) as (p & ->). reflexivity.
  - destruct (N.ltb_spec (nnumber en) (nnumber sn)); eauto.
Qed.

Lemma abs_range t a e : wf t -> check_range (abs t) a e (range t a e) = true.
Proof.
  intros W. pose proof W as (U & Hn & _). unfold check_range, range, range_with.
  rewrite !get_node_find, !abs_known_find.
  destruct (find_node e (root t)) as [en|] eqn:Ee; simpl; [|reflexivity].
  destruct (find_node_some _ _ _ Ee) as (Hen & Heh).
  unfold ancestors. destruct (path_to (nhash en) (root t)) as [pe|] eqn:Epe.
  2:{ apply path_to_none in Epe. exfalso. apply Epe. apply node_hash_in; auto. }
  simpl option_map. cbv iota.
  destruct (find_node a (root t)) as [sn|] eqn:Ea; simpl.
  - pose proof (range_core t a e en sn pe W Ee Ea Epe) as H.
    destruct (s_path (abs t) a e).
    + rewrite H. apply list_eqb_refl.
    + destruct H as (c & ->). reflexivity.
  - assert (Er : find_node (nhash (root t)) (root t) = Some (root t)).
    { rewrite find_node_unfold, N.eqb_refl. reflexivity. }
    pose proof (range_core t (nhash (root t)) e en (root t) pe W Ee Er Epe) as H.
    destruct (s_path (abs t) (nhash (root t)) e).
    + rewrite H. apply list_eqb_refl.
    + destruct H as (c & ->). reflexivity.
Qed.

Lemma abs_range_in_memory t a e : wf t ->
  check_range_in_memory (abs t) a e (range_in_memory t a e) = true.
Proof.
  intros W. pose proof W as (U & Hn & _). unfold check_range_in_memory, range_in_memory, range_in_memory_with.
  rewrite !get_node_find, !abs_known_find.
  destruct (find_node e (root t)) as [en|] eqn:Ee; simpl; [|reflexivity].
  destruct (find_node_some _ _ _ Ee) as (Hen & Heh).
  destruct (find_node a (root t)) as [sn|] eqn:Ea; simpl; [|reflexivity].
  unfold ancestors. destruct (path_to (nhash en) (root t)) as [pe|] eqn:Epe.
  2:{ apply path_to_none in Epe. exfalso. apply Epe. apply node_hash_in; auto. }
  simpl option_map. cbv iota.
  pose proof (range_core t a e en sn pe W Ee Ea Epe) as H.
  destruct (path_to_is_path _ _ _ Epe) as (en' & Hip & Hh').
  assert (en' = en).
  { apply (node_eq_of_hash (root t)); auto. eapply is_path_end; eauto. }
  subst en'. destruct (find_node_some _ _ _ Ea) as (Hsn & Hsh).
  destruct (N.ltb_spec (nnumber en) (nnumber sn)) as [Hlt|Hge].
  - rewrite (accumulate_spec t en sn pe W Hip Hsn) in H.
    destruct (N.ltb_spec (nnumber en) (nnumber sn)); [|lia].
    destruct (s_path (abs t) a e); [discriminate|reflexivity].
  - destruct (s_path (abs t) a e).
    + rewrite H. apply list_eqb_refl.
    + destruct H as (c & ->). reflexivity.
Qed.

(* transfer along seq *)
Lemma seq_path s1 s2 a e : seq s1 s2 -> swf s1 -> s_path s1 a e = s_path s2 a e.
Proof. intros E W. rewrite !s_path_upto, (seq_desc _ _ E W), (seq_chain _ _ E W). reflexivity. Qed.

Lemma sim_range t s a e : sim t s -> check_range s a e (range t a e) = true.
Proof.
  intros (W & E). pose proof (abs_swf t (proj1 W)) as SW. pose proof (abs_range t a e W) as H.
  unfold check_range in *. rewrite <- !(seq_known _ _ E SW).
  destruct E as (Er & En & P). rewrite <- Er.
  rewrite <- (seq_path (abs t) s _ _ (conj Er (conj En P)) SW). exact H.
Qed.

Lemma sim_range_in_memory t s a e : sim t s ->
  check_range_in_memory s a e (range_in_memory t a e) = true.
Proof.
  intros (W & E). pose proof (abs_swf t (proj1 W)) as SW.
  pose proof (abs_range_in_memory t a e W) as H.
  unfold check_range_in_memory in *. rewrite <- !(seq_known _ _ E SW).
  rewrite <- (seq_path (abs t) s _ _ E SW). exact H.
Qed.
