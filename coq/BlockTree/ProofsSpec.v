(* BlockTree/ProofsSpec.v — the specification functions do not depend on the order of the block
   list (they look blocks up by their unique hash), and the relational meaning of the
   parent-link walk [s_desc]. *)
From Coq Require Import List NArith ZArith Bool Lia Permutation.
From Common Require Import Outcome.
From BlockTree Require Import Model Spec ProofsTree ProofsPath.
Import ListNotations.
Local Open Scope N_scope.

Lemma NoDup_map_NoDup {A B} (f : A -> B) l : NoDup (map f l) -> NoDup l.
Proof.
  induction l as [|a l IH]; simpl; intros H; constructor; inversion H; subst; auto.
  intro Hi. apply H2. apply in_map. auto.
Qed.

Lemma find_blk_perm l1 l2 h :
  NoDup (map b_hash l1) -> Permutation l1 l2 -> find_blk l1 h = find_blk l2 h.
Proof.
  intros ND P. assert (ND2 : NoDup (map b_hash l2)).
  { eapply Permutation_NoDup; [apply Permutation_map; exact P|auto]. }
  destruct (find_blk l1 h) as [b|] eqn:E.
  - apply find_blk_some in E as (Hi & <-). symmetry. apply find_blk_in; auto.
    eapply Permutation_in; eauto.
  - symmetry. apply find_blk_none. apply find_blk_none in E. intro Hi. apply E.
    eapply Permutation_in; [apply Permutation_sym, Permutation_map; exact P|auto].
Qed.

Lemma chain_fuel_perm l1 l2 f h :
  NoDup (map b_hash l1) -> Permutation l1 l2 -> chain_fuel f l1 h = chain_fuel f l2 h.
Proof.
  intros ND P. revert h. induction f as [|f IH]; intros h; simpl; auto.
  rewrite (find_blk_perm l1 l2 h ND P). destruct (find_blk l2 h); auto. rewrite IH. auto.
Qed.

Lemma anc_fuel_perm l1 l2 f a c :
  NoDup (map b_hash l1) -> Permutation l1 l2 -> anc_fuel f l1 a c = anc_fuel f l2 a c.
Proof. intros. rewrite !anc_fuel_chain. erewrite chain_fuel_perm; eauto. Qed.

Lemma pcount_fuel_perm l1 l2 f h :
  NoDup (map b_hash l1) -> Permutation l1 l2 -> pcount_fuel f l1 h = pcount_fuel f l2 h.
Proof.
  intros ND P. revert h. induction f as [|f IH]; intros h; simpl; auto.
  rewrite (find_blk_perm l1 l2 h ND P). destruct (find_blk l2 h); auto. rewrite IH. auto.
Qed.

(* two specification states with the same root and the same SET of blocks *)
Definition seq (s1 s2 : sst) : Prop :=
  s_root s1 = s_root s2 /\ s_rootnum s1 = s_rootnum s2 /\ Permutation (s_blocks s1) (s_blocks s2).

(* well-formed: the hashes are pairwise different *)
Definition swf (s : sst) : Prop := NoDup (s_hashes s).

Lemma swf_keys s : swf s -> NoDup (map b_hash (s_blocks s)).
Proof. unfold swf, s_hashes. intros H; inversion H; auto. Qed.

Lemma seq_refl s : seq s s.
Proof. repeat split; auto. Qed.
Lemma seq_sym s1 s2 : seq s1 s2 -> seq s2 s1.
Proof. intros (A & B & C). repeat split; auto. apply Permutation_sym; auto. Qed.
Lemma seq_trans s1 s2 s3 : seq s1 s2 -> seq s2 s3 -> seq s1 s3.
Proof.
  intros (A & B & C) (A' & B' & C'). repeat split; try congruence.
  eapply Permutation_trans; eauto.
Qed.

Lemma seq_swf s1 s2 : seq s1 s2 -> swf s1 -> swf s2.
Proof.
  intros (A & B & C) H. unfold swf, s_hashes in *. rewrite <- A.
  eapply Permutation_NoDup; [|exact H]. constructor. apply Permutation_map. auto.
Qed.

Section SeqCongruence.
  Variables s1 s2 : sst.
  Hypothesis E : seq s1 s2.
  Hypothesis W : swf s1.

  Lemma seq_find h : s_find s1 h = s_find s2 h.
  Proof. destruct E as (_ & _ & P). apply find_blk_perm; auto. apply swf_keys; auto. Qed.

  Lemma seq_known h : s_known s1 h = s_known s2 h.
  Proof. unfold s_known. rewrite seq_find. destruct E as (-> & _). auto. Qed.

  Lemma seq_number h : s_number s1 h = s_number s2 h.
  Proof. unfold s_number. rewrite seq_find. destruct E as (-> & -> & _). auto. Qed.

  Lemma seq_chain h : s_chain s1 h = s_chain s2 h.
  Proof.
    destruct E as (_ & _ & P). unfold s_chain. rewrite (Permutation_length P).
    apply chain_fuel_perm; auto. apply swf_keys; auto.
  Qed.

  Lemma seq_desc a c : s_desc s1 a c = s_desc s2 a c.
  Proof. rewrite !s_desc_chain, seq_chain. auto. Qed.

  Lemma seq_pcount h : s_pcount s1 h = s_pcount s2 h.
  Proof.
    destruct E as (_ & _ & P). unfold s_pcount. rewrite (Permutation_length P).
    apply pcount_fuel_perm; auto. apply swf_keys; auto.
  Qed.

  Lemma seq_hashes : Permutation (s_hashes s1) (s_hashes s2).
  Proof.
    destruct E as (A & _ & P). unfold s_hashes. rewrite A. constructor. apply Permutation_map; auto.
  Qed.
End SeqCongruence.

Lemma filter_perm {A} (f : A -> bool) l1 l2 :
  Permutation l1 l2 -> Permutation (filter f l1) (filter f l2).
Proof.
  intros P. induction P as [|x l1 l2 P IH|x y l|l1 l2 l3 P1 IH1 P2 IH2]; simpl.
  - constructor.
  - destruct (f x); auto.
  - destruct (f x), (f y); auto. apply perm_swap.
  - eapply Permutation_trans; eauto.
Qed.

Lemma filter_perm_ext {A} (f g : A -> bool) l1 l2 :
  Permutation l1 l2 -> (forall x, In x l1 -> f x = g x) -> Permutation (filter f l1) (filter g l2).
Proof.
  intros P H. rewrite (filter_ext_in f g l1 H). apply filter_perm; auto.
Qed.

Lemma existsb_perm {A} (f : A -> bool) l1 l2 : Permutation l1 l2 -> existsb f l1 = existsb f l2.
Proof.
  intros P. induction P; simpl; auto.
  - rewrite IHP; auto.
  - destruct (f x), (f y); auto.
  - congruence.
Qed.

Lemma seq_leaves s1 s2 : seq s1 s2 -> swf s1 -> Permutation (s_leaves s1) (s_leaves s2).
Proof.
  intros E W. unfold s_leaves. apply filter_perm_ext.
  - apply seq_hashes; auto.
  - intros h _. f_equal. apply existsb_perm. destruct E as (_ & _ & P); auto.
Qed.

(* the transitions respect seq *)
Definition res_eq (r1 r2 : opres) : Prop :=
  match r1, r2 with
  | RAdd a, RAdd b => a = b
  | RFin p, RFin q => Permutation p q
  | _, _ => False
  end.

Lemma seq_add s1 s2 hd a : seq s1 s2 -> swf s1 ->
  match s_add s1 hd a, s_add s2 hd a with
  | Ok x, Ok y => seq x y
  | Err c, Err d => c = d
  | Panic, Panic => True
  | OutOfFuel, OutOfFuel => True
  | _, _ => False
  end.
Proof.
  intros E W. unfold s_add. rewrite (seq_number s1 s2 E W), (seq_known s1 s2 E W).
  destruct (s_number s2 (h_parent hd)); auto. destruct (s_known s2 (h_hash hd)); auto.
  destruct (negb _); auto.
  destruct (if h_number hd =? 0 then Ok false else is_primary (h_digest hd)); auto.
  destruct E as (A & B & P). repeat split; simpl; auto. apply Permutation_app_tail; auto.
Qed.

Lemma seq_fin s1 s2 h : seq s1 s2 -> swf s1 ->
  seq (fst (s_fin s1 h)) (fst (s_fin s2 h)) /\ Permutation (snd (s_fin s1 h)) (snd (s_fin s2 h)).
Proof.
  intros E W. unfold s_fin. rewrite (seq_find s1 s2 E W).
  pose proof E as (A & B & P). rewrite A.
  destruct (h =? s_root s2); [split; auto|]. destruct (s_find s2 h); [|split; auto].
  simpl. split.
  - repeat split; auto. simpl. apply filter_perm_ext; auto.
    intros x _. apply seq_desc; auto.
  - apply Permutation_map. apply filter_perm_ext; auto.
    intros x _. rewrite !(seq_desc s1 s2 E W). auto.
Qed.

Lemma seq_step s1 s2 o : seq s1 s2 -> swf s1 ->
  seq (fst (s_step s1 o)) (fst (s_step s2 o)) /\ res_eq (snd (s_step s1 o)) (snd (s_step s2 o)).
Proof.
  intros E W. destruct o as [hd a|h]; simpl.
  - pose proof (seq_add s1 s2 hd a E W) as H.
    destruct (s_add s1 hd a), (s_add s2 hd a); simpl; try contradiction;
      try (split; [solve [auto] | solve [congruence | reflexivity]]).
  - pose proof (seq_fin s1 s2 h E W) as (H1 & H2).
    destruct (s_fin s1 h), (s_fin s2 h); simpl in *; auto.
Qed.

(* ------------------------------------------------------------------ relational meaning *)

(* descends bl a c: c is reached from a by following parent links of bl downward *)
Inductive descends (bl : list blk) (a : N) : N -> Prop :=
| d_refl : descends bl a a
| d_step b : descends bl a (b_parent b) -> In b bl -> descends bl a (b_hash b).

Lemma anc_fuel_sound f bl a c : anc_fuel f bl a c = true -> descends bl a c.
Proof.
  revert c. induction f as [|f IH]; intros c; simpl.
  - destruct (N.eqb_spec a c) as [->|]; [constructor|discriminate].
  - destruct (N.eqb_spec a c) as [->|]; [constructor|].
    destruct (find_blk bl c) as [b|] eqn:E; [|discriminate].
    intros H. apply find_blk_some in E as (Hi & <-). apply d_step; auto.
Qed.

(* the length of the upward walk is bounded by the number of blocks when numbers decrease along
   parent links, which holds for the block sets of a tree; completeness is therefore stated
   for abstractions of trees, in ProofsSim.v *)
