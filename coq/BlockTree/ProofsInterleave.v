(* BlockTree/ProofsInterleave.v — order independence of the fork choice WITH finalisations in
   between: two histories made of the same additions (and any finalisations) that end on the same
   finalised root and accept every addition that matters (every addition whose block is reached
   from that root) hold the same blocks, hence choose the same best block. *)
From Coq Require Import List NArith ZArith Bool Lia Permutation.
From Common Require Import Outcome.
From BlockTree Require Import Model Spec ProofsTree ProofsPath ProofsSpec ProofsSim ProofsQuery
  ProofsBest ProofsHist ProofsShape.
Import ListNotations.
Local Open Scope N_scope.

(* all the records the additions of a history can contribute *)
Definition records (ops : list op) : list blk := flat_map blk_of_op ops.

(* the record an accepted AddBlock appends is the one blk_of_op computes *)
Lemma s_add_ok_rec s hd a s' : s_add s hd a = Ok s' ->
  exists b, blk_of_op (OAdd hd a) = [b] /\ s' = mkSst (s_root s) (s_rootnum s) (s_blocks s ++ [b])
            /\ b_hash b = h_hash hd /\ b_parent b = h_parent hd
            /\ s_known s (h_parent hd) = true /\ s_known s (h_hash hd) = false.
Proof.
  intros E. destruct (s_add_ok s hd a s' E) as (prim & Es & Hp & Hn).
  unfold s_add in E. destruct (s_number s (h_parent hd)); [|discriminate].
  destruct (s_known s (h_hash hd)); [discriminate|]. destruct (negb _); [discriminate|].
  unfold blk_of_op.
  destruct (if h_number hd =? 0 then Ok false else is_primary (h_digest hd)) as [p| | |]; try discriminate.
  inversion E; subst s'. eexists. split; [reflexivity|]. simpl. repeat split; auto.
Qed.

Lemma accepted_of_add s hd a s' : s_add s hd a = Ok s' ->
  exists b, accepted_of s (OAdd hd a) = [b] /\ blk_of_op (OAdd hd a) = [b].
Proof.
  intros E. destruct (s_add_ok_rec s hd a s' E) as (b & Eb & Es & _). exists b. split; auto.
  simpl. rewrite E, Es. simpl. apply skipn_app_exact.
Qed.

Section Extra.
  Variables (h0 x0 : N) (allops : list op).
  Hypothesis Huniq : forall hd a hd' a', In (OAdd hd a) allops -> In (OAdd hd' a') allops ->
                       h_hash hd = h_hash hd' -> h_parent hd = h_parent hd'.
  Hypothesis Hroot : forall hd a, In (OAdd hd a) allops -> h_hash hd <> h0.

  Record extra_inv (A : list blk) (s : sst) : Prop := mkExtra {
    ex_nodup : NoDup (map b_hash A);
    ex_rec : forall b, In b A -> In b (records allops);
    ex_rootnum : (s_root s = h0 /\ s_rootnum s = x0)
                 \/ exists b, In b A /\ b_hash b = s_root s /\ b_number b = s_rootnum s }.

  Lemma extra_step A s o : In o allops -> shape_inv h0 allops A s -> extra_inv A s ->
    extra_inv (A ++ accepted_of s o) (fst (s_step s o)).
  Proof.
    intros Ho I [ND RC RN]. destruct o as [hd a|f].
    - cbn [s_step accepted_of]. destruct (s_add s hd a) as [s'| | |] eqn:Ea; cbn [fst];
        try (rewrite app_nil_r; constructor; auto; fail).
      destruct (s_add_ok_rec s hd a s' Ea) as (c & Eb & -> & Ech & Ecp & Hp & Hn).
      cbn [s_blocks]. rewrite skipn_app_exact. constructor; simpl.
      + rewrite map_app. simpl. apply NoDup_app_intro; auto; [constructor; [intros []|constructor]|].
        intros y Hy [<-|[]]. apply in_map_iff in Hy as (c0 & E0 & Hc0).
        (* an accepted record with the hash being added: its parent is held, so it is held *)
        destruct (sh_origin _ _ _ _ I c0 Hc0) as (hd0 & a0 & Hi0 & Eh0 & Ep0).
        assert (Epar : h_parent hd0 = h_parent hd) by (apply (Huniq hd0 a0 hd a Hi0 Ho); congruence).
        assert (Hin0 : In c0 (s_blocks s)) by (apply (sh_closed _ _ _ _ I); auto; congruence).
        assert (s_known s (h_hash hd) = true).
        { apply sk_iff. right. apply in_map_iff. exists c0. split; auto. congruence. }
        congruence.
      + intros b Hb. apply in_app_or in Hb as [Hb|[<-|[]]]; auto.
        unfold records. apply in_flat_map. exists (OAdd hd a). split; auto. rewrite Eb. left; auto.
      + destruct RN as [RN|(b & Hb & RN)]; [left; auto|right]. exists b. split; auto. apply in_or_app; auto.
    - simpl. rewrite app_nil_r. unfold s_fin.
      destruct (f =? s_root s); simpl; [constructor; auto|].
      destruct (s_find s f) as [fb|] eqn:Efb; simpl; [|constructor; auto].
      apply find_blk_some in Efb as (Hfb & Ehf). constructor; simpl; auto.
      right. exists fb. split; [apply (sh_held _ _ _ _ I); auto|auto].
  Qed.

  Lemma both_run ops : forall A s, incl ops allops -> shape_inv h0 allops A s -> extra_inv A s ->
    shape_inv h0 allops (A ++ accepted s ops) (fst (s_run s ops))
    /\ extra_inv (A ++ accepted s ops) (fst (s_run s ops)).
  Proof.
    induction ops as [|o r IH]; intros A s Hi I X.
    - simpl. rewrite app_nil_r. auto.
    - rewrite s_run_unfold. cbn [fst accepted]. rewrite app_assoc. apply IH.
      + intros y Hy. apply Hi. right. exact Hy.
      + apply shape_step; auto. apply Hi. left. reflexivity.
      + apply extra_step; auto. apply Hi. left. reflexivity.
  Qed.
End Extra.

(* the hypothesis on a history: one header and one arrival time per hash (a re-delivery is the
   same addition again), and no added header has the hash of the initial root *)
Definition one_addition_per_hash (h : N) (ops : list op) : Prop :=
  (forall hd a hd' a', In (OAdd hd a) ops -> In (OAdd hd' a') ops ->
                       h_hash hd = h_hash hd' -> hd = hd' /\ a = a')
  /\ (forall hd a, In (OAdd hd a) ops -> h_hash hd <> h).

Lemma one_addition_determines h ops : one_addition_per_hash h ops -> hashes_determine_headers h ops.
Proof.
  intros (H1 & H2). split; auto. intros hd a hd' a' Hi Hi' E.
  destruct (H1 hd a hd' a' Hi Hi' E) as (-> & _). reflexivity.
Qed.

Lemma records_in ops b : In b (records ops) ->
  exists hd a, In (OAdd hd a) ops /\ blk_of_op (OAdd hd a) = [b] /\ b_hash b = h_hash hd.
Proof.
  unfold records. intros H. apply in_flat_map in H as (o & Ho & Hb). destruct o as [hd a|f]; [|contradiction].
  exists hd, a. split; auto. simpl in *.
  destruct (if h_number hd =? 0 then Ok false else is_primary (h_digest hd)); try contradiction.
  destruct Hb as [<-|[]]. auto.
Qed.

Lemma records_functional h ops b b' : one_addition_per_hash h ops ->
  In b (records ops) -> In b' (records ops) -> b_hash b = b_hash b' -> b = b'.
Proof.
  intros (H1 & _) Hb Hb' E.
  destruct (records_in ops b Hb) as (hd & a & Hi & Eb & Eh).
  destruct (records_in ops b' Hb') as (hd' & a' & Hi' & Eb' & Eh').
  destruct (H1 hd a hd' a' Hi Hi') as (-> & ->); [congruence|]. congruence.
Qed.

Lemma records_perm ops1 ops2 : Permutation ops1 ops2 -> Permutation (records ops1) (records ops2).
Proof. apply flat_map_perm. Qed.

Lemma one_addition_perm h ops1 ops2 : Permutation ops1 ops2 ->
  one_addition_per_hash h ops1 -> one_addition_per_hash h ops2.
Proof.
  intros P (H1 & H2). pose proof (Permutation_sym P) as P'. split.
  - intros hd a hd' a' Hi Hi'. apply H1; eapply Permutation_in; eauto.
  - intros hd a Hi. eapply H2. eapply Permutation_in; eauto.
Qed.

(* every addition that matters for the root r is accepted: a record of the history whose block is
   reached from r through the parent links of the records *)
Definition accepts_below (h x : N) (ops : list op) (r : N) : Prop :=
  forall b, In b (records ops) -> b_hash b <> r -> descends (records ops) r (b_hash b) ->
            In b (accepted (mkSst h x []) ops).

Section Two.
  Variables (h x : N) (ops1 ops2 : list op).
  Hypothesis P : Permutation ops1 ops2.
  Hypothesis H1 : one_addition_per_hash h ops1.

  Let s1 := spec_after h x ops1.
  Let s2 := spec_after h x ops2.
  Let A1 := accepted (mkSst h x []) ops1.
  Let A2 := accepted (mkSst h x []) ops2.

  Hypothesis Hr : s_root s1 = s_root s2.
  Hypothesis Hacc1 : accepts_below h x ops1 (s_root s1).
  Hypothesis Hacc2 : accepts_below h x ops2 (s_root s2).

  Lemma invs ops : one_addition_per_hash h ops ->
    shape_inv h ops (accepted (mkSst h x []) ops) (spec_after h x ops)
    /\ extra_inv h x ops (accepted (mkSst h x []) ops) (spec_after h x ops).
  Proof.
    intros Ho. destruct (one_addition_determines h ops Ho) as (Hu & Hro).
    assert (I0 : shape_inv h ops [] (mkSst h x [])).
    { constructor; simpl.
      - exists (new_tree h x 0%Z). apply sim_new_tree.
      - intros b [].
      - intros b [].
      - left. reflexivity.
      - intros b [].
      - intros b []. }
    assert (X0 : extra_inv h x ops [] (mkSst h x [])).
    { constructor; simpl; [constructor|intros b []|left; auto]. }
    exact (both_run h x ops Hu Hro ops [] (mkSst h x []) (incl_refl _) I0 X0).
  Qed.

  (* the chain below r in the records is made of accepted records *)
  Lemma descends_accepted ops r : accepts_below h x ops r ->
    forall y, descends (records ops) r y -> descends (accepted (mkSst h x []) ops) r y.
  Proof.
    intros Ha y H. induction H as [|b Hd IH Hb]; [constructor|].
    destruct (N.eq_dec (b_hash b) r) as [->|Hne]; [constructor|].
    apply d_step; auto. apply Ha; auto. apply d_step; auto.
  Qed.

  (* membership in the held blocks, in terms of the records only *)
  Lemma held_iff ops : one_addition_per_hash h ops ->
    accepts_below h x ops (s_root (spec_after h x ops)) ->
    forall b, In b (s_blocks (spec_after h x ops)) <->
              In b (records ops) /\ b_hash b <> s_root (spec_after h x ops)
              /\ descends (records ops) (s_root (spec_after h x ops)) (b_hash b).
  Proof.
    intros Ho Ha b. destruct (invs ops Ho) as (I & X).
    set (s := spec_after h x ops) in *. set (A := accepted (mkSst h x []) ops) in *.
    destruct (sh_reach _ _ _ _ I) as (t & S). pose proof (sim_swf _ _ S) as SW.
    split.
    - intros Hb. pose proof (sh_held _ _ _ _ I b Hb) as HbA. split; [apply (ex_rec _ _ _ _ _ X); auto|]. split.
      + intro E. unfold swf, s_hashes in SW. inversion SW as [|? ? Hn _]; subst. apply Hn.
        rewrite <- E. apply in_map. exact Hb.
      + apply (descends_incl A); [intros c Hc; apply (ex_rec _ _ _ _ _ X); auto|].
        apply (shape_holds h ops A s I). unfold s_hashes. right. apply in_map. exact Hb.
    - intros (Hrec & Hne & Hd).
      pose proof (descends_accepted ops _ Ha _ Hd) as HdA. fold A in HdA.
      apply (shape_holds h ops A s I) in HdA. unfold s_hashes in HdA.
      destruct HdA as [E|Hin]; [congruence|].
      apply in_map_iff in Hin as (b' & E' & Hb').
      assert (b' = b).
      { apply (records_functional h ops b' b Ho); auto.
        apply (ex_rec _ _ _ _ _ X). apply (sh_held _ _ _ _ I). exact Hb'. }
      subst b'. exact Hb'.
  Qed.

  Theorem same_blocks : seq s1 s2.
  Proof.
    pose proof (one_addition_perm h _ _ P H1) as H2.
    destruct (invs ops1 H1) as (I1 & X1). destruct (invs ops2 H2) as (I2 & X2).
    fold s1 A1 in I1, X1. fold s2 A2 in I2, X2.
    pose proof (records_perm _ _ P) as PR.
    assert (Hin12 : forall b, In b (records ops1) <-> In b (records ops2)).
    { intros b. split; intros Hb;
        [apply (Permutation_in _ PR Hb)|apply (Permutation_in _ (Permutation_sym PR) Hb)]. }
    assert (Hd12 : forall y, descends (records ops1) (s_root s1) y <-> descends (records ops2) (s_root s2) y).
    { intros y. rewrite <- Hr. split; apply descends_incl; intros c Hc; apply Hin12; auto. }
    split; [exact Hr|]. split.
    - (* the root's number *)
      destruct (ex_rootnum _ _ _ _ _ X1) as [(E1 & N1)|(b1 & Hb1 & E1 & N1)];
      destruct (ex_rootnum _ _ _ _ _ X2) as [(E2 & N2)|(b2 & Hb2 & E2 & N2)].
      + congruence.
      + exfalso. destruct (sh_origin _ _ _ _ I2 b2 Hb2) as (hd & a & Hi & Eh & _).
        destruct H2 as (_ & H2r). apply (H2r hd a Hi). congruence.
      + exfalso. destruct (sh_origin _ _ _ _ I1 b1 Hb1) as (hd & a & Hi & Eh & _).
        destruct H1 as (_ & H1r). apply (H1r hd a Hi). congruence.
      + assert (b1 = b2).
        { apply (records_functional h ops2 b1 b2 H2).
          - apply Hin12. apply (ex_rec _ _ _ _ _ X1). auto.
          - apply (ex_rec _ _ _ _ _ X2). auto.
          - congruence. }
        subst b2. congruence.
    - destruct (sh_reach _ _ _ _ I1) as (t1 & S1). destruct (sh_reach _ _ _ _ I2) as (t2 & S2).
      apply NoDup_Permutation.
      + apply (NoDup_map_NoDup b_hash). apply swf_keys. apply (sim_swf _ _ S1).
      + apply (NoDup_map_NoDup b_hash). apply swf_keys. apply (sim_swf _ _ S2).
      + intros b. unfold s1, s2. rewrite (held_iff ops1 H1 Hacc1 b), (held_iff ops2 H2 Hacc2 b).
        fold s1 s2. rewrite Hin12, Hd12, Hr. reflexivity.
  Qed.
End Two.

(* the tree model: same best block, whatever the iteration orders *)
Theorem interleavings_same_best h x a1 a2 ops1 ops2 pi1 sigma1 pi2 sigma2 :
  Permutation ops1 ops2 ->
  one_addition_per_hash h ops1 ->
  nhash (root (tree_after h x a1 ops1)) = nhash (root (tree_after h x a2 ops2)) ->
  accepts_below h x ops1 (nhash (root (tree_after h x a1 ops1))) ->
  accepts_below h x ops2 (nhash (root (tree_after h x a2 ops2))) ->
  permuting pi1 -> permuting sigma1 -> permuting pi2 -> permuting sigma2 ->
  best_block_hash_ord pi1 sigma1 (tree_after h x a1 ops1) =
  best_block_hash_ord pi2 sigma2 (tree_after h x a2 ops2)
  /\ Permutation (get_all_blocks (tree_after h x a1 ops1)) (get_all_blocks (tree_after h x a2 ops2)).
Proof.
  intros P H1 Hr Ha1 Ha2 Hp1 Hs1 Hp2 Hs2.
  pose proof (sim_after h x a1 ops1) as S1. pose proof (sim_after h x a2 ops2) as S2.
  assert (E1 : nhash (root (tree_after h x a1 ops1)) = s_root (spec_after h x ops1))
    by (destruct S1 as (_ & (E & _)); exact E).
  assert (E2 : nhash (root (tree_after h x a2 ops2)) = s_root (spec_after h x ops2))
    by (destruct S2 as (_ & (E & _)); exact E).
  rewrite E1 in Ha1, Hr. rewrite E2 in Ha2, Hr.
  pose proof (same_blocks h x ops1 ops2 P H1 Hr Ha1 Ha2) as Q. split.
  - rewrite (sim_best_block_hash _ _ _ _ S1 Hp1 Hs1), (sim_best_block_hash _ _ _ _ S2 Hp2 Hs2).
    rewrite (seq_best_hash _ _ Q (sim_swf _ _ S1)). reflexivity.
  - eapply Permutation_trans; [apply (sim_blocks _ _ S1)|].
    eapply Permutation_trans; [|apply Permutation_sym; apply (sim_blocks _ _ S2)].
    apply seq_hashes; auto; apply (sim_swf _ _ S1).
Qed.

(* ------------------------------------------------------------------ a checkable special case *)

(* every AddBlock of the history answered nil (finalisations are not constrained here) *)
Definition adds_ok (rs : list opres) : Prop :=
  Forall (fun r => match r with RAdd x => x = Ok tt | RFin _ => True end) rs.

Definition fin_targets (ops : list op) : list N :=
  flat_map (fun o => match o with OFin f => [f] | OAdd _ _ => [] end) ops.

(* every finalisation targets a block that is held when it is requested *)
Fixpoint fins_known (s : sst) (ops : list op) : Prop :=
  match ops with
  | [] => True
  | o :: r => (match o with OFin f => s_known s f = true | OAdd _ _ => True end)
              /\ fins_known (fst (s_step s o)) r
  end.

Lemma accepted_all ops : forall s, adds_ok (snd (s_run s ops)) -> accepted s ops = records ops.
Proof.
  induction ops as [|o r IH]; intros s H; [reflexivity|].
  rewrite s_run_unfold in H. cbn [snd] in H. inversion H as [|? ? Ho Hr]; subst.
  cbn [accepted]. unfold records. cbn [flat_map]. fold (records r). rewrite (IH _ Hr). f_equal.
  destruct o as [hd a|f]; [|reflexivity]. simpl in Ho.
  destruct (s_add s hd a) as [s'| | |] eqn:Ea; simpl in Ho; try discriminate.
  destruct (accepted_of_add s hd a s' Ea) as (b & -> & ->). reflexivity.
Qed.

Lemma root_after_fins ops : forall s, fins_known s ops ->
  s_root (fst (s_run s ops)) = last (fin_targets ops) (s_root s).
Proof.
  induction ops as [|o r IH]; intros s H; [reflexivity|].
  rewrite s_run_unfold. cbn [fst]. destruct H as (Ho & Hr). rewrite (IH _ Hr).
  destruct o as [hd a|f].
  - cbn [fin_targets flat_map app]. fold (fin_targets r). f_equal.
    simpl. destruct (s_add s hd a) as [s'| | |] eqn:Ea; simpl; auto.
    destruct (s_add_ok s hd a s' Ea) as (prim & -> & _). reflexivity.
  - assert (Ef : s_root (fst (s_step s (OFin f))) = f).
    { simpl. unfold s_fin. destruct (N.eqb_spec f (s_root s)) as [->|Hne]; [reflexivity|].
      unfold s_known in Ho. destruct (N.eqb_spec f (s_root s)); [contradiction|]. simpl in Ho.
      destruct (s_find s f); [reflexivity|discriminate]. }
    rewrite Ef. cbn [fin_targets flat_map app]. fold (fin_targets r).
    destruct (fin_targets r) as [|g l] eqn:El; [reflexivity|].
    change (last (f :: g :: l) (s_root s)) with (last (g :: l) (s_root s)).
    clear. revert g. induction l as [|k l IHl]; intros g; [reflexivity|].
    change (last (g :: k :: l) f) with (last (k :: l) f).
    change (last (g :: k :: l) (s_root s)) with (last (k :: l) (s_root s)). apply IHl.
Qed.

Lemma adds_ok_transfer h x a ops :
  adds_ok (snd (run (new_tree h x a) ops)) -> adds_ok (snd (s_run (mkSst h x []) ops)).
Proof.
  pose proof (results_after h x a ops) as R. unfold adds_ok.
  revert R. generalize (snd (run (new_tree h x a) ops)) (snd (s_run (mkSst h x []) ops)).
  intros l1 l2 R. induction R as [|r1 r2 l1 l2 Hr R IH]; intros H; [constructor|].
  inversion H; subst. constructor; auto.
  destruct r1, r2; simpl in Hr; try contradiction; auto. congruence.
Qed.

(* Two interleavings of the same additions and the same finalisation events (same targets in the
   same order, each held when requested), every addition accepted in both: same blocks held, same
   best block, whatever the iteration orders. *)
Theorem interleavings_with_finalisations h x a1 a2 ops1 ops2 pi1 sigma1 pi2 sigma2 :
  Permutation ops1 ops2 ->
  one_addition_per_hash h ops1 ->
  adds_ok (snd (run (new_tree h x a1) ops1)) ->
  adds_ok (snd (run (new_tree h x a2) ops2)) ->
  fin_targets ops1 = fin_targets ops2 ->
  fins_known (mkSst h x []) ops1 -> fins_known (mkSst h x []) ops2 ->
  permuting pi1 -> permuting sigma1 -> permuting pi2 -> permuting sigma2 ->
  best_block_hash_ord pi1 sigma1 (tree_after h x a1 ops1) =
  best_block_hash_ord pi2 sigma2 (tree_after h x a2 ops2)
  /\ Permutation (get_all_blocks (tree_after h x a1 ops1)) (get_all_blocks (tree_after h x a2 ops2)).
Proof.
  intros P H1 Ha1 Ha2 Ef Hk1 Hk2 Hp1 Hs1 Hp2 Hs2.
  pose proof (sim_after h x a1 ops1) as S1. pose proof (sim_after h x a2 ops2) as S2.
  assert (E1 : nhash (root (tree_after h x a1 ops1)) = s_root (spec_after h x ops1))
    by (destruct S1 as (_ & (E & _)); exact E).
  assert (E2 : nhash (root (tree_after h x a2 ops2)) = s_root (spec_after h x ops2))
    by (destruct S2 as (_ & (E & _)); exact E).
  apply interleavings_same_best; auto.
  - rewrite E1, E2. unfold spec_after. rewrite (root_after_fins ops1 _ Hk1), (root_after_fins ops2 _ Hk2), Ef.
    reflexivity.
  - intros b Hb _ _. rewrite (accepted_all ops1 _ (adds_ok_transfer h x a1 ops1 Ha1)). exact Hb.
  - intros b Hb _ _. rewrite (accepted_all ops2 _ (adds_ok_transfer h x a2 ops2 Ha2)). exact Hb.
Qed.
