(* BlockTree/ProofsHist.v — statements over histories: reachable states, the relational
   reading of "descends", exactness of the pruned set, independence of the insertion order. *)
From Coq Require Import List NArith ZArith Bool Lia Permutation.
From Common Require Import Outcome.
From BlockTree Require Import Model Spec ProofsTree ProofsPath ProofsSpec ProofsSim ProofsQuery ProofsBest.
Import ListNotations.
Local Open Scope N_scope.

(* the states reached from NewBlockTreeFromRoot(h, x) by a history *)
Definition tree_after (h x : N) (a : Z) (ops : list op) : btree := fst (run (new_tree h x a) ops).
Definition spec_after (h x : N) (ops : list op) : sst := fst (s_run (mkSst h x []) ops).

Lemma sim_after h x a ops : sim (tree_after h x a ops) (spec_after h x ops).
Proof. apply sim_run. apply sim_new_tree. Qed.

Lemma results_after h x a ops :
  Forall2 res_eq (snd (run (new_tree h x a) ops)) (snd (s_run (mkSst h x []) ops)).
Proof. apply sim_run. apply sim_new_tree. Qed.

(* ------------------------------------------------------------------ descends = s_desc *)

Lemma abs_desc_complete t a c : wf t -> descends (edges (root t)) a c -> s_desc (abs t) a c = true.
Proof.
  intros (U & _ & _) H. induction H as [|b Hd IH Hb].
  - unfold s_desc. destruct (length _); simpl; rewrite N.eqb_refl; reflexivity.
  - apply edge_node in Hb as (x & k & Hx & Hk & Hkn & ->). simpl in *.
    destruct (in_dec N.eq_dec a (all_hashes (root t))) as [Ha|Ha].
    + apply in_hashes_nodes in Ha as (m & Hm & Hma).
      apply (s_desc_subtree t a (nhash x) m U Hm Hma) in IH; [|apply node_hash_in; auto].
      apply (s_desc_subtree t a (nhash k) m U Hm Hma); [apply node_hash_in; auto|].
      apply in_hashes_nodes in IH as (x' & Hx' & Hxh).
      assert (x' = x).
      { apply (node_eq_of_hash (root t)); auto. apply (all_nodes_trans (root t) m x'); auto. }
      subst x'. apply node_hash_in. eapply all_nodes_trans; eauto.
      eapply all_nodes_child; eauto. apply all_nodes_self.
    + (* a is not a block: only a itself descends from it, and a is not the parent of a block *)
      rewrite s_desc_chain in IH. apply existsb_eqb_in in IH.
      destruct (path_to (nhash x) (root t)) as [p|] eqn:Ep.
      * rewrite (s_chain_path t p _ U Ep) in IH. apply in_rev in IH.
        apply in_map_iff in IH as (y & Hy & Hin). exfalso. apply Ha. rewrite <- Hy.
        destruct (path_to_is_path _ _ _ Ep) as (e & Hp & _).
        apply node_hash_in. eapply is_path_nodes; eauto.
      * apply path_to_none in Ep. exfalso. apply Ep. apply node_hash_in; auto.
Qed.

Lemma descends_perm l1 l2 a c : Permutation l1 l2 -> descends l1 a c -> descends l2 a c.
Proof.
  intros P H. induction H; [constructor|]. apply d_step; auto. eapply Permutation_in; eauto.
Qed.

Theorem sim_desc_iff t s a c : sim t s -> (s_desc s a c = true <-> descends (s_blocks s) a c).
Proof.
  intros (W & E). split.
  - apply anc_fuel_sound.
  - intros H. rewrite <- (seq_desc _ _ E (abs_swf t (proj1 W))).
    apply abs_desc_complete; auto. destruct E as (_ & _ & P).
    eapply descends_perm; [apply Permutation_sym; exact P|]. exact H.
Qed.

(* ------------------------------------------------------------------ the pruned set *)

Theorem sim_prune_exact t s f : sim t s -> s_known s f = true -> f <> s_root s ->
  let pruned := snd (prune t f) in
  NoDup pruned /\
  forall y, In y pruned <->
            (In y (s_hashes s) /\ ~ descends (s_blocks s) f y /\ ~ descends (s_blocks s) y f).
Proof.
  intros H Hk Hne pruned. pose proof H as (W & E). pose proof (sim_swf _ _ H) as SW.
  destruct (prune_abs t f W) as (_ & _ & P1).
  destruct (seq_fin _ _ f E (abs_swf t (proj1 W))) as (_ & P2).
  assert (P : Permutation pruned (snd (s_fin s f))) by (eapply Permutation_trans; eauto).
  unfold s_fin in P. destruct (N.eqb_spec f (s_root s)) as [|_]; [contradiction|].
  unfold s_known in Hk. destruct (N.eqb_spec f (s_root s)) as [|_]; [contradiction|]. simpl in Hk.
  destruct (s_find s f) as [fb|] eqn:Ef; [|discriminate]. simpl in P.
  split.
  - eapply Permutation_NoDup; [apply Permutation_sym; exact P|].
    apply NoDup_map_filter. apply swf_keys; auto.
  - intros y. split.
    + intros Hy. apply (Permutation_in _ P) in Hy. apply in_map_iff in Hy as (b & <- & Hb).
      apply filter_In in Hb as (Hb & Hc). apply andb_true_iff in Hc as (C1 & C2).
      apply negb_true_iff in C1, C2. repeat split.
      * right. apply in_map; auto.
      * intro D. apply (sim_desc_iff t s _ _ H) in D. congruence.
      * intro D. apply (sim_desc_iff t s _ _ H) in D. congruence.
    + intros (Hy & D1 & D2). apply (Permutation_in _ (Permutation_sym P)).
      destruct Hy as [<-|Hy].
      * (* the root is an ancestor of every block *)
        exfalso. apply D2. apply (sim_desc_iff t s _ _ H).
        pose proof (abs_swf t (proj1 W)) as SWa.
        rewrite <- (seq_desc _ _ E SWa).
        assert (Er : s_root s = nhash (root t)) by (destruct E as (Er & _); rewrite <- Er; reflexivity).
        rewrite Er.
        assert (Hf : In f (all_hashes (root t))).
        { rewrite <- abs_hashes.
          apply (Permutation_in _ (Permutation_sym (seq_hashes _ _ E))).
          right. apply find_blk_some in Ef as (Hi & <-). apply in_map; auto. }
        apply (s_desc_subtree t (nhash (root t)) f (root t) (proj1 W) (all_nodes_self _) eq_refl Hf). exact Hf.
      * apply in_map_iff in Hy as (b & <- & Hb). apply in_map. apply filter_In. split; auto.
        apply andb_true_iff. split; apply negb_true_iff.
        -- destruct (s_desc s f (b_hash b)) eqn:D; auto. apply (sim_desc_iff t s _ _ H) in D. contradiction.
        -- destruct (s_desc s (b_hash b) f) eqn:D; auto. apply (sim_desc_iff t s _ _ H) in D. contradiction.
Qed.

(* after Prune the tree holds exactly the descendants of the finalised block *)
Theorem sim_prune_keeps t s f : sim t s -> s_known s f = true -> f <> s_root s ->
  forall y, In y (get_all_blocks (fst (prune t f))) <-> (In y (s_hashes s) /\ descends (s_blocks s) f y).
Proof.
  intros H Hk Hne y. pose proof H as (W & E). pose proof (sim_swf _ _ H) as SW.
  pose proof (sim_step t s (OFin f) H) as (H' & _). simpl in H'.
  destruct (prune t f) as [t' pr] eqn:Ep. destruct (s_fin s f) as [s' pr'] eqn:Es. simpl in *.
  assert (Hiff : In y (get_all_blocks t') <-> In y (s_hashes s')).
  { split; apply Permutation_in; [|apply Permutation_sym]; apply (sim_blocks _ _ H'). }
  rewrite Hiff. clear Hiff.
  unfold s_fin in Es. destruct (N.eqb_spec f (s_root s)) as [|_]; [contradiction|].
  unfold s_known in Hk. destruct (N.eqb_spec f (s_root s)) as [|_]; [contradiction|]. simpl in Hk.
  destruct (s_find s f) as [fb|] eqn:Ef; [|discriminate]. inversion Es; subst s' pr'. clear Es.
  unfold s_hashes. simpl. apply find_blk_some in Ef as (Hfb & Hfh).
  split.
  - intros [<-|Hy].
    + split; [right; rewrite <- Hfh; apply in_map; auto|constructor].
    + apply in_map_iff in Hy as (b & <- & Hb). apply filter_In in Hb as (Hb & D).
      split; [right; apply in_map; auto|]. apply d_step; auto. apply (sim_desc_iff t s _ _ H). exact D.
  - intros (Hy & D). destruct (N.eq_dec y f) as [->|Hyf]; [left; reflexivity|]. right.
    inversion D as [|b Db Hb Eb]; [congruence|]. subst y. apply in_map. apply filter_In. split; auto.
    apply (sim_desc_iff t s _ _ H). exact Db.
Qed.

(* ------------------------------------------------------------------ insertion order (C16) *)

(* the block an accepted AddBlock contributes *)
Definition blk_of_op (o : op) : list blk :=
  match o with
  | OAdd hd a =>
    match (if h_number hd =? 0 then Ok false else is_primary (h_digest hd)) with
    | Ok prim => [mkBlk (h_hash hd) (h_parent hd) (h_number hd) a prim]
    | _ => []
    end
  | OFin _ => []
  end.

Definition all_adds_ok (rs : list opres) : Prop := Forall (fun r => r = RAdd (Ok tt)) rs.

Lemma s_run_adds ops : forall s, all_adds_ok (snd (s_run s ops)) ->
  s_root (fst (s_run s ops)) = s_root s /\ s_rootnum (fst (s_run s ops)) = s_rootnum s /\
  s_blocks (fst (s_run s ops)) = s_blocks s ++ flat_map blk_of_op ops.
Proof.
  induction ops as [|o r IH]; intros s H.
  - simpl. rewrite app_nil_r. auto.
  - rewrite s_run_unfold in *. simpl in H. inversion H as [|? ? H1 H2]; subst.
    destruct (IH _ H2) as (A & B & C). cbn [fst]. rewrite A, B, C. clear IH H2 A B C H.
    destruct o as [hd a|f]; simpl in *.
    + unfold s_add in *. destruct (s_number s (h_parent hd)); [|discriminate].
      destruct (s_known s (h_hash hd)); [discriminate|]. destruct (negb _); [discriminate|].
      destruct (if h_number hd =? 0 then Ok false else is_primary (h_digest hd)); try discriminate.
      simpl. rewrite <- app_assoc. auto.
    + destruct (s_fin s f); discriminate.
Qed.

Theorem insertion_order_free h x a1 a2 ops1 ops2 pi1 sigma1 pi2 sigma2 :
  Permutation ops1 ops2 ->
  all_adds_ok (snd (run (new_tree h x a1) ops1)) ->
  all_adds_ok (snd (run (new_tree h x a2) ops2)) ->
  permuting pi1 -> permuting sigma1 -> permuting pi2 -> permuting sigma2 ->
  best_block_hash_ord pi1 sigma1 (tree_after h x a1 ops1) =
  best_block_hash_ord pi2 sigma2 (tree_after h x a2 ops2).
Proof.
  intros P H1 H2 Hp1 Hs1 Hp2 Hs2.
  rewrite (sim_best_block_hash _ _ _ _ (sim_after h x a1 ops1) Hp1 Hs1).
  rewrite (sim_best_block_hash _ _ _ _ (sim_after h x a2 ops2) Hp2 Hs2).
  assert (T : forall a ops, all_adds_ok (snd (run (new_tree h x a) ops)) ->
                            all_adds_ok (snd (s_run (mkSst h x []) ops))).
  { intros a ops H. pose proof (results_after h x a ops) as R. unfold all_adds_ok in *.
    revert H R. generalize (snd (run (new_tree h x a) ops)) (snd (s_run (mkSst h x []) ops)).
    intros l1 l2 H R. induction R as [|r1 r2 l1 l2 Hr R IH]; [constructor|].
    inversion H; subst. constructor; auto. destruct r2; simpl in Hr; [congruence|contradiction]. }
  destruct (s_run_adds ops1 _ (T _ _ H1)) as (A1 & B1 & C1).
  destruct (s_run_adds ops2 _ (T _ _ H2)) as (A2 & B2 & C2).
  unfold spec_after. rewrite (seq_best_hash (fst (s_run (mkSst h x []) ops1)) (fst (s_run (mkSst h x []) ops2))).
  - reflexivity.
  - repeat split; try congruence. rewrite C1, C2. simpl. apply flat_map_perm. exact P.
  - apply (sim_swf _ _ (sim_after h x a1 ops1)).
Qed.
