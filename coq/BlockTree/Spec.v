(* BlockTree/Spec.v — the abstract specification the block tree is checked against:
   a SET OF BLOCKS WITH A PARENT FUNCTION.  The state is the last finalised block (root) and the
   list of the other blocks held, each with the parent hash, number, arrival time and primary
   mark its header declared.  Everything is defined by walking parent links; there is no tree.
   All functions are executable: the driver evaluates the [check_*] predicates on the
   implementation's observables, the theorems in Proofs*.v state them about the model. *)
From Coq Require Import List NArith ZArith Bool.
From Common Require Import Outcome.
From BlockTree Require Import Model.
Import ListNotations.
Local Open Scope N_scope.

Record blk := mkBlk {
  b_hash : N; b_parent : N; b_number : N; b_arrival : Z; b_primary : bool }.

Record sst := mkSst { s_root : N; s_rootnum : N; s_blocks : list blk }.

Definition find_blk (bl : list blk) (h : N) : option blk := find (fun b => b_hash b =? h) bl.
Definition s_find (s : sst) (h : N) : option blk := find_blk (s_blocks s) h.
Definition s_known (s : sst) (h : N) : bool :=
  (h =? s_root s) || match s_find s h with Some _ => true | None => false end.
Definition s_number (s : sst) (h : N) : option N :=
  if h =? s_root s then Some (s_rootnum s) else option_map b_number (s_find s h).
Definition s_hashes (s : sst) : list N := s_root s :: map b_hash (s_blocks s).

(* "c descends from a" (reflexively): walk the parent links upward from c looking for a *)
Fixpoint anc_fuel (fuel : nat) (bl : list blk) (a c : N) : bool :=
  if a =? c then true
  else match fuel with
       | O => false
       | S f => match find_blk bl c with
                | Some b => anc_fuel f bl a (b_parent b)
                | None => false
                end
       end.
Definition s_desc (s : sst) (a c : N) : bool := anc_fuel (length (s_blocks s)) (s_blocks s) a c.

(* the chain [h; parent h; ...] up to the root (the walk stops at a hash that is not a block) *)
Fixpoint chain_fuel (fuel : nat) (bl : list blk) (h : N) : list N :=
  h :: match fuel with
       | O => []
       | S f => match find_blk bl h with
                | Some b => chain_fuel f bl (b_parent b)
                | None => []
                end
       end.
Definition s_chain (s : sst) (h : N) : list N := chain_fuel (length (s_blocks s)) (s_blocks s) h.

(* ------------------------------------------------------------------ transitions *)

Definition s_add (s : sst) (hd : header) (arrival : Z) : outcome sst :=
  match s_number s (h_parent hd) with
  | None => Err e_parent_not_found
  | Some pn =>
    if s_known s (h_hash hd) then Err e_block_exists
    else if negb (pn + 1 =? h_number hd) then Err e_unexpected_number
    else match (if h_number hd =? 0 then Ok false else is_primary (h_digest hd)) with
         | Ok prim =>
           Ok (mkSst (s_root s) (s_rootnum s)
                     (s_blocks s ++ [mkBlk (h_hash hd) (h_parent hd) (h_number hd) arrival prim]))
         | _ => Err e_is_primary
         end
  end.

(* finalising h: keep the blocks whose parent descends from h; report as pruned the blocks that
   are neither descendants nor ancestors of h *)
Definition s_fin (s : sst) (h : N) : sst * list N :=
  if h =? s_root s then (s, [])
  else match s_find s h with
       | None => (s, [])
       | Some fb =>
         (mkSst h (b_number fb) (filter (fun b => s_desc s h (b_parent b)) (s_blocks s)),
          map b_hash (filter (fun b => negb (s_desc s h (b_hash b)) && negb (s_desc s (b_hash b) h))
                             (s_blocks s)))
       end.

Definition s_step (s : sst) (o : op) : sst * opres :=
  match o with
  | OAdd hd a =>
    match s_add s hd a with
    | Ok s' => (s', RAdd (Ok tt))
    | Err c => (s, RAdd (Err c))
    | Panic => (s, RAdd Panic)
    | OutOfFuel => (s, RAdd OutOfFuel)
    end
  | OFin h => let '(s', p) := s_fin s h in (s', RFin p)
  end.

Fixpoint s_run (s : sst) (ops : list op) : sst * list opres :=
  match ops with
  | [] => (s, [])
  | o :: r => let '(s1, x) := s_step s o in let '(s2, xs) := s_run s1 r in (s2, x :: xs)
  end.

(* ------------------------------------------------------------------ derived sets *)

Definition s_leaves (s : sst) : list N :=
  filter (fun h => negb (existsb (fun b => b_parent b =? h) (s_blocks s))) (s_hashes s).

(* ------------------------------------------------------------------ fork choice (C16) *)

(* primary blocks on the chain of h, the root excluded *)
Fixpoint pcount_fuel (fuel : nat) (bl : list blk) (h : N) : N :=
  match fuel with
  | O => 0
  | S f => match find_blk bl h with
           | Some b => (if b_primary b then 1 else 0) + pcount_fuel f bl (b_parent b)
           | None => 0
           end
  end.
Definition s_pcount (s : sst) (h : N) : N := pcount_fuel (length (s_blocks s)) (s_blocks s) h.

(* a is strictly better than b: more primaries, then greater number, then earlier arrival, then
   lower hash *)
Definition better (a b : linfo) : bool :=
  if l_count b <? l_count a then true
  else if l_count a <? l_count b then false
  else if l_number b <? l_number a then true
  else if l_number a <? l_number b then false
  else if (l_arrival a <? l_arrival b)%Z then true
  else if (l_arrival b <? l_arrival a)%Z then false
  else l_hash a <? l_hash b.

Definition argmax (l : list linfo) : option linfo :=
  fold_left (fun acc x => match acc with
                          | None => Some x
                          | Some y => if better x y then Some x else Some y
                          end) l None.

Definition s_leaf_infos (s : sst) : list linfo :=
  flat_map (fun h => match s_find s h with
                     | Some b => [mkLinfo (s_pcount s h) (b_number b) (b_arrival b) h]
                     | None => []
                     end) (s_leaves s).

Definition s_best (s : sst) : option linfo := argmax (s_leaf_infos s).

(* BestBlockHash: the root when there is no other block *)
Definition s_best_hash (s : sst) : option N :=
  match s_blocks s with
  | [] => Some (s_root s)
  | _ => option_map l_hash (s_best s)
  end.

(* ------------------------------------------------------------------ queries *)

Definition s_is_descendant_of (s : sst) (parent child : N) : outcome bool :=
  if parent =? child then Ok true
  else if negb (s_known s parent) then Err e_start_not_found
  else if negb (s_known s child) then Err e_end_not_found
  else Ok (s_desc s parent child).

(* lowest common ancestor: the first block on the chain of a from which b descends *)
Definition s_lca (s : sst) (a b : N) : outcome N :=
  if negb (s_known s a) || negb (s_known s b) then Err e_node_not_found
  else match find (fun x => s_desc s x b) (s_chain s a) with
       | Some x => Ok x
       | None => Panic
       end.

(* the parent-linked chain from a down to e (both included), when a is an ancestor of e *)
Definition s_path (s : sst) (a e : N) : option (list N) :=
  if s_desc s a e then
    (fix upto (l : list N) : option (list N) :=
       match l with
       | [] => None
       | x :: r => if x =? a then Some [x]
                   else match upto r with Some p => Some (p ++ [x]) | None => None end
       end) (s_chain s e)
  else None.

(* Range(start, end): an unknown start stands for the root.  An answer must be the parent-linked
   chain; when there is none (start is not an ancestor of end) it must be an error. *)
Definition list_eqb (l1 l2 : list N) : bool :=
  (length l1 =? length l2)%nat && forallb (fun p => fst p =? snd p) (combine l1 l2).

Definition check_range (s : sst) (a e : N) (r : outcome (list N)) : bool :=
  if negb (s_known s e) then match r with Err c => (c =? e_end_not_found)%nat | _ => false end
  else
    let a' := if s_known s a then a else s_root s in
    match s_path s a' e with
    | Some p => match r with Ok l => list_eqb l p | _ => false end
    | None => match r with Err _ => true | _ => false end
    end.

Definition check_range_in_memory (s : sst) (a e : N) (r : outcome (list N)) : bool :=
  if negb (s_known s e) then match r with Err c => (c =? e_end_not_found)%nat | _ => false end
  else if negb (s_known s a) then match r with Err c => (c =? e_start_not_found)%nat | _ => false end
  else match s_path s a e with
       | Some p => match r with Ok l => list_eqb l p | _ => false end
       | None => match r with Err _ => true | _ => false end
       end.

(* GetHashByNumber: the block with that number on the chain of the best block *)
Definition s_hash_by_number (s : sst) (num : N) : outcome N :=
  match s_best_hash s with
  | None => Panic
  | Some best =>
    match s_number s best with
    | None => Panic
    | Some bn =>
      if bn <? num then Err e_num_greater
      else if num <? s_rootnum s then Err e_num_lower
      else match find (fun x => match s_number s x with Some k => k =? num | None => false end)
                      (s_chain s best) with
           | Some x => Ok x
           | None => Err e_node_not_found
           end
    end
  end.

(* ------------------------------------------------------------------ set comparisons *)

Definition count_of (x : N) (l : list N) : nat := length (filter (N.eqb x) l).
Definition perm_eqb (l1 l2 : list N) : bool :=
  (length l1 =? length l2)%nat &&
  forallb (fun x => (count_of x l1 =? count_of x l2)%nat) l1.

(* the blocks reported by GetAllBlocks are exactly the blocks of the specification *)
Definition check_blocks (s : sst) (l : list N) : bool := perm_eqb l (s_hashes s).
Definition check_leaves (s : sst) (l : list N) : bool := perm_eqb l (s_leaves s).
(* pruned hashes: exactly the specified ones, each once *)
Definition check_pruned (expected got : list N) : bool := perm_eqb got expected.
(* GetAllDescendants(h) *)
Definition check_descendants (s : sst) (h : N) (r : outcome (list N)) : bool :=
  if s_known s h then
    match r with Ok l => perm_eqb l (filter (s_desc s h) (s_hashes s)) | _ => false end
  else match r with Err c => (c =? e_node_not_found)%nat | _ => false end.
(* GetHashesAtNumber: only soundness is part of the property (the implementation deliberately
   answers [] above the best block's number) *)
Definition check_at_number (s : sst) (num : N) (l : list N) : bool :=
  forallb (fun h => match s_number s h with Some k => k =? num | None => false end) l
  && forallb (fun h => (count_of h l =? 1)%nat) l.

(* abstraction of a model tree *)
Fixpoint edges (n : bnode) : list blk :=
  match n with
  | BNode h _ _ _ ch =>
    flat_map (fun c => mkBlk (nhash c) h (nnumber c) (narrival c) (nprimary c) :: edges c) ch
  end.
Definition abs (t : btree) : sst := mkSst (nhash (root t)) (nnumber (root t)) (edges (root t)).

(* used by the vm_compute cross-check of the drivers: the results of a history as the harness
   prints them (add outcomes as class numbers, 0 = ok; pruned lists) compared with expected ones *)
Definition res_code (r : opres) : N * list N :=
  match r with
  | RAdd (Ok _) => (0, [])
  | RAdd (Err c) => (N.of_nat c, [])
  | RAdd _ => (99, [])
  | RFin p => (100, p)
  end.
Definition res_eqb (a b : N * list N) : bool := (fst a =? fst b) && list_eqb (snd a) (snd b).
Fixpoint all2 {A} (e : A -> A -> bool) (l1 l2 : list A) : bool :=
  match l1, l2 with
  | [], [] => true
  | x :: r, y :: s => e x y && all2 e r s
  | _, _ => false
  end.
Definition run_matches (h x : N) (ops : list op) (expected : list (N * list N)) : bool :=
  all2 res_eqb (map res_code (snd (run (new_tree h x 0%Z) ops))) expected.

(* ------------------------------------------------------------------ additions (audit round) *)

(* GetHashesAtNumber, full strength: between the root's and the best block's number it reports
   exactly the held blocks with that number; outside it answers the empty list (the code's
   design) *)
Definition s_at_number (s : sst) (num : N) : list N :=
  filter (fun h => match s_number s h with Some k => k =? num | None => false end) (s_hashes s).

Definition check_at_number_full (s : sst) (num : N) (l : list N) : bool :=
  match s_best_hash s with
  | Some b =>
    match s_number s b with
    | Some bn =>
      if (num <? s_rootnum s) || (bn <? num) then (match l with [] => true | _ => false end)
      else perm_eqb l (s_at_number s num)
    | None => false
    end
  | None => false
  end.

(* the additions a history accepted, as block records, in order *)
Definition accepted_of (s : sst) (o : op) : list blk :=
  match o with
  | OAdd hd a => match s_add s hd a with
                 | Ok s' => skipn (length (s_blocks s)) (s_blocks s')
                 | _ => []
                 end
  | OFin _ => []
  end.

Fixpoint accepted (s : sst) (ops : list op) : list blk :=
  match ops with
  | [] => []
  | o :: r => accepted_of s o ++ accepted (fst (s_step s o)) r
  end.

(* used by the vm_compute cross-check of the C16 driver *)
Definition best_matches (h x : N) (ops : list op) (want : N) : bool :=
  match best_block_hash (fst (run (new_tree h x 0%Z) ops)) with
  | Ok b => b =? want
  | _ => false
  end.
