(* BlockTree/ProofsShape.v — the history-level reading of "the tree holds exactly the added
   blocks that descend from the last finalised block": over a whole history, the blocks held are
   the root and the ACCEPTED additions of the history that are reached from the current root
   through the parent links the accepted headers declared.  Stated on the specification
   (ProofsHist.v transfers it to the tree model through the simulation). *)
From Coq Require Import List NArith ZArith Bool Lia Permutation.
From Common Require Import Outcome.
From BlockTree Require Import Model Spec ProofsTree ProofsPath ProofsSpec ProofsSim ProofsQuery ProofsHist.
Import ListNotations.
Local Open Scope N_scope.

(* ------------------------------------------------------------------ small facts on the specification *)

Lemma sk_iff s x : s_known s x = true <-> x = s_root s \/ In x (map b_hash (s_blocks s)).
Proof.
  unfold s_known. rewrite orb_true_iff, N.eqb_eq. split; intros [H|H]; auto; right.
  - destruct (s_find s x) as [b|] eqn:E; [|discriminate]. apply find_blk_some in E as (Hi & <-).
    apply in_map; auto.
  - destruct (s_find s x) eqn:E; auto. apply find_blk_none in E. contradiction.
Qed.

Lemma sk_hashes s x : s_known s x = true <-> In x (s_hashes s).
Proof. rewrite sk_iff. unfold s_hashes. simpl. split; intros [H|H]; auto. Qed.

Lemma descends_incl l1 l2 a c : incl l1 l2 -> descends l1 a c -> descends l2 a c.
Proof. intros Hi H. induction H; [constructor|]. apply d_step; auto. Qed.

(* in a state that is the abstraction of a tree (up to the order of the blocks) every held block
   is reached from the root *)
Lemma sim_connected t s y : sim t s -> In y (s_hashes s) -> descends (s_blocks s) (s_root s) y.
Proof.
  intros S Hy. apply (sim_desc_iff _ _ _ _ S). destruct S as (W & E). pose proof W as (U & _).
  rewrite <- (seq_desc _ _ E (abs_swf _ U)).
  assert (Er : s_root s = nhash (root t)) by (destruct E as (Er & _); rewrite <- Er; reflexivity).
  rewrite Er.
  assert (Hin : In y (all_hashes (root t))).
  { apply abs_known. rewrite (seq_known _ _ E (abs_swf _ U)). apply sk_hashes. exact Hy. }
  apply (s_desc_subtree _ _ y (root t) U (all_nodes_self _) eq_refl Hin). exact Hin.
Qed.

(* the record an accepted AddBlock appends *)
Lemma s_add_ok s hd a s' : s_add s hd a = Ok s' ->
  exists prim, s' = mkSst (s_root s) (s_rootnum s)
                          (s_blocks s ++ [mkBlk (h_hash hd) (h_parent hd) (h_number hd) a prim])
               /\ s_known s (h_parent hd) = true /\ s_known s (h_hash hd) = false.
Proof.
  unfold s_add. destruct (s_number s (h_parent hd)) as [pn|] eqn:En; [|discriminate].
  destruct (s_known s (h_hash hd)) eqn:Ek; [discriminate|].
  destruct (negb (pn + 1 =? h_number hd)); [discriminate|].
  destruct (if h_number hd =? 0 then Ok false else is_primary (h_digest hd)) as [prim| | |]; try discriminate.
  intros E. inversion E. exists prim. repeat split.
  unfold s_number in En. unfold s_known.
  destruct (h_parent hd =? s_root s); [reflexivity|]. simpl.
  destruct (s_find s (h_parent hd)); [reflexivity|discriminate].
Qed.

(* ------------------------------------------------------------------ the accepted additions of a history *)

Lemma skipn_app_exact {A} (l1 l2 : list A) : skipn (length l1) (l1 ++ l2) = l2.
Proof. induction l1; simpl; auto. Qed.

Section Shape.
  Variables (h0 : N) (allops : list op).
  (* hash uniqueness: a hash determines the header (here: its parent), and no added header has
     the hash of the initial root *)
  Hypothesis Huniq : forall hd a hd' a', In (OAdd hd a) allops -> In (OAdd hd' a') allops ->
                       h_hash hd = h_hash hd' -> h_parent hd = h_parent hd'.
  Hypothesis Hroot : forall hd a, In (OAdd hd a) allops -> h_hash hd <> h0.

  Record shape_inv (A : list blk) (s : sst) : Prop := mkShape {
    sh_reach : exists t, sim t s;
    sh_held : incl (s_blocks s) A;
    sh_closed : forall b, In b A -> s_known s (b_parent b) = true -> In b (s_blocks s);
    sh_root : s_root s = h0 \/ exists b, In b A /\ b_hash b = s_root s;
    sh_parent : forall b, In b A -> b_parent b = h0 \/ exists b0, In b0 A /\ b_hash b0 = b_parent b;
    sh_origin : forall b, In b A -> exists hd a, In (OAdd hd a) allops /\ b_hash b = h_hash hd
                                                 /\ b_parent b = h_parent hd }.

  Lemma shape_step A s o : In o allops -> shape_inv A s ->
    shape_inv (A ++ accepted_of s o) (fst (s_step s o)).
  Proof.
    intros Ho I. destruct I as [(t & S) K J R P O].
    assert (S' : exists t', sim t' (fst (s_step s o))).
    { exists (fst (step t o)). apply (sim_step t s o S). }
    destruct o as [hd a|f]; simpl.
    - (* AddBlock *)
      simpl in S'. destruct (s_add s hd a) as [s'| | |] eqn:Ea; simpl in *;
        try (rewrite app_nil_r; constructor; auto; fail).
      destruct (s_add_ok s hd a s' Ea) as (prim & -> & Hp & Hn). simpl.
      rewrite skipn_app_exact.
      set (c := mkBlk (h_hash hd) (h_parent hd) (h_number hd) a prim).
      assert (Hk' : forall x, s_known (mkSst (s_root s) (s_rootnum s) (s_blocks s ++ [c])) x = true <->
                              s_known s x = true \/ x = h_hash hd).
      { intros x. rewrite !sk_iff. simpl. rewrite map_app, in_app_iff. simpl. intuition. }
      constructor; simpl.
      + exact S'.
      + intros b Hb. apply in_app_or in Hb as [Hb|Hb]; apply in_or_app; [left; auto|right; auto].
      + intros b Hb Hkb. apply Hk' in Hkb. apply in_app_or in Hb as [Hb|[<-|[]]].
        * destruct Hkb as [Hkb|Hkb]; [apply in_or_app; left; auto|].
          (* an earlier accepted block whose parent is the hash being added now: impossible *)
          exfalso. destruct (P b Hb) as [E0|(b0 & Hb0 & E0)].
          -- apply (Hroot hd a Ho). congruence.
          -- destruct (O b0 Hb0) as (hd0 & a0 & Hi0 & Eh0 & Ep0).
             assert (Epar : h_parent hd0 = h_parent hd).
             { apply (Huniq hd0 a0 hd a Hi0 Ho). congruence. }
             assert (Hin0 : In b0 (s_blocks s)) by (apply J; auto; congruence).
             assert (s_known s (h_hash hd) = true).
             { apply sk_iff. right. apply in_map_iff. exists b0. split; auto. congruence. }
             congruence.
        * apply in_or_app. right. left. reflexivity.
      + destruct R as [R|(b & Hb & R)]; [left; auto|right]. exists b. split; auto. apply in_or_app; auto.
      + intros b Hb. apply in_app_or in Hb as [Hb|[<-|[]]].
        * destruct (P b Hb) as [E0|(b0 & Hb0 & E0)]; [left; auto|right].
          exists b0. split; auto. apply in_or_app; auto.
        * simpl. apply sk_iff in Hp as [Hp|Hp].
          -- destruct R as [R|(b & Hb & R)]; [left; congruence|right].
             exists b. split; [apply in_or_app; auto|congruence].
          -- right. apply in_map_iff in Hp as (b & Eb & Hb). exists b. split; auto.
             apply in_or_app. left. apply K. exact Hb.
      + intros b Hb. apply in_app_or in Hb as [Hb|[<-|[]]]; [apply O; auto|].
        exists hd, a. simpl. auto.
    - (* Prune *)
      rewrite app_nil_r. simpl in S'. unfold s_fin in *.
      destruct (N.eqb_spec f (s_root s)) as [Ef|Hne]; simpl; [constructor; eauto|].
      destruct (s_find s f) as [fb|] eqn:Efb; simpl in *; [|constructor; eauto].
      apply find_blk_some in Efb as (Hfb & Ehf).
      assert (Hd : forall k, In k (s_blocks s) -> s_desc s f (b_parent k) = true -> s_desc s f (b_hash k) = true).
      { intros k Hk Hdk. apply (sim_desc_iff _ _ _ _ S). apply d_step; auto.
        apply (sim_desc_iff _ _ _ _ S). exact Hdk. }
      constructor; simpl.
      + exact S'.
      + intros b Hb. apply filter_In in Hb as (Hb & _). apply K. exact Hb.
      + intros b Hb Hkb. apply sk_iff in Hkb. simpl in Hkb.
        assert (Hdp : s_desc s f (b_parent b) = true).
        { destruct Hkb as [->|Hkb].
          - unfold s_desc. destruct (length (s_blocks s)); simpl; rewrite N.eqb_refl; reflexivity.
          - apply in_map_iff in Hkb as (k & Ek & Hk). apply filter_In in Hk as (Hk & Hdk).
            rewrite <- Ek. apply Hd; auto. }
        apply filter_In. split; auto. apply J; auto.
        destruct Hkb as [->|Hkb].
        * apply sk_iff. right. rewrite <- Ehf. apply in_map. exact Hfb.
        * apply sk_iff. right. apply in_map_iff in Hkb as (k & Ek & Hk). apply filter_In in Hk as (Hk & _).
          rewrite <- Ek. apply in_map. exact Hk.
      + right. exists fb. split; [apply K; auto|exact Ehf].
      + exact P.
      + exact O.
  Qed.

  Lemma shape_run ops : forall A s, incl ops allops -> shape_inv A s ->
    shape_inv (A ++ accepted s ops) (fst (s_run s ops)).
  Proof.
    induction ops as [|o r IH]; intros A s Hi I.
    - simpl. rewrite app_nil_r. exact I.
    - rewrite s_run_unfold. cbn [fst accepted]. rewrite app_assoc. apply IH.
      + intros x Hx. apply Hi. right. exact Hx.
      + apply shape_step; auto. apply Hi. left. reflexivity.
  Qed.

  Lemma shape_holds A s : shape_inv A s ->
    forall y, In y (s_hashes s) <-> descends A (s_root s) y.
  Proof.
    intros I y. split.
    - intros Hy. destruct (sh_reach _ _ I) as (t & S).
      apply (descends_incl (s_blocks s)); [apply (sh_held _ _ I)|]. apply (sim_connected t s y S Hy).
    - intros H. induction H as [|b Hd IH Hb].
      + unfold s_hashes. left. reflexivity.
      + apply sk_hashes in IH. pose proof (sh_closed _ _ I b Hb IH) as Hin.
        unfold s_hashes. right. apply in_map. exact Hin.
  Qed.
End Shape.

(* For every history from NewBlockTreeFromRoot(h, x), under hash uniqueness: the hashes held are
   exactly those reached from the current root (the last effective finalisation target, or h)
   through the parent links of the additions the history accepted. *)
Theorem spec_shape h x ops :
  (forall hd a hd' a', In (OAdd hd a) ops -> In (OAdd hd' a') ops ->
                       h_hash hd = h_hash hd' -> h_parent hd = h_parent hd') ->
  (forall hd a, In (OAdd hd a) ops -> h_hash hd <> h) ->
  forall y, In y (s_hashes (spec_after h x ops)) <->
            descends (accepted (mkSst h x []) ops) (s_root (spec_after h x ops)) y.
Proof.
  intros Hu Hr y. unfold spec_after.
  assert (I0 : shape_inv h ops [] (mkSst h x [])).
  { constructor; simpl.
    - exists (new_tree h x 0%Z). apply sim_new_tree.
    - intros b [].
    - intros b [].
    - left. reflexivity.
    - intros b [].
    - intros b []. }
  pose proof (shape_run h ops Hu Hr ops [] (mkSst h x []) (incl_refl _) I0) as I. simpl in I.
  exact (shape_holds h ops _ _ I y).
Qed.

(* the accepted additions are additions of the history, with the data of their headers *)
Lemma accepted_origin ops : forall s b, In b (accepted s ops) ->
  exists hd a, In (OAdd hd a) ops /\ b_hash b = h_hash hd /\ b_parent b = h_parent hd
               /\ b_number b = h_number hd /\ b_arrival b = a.
Proof.
  induction ops as [|o r IH]; intros s b Hb; simpl in Hb; [contradiction|].
  apply in_app_or in Hb as [Hb|Hb].
  - destruct o as [hd a|f]; simpl in Hb; [|contradiction].
    destruct (s_add s hd a) as [s'| | |] eqn:Ea; try contradiction.
    destruct (s_add_ok s hd a s' Ea) as (prim & -> & _). simpl in Hb.
    rewrite skipn_app_exact in Hb. destruct Hb as [<-|[]]. exists hd, a. simpl. auto.
  - destruct (IH _ _ Hb) as (hd & a & Hi & Hx). exists hd, a. split; [right; auto|auto].
Qed.

(* hash uniqueness over a history: a hash determines the header's parent, and no added header
   has the hash of the initial root *)
Definition hashes_determine_headers (h : N) (ops : list op) : Prop :=
  (forall hd a hd' a', In (OAdd hd a) ops -> In (OAdd hd' a') ops ->
                       h_hash hd = h_hash hd' -> h_parent hd = h_parent hd')
  /\ (forall hd a, In (OAdd hd a) ops -> h_hash hd <> h).

(* the same on the tree model *)
Theorem tree_shape h x a ops : hashes_determine_headers h ops ->
  forall y, In y (get_all_blocks (tree_after h x a ops)) <->
            descends (accepted (mkSst h x []) ops) (nhash (root (tree_after h x a ops))) y.
Proof.
  intros (Hu & Hr) y. pose proof (sim_after h x a ops) as S.
  assert (Er : nhash (root (tree_after h x a ops)) = s_root (spec_after h x ops)).
  { destruct S as (_ & (Er & _)). exact Er. }
  rewrite Er, <- (spec_shape h x ops Hu Hr y). pose proof (sim_blocks _ _ S) as P. split; intros H.
  - apply (Permutation_in _ P H).
  - apply (Permutation_in _ (Permutation_sym P) H).
Qed.

(* the leaves of the specification are the held blocks that are nobody's parent *)
Lemma leaves_are_childless s y :
  In y (s_leaves s) <-> In y (s_hashes s) /\ forall b, In b (s_blocks s) -> b_parent b <> y.
Proof.
  unfold s_leaves. rewrite filter_In, negb_true_iff. split.
  - intros (H & E). split; auto. intros b Hb Hp.
    assert (existsb (fun b => b_parent b =? y) (s_blocks s) = true).
    { apply existsb_exists. exists b. split; auto. apply N.eqb_eq; auto. }
    congruence.
  - intros (H & E). split; auto. destruct (existsb _ _) eqn:X; auto.
    apply existsb_exists in X as (b & Hb & Hp). apply N.eqb_eq in Hp. exfalso. eapply E; eauto.
Qed.
