(* BlockTree/ProofsWrap.v — the unbounded block numbers of the model against Go's uint: on every
   history with root number + number of operations < 2^64 the model with explicit 64-bit
   wrap-around ([run64]) is the model the theorems are about ([run]). *)
From Coq Require Import List NArith ZArith Bool Lia Permutation.
From Common Require Import Outcome.
From BlockTree Require Import Model Spec ProofsTree ProofsPath ProofsSpec ProofsSim ProofsHist.
Import ListNotations.
Local Open Scope N_scope.

Lemma add_block64_eq t hd a :
  (forall p, get_node t (h_parent hd) = Some p -> nnumber p + 1 < two64) ->
  add_block64 t hd a = add_block t hd a.
Proof.
  intros H. unfold add_block64, add_block. destruct (get_node t (h_parent hd)) as [p|]; [|reflexivity].
  rewrite (N.mod_small _ _ (H p eq_refl)). reflexivity.
Qed.

(* every number held is at most B *)
Definition snum_le (s : sst) (B : N) : Prop :=
  s_rootnum s <= B /\ forall b, In b (s_blocks s) -> b_number b <= B.

Lemma snum_number s B h k : snum_le s B -> s_number s h = Some k -> k <= B.
Proof.
  intros (Hr & Hb). unfold s_number. destruct (h =? s_root s); [intros E; inversion E; subst; auto|].
  destruct (s_find s h) as [b|] eqn:Ef; [|discriminate]. simpl. intros E. inversion E; subst.
  apply find_blk_some in Ef as (Hi & _). auto.
Qed.

Lemma snum_mono s B : snum_le s B -> snum_le s (B + 1).
Proof. intros (Hr & Hb). split; [lia|]. intros b Hi. specialize (Hb b Hi). lia. Qed.

Lemma s_add_number s hd a s' : s_add s hd a = Ok s' ->
  exists pn b, s_number s (h_parent hd) = Some pn /\ b_number b = pn + 1
               /\ s_rootnum s' = s_rootnum s /\ s_blocks s' = s_blocks s ++ [b].
Proof.
  unfold s_add. destruct (s_number s (h_parent hd)) as [pn|]; [|discriminate].
  destruct (s_known s (h_hash hd)); [discriminate|].
  destruct (N.eqb_spec (pn + 1) (h_number hd)) as [E|]; [|discriminate]. cbn [negb].
  destruct (if h_number hd =? 0 then Ok false else is_primary (h_digest hd)) as [prim| | |]; try discriminate.
  intros H. inversion H; subst s'. exists pn. eexists. repeat split. simpl. auto.
Qed.

Lemma snum_step s B o : snum_le s B -> snum_le (fst (s_step s o)) (B + 1).
Proof.
  intros Hle. destruct o as [hd a|f].
  - cbn [s_step]. destruct (s_add s hd a) as [s'| | |] eqn:Ea; cbn [fst]; try (apply snum_mono; exact Hle).
    destruct (s_add_number s hd a s' Ea) as (pn & b & En & Eb & Er & Ebl).
    pose proof (snum_number s B _ _ Hle En). destruct Hle as (Hr & Hb). split; [lia|].
    rewrite Ebl. intros c Hi. apply in_app_or in Hi as [Hi|[<-|[]]]; [specialize (Hb c Hi); lia|lia].
  - cbn [s_step]. unfold s_fin. destruct (f =? s_root s); cbn [fst]; [apply snum_mono; exact Hle|].
    destruct (s_find s f) as [fb|] eqn:Ef; cbn [fst]; [|apply snum_mono; exact Hle].
    apply find_blk_some in Ef as (Hfb & _). destruct Hle as (Hr & Hb). split; simpl.
    + specialize (Hb fb Hfb). lia.
    + intros b Hi. apply filter_In in Hi as (Hi & _). specialize (Hb b Hi). lia.
Qed.

Lemma add_block64_sim t s B hd a : sim t s -> snum_le s B -> B + 1 < two64 ->
  add_block64 t hd a = add_block t hd a.
Proof.
  intros S Hle Hb. apply add_block64_eq. intros p Hp. destruct S as (W & E). pose proof W as (U & _).
  assert (Hn : s_number s (h_parent hd) = Some (nnumber p)).
  { rewrite <- (seq_number _ _ E (abs_swf _ U)), (abs_number t _ U), <- get_node_find, Hp. reflexivity. }
  pose proof (snum_number s B _ _ Hle Hn). lia.
Qed.

Lemma run64_eq ops : forall t s B, sim t s -> snum_le s B -> B + N.of_nat (length ops) < two64 ->
  run64 t ops = run t ops.
Proof.
  induction ops as [|o r IH]; intros t s B S Hle Hb; [reflexivity|].
  assert (Es : step64 t o = step t o).
  { destruct o as [hd a|f]; [|reflexivity]. simpl. rewrite add_block64_eq; [reflexivity|].
    intros p Hp. destruct S as (W & E). pose proof W as (U & _).
    assert (Hn : s_number s (h_parent hd) = Some (nnumber p)).
    { rewrite <- (seq_number _ _ E (abs_swf _ U)), (abs_number t _ U), <- get_node_find, Hp. reflexivity. }
    pose proof (snum_number s B _ _ Hle Hn). simpl length in Hb. lia. }
  simpl. rewrite Es. destruct (step t o) as [t1 x1] eqn:Est.
  assert (S1 : sim t1 (fst (s_step s o))).
  { pose proof (sim_step t s o S) as (S1 & _). rewrite Est in S1. exact S1. }
  rewrite (IH t1 _ (B + 1) S1 (snum_step s B o Hle)); [reflexivity|]. simpl length in Hb. lia.
Qed.

(* for every history from NewBlockTreeFromRoot(h, x) whose numbers cannot reach 2^64 *)
Theorem run64_is_run h x a ops : x + N.of_nat (length ops) < two64 ->
  run64 (new_tree h x a) ops = run (new_tree h x a) ops.
Proof.
  intros H. apply (run64_eq ops _ (mkSst h x []) x (sim_new_tree h x a)); auto.
  split; simpl; [lia|intros b []].
Qed.

(* the bound is needed: at the boundary Go's AddBlock accepts a block numbered 0 on top of a block
   numbered 2^64 - 1 *)
Lemma wrap_witness :
  let t := new_tree 1 (two64 - 1) 0%Z in
  let hd := mkHeader 2 1 0 DNone in
  (exists t', add_block64 t hd 0%Z = Ok t') /\ add_block t hd 0%Z = Err e_unexpected_number.
Proof. split; [eexists|]; vm_compute; reflexivity. Qed.
