(* BlockTree/ProofsPath.v — downward paths of the rose tree, and their relation to the
   parent-link walks (chain_fuel / anc_fuel) of the specification. *)
From Coq Require Import List NArith ZArith Bool Lia Permutation.
From Common Require Import Outcome.
From BlockTree Require Import Model Spec ProofsTree.
Import ListNotations.
Local Open Scope N_scope.

(* is_path n p m: p is a downward path (each element a child of the previous one) from n to m *)
Inductive is_path : bnode -> list bnode -> bnode -> Prop :=
| ip_one n : is_path n [n] n
| ip_cons n c p m : In c (nchildren n) -> is_path c p m -> is_path n (n :: p) m.

Lemma is_path_head n p m : is_path n p m -> exists q, p = n :: q.
Proof. intros H; inversion H; eauto. Qed.

Lemma is_path_nodes n p m : is_path n p m -> forall k, In k p -> In k (all_nodes n).
Proof.
  induction 1 as [n|n c p m Hc Hp IH]; intros k Hk.
  - destruct Hk as [<-|[]]. apply all_nodes_self.
  - destruct Hk as [<-|Hk]; [apply all_nodes_self|]. eapply all_nodes_child; eauto.
Qed.

Lemma is_path_end_in_path n p m : is_path n p m -> In m p.
Proof. induction 1; simpl; auto. Qed.

Lemma is_path_end n p m : is_path n p m -> In m (all_nodes n).
Proof. intros H. eapply is_path_nodes; eauto. eapply is_path_end_in_path; eauto. Qed.

Lemma is_path_last n p m : is_path n p m -> forall d, last p d = m.
Proof.
  induction 1 as [n|n c p m Hc Hp IH]; intros d; [reflexivity|].
  destruct (is_path_head _ _ _ Hp) as (q & ->). specialize (IH d). exact IH.
Qed.

Lemma path_to_unfold h n :
  path_to h n = if nhash n =? h then Some [n]
                else match find_first (path_to h) (nchildren n) with
                     | Some p => Some (n :: p)
                     | None => None
                     end.
Proof. destruct n; reflexivity. Qed.

Lemma path_to_is_path h n : forall p, path_to h n = Some p -> exists m, is_path n p m /\ nhash m = h.
Proof.
  induction n as [h' x a pr ch IH] using bnode_ind'. intros p. rewrite path_to_unfold.
  simpl nhash; simpl nchildren. destruct (N.eqb_spec h' h) as [->|Hne].
  - intros H; inversion H; subst. eexists; split; [constructor|reflexivity].
  - destruct (find_first (path_to h) ch) as [q|] eqn:E; [|discriminate].
    intros H; inversion H; subst. apply find_first_some in E as (l1 & c & l2 & -> & Hc & _).
    rewrite Forall_forall in IH. destruct (IH c (in_elt _ _ _) q Hc) as (m & Hp & Hl).
    exists m. split; auto. econstructor; eauto. simpl. apply in_elt.
Qed.

Lemma path_to_none h n : path_to h n = None <-> ~ In h (all_hashes n).
Proof.
  induction n as [h' x a pr ch IH] using bnode_ind'. rewrite path_to_unfold.
  simpl nhash; simpl nchildren. rewrite Forall_forall in IH.
  destruct (N.eqb_spec h' h) as [->|Hne].
  - split; [discriminate|]. intros H; exfalso; apply H; simpl; auto.
  - destruct (find_first (path_to h) ch) as [q|] eqn:E.
    + split; [discriminate|]. intros H; exfalso; apply H.
      apply find_first_some in E as (l1 & c & l2 & -> & Hc & _). simpl. right.
      apply in_flat_map. exists c. split; [apply in_elt|].
      destruct (in_dec N.eq_dec h (all_hashes c)) as [|Hn]; auto.
      apply (IH c (in_elt _ _ _)) in Hn. congruence.
    + split; auto. intros _ [Hh|Hi]; [congruence|].
      apply in_flat_map in Hi as (c & Hc & Hi).
      rewrite find_first_none in E. specialize (E c Hc). apply (IH c Hc) in E. contradiction.
Qed.

Lemma children_same n c c' h :
  uniq n -> In c (nchildren n) -> In c' (nchildren n) ->
  In h (all_hashes c) -> In h (all_hashes c') -> c = c'.
Proof.
  intros U Hc Hc' Hh Hh'. apply in_split in Hc as (l1 & l2 & E).
  destruct (children_disjoint n l1 c l2 h U E Hh) as (N1 & N2 & _).
  rewrite E in Hc'. apply in_app_or in Hc' as [Hi|[->|Hi]]; auto.
  - exfalso; apply N1. apply in_flat_map; eauto.
  - exfalso; apply N2. apply in_flat_map; eauto.
Qed.

Lemma node_hash_in n m : In m (all_nodes n) -> In (nhash m) (all_hashes n).
Proof. intros H. apply in_hashes_nodes; eauto. Qed.

Lemma is_path_unique n p m : is_path n p m -> forall q m', uniq n -> is_path n q m' ->
  nhash m = nhash m' -> p = q /\ m = m'.
Proof.
  induction 1 as [n|n c p m Hc Hp IH]; intros q m' U Hq E.
  - inversion Hq as [|? c' q' ? Hc' Hq']; subst; auto. exfalso.
    apply uniq_children in U as (U & _). apply U. rewrite E.
    apply in_flat_map. exists c'. split; auto. apply node_hash_in. eapply is_path_end; eauto.
  - inversion Hq as [|? c' q' ? Hc' Hq']; subst.
    + exfalso. apply uniq_children in U as (U & _). apply U. rewrite <- E.
      apply in_flat_map. exists c. split; auto. apply node_hash_in. eapply is_path_end; eauto.
    + assert (c = c').
      { eapply (children_same n c c' (nhash m)); eauto.
        - apply node_hash_in. eapply is_path_end; eauto.
        - rewrite E. apply node_hash_in. eapply is_path_end; eauto. }
      subst c'. destruct (IH q' m' (uniq_child _ _ U Hc) Hq' E) as (-> & ->). auto.
Qed.

Lemma path_to_complete n p m :
  uniq n -> is_path n p m -> path_to (nhash m) n = Some p.
Proof.
  intros U Hp. destruct (path_to (nhash m) n) as [q|] eqn:E.
  - destruct (path_to_is_path _ _ _ E) as (m' & Hq & Hlq). f_equal.
    destruct (is_path_unique _ _ _ Hq p m U Hp Hlq); auto.
  - apply path_to_none in E. exfalso; apply E. apply node_hash_in. eapply is_path_end; eauto.
Qed.

(* every node of the tree is reached by a path *)
Lemma node_has_path n : forall m, In m (all_nodes n) -> exists p, is_path n p m.
Proof.
  induction n as [h x a pr ch IH] using bnode_ind'. intros m Hm.
  apply all_nodes_inv in Hm as [->|(c & Hc & Hm)].
  - eexists; constructor.
  - rewrite Forall_forall in IH. destruct (IH c Hc m Hm) as (p & Hp).
    exists (BNode h x a pr ch :: p). econstructor; eauto.
Qed.

(* composition and decomposition *)
Lemma is_path_app n p m q k : is_path n p m -> is_path m (m :: q) k -> is_path n (p ++ q) k.
Proof.
  induction 1 as [n|n c p m Hc Hp IH]; intros Hq.
  - exact Hq.
  - simpl. econstructor; eauto.
Qed.

Lemma is_path_split n p m : is_path n p m -> forall p1 k p2, p = p1 ++ k :: p2 ->
  is_path k (k :: p2) m /\ is_path n (p1 ++ [k]) k.
Proof.
  induction 1 as [n|n c p m Hc Hp IH]; intros p1 k p2 E.
  - destruct p1 as [|a p1]; simpl in E; inversion E; subst.
    + split; constructor.
    + destruct p1; discriminate.
  - destruct p1 as [|a p1]; simpl in E; inversion E; subst.
    + split; [econstructor; eauto|constructor].
    + destruct (IH p1 k p2 eq_refl) as (H1 & H2). split; auto.
      simpl. econstructor; eauto.
Qed.

(* the nodes on the path to m are exactly the nodes that have m in their subtree *)
Lemma on_path_iff n p m k :
  uniq n -> is_path n p m -> In k (all_nodes n) -> (In k p <-> In m (all_nodes k)).
Proof.
  intros U Hp Hk. split.
  - intros Hi. apply in_split in Hi as (p1 & p2 & ->).
    destruct (is_path_split _ _ _ Hp p1 k p2 eq_refl) as (H1 & _).
    eapply is_path_end; eauto.
  - intros Hm. destruct (node_has_path n k Hk) as (p1 & Hp1).
    destruct (node_has_path k m Hm) as (p2 & Hp2).
    destruct (is_path_head _ _ _ Hp2) as (q & ->).
    assert (Hc : is_path n (p1 ++ q) m) by (eapply is_path_app; eauto).
    destruct (is_path_unique _ _ _ Hp _ _ U Hc eq_refl) as (-> & _).
    apply in_or_app. left. eapply is_path_end_in_path; eauto.
Qed.

(* ------------------------------------------------------------------ numbers along a path *)

Lemma is_path_numbers n p m : is_path n p m -> nums_okb n = true ->
  forall i k, nth_error p i = Some k -> nnumber k = nnumber n + N.of_nat i.
Proof.
  induction 1 as [n|n c p m Hc Hp IH]; intros Hn i k Hi.
  - destruct i as [|[|i]]; simpl in Hi; inversion Hi; subst. lia.
  - destruct i as [|i]; simpl in Hi.
    + inversion Hi; subst. lia.
    + destruct (nums_ok_child _ _ Hn Hc) as (E & Hn').
      rewrite (IH Hn' i k Hi). lia.
Qed.

Lemma is_path_end_number n p m : is_path n p m -> nums_okb n = true ->
  nnumber m = nnumber n + N.of_nat (length p - 1).
Proof.
  induction 1 as [n|n c p m Hc Hp IH]; intros Hn.
  - simpl. lia.
  - destruct (nums_ok_child _ _ Hn Hc) as (E & Hn'). rewrite (IH Hn'), E.
    destruct (is_path_head _ _ _ Hp) as (q & ->). simpl. lia.
Qed.

(* ------------------------------------------------------------------ paths and parent links *)

(* linked E x q m: x :: q is a chain of edges of E ending in m *)
Inductive linked (E : list blk) : bnode -> list bnode -> bnode -> Prop :=
| lk_nil x : linked E x [] x
| lk_cons x y q m : In (edge_of x y) E -> linked E y q m -> linked E x (y :: q) m.

Lemma edges_child_incl n c : In c (nchildren n) -> incl (edges c) (edges n).
Proof.
  intros Hc b Hb. apply edges_in in Hb as (x & d & Hx & Hd & ->).
  apply edges_in. exists x, d. repeat split; auto. eapply all_nodes_child; eauto.
Qed.

Lemma edge_child_in n c : In c (nchildren n) -> In (edge_of n c) (edges n).
Proof. intros Hc. apply edges_in. exists n, c. repeat split; auto. apply all_nodes_self. Qed.

Lemma is_path_linked n p m : is_path n p m -> forall E, incl (edges n) E ->
  exists q, p = n :: q /\ linked E n q m.
Proof.
  induction 1 as [n|n c p m Hc Hp IH]; intros E HE.
  - exists []. split; auto. constructor.
  - destruct (IH E) as (q & -> & Hq).
    { intros b Hb. apply HE. eapply edges_child_incl; eauto. }
    exists (c :: q). split; auto. constructor; auto. apply HE. apply edge_child_in; auto.
Qed.

Lemma find_blk_in (bl : list blk) b :
  NoDup (map b_hash bl) -> In b bl -> find_blk bl (b_hash b) = Some b.
Proof.
  unfold find_blk. induction bl as [|a bl IH]; simpl; intros H Hi; [contradiction|].
  inversion H as [|? ? Hn Hd]; subst. destruct (N.eqb_spec (b_hash a) (b_hash b)) as [E|Hne].
  - destruct Hi as [->|Hi]; auto. exfalso; apply Hn. rewrite E. apply in_map; auto.
  - destruct Hi as [->|Hi]; [congruence|]. auto.
Qed.

Lemma find_blk_some bl h b : find_blk bl h = Some b -> In b bl /\ b_hash b = h.
Proof.
  unfold find_blk. intros H. apply find_some in H as (H1 & H2). apply N.eqb_eq in H2. auto.
Qed.

Lemma find_blk_none bl h : find_blk bl h = None <-> ~ In h (map b_hash bl).
Proof.
  unfold find_blk. induction bl as [|a bl IH]; simpl.
  - split; auto.
  - destruct (N.eqb_spec (b_hash a) h) as [E|Hne].
    + split; [discriminate|]. intros H; exfalso; apply H; auto.
    + rewrite IH. split; intros H; [intros [?|?]; [congruence|auto] | intro; apply H; auto].
Qed.

(* walking the parent links from the end of a chain gives the reversed chain, then continues
   from its first node *)
Lemma chain_of_linked (E : list blk) : NoDup (map b_hash E) ->
  forall x q m, linked E x q m -> forall f,
  chain_fuel (length q + f) E (nhash m) = rev (map nhash q) ++ chain_fuel f E (nhash x).
Proof.
  intros ND x q m H. induction H as [x|x y q m Hin Hq IH]; intros f.
  - reflexivity.
  - replace (length (y :: q) + f)%nat with (length q + S f)%nat by (simpl; lia).
    rewrite IH. simpl rev. rewrite <- app_assoc. f_equal.
    simpl chain_fuel at 1.
    pose proof (find_blk_in E (edge_of x y) ND Hin) as Hf. simpl in Hf. rewrite Hf. reflexivity.
Qed.

Lemma chain_fuel_stop E f h : find_blk E h = None -> chain_fuel f E h = [h].
Proof. intros H. destruct f; simpl; auto. rewrite H. auto. Qed.

Lemma is_path_length n p m : is_path n p m -> (length p <= length (all_hashes n))%nat.
Proof.
  induction 1 as [n|n c p m Hc Hp IH].
  - rewrite all_hashes_unfold. simpl. lia.
  - rewrite all_hashes_unfold. simpl. apply le_n_S.
    apply in_split in Hc as (l1 & l2 & ->). rewrite flat_map_app. simpl.
    rewrite !app_length. lia.
Qed.

(* the chain of the end of a path, for any block list that contains the tree's edges and gives
   the top of the path no parent *)
Lemma chain_path_gen E n p m f :
  NoDup (map b_hash E) -> incl (edges n) E -> is_path n p m ->
  (length p - 1 <= f)%nat ->
  chain_fuel f E (nhash m) = rev (map nhash (tl p)) ++ chain_fuel (f - (length p - 1)) E (nhash n).
Proof.
  intros ND HE Hp Hf. destruct (is_path_linked _ _ _ Hp E HE) as (q & -> & Hq).
  simpl in *. replace f with (length q + (f - length q))%nat at 1 by lia.
  rewrite (chain_of_linked E ND _ _ _ Hq). repeat f_equal. lia.
Qed.

(* the specification's chain of h is the reversed tree path to h *)
Lemma s_chain_path t p h :
  uniq (root t) -> path_to h (root t) = Some p ->
  s_chain (abs t) h = rev (map nhash p).
Proof.
  intros U Hp. destruct (path_to_is_path _ _ _ Hp) as (m & Hip & <-).
  unfold s_chain, abs. simpl s_blocks.
  destruct (edges_keys_nodup _ U) as (ND & Hr).
  pose proof (is_path_length _ _ _ Hip) as Hlen. rewrite edges_hashes in Hlen. simpl in Hlen.
  rewrite map_length in Hlen.
  rewrite (chain_path_gen (edges (root t)) (root t) p m); auto; [|apply incl_refl|lia].
  rewrite chain_fuel_stop by (apply find_blk_none; exact Hr).
  destruct (is_path_head _ _ _ Hip) as (q & ->). simpl. reflexivity.
Qed.

(* anc_fuel is membership in the chain *)
Lemma anc_fuel_chain f E a c : anc_fuel f E a c = existsb (N.eqb a) (chain_fuel f E c).
Proof.
  revert c. induction f as [|f IH]; intros c; simpl.
  - destruct (a =? c); auto.
  - destruct (a =? c); auto. simpl. destruct (find_blk E c); auto.
Qed.

Lemma s_desc_chain s a c : s_desc s a c = existsb (N.eqb a) (s_chain s c).
Proof. apply anc_fuel_chain. Qed.

Lemma existsb_eqb_in a l : existsb (N.eqb a) l = true <-> In a l.
Proof.
  rewrite existsb_exists. split.
  - intros (x & Hx & E). apply N.eqb_eq in E. subst; auto.
  - intros H. exists a. split; auto. apply N.eqb_refl.
Qed.

Lemma s_chain_unknown t h : ~ In h (all_hashes (root t)) -> s_chain (abs t) h = [h].
Proof.
  intros H. unfold s_chain. apply chain_fuel_stop. apply find_blk_none.
  simpl. rewrite edges_hashes in H. intro Hi. apply H. right. auto.
Qed.

(* K1: the specification's "c descends from a" is "c is in the subtree of the node a" *)
Lemma s_desc_subtree t a c m :
  uniq (root t) -> In m (all_nodes (root t)) -> nhash m = a -> In c (all_hashes (root t)) ->
  (s_desc (abs t) a c = true <-> In c (all_hashes m)).
Proof.
  intros U Hm Ha Hc. rewrite s_desc_chain, existsb_eqb_in.
  destruct (path_to c (root t)) as [p|] eqn:Ep.
  2:{ apply path_to_none in Ep. contradiction. }
  rewrite (s_chain_path t p c U Ep). rewrite <- in_rev.
  destruct (path_to_is_path _ _ _ Ep) as (e & Hip & He).
  rewrite in_map_iff. split.
  - intros (k & Hk & Hin). assert (k = m).
    { eapply node_eq_of_hash; eauto. eapply is_path_nodes; eauto. congruence. }
    subst k. apply (on_path_iff _ _ e m U Hip Hm) in Hin.
    apply in_hashes_nodes. eauto.
  - intros Hi. exists m. split; auto.
    apply (on_path_iff _ _ e m U Hip Hm).
    apply in_hashes_nodes in Hi as (k & Hk & Hkh).
    assert (k = e).
    { eapply node_eq_of_hash; eauto. eapply all_nodes_trans; eauto.
      eapply is_path_end; eauto. congruence. }
    subst k. auto.
Qed.

(* a hash that is not a block of the tree descends from nothing but itself, and nothing else
   descends from it *)
Lemma s_desc_unknown_r t a c : ~ In c (all_hashes (root t)) -> s_desc (abs t) a c = (a =? c).
Proof.
  intros H. rewrite s_desc_chain, s_chain_unknown; auto. simpl. apply orb_false_r.
Qed.
