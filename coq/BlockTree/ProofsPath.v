(* BlockTree/ProofsPath.v — downward paths of the rose tree, and their relation to the
   parent-link walks (chain_fuel / anc_fuel / pcount_fuel) of the specification. *)
From Coq Require Import List NArith ZArith Bool Lia Permutation.
From Common Require Import Outcome.
From BlockTree Require Import Model Spec ProofsTree.
Import ListNotations.
Local Open Scope N_scope.

(* is_path n p: p is a downward path (each element a child of the previous one) starting at n *)
Inductive is_path : bnode -> list bnode -> Prop :=
| ip_one n : is_path n [n]
| ip_cons n c p : In c (nchildren n) -> is_path c p -> is_path n (n :: p).

Lemma is_path_head n p : is_path n p -> exists q, p = n :: q.
Proof. intros H; inversion H; eauto. Qed.

Lemma is_path_nodes n p : is_path n p -> forall m, In m p -> In m (all_nodes n).
Proof.
  induction 1 as [n|n c p Hc Hp IH]; intros m Hm.
  - destruct Hm as [<-|[]]. apply all_nodes_self.
  - destruct Hm as [<-|Hm]; [apply all_nodes_self|]. eapply all_nodes_child; eauto.
Qed.

Lemma last_cons_default {A} (l : list A) a d d' : last (a :: l) d = last (a :: l) d'.
Proof. revert a. induction l as [|b l IH]; intros a; [reflexivity|]. simpl in *. apply IH. Qed.

Lemma last_cons_in {A} (l : list A) a d : In (last (a :: l) d) (a :: l).
Proof.
  revert a. induction l as [|b l IH]; intros a; [left; reflexivity|].
  right. change (last (a :: b :: l) d) with (last (b :: l) d). apply IH.
Qed.

Lemma is_path_last_in n p : is_path n p -> In (last p n) (all_nodes n).
Proof.
  intros H. eapply is_path_nodes; eauto.
  destruct (is_path_head _ _ H) as (q & ->). apply last_cons_in.
Qed.

Lemma last_cons_cons {A} (l : list A) a b d : last (a :: b :: l) d = last (b :: l) d.
Proof. reflexivity. Qed.

Lemma path_to_unfold h n :
  path_to h n = if nhash n =? h then Some [n]
                else match find_first (path_to h) (nchildren n) with
                     | Some p => Some (n :: p)
                     | None => None
                     end.
Proof. destruct n; reflexivity. Qed.

Lemma path_to_is_path h n : forall p, path_to h n = Some p -> is_path n p /\ nhash (last p n) = h.
Proof.
  induction n as [h' x a pr ch IH] using bnode_ind'. intros p. rewrite path_to_unfold.
  simpl nhash; simpl nchildren. destruct (N.eqb_spec h' h) as [->|Hne].
  - intros H; inversion H; subst. split; [constructor|reflexivity].
  - destruct (find_first (path_to h) ch) as [q|] eqn:E; [|discriminate].
    intros H; inversion H; subst. apply find_first_some in E as (l1 & c & l2 & -> & Hc & _).
    rewrite Forall_forall in IH. destruct (IH c (in_elt _ _ _) q Hc) as (Hp & Hl).
    split.
    + econstructor; eauto. simpl. apply in_elt.
    + destruct (is_path_head _ _ Hp) as (q' & ->).
      rewrite last_cons_cons. rewrite (last_cons_default q' c _ c). exact Hl.
Qed.

Lemma path_to_none h n : path_to h n = None <-> ~ In h (all_hashes n).
Proof.
  induction n as [h' x a pr ch IH] using bnode_ind'. rewrite path_to_unfold.
  simpl nhash; simpl nchildren. rewrite Forall_forall in IH.
  destruct (N.eqb_spec h' h) as [->|Hne].
  - split; [discriminate|]. intros H; exfalso; apply H; simpl; auto.
  - destruct (find_first (path_to h) ch) as [q|] eqn:E.
    + split; [discriminate|]. intros H; exfalso; apply H.
      apply find_first_some in E as (l1 & c & l2 & -> & Hc & _). simpl. right.
      apply in_flat_map. exists c. split; [apply in_elt|].
      destruct (in_dec N.eq_dec h (all_hashes c)) as [|Hn]; auto.
      apply (IH c (in_elt _ _ _)) in Hn. congruence.
    + split; auto. intros _ [Hh|Hi]; [congruence|].
      apply in_flat_map in Hi as (c & Hc & Hi).
      rewrite find_first_none in E. specialize (E c Hc). apply (IH c Hc) in E. contradiction.
Qed.

Lemma children_same n c c' h :
  uniq n -> In c (nchildren n) -> In c' (nchildren n) ->
  In h (all_hashes c) -> In h (all_hashes c') -> c = c'.
Proof.
  intros U Hc Hc' Hh Hh'. apply in_split in Hc as (l1 & l2 & E).
  destruct (children_disjoint n l1 c l2 h U E Hh) as (N1 & N2 & _).
  rewrite E in Hc'. apply in_app_or in Hc' as [Hi|[->|Hi]]; auto.
  - exfalso; apply N1. apply in_flat_map; eauto.
  - exfalso; apply N2. apply in_flat_map; eauto.
Qed.

Lemma is_path_last_hash n p : is_path n p -> In (nhash (last p n)) (all_hashes n).
Proof. intros H. apply in_hashes_nodes. exists (last p n). split; auto. apply is_path_last_in; auto. Qed.

Lemma is_path_unique n p : is_path n p -> forall q, uniq n -> is_path n q ->
  nhash (last p n) = nhash (last q n) -> p = q.
Proof.
  induction 1 as [n|n c p Hc Hp IH]; intros q U Hq E.
  - inversion Hq as [|? c' q' Hc' Hq']; subst; auto. exfalso.
    destruct (is_path_head _ _ Hq') as (q'' & ->). rewrite last_cons_cons in E.
    rewrite (last_cons_default q'' c' n c') in E. simpl in E.
    apply uniq_children in U as (U & _). apply U. rewrite E.
    apply in_flat_map. exists c'. split; auto. apply is_path_last_hash; auto.
  - destruct (is_path_head _ _ Hp) as (p' & ->).
    rewrite last_cons_cons, (last_cons_default p' c n c) in E.
    inversion Hq as [|? c' q' Hc' Hq']; subst.
    + exfalso. simpl in E. apply uniq_children in U as (U & _). apply U. rewrite <- E.
      apply in_flat_map. exists c. split; auto. apply is_path_last_hash; auto.
    + destruct (is_path_head _ _ Hq') as (q'' & ->).
      rewrite last_cons_cons, (last_cons_default q'' c' n c') in E.
      assert (c = c').
      { eapply children_same; eauto.
        - apply is_path_last_hash; eauto.
        - rewrite E. apply is_path_last_hash; auto. }
      subst c'. f_equal. apply IH; auto. eapply uniq_child; eauto.
Qed.

Lemma path_to_complete h n p :
  uniq n -> is_path n p -> nhash (last p n) = h -> path_to h n = Some p.
Proof.
  intros U Hp Hl. destruct (path_to h n) as [q|] eqn:E.
  - destruct (path_to_is_path _ _ _ E) as (Hq & Hlq). f_equal. symmetry.
    eapply is_path_unique; eauto. congruence.
  - apply path_to_none in E. exfalso; apply E. rewrite <- Hl. apply is_path_last_hash; auto.
Qed.

(* every node of the tree is reached by a path *)
Lemma node_has_path n : forall m, In m (all_nodes n) -> exists p, is_path n p /\ last p n = m.
Proof.
  induction n as [h x a pr ch IH] using bnode_ind'. intros m Hm.
  apply all_nodes_inv in Hm as [->|(c & Hc & Hm)].
  - eexists; split; [constructor|reflexivity].
  - rewrite Forall_forall in IH. destruct (IH c Hc m Hm) as (p & Hp & Hl).
    exists (BNode h x a pr ch :: p). split; [econstructor; eauto|].
    destruct (is_path_head _ _ Hp) as (p' & ->). rewrite last_cons_cons.
    rewrite (last_cons_default p' c _ c). auto.
Qed.

(* composition and decomposition *)
Lemma is_path_app n p m q : is_path n p -> last p n = m -> is_path m (m :: q) -> is_path n (p ++ q).
Proof.
  induction 1 as [n|n c p Hc Hp IH]; intros Hl Hq.
  - simpl in Hl. subst. exact Hq.
  - destruct (is_path_head _ _ Hp) as (p' & ->). rewrite last_cons_cons in Hl.
    rewrite (last_cons_default p' c n c) in Hl. simpl. econstructor; eauto.
    apply (IH Hl Hq).
Qed.

Lemma is_path_split n p : is_path n p -> forall p1 m p2, p = p1 ++ m :: p2 ->
  is_path m (m :: p2) /\ is_path n (p1 ++ [m]).
Proof.
  induction 1 as [n|n c p Hc Hp IH]; intros p1 m p2 E.
  - destruct p1 as [|a p1]; simpl in E; inversion E; subst.
    + split; constructor.
    + destruct p1; discriminate.
  - destruct p1 as [|a p1]; simpl in E; inversion E; subst.
    + split; [econstructor; eauto|constructor].
    + destruct (IH p1 m p2 eq_refl) as (H1 & H2). split; auto.
      simpl. econstructor; eauto.
Qed.

Lemma last_app_single {A} (l : list A) x d : last (l ++ [x]) d = x.
Proof. induction l as [|a l IH]; simpl; auto. destruct (l ++ [x]) eqn:E; auto. destruct l; discriminate. Qed.

(* the nodes on a path to m are exactly the nodes that have m in their subtree *)
Lemma on_path_iff n p m k :
  uniq n -> is_path n p -> last p n = m -> In k (all_nodes n) ->
  (In k p <-> In m (all_nodes k)).
Proof.
  intros U Hp Hl Hk. split.
  - intros Hi. apply in_split in Hi as (p1 & p2 & ->).
    destruct (is_path_split _ _ Hp p1 k p2 eq_refl) as (H1 & _).
    replace m with (last (k :: p2) k). { apply is_path_last_in; auto. }
    rewrite <- Hl. clear. induction p1 as [|a p1 IH]; simpl.
    + apply last_cons_default.
    + destruct (p1 ++ k :: p2) eqn:E; [destruct p1; discriminate|]. rewrite <- E.
      rewrite IH. destruct p1; simpl in E; inversion E; subst; apply last_cons_default.
  - intros Hm. destruct (node_has_path n k Hk) as (p1 & Hp1 & Hl1).
    destruct (node_has_path k m Hm) as (p2 & Hp2 & Hl2).
    destruct (is_path_head _ _ Hp2) as (q & ->).
    assert (Hc : is_path n (p1 ++ q)) by (eapply is_path_app; eauto).
    assert (p = p1 ++ q).
    { eapply is_path_unique; eauto. rewrite Hl.
      destruct q as [|b q].
      - rewrite app_nil_r. simpl in Hl2. congruence.
      - f_equal. rewrite <- Hl2. rewrite last_cons_cons.
        clear. induction p1 as [|a p1 IH]; simpl.
        + apply last_cons_default.
        + destruct (p1 ++ b :: q) eqn:E; [destruct p1; discriminate|]. rewrite <- E. apply IH. }
    subst p. apply in_or_app. left.
    destruct (is_path_head _ _ Hp1) as (p1' & E1).
    rewrite <- Hl1. rewrite E1. clear. revert n. induction p1' as [|a l IH]; intros n; simpl; auto.
    destruct l; simpl; auto. right. apply (IH a).
Qed.

(* ------------------------------------------------------------------ numbers along a path *)

Lemma is_path_numbers n p : is_path n p -> nums_okb n = true ->
  forall i m, nth_error p i = Some m -> nnumber m = nnumber n + N.of_nat i.
Proof.
  induction 1 as [n|n c p Hc Hp IH]; intros Hn i m Hi.
  - destruct i as [|[|i]]; simpl in Hi; inversion Hi; subst. lia.
  - destruct i as [|i]; simpl in Hi.
    + inversion Hi; subst. lia.
    + destruct (nums_ok_child _ _ Hn Hc) as (E & Hn').
      rewrite (IH Hn' i m Hi). lia.
Qed.

(* ------------------------------------------------------------------ paths and parent links *)

(* consecutive elements of a path are edges *)
Lemma is_path_edges n p : is_path n p -> forall p1 x y p2, p = p1 ++ x :: y :: p2 ->
  In (edge_of x y) (edges n).
Proof.
  intros Hp p1 x y p2 E. apply edges_in. exists x, y. repeat split; auto.
  - eapply is_path_nodes; eauto. rewrite E. apply in_elt.
  - subst p. destruct (is_path_split _ _ Hp p1 x (y :: p2) eq_refl) as (H & _).
    inversion H; subst. destruct (is_path_head _ _ H4) as (? & E'). inversion E'; subst. auto.
Qed.

Lemma find_blk_in (bl : list blk) b :
  NoDup (map b_hash bl) -> In b bl -> find_blk bl (b_hash b) = Some b.
Proof.
  unfold find_blk. induction bl as [|a bl IH]; simpl; intros H Hi; [contradiction|].
  inversion H as [|? ? Hn Hd]; subst. destruct (N.eqb_spec (b_hash a) (b_hash b)) as [E|Hne].
  - destruct Hi as [->|Hi]; auto. exfalso; apply Hn. rewrite E. apply in_map; auto.
  - destruct Hi as [->|Hi]; [congruence|]. auto.
Qed.

Lemma find_blk_some bl h b : find_blk bl h = Some b -> In b bl /\ b_hash b = h.
Proof.
  unfold find_blk. intros H. apply find_some in H as (H1 & H2). apply N.eqb_eq in H2. auto.
Qed.

Lemma find_blk_none bl h : find_blk bl h = None <-> ~ In h (map b_hash bl).
Proof.
  unfold find_blk. induction bl as [|a bl IH]; simpl.
  - split; auto.
  - destruct (N.eqb_spec (b_hash a) h) as [E|Hne].
    + split; [discriminate|]. intros H; exfalso; apply H; auto.
    + rewrite IH. split; intros H; [intros [?|?]; [congruence|auto] | intro; apply H; auto].
Qed.

(* walking the parent links from the end of a path gives the reversed path, then continues from
   its first node *)
Lemma chain_of_path (E : list blk) : NoDup (map b_hash E) ->
  forall q x f, (forall p1 a b p2, x :: q = p1 ++ a :: b :: p2 -> In (edge_of a b) E) ->
  chain_fuel (length q + f) E (nhash (last q x)) = rev (map nhash q) ++ chain_fuel f E (nhash x).
Proof.
  intros ND q. induction q as [|y q IH]; intros x f HL.
  - reflexivity.
  - assert (HL' : forall p1 a b p2, y :: q = p1 ++ a :: b :: p2 -> In (edge_of a b) E).
    { intros p1 a b p2 Eq. apply (HL (x :: p1) a b p2). simpl. f_equal. exact Eq. }
    specialize (IH y (S f) HL').
    replace (length (y :: q) + f)%nat with (length q + S f)%nat by (simpl; lia).
    replace (last (y :: q) x) with (last q y).
    2:{ clear. revert y. induction q as [|b q IHq]; intros y; auto. simpl. destruct q; auto. apply (IHq b). }
    rewrite IH. simpl rev. rewrite <- app_assoc. f_equal.
    simpl chain_fuel at 1.
    assert (Hin : In (edge_of x y) E) by (apply (HL [] x y q); reflexivity).
    pose proof (find_blk_in E (edge_of x y) ND Hin) as Hf. simpl in Hf. rewrite Hf. reflexivity.
Qed.

Lemma chain_fuel_stop E f h : find_blk E h = None -> chain_fuel f E h = [h].
Proof. intros H. destruct f; simpl; auto. rewrite H. auto. Qed.

Lemma is_path_length n p : is_path n p -> (length p <= length (all_hashes n))%nat.
Proof.
  induction 1 as [n|n c p Hc Hp IH].
  - rewrite all_hashes_unfold. simpl. lia.
  - rewrite all_hashes_unfold. simpl. apply le_n_S.
    apply in_split in Hc as (l1 & l2 & ->). rewrite flat_map_app. simpl.
    rewrite !app_length. lia.
Qed.

(* the specification's chain of h is the reversed tree path to h *)
Lemma s_chain_path t p h :
  uniq (root t) -> path_to h (root t) = Some p ->
  s_chain (abs t) h = rev (map nhash p).
Proof.
  intros U Hp. destruct (path_to_is_path _ _ _ Hp) as (Hip & Hl).
  destruct (is_path_head _ _ Hip) as (q & ->).
  unfold s_chain, abs. simpl s_blocks.
  destruct (edges_keys_nodup _ U) as (ND & Hr).
  pose proof (is_path_length _ _ Hip) as Hlen. rewrite edges_hashes in Hlen. simpl in Hlen.
  rewrite map_length in Hlen.
  replace (length (edges (root t))) with (length q + (length (edges (root t)) - length q))%nat by lia.
  replace h with (nhash (last q (root t))).
  2:{ rewrite <- Hl. destruct q; auto. rewrite last_cons_cons. f_equal. apply last_cons_default. }
  rewrite chain_of_path; auto.
  - rewrite chain_fuel_stop. { simpl. rewrite <- app_assoc. reflexivity. }
    apply find_blk_none. exact Hr.
  - intros p1 a b p2 Eq. eapply is_path_edges; eauto.
Qed.

(* anc_fuel is membership in the chain *)
Lemma anc_fuel_chain f E a c : anc_fuel f E a c = existsb (N.eqb a) (chain_fuel f E c).
Proof.
  revert c. induction f as [|f IH]; intros c; simpl.
  - destruct (a =? c); auto.
  - destruct (a =? c); auto. simpl. destruct (find_blk E c); auto.
Qed.

Lemma s_desc_chain s a c : s_desc s a c = existsb (N.eqb a) (s_chain s c).
Proof. apply anc_fuel_chain. Qed.

Lemma existsb_eqb_in a l : existsb (N.eqb a) l = true <-> In a l.
Proof.
  rewrite existsb_exists. split.
  - intros (x & Hx & E). apply N.eqb_eq in E. subst; auto.
  - intros H. exists a. split; auto. apply N.eqb_refl.
Qed.

(* K1: the specification's "c descends from a" is "c is in the subtree of the node a" *)
Lemma s_desc_subtree t a c m :
  uniq (root t) -> In m (all_nodes (root t)) -> nhash m = a -> In c (all_hashes (root t)) ->
  (s_desc (abs t) a c = true <-> In c (all_hashes m)).
Proof.
  intros U Hm Ha Hc. rewrite s_desc_chain, existsb_eqb_in.
  destruct (path_to c (root t)) as [p|] eqn:Ep.
  2:{ apply path_to_none in Ep. contradiction. }
  rewrite (s_chain_path t p c U Ep). rewrite <- in_rev.
  destruct (path_to_is_path _ _ _ Ep) as (Hip & Hl).
  pose proof (is_path_last_in _ _ Hip) as Hlast.
  rewrite in_map_iff. split.
  - intros (k & Hk & Hin). assert (k = m).
    { eapply node_eq_of_hash; eauto. eapply is_path_nodes; eauto. congruence. }
    subst k. apply (on_path_iff _ _ (last p (root t)) m U Hip eq_refl Hm) in Hin.
    apply in_hashes_nodes. eauto.
  - intros Hi. exists m. split; auto.
    apply (on_path_iff _ _ (last p (root t)) m U Hip eq_refl Hm).
    apply in_hashes_nodes in Hi as (k & Hk & Hkh).
    assert (k = last p (root t)).
    { eapply node_eq_of_hash; eauto. eapply all_nodes_trans; eauto. congruence. }
    subst k. auto.
Qed.

Lemma s_chain_unknown t h : ~ In h (all_hashes (root t)) -> s_chain (abs t) h = [h].
Proof.
  intros H. unfold s_chain. apply chain_fuel_stop. apply find_blk_none.
  simpl. rewrite edges_hashes in H. intro Hi. apply H. right. auto.
Qed.
