(* BlockTree/ProofsNum.v — by-number queries: GetHashByNumber answers the block of that number on
   the chain of the best block; the path from the root to a block, as Range reports it. *)
From Coq Require Import List NArith ZArith Bool Lia Permutation.
From Common Require Import Outcome.
From BlockTree Require Import Model Spec ProofsTree ProofsPath ProofsSpec ProofsSim ProofsQuery ProofsBest.
Import ListNotations.
Local Open Scope N_scope.

Lemma list_eqb_eq l1 l2 : list_eqb l1 l2 = true -> l1 = l2.
Proof.
  unfold list_eqb. intros H. apply andb_true_iff in H as (Hl & Hf). apply Nat.eqb_eq in Hl.
  revert l2 Hl Hf. induction l1 as [|a l1 IH]; intros [|b l2] Hl Hf; simpl in *; try discriminate; auto.
  apply andb_true_iff in Hf as (E & Hf). apply N.eqb_eq in E. subst. f_equal. apply IH; auto.
Qed.

(* numbers never decrease below the root's *)
Lemma node_number_ge n m : nums_okb n = true -> In m (all_nodes n) -> nnumber n <= nnumber m.
Proof.
  intros Hn Hm. destruct (node_has_path _ _ Hm) as (p & Hp).
  rewrite (is_path_end_number _ _ _ Hp Hn). lia.
Qed.

Lemma abs_number_node t m : uniq (root t) -> In m (all_nodes (root t)) ->
  s_number (abs t) (nhash m) = Some (nnumber m).
Proof.
  intros U Hm. rewrite (abs_number t _ U), (find_node_of_node _ _ U Hm). reflexivity.
Qed.

(* the chain from the root down to a block, as s_path and as RangeInMemory give it *)
Lemma abs_root_path t q m : wf t -> is_path (root t) (root t :: q) m ->
  s_path (abs t) (nhash (root t)) (nhash m) = Some (nhash (root t) :: map nhash q)
  /\ range_in_memory t (nhash (root t)) (nhash m) = Ok (nhash (root t) :: map nhash q).
Proof.
  intros W Hp. pose proof W as (U & Hn & _).
  assert (Hm : In m (all_nodes (root t))) by (eapply is_path_end; eauto).
  assert (E : s_path (abs t) (nhash (root t)) (nhash m) = Some (nhash (root t) :: map nhash q)).
  { rewrite s_path_upto.
    assert (D : s_desc (abs t) (nhash (root t)) (nhash m) = true).
    { apply (s_desc_subtree t _ _ (root t) U (all_nodes_self _) eq_refl); apply node_hash_in; auto. }
    rewrite D. rewrite (s_chain_path t _ _ U (path_to_complete _ _ _ U Hp)). simpl map. simpl rev.
    pose proof (is_path_nodup _ _ _ U Hp) as ND. simpl in ND. inversion ND as [|? ? Hr _]; subst.
    rewrite upto_split.
    - rewrite rev_involutive. reflexivity.
    - intro Hi. apply Hr. apply in_rev. exact Hi. }
  split; auto.
  pose proof (abs_range_in_memory t (nhash (root t)) (nhash m) W) as C.
  unfold check_range_in_memory in C.
  assert (K1 : s_known (abs t) (nhash m) = true) by (apply abs_known; apply node_hash_in; auto).
  assert (K2 : s_known (abs t) (nhash (root t)) = true).
  { apply abs_known. apply node_hash_in. apply all_nodes_self. }
  rewrite K1, K2, E in C. simpl in C.
  destruct (range_in_memory t (nhash (root t)) (nhash m)); try discriminate.
  apply list_eqb_eq in C. subst. reflexivity.
Qed.

(* ------------------------------------------------------------------ the best block *)

Lemma best_block_info t : wf t ->
  exists b, best_block t = Ok b
            /\ s_best_hash (abs t) = Some (l_hash b)
            /\ (exists m, In m (all_nodes (root t)) /\ nhash m = l_hash b /\ nnumber m = l_number b)
            /\ (l_number b = nnumber (root t) -> l_hash b = nhash (root t)).
Proof.
  intros W. pose proof W as (U & Hn & Hl).
  destruct (nchildren (root t)) as [|c r] eqn:Ec.
  - (* the root alone *)
    assert (Eg : get_leaves (root t) = [nhash (root t)]).
    { rewrite get_leaves_unfold, Ec. reflexivity. }
    rewrite Eg in Hl. apply Permutation_sym, Permutation_length_1_inv in Hl.
    assert (Ei : leaf_info t (nhash (root t)) =
                 Some (mkLinfo 0 (nnumber (root t)) (narrival (root t)) (nhash (root t)))).
    { unfold leaf_info. rewrite path_to_unfold, N.eqb_refl. reflexivity. }
    exists (mkLinfo 0 (nnumber (root t)) (narrival (root t)) (nhash (root t))).
    split; [|split; [|split]].
    + unfold best_block, best_block_ord, leaf_infos. rewrite Hl. simpl. rewrite Ei. reflexivity.
    + unfold s_best_hash. simpl s_blocks. apply abs_edges_nil in Ec. rewrite Ec. reflexivity.
    + exists (root t). repeat split; auto. apply all_nodes_self.
    + reflexivity.
  - assert (Hc : nchildren (root t) <> []) by (rewrite Ec; discriminate).
    pose proof (best_block_abs (fun l => l) (fun l => l) t W) as Hb.
    assert (Pid : permuting (fun l : list linfo => l)) by (intros l; apply Permutation_refl).
    specialize (Hb Pid Pid Hc). fold (best_block t) in Hb.
    destruct (sim_best_some t (abs t) (conj W (seq_refl _))) as (bh & Hbh).
    unfold s_best_hash in Hbh. simpl s_blocks in Hbh.
    destruct (edges (root t)) as [|e0 er] eqn:Ee; [apply abs_edges_nil in Ee; congruence|].
    destruct (s_best (abs t)) as [m|] eqn:Em; [|discriminate].
    exists m. split; auto. split.
    { unfold s_best_hash. simpl s_blocks. rewrite Ee, Em. reflexivity. }
    pose proof (s_best_is_max (abs t) m (abs_swf t U) Em) as (Hin & _).
    unfold s_leaf_infos in Hin. apply in_flat_map in Hin as (h & _ & Hm).
    destruct (s_find (abs t) h) as [b|] eqn:Ef; [|contradiction]. destruct Hm as [<-|[]]. simpl.
    apply find_blk_some in Ef as (Hb' & Hbh'). simpl in Hb'.
    apply edge_node in Hb' as (x & k & Hx & Hk & Hkn & ->). simpl in *. subst h.
    destruct (nums_ok_child _ _ (nums_ok_sub _ _ Hn Hx) Hk) as (Enum & _).
    pose proof (node_number_ge _ _ Hn Hx). split.
    + exists k. auto.
    + intros E. lia.
Qed.

(* ------------------------------------------------------------------ GetHashByNumber *)

Lemma find_number_map t l n : uniq (root t) -> (forall k, In k l -> In k (all_nodes (root t))) ->
  find (fun x => match s_number (abs t) x with Some j => j =? n | None => false end) (map nhash l)
  = option_map nhash (find (fun k => nnumber k =? n) l).
Proof.
  intros U. induction l as [|k l IH]; intros H; simpl; auto.
  rewrite (abs_number_node t k U (H k (or_introl eq_refl))).
  destruct (nnumber k =? n); simpl; auto. apply IH. intros; apply H; right; auto.
Qed.

(* on a path from the root the element with the root's number is the root *)
Lemma find_root_number n q m : is_path n (n :: q) m -> nums_okb n = true ->
  find (fun k => nnumber k =? nnumber n) (rev (n :: q)) = Some n.
Proof.
  intros Hp Hn. simpl rev.
  assert (Hq : forall k, In k (rev q) -> (nnumber k =? nnumber n) = false).
  { intros k Hk. apply in_rev in Hk. apply In_nth_error in Hk as (i & Hi).
    assert (Hi' : nth_error (n :: q) (S i) = Some k) by exact Hi.
    rewrite (is_path_numbers _ _ _ Hp Hn _ _ Hi'). apply N.eqb_neq. lia. }
  induction (rev q) as [|a l IH]; simpl.
  - rewrite N.eqb_refl. reflexivity.
  - rewrite (Hq a (or_introl eq_refl)). apply IH. intros; apply Hq; right; auto.
Qed.

Theorem abs_hash_by_number t n : wf t -> get_hash_by_number t n = s_hash_by_number (abs t) n.
Proof.
  intros W. pose proof W as (U & Hn & _).
  destruct (best_block_info t W) as (b & Hb & Hsb & (m & Hm & Hmh & Hmn) & Hroot).
  unfold get_hash_by_number, s_hash_by_number. rewrite Hb, Hsb.
  rewrite <- Hmh, (abs_number_node t m U Hm), Hmn. simpl s_rootnum.
  destruct (N.ltb_spec (l_number b) n) as [|Hge]; auto.
  destruct (node_has_path _ _ Hm) as (pe & Hpe). destruct (is_path_head _ _ _ Hpe) as (q & ->).
  rewrite (s_chain_path t _ _ U (path_to_complete _ _ _ U Hpe)), <- map_rev.
  rewrite (find_number_map t (rev (root t :: q)) n U).
  2:{ intros k Hk. apply in_rev in Hk. eapply is_path_nodes; eauto. }
  pose proof (node_number_ge _ _ Hn Hm) as Hge'. rewrite Hmn in Hge'.
  (* the reversed path starts with the best block itself *)
  assert (Hrev : exists up, rev (root t :: q) = m :: up).
  { pose proof (is_path_last _ _ _ Hpe m) as Hl.
    destruct (rev (root t :: q)) as [|a up] eqn:Er.
    - apply (f_equal (@rev bnode)) in Er. rewrite rev_involutive in Er. discriminate.
    - exists up. f_equal. apply (f_equal (@rev bnode)) in Er. rewrite rev_involutive in Er. simpl in Er.
      rewrite Er in Hl. rewrite last_last in Hl. auto. }
  destruct Hrev as (up & Hrev).
  destruct (N.eqb_spec (l_number b) n) as [En|Hne].
  - (* the best block itself *)
    destruct (N.ltb_spec n (nnumber (root t))); [lia|].
    rewrite Hrev. simpl. rewrite Hmn, En, N.eqb_refl. simpl. reflexivity.
  - destruct (N.ltb_spec n (nnumber (root t))) as [|Hge2]; auto.
    destruct (N.eqb_spec (nnumber (root t)) n) as [Er|Hner].
    + subst n. rewrite (find_root_number _ _ _ Hpe Hn). reflexivity.
    + unfold ancestors. rewrite (path_to_complete _ _ _ U Hpe). cbn [option_map].
      rewrite Hrev. cbn [find]. rewrite Hmn.
      destruct (N.eqb_spec (l_number b) n); [congruence|].
      destruct (find (fun k => nnumber k =? n) up); reflexivity.
Qed.

Lemma find_ext_fun {A} (f g : A -> bool) l : (forall x, f x = g x) -> find f l = find g l.
Proof. intros H. induction l as [|a l IH]; simpl; auto. rewrite H, IH. reflexivity. Qed.

Lemma seq_hash_by_number s1 s2 n : seq s1 s2 -> swf s1 -> s_hash_by_number s1 n = s_hash_by_number s2 n.
Proof.
  intros E W. unfold s_hash_by_number. rewrite (seq_best_hash _ _ E W).
  destruct (s_best_hash s2) as [bh|]; auto. rewrite (seq_number _ _ E W).
  destruct (s_number s2 bh); auto. destruct E as (Er & Ern & P). rewrite Ern.
  rewrite (seq_chain _ _ (conj Er (conj Ern P)) W).
  erewrite find_ext_fun; [reflexivity|]. intros x. simpl.
  rewrite (seq_number _ _ (conj Er (conj Ern P)) W). reflexivity.
Qed.

Theorem sim_hash_by_number t s n : sim t s -> get_hash_by_number t n = s_hash_by_number s n.
Proof.
  intros (W & E). rewrite abs_hash_by_number; auto. apply seq_hash_by_number; auto.
  apply abs_swf. apply W.
Qed.

(* below the root's number the block tree refers to the database; at the root's number it
   answers the root *)
Lemma hash_by_number_below t n : wf t -> n < nnumber (root t) -> get_hash_by_number t n = Err e_num_lower.
Proof.
  intros W Hlt. destruct (best_block_info t W) as (b & Hb & _ & (m & Hm & _ & Hmn) & _).
  unfold get_hash_by_number. rewrite Hb.
  pose proof (node_number_ge _ _ (proj1 (proj2 W)) Hm) as Hge. rewrite Hmn in Hge.
  destruct (N.ltb_spec (l_number b) n); [lia|]. destruct (N.eqb_spec (l_number b) n); [lia|].
  destruct (N.ltb_spec n (nnumber (root t))); [reflexivity|lia].
Qed.

Lemma hash_by_number_root t : wf t -> get_hash_by_number t (nnumber (root t)) = Ok (nhash (root t)).
Proof.
  intros W. destruct (best_block_info t W) as (b & Hb & _ & (m & Hm & _ & Hmn) & Hr).
  unfold get_hash_by_number. rewrite Hb.
  pose proof (node_number_ge _ _ (proj1 (proj2 W)) Hm) as Hge. rewrite Hmn in Hge.
  destruct (N.ltb_spec (l_number b) (nnumber (root t))); [lia|].
  destruct (N.eqb_spec (l_number b) (nnumber (root t))) as [E|].
  - rewrite (Hr E). reflexivity.
  - rewrite N.ltb_irrefl, N.eqb_refl. reflexivity.
Qed.

(* the (number, hash) links of the chain below the root down to a block *)
Definition links_of (s : sst) (p : list N) : list (N * N) :=
  flat_map (fun x => match s_number s x with Some n => [(n, x)] | None => [] end) p.

Lemma path_links t q m : wf t -> is_path (root t) (root t :: q) m ->
  let L := links_of (abs t) (map nhash q) in
  map snd L = map nhash q
  /\ NoDup (map fst L)
  /\ (forall n x, In (n, x) L -> nnumber (root t) < n <= nnumber m)
  /\ (q <> [] -> In (nnumber m, nhash m) L).
Proof.
  intros W Hp. pose proof W as (U & Hn & _). simpl.
  assert (Hq : forall k, In k q -> In k (all_nodes (root t))).
  { intros k Hk. eapply is_path_nodes; eauto. right; auto. }
  assert (EL : links_of (abs t) (map nhash q) = map (fun k => (nnumber k, nhash k)) q).
  { unfold links_of. clear Hp. induction q as [|k q IH]; simpl; auto.
    rewrite (abs_number_node t k U (Hq k (or_introl eq_refl))). simpl. f_equal.
    apply IH. intros; apply Hq; right; auto. }
  rewrite EL. rewrite !map_map. simpl.
  assert (Hnum : forall i k, nth_error q i = Some k -> nnumber k = nnumber (root t) + N.of_nat (S i)).
  { intros i k Hi. apply (is_path_numbers _ _ _ Hp Hn (S i) k). exact Hi. }
  pose proof (is_path_end_number _ _ _ Hp Hn) as Hend. simpl length in Hend.
  split; [reflexivity|]. split; [|split].
  - apply NoDup_nth_error. intros i j Hi E. rewrite map_length in Hi.
    rewrite !nth_error_map in E.
    destruct (nth_error q i) as [k|] eqn:Ei; [|apply nth_error_None in Ei; lia].
    destruct (nth_error q j) as [k'|] eqn:Ej; [|discriminate].
    simpl in E. inversion E as [E']. rewrite (Hnum _ _ Ei), (Hnum _ _ Ej) in E'. lia.
  - intros n x Hi. apply in_map_iff in Hi as (k & Ek & Hk). inversion Ek; subst.
    apply In_nth_error in Hk as (i & Hi). rewrite (Hnum _ _ Hi).
    assert (i < length q)%nat by (apply nth_error_Some; congruence). lia.
  - intros Hne. apply in_map_iff. exists m. split; auto.
    pose proof (is_path_end_in_path _ _ _ Hp) as [E|Hi]; auto.
    subst m. exfalso. (* the path would end at the root although q is not empty *)
    destruct q as [|c q']; [congruence|]. simpl in Hend. lia.
Qed.
