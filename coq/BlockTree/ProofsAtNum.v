(* BlockTree/ProofsAtNum.v — GetHashesAtNumber is COMPLETE between the root's and the best
   block's number: it reports every held block with that number (ProofsMore.v has soundness);
   outside that interval it answers the empty list by design of the code. *)
From Coq Require Import List NArith ZArith Bool Lia Permutation.
From Common Require Import Outcome.
From BlockTree Require Import Model Spec ProofsTree ProofsPath ProofsSpec ProofsSim ProofsQuery
  ProofsBest ProofsHist ProofsNum ProofsMore.
Import ListNotations.
Local Open Scope N_scope.

Lemma hashes_at_number_complete num n : nums_okb n = true -> nnumber n <= num ->
  forall m, In m (all_nodes n) -> nnumber m = num -> In (nhash m) (hashes_at_number num n).
Proof.
  induction n as [h k a p ch IH] using bnode_ind'. intros Hn Hle m Hm Em. simpl in Hle.
  simpl. destruct (N.eqb_spec num k) as [->|Hne].
  - apply all_nodes_inv in Hm as [->|(c & Hc & Hm)]; [left; reflexivity|]. exfalso.
    destruct (nums_ok_child _ _ Hn Hc) as (Ec & Hnc). simpl in Ec, Hc.
    pose proof (node_number_ge _ _ Hnc Hm). lia.
  - destruct (N.ltb_spec k num) as [Hlt|]; [|lia].
    apply all_nodes_inv in Hm as [->|(c & Hc & Hm)]; [simpl in Em; lia|].
    destruct (nums_ok_child _ _ Hn Hc) as (Ec & Hnc). simpl in Ec, Hc.
    apply in_flat_map. exists c. split; auto.
    rewrite Forall_forall in IH. apply IH; auto. lia.
Qed.

Lemma abs_at_number_cases t num : wf t ->
  exists b bn l, s_best_hash (abs t) = Some b /\ s_number (abs t) b = Some bn
                 /\ get_hashes_at_number t num = Ok l
                 /\ (if (num <? s_rootnum (abs t)) || (bn <? num) then l = []
                     else Permutation l (s_at_number (abs t) num)).
Proof.
  intros W. pose proof W as (U & Hn & _).
  destruct (best_block_info t W) as (b & Hb & Hsb & (m & Hm & Hmh & Hmn) & _).
  unfold get_hashes_at_number. rewrite Hb.
  exists (l_hash b), (l_number b). rewrite Hsb, <- Hmh, (abs_number_node t m U Hm), Hmn. simpl s_rootnum.
  destruct (N.ltb_spec num (nnumber (root t))) as [|Hge].
  { exists []. cbn [orb]. auto. }
  cbn [orb]. destruct (l_number b <? num).
  { exists []. auto. }
  eexists. repeat split. apply NoDup_Permutation.
  - apply hashes_at_number_nodup; auto.
  - unfold s_at_number. apply NoDup_filter. rewrite abs_hashes. exact U.
  - intros x. unfold s_at_number. rewrite filter_In, abs_hashes. split.
    + intros Hx. split; [apply (hashes_at_number_incl _ _ _ Hx)|].
      destruct (hashes_at_number_sound _ _ _ Hx) as (k & Hk & <- & <-).
      rewrite (abs_number_node t k U Hk). apply N.eqb_refl.
    + intros (Hx & Hk). rewrite all_hashes_nodes in Hx. apply in_map_iff in Hx as (k & <- & Hkn).
      rewrite (abs_number_node t k U Hkn) in Hk. apply N.eqb_eq in Hk.
      apply hashes_at_number_complete; auto.
Qed.

Lemma seq_at_number s1 s2 num : seq s1 s2 -> swf s1 ->
  Permutation (s_at_number s1 num) (s_at_number s2 num).
Proof.
  intros E W. unfold s_at_number. apply filter_perm_ext; [apply seq_hashes; auto|].
  intros x _. rewrite (seq_number _ _ E W). reflexivity.
Qed.

Theorem sim_at_number_full t s num : sim t s ->
  match get_hashes_at_number t num with
  | Ok l => check_at_number_full s num l = true
  | _ => False
  end.
Proof.
  intros (W & E). pose proof (abs_swf t (proj1 W)) as SW.
  destruct (abs_at_number_cases t num W) as (b & bn & l & Hb & Hbn & -> & H).
  unfold check_at_number_full.
  rewrite <- (seq_best_hash _ _ E SW), Hb, <- (seq_number _ _ E SW), Hbn.
  pose proof E as (Er & En & P). rewrite <- En.
  destruct ((num <? s_rootnum (abs t)) || (bn <? num)); [subst l; reflexivity|].
  apply perm_eqb_complete. eapply Permutation_trans; [exact H|]. apply seq_at_number; auto.
Qed.

(* ------------------------------------------------------------------ one AddBlock, on the tree *)

(* an accepted AddBlock adds exactly its block; a refused one leaves the tree as it is (by
   definition of [step]) *)
Theorem add_block_exact t s hd a t' : sim t s -> add_block t hd a = Ok t' ->
  Permutation (get_all_blocks t') (h_hash hd :: get_all_blocks t)
  /\ ~ In (h_hash hd) (get_all_blocks t) /\ In (h_parent hd) (get_all_blocks t).
Proof.
  intros S Ea. pose proof (sim_step t s (OAdd hd a) S) as (S' & R). simpl in S', R. rewrite Ea in S', R.
  simpl in S', R. destruct (s_add s hd a) as [s'| | |] eqn:Es; simpl in R; try discriminate.
  simpl in S'.
  unfold s_add in Es. destruct (s_number s (h_parent hd)) as [pn|] eqn:En; [|discriminate].
  destruct (s_known s (h_hash hd)) eqn:Ek; [discriminate|].
  destruct (negb (pn + 1 =? h_number hd)); [discriminate|].
  destruct (if h_number hd =? 0 then Ok false else is_primary (h_digest hd)) as [prim| | |]; try discriminate.
  inversion Es; subst s'. clear Es.
  pose proof (sim_blocks _ _ S) as P0. pose proof (sim_blocks _ _ S') as P1.
  unfold s_hashes in P1. simpl in P1. rewrite map_app in P1. simpl in P1. split; [|split].
  - eapply Permutation_trans; [exact P1|]. apply Permutation_sym.
    eapply Permutation_trans; [apply perm_skip; exact P0|]. unfold s_hashes.
    eapply Permutation_trans; [apply perm_swap|]. apply perm_skip.
    apply Permutation_cons_append.
  - intro Hi. apply (Permutation_in _ P0) in Hi.
    assert (s_known s (h_hash hd) = true).
    { unfold s_known, s_hashes in *. destruct Hi as [<-|Hi]; [rewrite N.eqb_refl; reflexivity|].
      destruct (s_find s (h_hash hd)) eqn:Ef; [apply orb_true_r|].
      apply find_blk_none in Ef. contradiction. }
    congruence.
  - apply (Permutation_in _ (Permutation_sym P0)). unfold s_number in En. unfold s_hashes.
    destruct (N.eqb_spec (h_parent hd) (s_root s)) as [->|]; [left; reflexivity|]. right.
    destruct (s_find s (h_parent hd)) as [b|] eqn:Ef; [|discriminate].
    apply find_blk_some in Ef as (Hb & <-). apply in_map. exact Hb.
Qed.
