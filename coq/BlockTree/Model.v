(* BlockTree/Model.v — executable model of lib/blocktree (blocktree.go, node.go, leaves.go).
   Definitions only.

   Representation.  The Go tree is a pointer structure: node{hash,parent,children,number,
   arrivalTime,isPrimary}.  It is modelled as a rose tree [bnode]; the parent pointer of a node is
   the node whose children list contains it (AddBlock sets both together; Prune sets
   root.parent = nil), so "walk the parent pointers from n" is the reversed root-to-n path.
   Hashes are [N]: the big-endian value of the 32-byte common.Hash (bytes.Compare on two 32-byte
   arrays is the numeric comparison of these values).  Arrival times are [Z] (nanoseconds;
   time.Time.Before/Equal).  Block numbers are Go uint; the model uses unbounded [N] (a chain of
   2^64 blocks is out of scope, the properties are not about integer width).
   The leaf map (sync.Map hash -> node pointer) is the list of leaf hashes in some order; the
   iteration order of sync.Map.Range is a parameter of the fork-choice functions.

   The model mirrors the REPAIRED node.prune (fixes/C15-prune-iterate-copy.patch: the loop ranges
   over a copy of n.children).  The pinned pre-fix loop, which ranges over the slice that
   parent.deleteChild shifts in place, is kept as [prune_pre] with the Go slice aliasing explicit.
   Likewise accumulateHashesInDescedingOrder is modelled with the repaired end-of-walk check
   (repo commit "fix: BlockTree.Range fails when the start block is not an ancestor of the end
   block"); the pre-fix version is [accumulate_pre]. *)
From Coq Require Import List NArith ZArith Bool.
From Common Require Import Outcome.
Import ListNotations.
Local Open Scope N_scope.

(* ------------------------------------------------------------------ nodes *)

Inductive bnode : Type :=
| BNode (h : N) (num : N) (arr : Z) (prim : bool) (ch : list bnode).

Definition nhash (n : bnode) : N := match n with BNode h _ _ _ _ => h end.
Definition nnumber (n : bnode) : N := match n with BNode _ x _ _ _ => x end.
Definition narrival (n : bnode) : Z := match n with BNode _ _ a _ _ => a end.
Definition nprimary (n : bnode) : bool := match n with BNode _ _ _ p _ => p end.
Definition nchildren (n : bnode) : list bnode := match n with BNode _ _ _ _ c => c end.

Record btree := mkTree { root : bnode; leaves : list N }.

Section FindFirst.
  Context {A B : Type} (f : A -> option B).
  Fixpoint find_first (l : list A) : option B :=
    match l with
    | [] => None
    | a :: r => match f a with Some b => Some b | None => find_first r end
    end.
End FindFirst.

(* node.getNode: depth-first, first match *)
Fixpoint find_node (h : N) (n : bnode) : option bnode :=
  match n with
  | BNode h' _ _ _ ch => if h' =? h then Some n else find_first (find_node h) ch
  end.

(* n.isDescendantOf(p) where h = n.hash: is there a node with hash h in the subtree of p *)
Fixpoint in_subtree (h : N) (p : bnode) : bool :=
  match p with
  | BNode h' _ _ _ ch => if h =? h' then true else existsb (in_subtree h) ch
  end.

(* node.getAllDescendants: pre-order *)
Fixpoint all_hashes (n : bnode) : list N :=
  match n with BNode h _ _ _ ch => h :: flat_map all_hashes ch end.

(* node.getLeaves (hashes of the childless nodes, pre-order) *)
Fixpoint get_leaves (n : bnode) : list N :=
  match n with
  | BNode h _ _ _ ch => (match ch with [] => [h] | _ => [] end) ++ flat_map get_leaves ch
  end.

(* node.hashesAtNumber *)
Fixpoint hashes_at_number (num : N) (n : bnode) : list N :=
  match n with
  | BNode h x _ _ ch =>
    if num =? x then [h]
    else if x <? num then flat_map (hashes_at_number num) ch
    else []
  end.

(* the path root .. node (both included), i.e. the parent-pointer chain reversed *)
Fixpoint path_to (h : N) (n : bnode) : option (list bnode) :=
  match n with
  | BNode h' _ _ _ ch =>
    if h' =? h then Some [n]
    else match find_first (path_to h) ch with
         | Some p => Some (n :: p)
         | None => None
         end
  end.

(* parent.addChild(c) on the node with hash ph *)
Fixpoint insert_child (ph : N) (c : bnode) (n : bnode) : bnode :=
  match n with
  | BNode h x a p ch =>
    if h =? ph then BNode h x a p (ch ++ [c])
    else BNode h x a p (map (insert_child ph c) ch)
  end.

(* ------------------------------------------------------------------ BlockTree.getNode *)

(* root first, then the leaves (the leaf map holds pointers into the tree), then depth-first
   through the root's children *)
Definition get_node (t : btree) (h : N) : option bnode :=
  if nhash (root t) =? h then Some (root t)
  else if existsb (N.eqb h) (leaves t) then find_node h (root t)
  else find_first (find_node h) (nchildren (root t)).

(* [n; parent n; ...; root] *)
Definition ancestors (t : btree) (h : N) : option (list bnode) :=
  option_map (@rev bnode) (path_to h (root t)).

(* ------------------------------------------------------------------ headers, AddBlock *)

(* What types.IsPrimary looks at: the first digest item of the header. *)
Inductive digest_kind :=
| DPrimary          (* PreRuntime(BABE) holding a BabePrimaryPreDigest *)
| DSecondaryPlain   (* ... BabeSecondaryPlainPreDigest *)
| DSecondaryVRF     (* ... BabeSecondaryVRFPreDigest *)
| DNone             (* empty digest: ErrChainHeadMissingDigest *)
| DNotPreRuntime    (* first item is not a PreRuntimeDigest: ErrNoFirstPreDigest *)
| DUndecodable.     (* PreRuntimeDigest whose data does not decode as a BABE pre-digest *)

(* dot/types/babe.go IsPrimary *)
Definition is_primary (d : digest_kind) : outcome bool :=
  match d with
  | DPrimary => Ok true
  | DSecondaryPlain | DSecondaryVRF => Ok false
  | DNone | DNotPreRuntime | DUndecodable => Err 4%nat
  end.

Record header := mkHeader {
  h_hash : N;        (* header.Hash() *)
  h_parent : N;      (* header.ParentHash *)
  h_number : N;      (* header.Number *)
  h_digest : digest_kind }.

(* leafMap.replace(old, new): delete old, store new *)
Definition replace_leaf (ls : list N) (old new : N) : list N :=
  filter (fun x => negb (x =? old)) ls ++ [new].

(* error classes of AddBlock *)
Definition e_parent_not_found : nat := 1.
Definition e_block_exists : nat := 2.
Definition e_unexpected_number : nat := 3.
Definition e_is_primary : nat := 4.

Definition add_block (t : btree) (hd : header) (arrival : Z) : outcome btree :=
  match get_node t (h_parent hd) with
  | None => Err e_parent_not_found
  | Some p =>
    match get_node t (h_hash hd) with
    | Some _ => Err e_block_exists
    | None =>
      let number := nnumber p + 1 in
      if negb (number =? h_number hd) then Err e_unexpected_number
      else
        match (if h_number hd =? 0 then Ok false else is_primary (h_digest hd)) with
        | Ok prim =>
          Ok {| root := insert_child (h_parent hd) (BNode (h_hash hd) number arrival prim []) (root t);
                leaves := replace_leaf (leaves t) (h_parent hd) (h_hash hd) |}
        | _ => Err e_is_primary
        end
    end
  end.

(* NewBlockTreeFromRoot *)
Definition new_tree (h num : N) (arrival : Z) : btree :=
  {| root := BNode h num arrival false []; leaves := [h] |}.

(* ------------------------------------------------------------------ Prune *)

(* node.prune after the repair (the loop ranges over a copy of n.children): the hashes appended
   to [pruned] while visiting the subtree of n, in order *)
Fixpoint prune_list (fin : bnode) (n : bnode) : list N :=
  match n with
  | BNode h _ _ _ ch =>
    if in_subtree h fin then []
    else (if in_subtree (nhash fin) n then [] else [h]) ++ flat_map (prune_list fin) ch
  end.

(* BlockTree.Prune: returns the new tree and the pruned hashes *)
Definition prune (t : btree) (fh : N) : btree * list N :=
  if fh =? nhash (root t) then (t, [])
  else match get_node t fh with
       | None => (t, [])
       | Some n => ({| root := n; leaves := get_leaves n |}, prune_list n (root t))
       end.

(* --- the pinned pre-fix loop -------------------------------------------------------------
   `for _, child := range n.children { pruned = child.prune(finalised, pruned) }` evaluates the
   slice header once (backing array, length L) and then reads array[i] for i < L, while
   child.prune calls n.deleteChild(child), which does
   n.children = append(n.children[:j], n.children[j+1:]...): the entries j+1..len-1 of the SAME
   backing array move one place left, the entry at len-1 stays (stale), len decreases.  Nodes are
   pointers: an entry read twice is the same node, so what the first visit did to its children is
   seen by the second.  Within one tree hashes are unique, so "same pointer" is "same hash". *)

Fixpoint index_of (h : N) (l : list bnode) : option nat :=
  match l with
  | [] => None
  | x :: r => if nhash x =? h then Some O else option_map S (index_of h r)
  end.

Definition delete_child (arr : list bnode) (len : nat) (h : N) : list bnode * nat :=
  match index_of h (firstn len arr) with
  | None => (arr, len)
  | Some j => (firstn j arr ++ firstn (len - j - 1) (skipn (j + 1) arr) ++ skipn (len - 1) arr,
               (len - 1)%nat)
  end.

Definition dummy_node : bnode := BNode 0 0 0%Z false [].

(* result: pruned list, the node after the mutations of its subtree, "n asked its parent to
   delete it" *)
Fixpoint prune_pre (fuel : nat) (fin : bnode) (n : bnode) (pruned : list N)
  : list N * bnode * bool :=
  match fuel with
  | O => (pruned, n, false)
  | S f =>
    if in_subtree (nhash n) fin then (pruned, n, false)
    else
      let del := negb (in_subtree (nhash fin) n) in
      let pruned1 := if del then pruned ++ [nhash n] else pruned in
      let L := length (nchildren n) in
      let '(pruned2, arr, len) :=
        (fix loop (cnt : nat) (i : nat) (arr : list bnode) (len : nat) (pruned : list N)
           : list N * list bnode * nat :=
           match cnt with
           | O => (pruned, arr, len)
           | S cnt' =>
             let c := nth i arr dummy_node in
             let '(pruned', c', d) := prune_pre f fin c pruned in
             let arr1 := map (fun x => if nhash x =? nhash c then c' else x) arr in
             let '(arr2, len2) := if d then delete_child arr1 len (nhash c) else (arr1, len) in
             loop cnt' (S i) arr2 len2 pruned'
           end) L O (nchildren n) L pruned1 in
      (pruned2, BNode (nhash n) (nnumber n) (narrival n) (nprimary n) (firstn len arr), del)
  end.

Fixpoint node_size (n : bnode) : nat :=
  match n with BNode _ _ _ _ ch => S (fold_right plus O (map node_size ch)) end.

Definition prune_prefix (t : btree) (fh : N) : btree * list N :=
  if fh =? nhash (root t) then (t, [])
  else match get_node t fh with
       | None => (t, [])
       | Some n =>
         let '(pruned, _, _) := prune_pre (2 * node_size (root t) + 2) n (root t) [] in
         ({| root := n; leaves := get_leaves n |}, pruned)
       end.

(* ------------------------------------------------------------------ fork choice *)

(* what bestBlock / highestLeaf read of a leaf *)
Record linfo := mkLinfo {
  l_count : N;      (* primaryAncestorCount(0): primary blocks on the chain, root excluded *)
  l_number : N;
  l_arrival : Z;
  l_hash : N }.

Definition primary_count (path_without_root : list bnode) : N :=
  N.of_nat (length (filter nprimary path_without_root)).

Definition leaf_info (t : btree) (h : N) : option linfo :=
  match path_to h (root t) with
  | Some (_ :: rest as p) =>
    let n := last p (root t) in
    Some (mkLinfo (primary_count rest) (nnumber n) (narrival n) (nhash n))
  | _ => None
  end.

Definition leaf_infos (t : btree) : list linfo :=
  flat_map (fun h => match leaf_info t h with Some i => [i] | None => [] end) (leaves t).

(* leafMap.highestLeaf over the iteration order [ls]: state (max, deepest) *)
Definition hl_step (st : outcome (N * option linfo)) (n : linfo) : outcome (N * option linfo) :=
  match st with
  | Ok (mx, deepest) =>
    if mx <? l_number n then Ok (l_number n, Some n)
    else if mx =? l_number n then
      match deepest with
      | None => Panic      (* deepest.arrivalTime on a nil pointer *)
      | Some d =>
        if (l_arrival n <? l_arrival d)%Z then Ok (mx, Some n)
        else if (l_arrival n =? l_arrival d)%Z then
          (if l_hash n <? l_hash d then Ok (mx, Some n) else Ok (mx, deepest))
        else Ok (mx, deepest)
      end
    else Ok (mx, deepest)
  | other => other
  end.

Definition highest_leaf (ls : list linfo) : outcome (option linfo) :=
  match fold_left hl_step ls (Ok (0, None)) with
  | Ok (_, d) => Ok d
  | Err c => Err c
  | Panic => Panic
  | OutOfFuel => OutOfFuel
  end.

Definition max_count (ls : list linfo) : N := fold_left (fun m i => N.max m (l_count i)) ls 0.

(* leafMap.bestBlock: [ls] is the order in which the first Range visits the leaves, [sigma] the
   order in which the second sync.Map (lm2) is visited *)
Definition best_block_in (sigma : list linfo -> list linfo) (ls : list linfo) : outcome linfo :=
  let highest := max_count ls in
  let cands := filter (fun i => l_count i =? highest) ls in
  match cands with
  | [one] => Ok one
  | _ =>
    match highest_leaf (sigma cands) with
    | Ok (Some d) => Ok d
    | Ok None => Panic    (* bt.best().hash on a nil node *)
    | Err c => Err c
    | Panic => Panic
    | OutOfFuel => OutOfFuel
    end
  end.

(* [pi] = the order in which sync.Map.Range visits bt.leaves, [sigma] = the order for lm2 *)
Definition best_block_ord (pi sigma : list linfo -> list linfo) (t : btree) : outcome linfo :=
  best_block_in sigma (pi (leaf_infos t)).

Definition best_block (t : btree) : outcome linfo := best_block_ord (fun l => l) (fun l => l) t.

(* BlockTree.BestBlockHash *)
Definition best_block_hash_ord (pi sigma : list linfo -> list linfo) (t : btree) : outcome N :=
  match nchildren (root t) with
  | [] => Ok (nhash (root t))
  | _ => match best_block_ord pi sigma t with
         | Ok i => Ok (l_hash i)
         | Err c => Err c | Panic => Panic | OutOfFuel => OutOfFuel
         end
  end.

Definition best_block_hash (t : btree) : outcome N := best_block_hash_ord (fun l => l) (fun l => l) t.

(* ------------------------------------------------------------------ queries *)

Definition e_start_not_found : nat := 1.
Definition e_end_not_found : nat := 2.
Definition e_start_greater : nat := 3.
Definition e_nil_block : nat := 4.
Definition e_not_ancestor : nat := 5.
Definition e_node_not_found : nat := 6.
Definition e_num_greater : nat := 7.
Definition e_num_lower : nat := 8.

(* BlockTree.IsDescendantOf(parent, child) *)
Definition is_descendant_of (t : btree) (parent child : N) : outcome bool :=
  if parent =? child then Ok true
  else match get_node t parent with
       | None => Err e_start_not_found
       | Some pn =>
         match get_node t child with
         | None => Err e_end_not_found
         | Some cn => Ok (in_subtree (nhash cn) pn)
         end
       end.

(* second loop of lowestCommonAncestor: both cursors move up together *)
Fixpoint lca_walk (xs ys : list bnode) : outcome N :=
  match xs, ys with
  | x :: xs', y :: ys' =>
    if nhash x =? nhash y then Ok (nhash x)
    else match xs', ys' with
         | [], _ | _, [] => Panic
         | _, _ => lca_walk xs' ys'
         end
  | _, _ => Panic
  end.

Definition lowest_common_ancestor (t : btree) (a b : N) : outcome N :=
  match get_node t a with
  | None => Err e_node_not_found
  | Some an =>
    match get_node t b with
    | None => Err e_node_not_found
    | Some bn =>
      match ancestors t (nhash an), ancestors t (nhash bn) with
      | Some la, Some lb =>
        let '(hi, lo, diff) :=
          if nnumber bn <? nnumber an then (la, lb, nnumber an - nnumber bn)
          else (lb, la, nnumber bn - nnumber an) in
        (* first loop: diff times "if parent == nil panic; move up" *)
        if N.of_nat (length hi) <=? diff then Panic
        else lca_walk (skipn (N.to_nat diff) hi) lo
      | _, _ => Panic
      end
    end
  end.

(* accumulateHashesInDescedingOrder(endNode, startNode); [end_anc] = [end; parent end; ...; root].
   k = end.number - start.number iterations, each records the cursor's hash and moves to its
   parent, failing when there is none. *)
Definition accumulate_pre (end_anc : list bnode) (endn startn : bnode) : outcome (list N) :=
  if nnumber endn <? nnumber startn then Err e_start_greater
  else
    let k := N.to_nat (nnumber endn - nnumber startn) in
    if (length end_anc <=? k)%nat then Err e_nil_block
    else Ok (nhash startn :: rev (map nhash (firstn k end_anc))).

(* repaired (commit "fix: BlockTree.Range fails when the start block is not an ancestor of the
   end block"): after the walk the cursor must be the start node (pointer comparison; within a
   tree, same hash), otherwise ErrStartNodeNotFound *)
Definition accumulate (end_anc : list bnode) (endn startn : bnode) : outcome (list N) :=
  match accumulate_pre end_anc endn startn with
  | Ok l =>
    let k := N.to_nat (nnumber endn - nnumber startn) in
    match nth_error end_anc k with
    | Some c => if nhash c =? nhash startn then Ok l else Err e_start_not_found
    | None => Err e_start_not_found
    end
  | other => other
  end.

Section Range.
  Variable acc : list bnode -> bnode -> bnode -> outcome (list N).

  (* BlockTree.Range: an unknown start means "from the root" *)
  Definition range_with (t : btree) (s e : N) : outcome (list N) :=
    match get_node t e with
    | None => Err e_end_not_found
    | Some en =>
      let sn := match get_node t s with Some x => x | None => root t end in
      match ancestors t (nhash en) with
      | Some anc => acc anc en sn
      | None => Panic
      end
    end.

  (* BlockTree.RangeInMemory *)
  Definition range_in_memory_with (t : btree) (s e : N) : outcome (list N) :=
    match get_node t e with
    | None => Err e_end_not_found
    | Some en =>
      match get_node t s with
      | None => Err e_start_not_found
      | Some sn =>
        if nnumber en <? nnumber sn then Err e_start_greater
        else match ancestors t (nhash en) with
             | Some anc => acc anc en sn
             | None => Panic
             end
      end
    end.
End Range.

Definition range := range_with accumulate.
Definition range_in_memory := range_in_memory_with accumulate.
Definition range_prefix := range_with accumulate_pre.
Definition range_in_memory_prefix := range_in_memory_with accumulate_pre.

(* BlockTree.GetHashByNumber: the ancestor of the best block with that number *)
Definition get_hash_by_number (t : btree) (num : N) : outcome N :=
  match best_block t with
  | Ok best =>
    if l_number best <? num then Err e_num_greater
    else if l_number best =? num then Ok (l_hash best)
    else if num <? nnumber (root t) then Err e_num_lower
    else if nnumber (root t) =? num then Ok (nhash (root t))
    else match ancestors t (l_hash best) with
         | Some (_ :: up) =>
           match find (fun n => nnumber n =? num) up with
           | Some n => Ok (nhash n)
           | None => Err e_node_not_found
           end
         | _ => Err e_node_not_found
         end
  | Err c => Err c | Panic => Panic | OutOfFuel => OutOfFuel
  end.

(* BlockTree.GetHashesAtNumber *)
Definition get_hashes_at_number (t : btree) (num : N) : outcome (list N) :=
  if num <? nnumber (root t) then Ok []
  else match best_block t with
       | Ok best => if l_number best <? num then Ok [] else Ok (hashes_at_number num (root t))
       | Err c => Err c | Panic => Panic | OutOfFuel => OutOfFuel
       end.

(* BlockTree.GetAllBlocks / GetAllDescendants / Leaves *)
Definition get_all_blocks (t : btree) : list N := all_hashes (root t).
Definition get_all_descendants (t : btree) (h : N) : outcome (list N) :=
  match get_node t h with
  | Some n => Ok (all_hashes n)
  | None => Err e_node_not_found
  end.
Definition get_leaves_of (t : btree) : list N := leaves t.

(* ------------------------------------------------------------------ histories *)

Inductive op :=
| OAdd (hd : header) (arrival : Z)
| OFin (h : N).

Inductive opres :=
| RAdd (r : outcome unit)
| RFin (pruned : list N).

Definition step (t : btree) (o : op) : btree * opres :=
  match o with
  | OAdd hd a =>
    match add_block t hd a with
    | Ok t' => (t', RAdd (Ok tt))
    | Err c => (t, RAdd (Err c))
    | Panic => (t, RAdd Panic)
    | OutOfFuel => (t, RAdd OutOfFuel)
    end
  | OFin h => let '(t', p) := prune t h in (t', RFin p)
  end.

Fixpoint run (t : btree) (ops : list op) : btree * list opres :=
  match ops with
  | [] => (t, [])
  | o :: r => let '(t1, x) := step t o in let '(t2, xs) := run t1 r in (t2, x :: xs)
  end.

(* ------------------------------------------------------------------ block numbers are Go uint *)

(* AddBlock with the 64-bit arithmetic of the Go code made explicit: `number := parent.number + 1`
   wraps at 2^64, header.Number is a uint.  ProofsWrap.v shows that on histories whose numbers
   stay below 2^64 (root number + number of operations < 2^64) this is [add_block]; the two
   differ only when a parent carries the number 2^64 - 1. *)
Definition two64 : N := 18446744073709551616.

Definition add_block64 (t : btree) (hd : header) (arrival : Z) : outcome btree :=
  match get_node t (h_parent hd) with
  | None => Err e_parent_not_found
  | Some p =>
    match get_node t (h_hash hd) with
    | Some _ => Err e_block_exists
    | None =>
      let number := (nnumber p + 1) mod two64 in
      if negb (number =? h_number hd) then Err e_unexpected_number
      else
        match (if h_number hd =? 0 then Ok false else is_primary (h_digest hd)) with
        | Ok prim =>
          Ok {| root := insert_child (h_parent hd) (BNode (h_hash hd) number arrival prim []) (root t);
                leaves := replace_leaf (leaves t) (h_parent hd) (h_hash hd) |}
        | _ => Err e_is_primary
        end
    end
  end.

Definition step64 (t : btree) (o : op) : btree * opres :=
  match o with
  | OAdd hd a =>
    match add_block64 t hd a with
    | Ok t' => (t', RAdd (Ok tt))
    | Err c => (t, RAdd (Err c))
    | Panic => (t, RAdd Panic)
    | OutOfFuel => (t, RAdd OutOfFuel)
    end
  | OFin h => let '(t', p) := prune t h in (t', RFin p)
  end.

Fixpoint run64 (t : btree) (ops : list op) : btree * list opres :=
  match ops with
  | [] => (t, [])
  | o :: r => let '(t1, x) := step64 t o in let '(t2, xs) := run64 t1 r in (t2, x :: xs)
  end.
