(* BlockTree/ProofsPre.v — the pinned (pre-fix) node.prune and
   accumulateHashesInDescedingOrder violate the specification: concrete witnesses. *)
From Coq Require Import List NArith ZArith Bool Lia Permutation.
From Common Require Import Outcome.
From BlockTree Require Import Model Spec ProofsTree ProofsPath ProofsSpec ProofsSim ProofsQuery ProofsBest ProofsHist.
Import ListNotations.
Local Open Scope N_scope.

(* root 100 (number 0) with the four children 1, 2, 3, 4 added in this order *)
Definition w_child (h : N) : op := OAdd (mkHeader h 100 1 DPrimary) 0%Z.
Definition w_ops : list op := [w_child 1; w_child 2; w_child 3; w_child 4].
Definition w_tree : btree := tree_after 100 0 0%Z w_ops.

Lemma w_tree_wf : wf w_tree.
Proof. apply (sim_after 100 0 0%Z w_ops). Qed.

(* finalising the last child: the repaired loop reports 1, 2, 3; the pinned loop skips 2 *)
Lemma w_prune_fixed : snd (prune w_tree 4) = [1; 2; 3].
Proof. vm_compute. reflexivity. Qed.
Lemma w_prune_prefix : snd (prune_prefix w_tree 4) = [1; 3].
Proof. vm_compute. reflexivity. Qed.
Lemma w_prune_spec : snd (s_fin (abs w_tree) 4) = [1; 2; 3].
Proof. vm_compute. reflexivity. Qed.

Lemma prune_prefix_refuted :
  exists t f, wf t /\ ~ Permutation (snd (prune_prefix t f)) (snd (s_fin (abs t) f)).
Proof.
  exists w_tree, 4. split; [apply w_tree_wf|]. rewrite w_prune_prefix, w_prune_spec.
  intro P. apply Permutation_length in P. discriminate.
Qed.

(* five children, the second one finalised: 4 is skipped and 5 reported three times *)
Definition w2_tree : btree :=
  tree_after 100 0 0%Z [w_child 1; w_child 2; w_child 3; w_child 4; w_child 5].
Lemma w2_prune_prefix : snd (prune_prefix w2_tree 2) = [1; 3; 5; 5; 5].
Proof. vm_compute. reflexivity. Qed.
Lemma w2_prune_fixed : snd (prune w2_tree 2) = [1; 3; 4; 5].
Proof. vm_compute. reflexivity. Qed.

Lemma prune_prefix_duplicates : exists t f, wf t /\ ~ NoDup (snd (prune_prefix t f)).
Proof.
  exists w2_tree, 2. split; [apply (sim_after 100 0 0%Z)|]. rewrite w2_prune_prefix.
  intro H. inversion H as [|? ? _ H1]; subst. inversion H1 as [|? ? _ H2]; subst.
  inversion H2 as [|? ? H3 _]; subst. apply H3. left. reflexivity.
  (* [1; 3; 5; 5; 5]: the third element occurs again *)
Qed.

(* Range between two siblings: the pinned code answers [start] *)
Lemma range_prefix_refuted :
  exists t a e, wf t /\ check_range (abs t) a e (range_prefix t a e) = false
                /\ check_range_in_memory (abs t) a e (range_in_memory_prefix t a e) = false.
Proof.
  exists w_tree, 1, 2. split; [apply w_tree_wf|]. split; vm_compute; reflexivity.
Qed.
