(* BlockTree/ProofsBest.v — fork choice: leafMap.bestBlock / highestLeaf compute the
   lexicographic maximum (primaries desc, number desc, arrival asc, hash asc) of the leaves,
   whatever the iteration orders of the two sync.Maps, and this maximum is the one the
   specification defines from the parent links. *)
From Coq Require Import List NArith ZArith Bool Lia Permutation.
From Common Require Import Outcome.
From BlockTree Require Import Model Spec ProofsTree ProofsPath ProofsSpec ProofsSim ProofsQuery.
Import ListNotations.
Local Open Scope N_scope.

(* ------------------------------------------------------------------ the order *)

Definition betterP (a b : linfo) : Prop :=
  l_count b < l_count a \/
  (l_count a = l_count b /\
   (l_number b < l_number a \/
    (l_number a = l_number b /\
     ((l_arrival a < l_arrival b)%Z \/
      (l_arrival a = l_arrival b /\ l_hash a < l_hash b))))).

Lemma better_spec a b : better a b = true <-> betterP a b.
Proof.
  unfold better, betterP.
  destruct (N.ltb_spec (l_count b) (l_count a)); [split; auto|].
  destruct (N.ltb_spec (l_count a) (l_count b)); [split; [discriminate|lia]|].
  destruct (N.ltb_spec (l_number b) (l_number a)); [split; auto; intros _; right; split; [lia|auto]|].
  destruct (N.ltb_spec (l_number a) (l_number b)); [split; [discriminate|lia]|].
  destruct (Z.ltb_spec (l_arrival a) (l_arrival b)).
  { split; auto. intros _. right. split; [lia|]. right. split; [lia|]. left. auto. }
  destruct (Z.ltb_spec (l_arrival b) (l_arrival a)); [split; [discriminate|lia]|].
  rewrite N.ltb_lt. split.
  - intros. right. split; [lia|]. right. split; [lia|]. right. split; [lia|auto].
  - lia.
Qed.

Lemma better_false a b : better a b = false <-> ~ betterP a b.
Proof. rewrite <- better_spec. destruct (better a b); split; congruence. Qed.

Lemma betterP_irrefl a : ~ betterP a a.
Proof. unfold betterP. lia. Qed.
Lemma betterP_asym a b : betterP a b -> ~ betterP b a.
Proof. unfold betterP. lia. Qed.
Lemma betterP_trans a b c : betterP a b -> betterP b c -> betterP a c.
Proof. unfold betterP. lia. Qed.
Lemma betterP_total a b : l_hash a <> l_hash b -> betterP a b \/ betterP b a.
Proof. unfold betterP. lia. Qed.

(* m is the maximum of l *)
Definition is_max (l : list linfo) (m : linfo) : Prop :=
  In m l /\ forall x, In x l -> x = m \/ betterP m x.

Lemma is_max_unique l m m' : is_max l m -> is_max l m' -> m = m'.
Proof.
  intros (H1 & H2) (H1' & H2'). destruct (H2 m' H1') as [|B]; auto.
  destruct (H2' m H1) as [|B']; auto. exfalso. eapply betterP_asym; eauto.
Qed.

Definition amax_step (acc : option linfo) (x : linfo) : option linfo :=
  match acc with None => Some x | Some y => if better x y then Some x else Some y end.

Lemma argmax_fold l : argmax l = fold_left amax_step l None.
Proof. reflexivity. Qed.

Lemma amax_fold_some l : forall y, NoDup (map l_hash (y :: l)) ->
  exists m, fold_left amax_step l (Some y) = Some m /\ is_max (y :: l) m.
Proof.
  induction l as [|x l IH]; intros y ND.
  - exists y. split; auto. split; [left; auto|]. intros x [<-|[]]. auto.
  - simpl. assert (Hxy : l_hash x <> l_hash y).
    { simpl in ND. inversion ND; subst. intro E. apply H1. left. auto. }
    destruct (better x y) eqn:B.
    + destruct (IH x) as (m & Hm & Hin & Hmax).
      { simpl in *. inversion ND; subst. exact H2. }
      exists m. split; auto. split.
      * destruct Hin as [<-|Hin]; [right; left; auto|right; right; auto].
      * intros z [<-|[<-|Hz]].
        -- apply better_spec in B. destruct (Hmax x (or_introl eq_refl)) as [->|B2]; auto.
           right. eapply betterP_trans; eauto.
        -- apply Hmax. left; auto.
        -- apply Hmax. right; auto.
    + destruct (IH y) as (m & Hm & Hin & Hmax).
      { simpl in *. inversion ND; subst. inversion H2; subst. constructor; auto.
        intro Hi. apply H1. right. auto. }
      exists m. split; auto. split.
      * destruct Hin as [<-|Hin]; [left; auto|right; right; auto].
      * intros z [<-|[<-|Hz]].
        -- apply Hmax. left; auto.
        -- apply better_false in B. destruct (betterP_total x y Hxy) as [|B2]; [contradiction|].
           destruct (Hmax y (or_introl eq_refl)) as [->|B3]; auto.
           right. eapply betterP_trans; eauto.
        -- apply Hmax. right; auto.
Qed.

Lemma argmax_is_max l : NoDup (map l_hash l) -> l <> [] -> exists m, argmax l = Some m /\ is_max l m.
Proof.
  intros ND Hne. destruct l as [|y l]; [congruence|]. rewrite argmax_fold. simpl.
  apply amax_fold_some; auto.
Qed.

Lemma argmax_char l m : NoDup (map l_hash l) -> (argmax l = Some m <-> is_max l m).
Proof.
  intros ND. split.
  - intros H. destruct l as [|y l]; [discriminate|].
    destruct (argmax_is_max (y :: l) ND) as (m' & E & Hm'); [discriminate|]. congruence.
  - intros H. assert (Hne : l <> []) by (destruct H as (Hi & _); destruct l; [contradiction|discriminate]).
    destruct (argmax_is_max l ND Hne) as (m' & E & Hm'). rewrite E. f_equal.
    eapply is_max_unique; eauto.
Qed.

Lemma argmax_nil_iff l : argmax l = None <-> l = [].
Proof.
  split; [|intros ->; reflexivity]. destruct l as [|y l]; auto. rewrite argmax_fold. simpl.
  assert (forall l y, fold_left amax_step l (Some y) <> None).
  { clear. induction l; simpl; intros y; [discriminate|]. destruct (better a y); apply IHl. }
  intros E. exfalso. eapply H; eauto.
Qed.

Lemma argmax_perm l1 l2 : NoDup (map l_hash l1) -> Permutation l1 l2 -> argmax l1 = argmax l2.
Proof.
  intros ND P. assert (ND2 : NoDup (map l_hash l2)).
  { eapply Permutation_NoDup; [apply Permutation_map; eauto|auto]. }
  destruct (argmax l1) as [m|] eqn:E.
  - symmetry. apply argmax_char; auto. apply argmax_char in E; auto. destruct E as (Hi & Hm). split.
    + eapply Permutation_in; eauto.
    + intros x Hx. apply Hm. eapply Permutation_in; [apply Permutation_sym|]; eauto.
  - apply argmax_nil_iff in E. subst. apply Permutation_nil in P. subst. reflexivity.
Qed.

(* ------------------------------------------------------------------ highestLeaf *)


(* among leaves with the same primary count, hl_step keeps the better one *)
Lemma hl_step_better d n : l_count n = l_count d ->
  hl_step (Ok (l_number d, Some d)) n = Ok (if better n d then (l_number n, Some n) else (l_number d, Some d)).
Proof.
  intros Ec. unfold hl_step, better. rewrite Ec, N.ltb_irrefl.
  destruct (N.ltb_spec (l_number d) (l_number n)); [reflexivity|].
  destruct (N.eqb_spec (l_number d) (l_number n)) as [En|Hne].
  - rewrite <- En, N.ltb_irrefl.
    destruct (Z.ltb_spec (l_arrival n) (l_arrival d)); [reflexivity|].
    destruct (Z.eqb_spec (l_arrival n) (l_arrival d)) as [Ea|Ha].
    + rewrite Ea, Z.ltb_irrefl. destruct (l_hash n <? l_hash d); reflexivity.
    + destruct (Z.ltb_spec (l_arrival d) (l_arrival n)); [reflexivity|lia].
  - destruct (N.ltb_spec (l_number n) (l_number d)); [reflexivity|lia].
Qed.

Lemma highest_leaf_fold l : forall d, (forall x, In x l -> l_count x = l_count d) ->
  fold_left hl_step l (Ok (l_number d, Some d)) =
  match fold_left amax_step l (Some d) with
  | Some m => Ok (l_number m, Some m)
  | None => Panic
  end.
Proof.
  induction l as [|x l IH]; intros d H; [reflexivity|]. cbn [fold_left].
  rewrite hl_step_better by (apply H; left; auto).
  change (amax_step (Some d) x) with (if better x d then Some x else Some d).
  destruct (better x d).
  - apply IH. intros y Hy. rewrite (H y), (H x); simpl; auto.
  - apply IH. intros y Hy. apply H; right; auto.
Qed.

Lemma highest_leaf_argmax l : l <> [] ->
  (forall x, In x l -> 1 <= l_number x) ->
  (forall x y, In x l -> In y l -> l_count x = l_count y) ->
  highest_leaf l = Ok (argmax l).
Proof.
  intros Hne Hnum Hc. destruct l as [|d l]; [congruence|]. unfold highest_leaf. cbn [fold_left].
  assert (E : hl_step (Ok (0, None)) d = Ok (l_number d, Some d)).
  { unfold hl_step. destruct (N.ltb_spec 0 (l_number d)); auto.
    specialize (Hnum d (or_introl eq_refl)). lia. }
  rewrite E, highest_leaf_fold.
  - rewrite argmax_fold. simpl.
    destruct (fold_left amax_step l (Some d)) eqn:F; auto.
    exfalso. revert F. clear. revert d. induction l; simpl; intros d; [discriminate|].
    destruct (better a d); apply IHl.
  - intros x Hx. apply Hc; simpl; auto.
Qed.

(* ------------------------------------------------------------------ bestBlock *)

Lemma max_count_fold l : forall m0, fold_left (fun m i => N.max m (l_count i)) l m0 =
  N.max m0 (fold_left (fun m i => N.max m (l_count i)) l 0).
Proof.
  induction l as [|x l IH]; intros m0; simpl; [lia|].
  rewrite IH, (IH (N.max 0 (l_count x))). lia.
Qed.

Lemma max_count_ge l x : In x l -> l_count x <= max_count l.
Proof.
  unfold max_count. induction l as [|y l IH]; simpl; intros H; [contradiction|].
  rewrite max_count_fold. destruct H as [->|H]; [lia|]. specialize (IH H). lia.
Qed.

Lemma max_count_attained l : l <> [] -> exists x, In x l /\ l_count x = max_count l.
Proof.
  unfold max_count. induction l as [|y l IH]; intros Hne; [congruence|]. simpl.
  rewrite max_count_fold. destruct l as [|z l].
  - exists y. split; [left; auto|]. simpl. lia.
  - destruct IH as (x & Hx & Ex); [discriminate|].
    destruct (N.leb_spec (l_count y) (fold_left (fun m i => N.max m (l_count i)) (z :: l) 0)).
    + exists x. split; [right; auto|]. lia.
    + exists y. split; [left; auto|]. lia.
Qed.

Lemma max_count_perm l1 l2 : Permutation l1 l2 -> max_count l1 = max_count l2.
Proof.
  intros P. apply N.le_antisymm.
  - destruct l1 as [|a l1].
    + apply Permutation_nil in P. subst. reflexivity.
    + destruct (max_count_attained (a :: l1)) as (x & Hx & <-); [discriminate|].
      apply max_count_ge. eapply Permutation_in; eauto.
  - destruct l2 as [|a l2].
    + apply Permutation_sym, Permutation_nil in P. subst. reflexivity.
    + destruct (max_count_attained (a :: l2)) as (x & Hx & <-); [discriminate|].
      apply max_count_ge. eapply Permutation_in; [apply Permutation_sym|]; eauto.
Qed.

Lemma NoDup_map_filter {A B} (f : A -> B) (p : A -> bool) l :
  NoDup (map f l) -> NoDup (map f (filter p l)).
Proof.
  induction l as [|a l IH]; simpl; intros ND; [constructor|].
  inversion ND; subst. destruct (p a); auto. simpl. constructor; auto.
  intro Hi. apply H1. apply in_map_iff in Hi as (b & Hb & Hi). apply filter_In in Hi as (Hi & _).
  rewrite <- Hb. apply in_map; auto.
Qed.

(* permutation functions: what the iteration order of a sync.Map can do *)
Definition permuting (f : list linfo -> list linfo) : Prop := forall l, Permutation l (f l).

Theorem best_block_in_argmax sigma ls :
  permuting sigma -> NoDup (map l_hash ls) -> ls <> [] ->
  (forall x, In x ls -> 1 <= l_number x) ->
  best_block_in sigma ls = match argmax ls with Some m => Ok m | None => Panic end.
Proof.
  intros Hs ND Hne Hnum. unfold best_block_in.
  set (hi := max_count ls). set (cands := filter (fun i => l_count i =? hi) ls).
  assert (Hc_in : forall x, In x cands <-> In x ls /\ l_count x = hi).
  { intros x. unfold cands. rewrite filter_In, N.eqb_eq. tauto. }
  assert (Hc_ne : cands <> []).
  { destruct (max_count_attained ls Hne) as (x & Hx & Ex).
    intro E. assert (In x cands) by (apply Hc_in; auto). rewrite E in H. contradiction. }
  assert (NDc : NoDup (map l_hash cands)).
  { unfold cands. apply NoDup_map_filter. exact ND. }
  (* the maximum of the candidates is the maximum of all leaves *)
  destruct (argmax_is_max cands NDc Hc_ne) as (m & Em & Hm_in & Hm_max).
  assert (Hmax : is_max ls m).
  { apply Hc_in in Hm_in as (Hm_ls & Hm_c). split; auto. intros x Hx.
    destruct (N.eqb_spec (l_count x) hi) as [Ex|Hx'].
    - apply Hm_max. apply Hc_in. auto.
    - right. left. pose proof (max_count_ge ls x Hx). fold hi in H. lia. }
  apply argmax_char in Hmax; auto. rewrite Hmax.
  assert (Hhl : highest_leaf (sigma cands) = Ok (Some m)).
  { rewrite highest_leaf_argmax.
    - rewrite <- (argmax_perm cands (sigma cands) NDc (Hs cands)), Em. reflexivity.
    - intro E. specialize (Hs cands). rewrite E in Hs. apply Permutation_sym, Permutation_nil in Hs.
      contradiction.
    - intros x Hx. apply Hnum. apply (Hc_in x).
      eapply Permutation_in; [apply Permutation_sym, Hs|]; auto.
    - intros x y Hx Hy.
      assert (In x cands) by (eapply Permutation_in; [apply Permutation_sym, Hs|]; auto).
      assert (In y cands) by (eapply Permutation_in; [apply Permutation_sym, Hs|]; auto).
      apply Hc_in in H as (_ & ->). apply Hc_in in H0 as (_ & ->). reflexivity. }
  destruct cands as [|c1 [|c2 r]] eqn:Ec.
  - congruence.
  - rewrite argmax_fold in Em. simpl in Em. congruence.
  - rewrite Hhl. reflexivity.
Qed.

(* ------------------------------------------------------------------ leaf infos of a tree *)

Lemma pcount_of_linked (E : list blk) : NoDup (map b_hash E) ->
  forall x q m, linked E x q m -> forall f,
  pcount_fuel (length q + f) E (nhash m) = primary_count q + pcount_fuel f E (nhash x).
Proof.
  intros ND x q m H. induction H as [x|x y q m Hin Hq IH]; intros f.
  - unfold primary_count. simpl. lia.
  - replace (length (y :: q) + f)%nat with (length q + S f)%nat by (simpl; lia).
    rewrite IH. simpl pcount_fuel.
    pose proof (find_blk_in E (edge_of x y) ND Hin) as Hf. simpl in Hf. rewrite Hf. simpl b_primary.
    simpl b_parent. unfold primary_count. simpl filter. destruct (nprimary y); simpl length; lia.
Qed.

Lemma pcount_fuel_stop E f h : find_blk E h = None -> pcount_fuel f E h = 0.
Proof. intros H. destruct f; simpl; auto. rewrite H. reflexivity. Qed.

Lemma abs_pcount t q m : uniq (root t) -> is_path (root t) (root t :: q) m ->
  s_pcount (abs t) (nhash m) = primary_count q.
Proof.
  intros U Hp. unfold s_pcount, abs. simpl s_blocks.
  destruct (edges_keys_nodup _ U) as (ND & Hr).
  destruct (is_path_linked _ _ _ Hp (edges (root t)) (incl_refl _)) as (q' & Eq & Hl).
  inversion Eq; subst q'.
  pose proof (is_path_length _ _ _ Hp) as Hlen. rewrite edges_hashes in Hlen. simpl in Hlen.
  rewrite map_length in Hlen.
  replace (length (edges (root t))) with (length q + (length (edges (root t)) - length q))%nat by lia.
  rewrite (pcount_of_linked _ ND _ _ _ Hl), pcount_fuel_stop; [lia|].
  apply find_blk_none. exact Hr.
Qed.

(* the model's view of a non-root leaf is the specification's *)
Lemma abs_leaf_info t h : uniq (root t) -> nums_okb (root t) = true ->
  In h (all_hashes (root t)) -> h <> nhash (root t) ->
  exists b, s_find (abs t) h = Some b /\
            leaf_info t h = Some (mkLinfo (s_pcount (abs t) h) (b_number b) (b_arrival b) h) /\
            1 <= b_number b.
Proof.
  intros U Hn Hin Hne. destruct (find_node_in _ _ Hin) as (m & Hf).
  destruct (abs_find_node t h m U Hf Hne) as (b & Hb & Hbh & Hbn & Hba & _).
  exists b. split; auto. unfold leaf_info.
  destruct (find_node_some _ _ _ Hf) as (Hm & Hmh).
  destruct (node_has_path _ _ Hm) as (p & Hp).
  rewrite <- Hmh. rewrite (path_to_complete _ _ _ U Hp).
  destruct (is_path_head _ _ _ Hp) as (q & ->).
  assert (Hq : q <> []).
  { intros ->. apply Hne. rewrite <- Hmh. f_equal.
    inversion Hp as [|? c p' ? Hc Hp']; subst; auto. inversion Hp'. }
  assert (El : last q (root t) = m).
  { rewrite <- (is_path_last _ _ _ Hp (root t)). destruct q; reflexivity. }
  cbn [last]. fold (last q (root t)). try rewrite El. rewrite (abs_pcount t q m U Hp).
  split; [congruence|].
  rewrite Hbn, (is_path_end_number _ _ _ Hp Hn). simpl length.
  destruct q as [|c q]; [congruence|]. simpl. lia.
Qed.

Lemma flat_map_perm {A B} (f : A -> list B) l1 l2 :
  Permutation l1 l2 -> Permutation (flat_map f l1) (flat_map f l2).
Proof.
  intros P. induction P; simpl; auto.
  - apply Permutation_app_head; auto.
  - rewrite !app_assoc. apply Permutation_app_tail. apply Permutation_app_comm.
  - eapply Permutation_trans; eauto.
Qed.

Lemma root_not_leaf t : uniq (root t) -> nchildren (root t) <> [] -> ~ In (nhash (root t)) (get_leaves (root t)).
Proof.
  intros U Hc Hi. apply get_leaves_in in Hi as (m & Hm & Hmh & Hmc).
  assert (m = root t) by (apply (node_eq_of_hash (root t)); auto; apply all_nodes_self). subst. contradiction.
Qed.

Lemma abs_leaf_infos t : wf t -> nchildren (root t) <> [] ->
  Permutation (leaf_infos t) (s_leaf_infos (abs t)) /\
  (forall x, In x (leaf_infos t) -> 1 <= l_number x) /\
  map l_hash (leaf_infos t) = leaves t.
Proof.
  intros (U & Hn & Hl) Hc.
  assert (Hinfo : forall h, In h (leaves t) ->
            exists b, s_find (abs t) h = Some b /\
              leaf_info t h = Some (mkLinfo (s_pcount (abs t) h) (b_number b) (b_arrival b) h) /\
              1 <= b_number b).
  { intros h Hh. apply (Permutation_in _ Hl) in Hh. apply abs_leaf_info; auto.
    - apply get_leaves_incl; auto.
    - intros ->. eapply root_not_leaf; eauto. }
  assert (E : leaf_infos t = flat_map (fun h => match s_find (abs t) h with
                     | Some b => [mkLinfo (s_pcount (abs t) h) (b_number b) (b_arrival b) h]
                     | None => []
                     end) (leaves t)).
  { unfold leaf_infos. apply flat_map_ext_in. intros h Hh.
    destruct (Hinfo h Hh) as (b & -> & -> & _). reflexivity. }
  split; [|split].
  - rewrite E. unfold s_leaf_infos. apply flat_map_perm.
    eapply Permutation_trans; [exact Hl|]. apply abs_leaves; auto.
  - intros x Hx. rewrite E in Hx. apply in_flat_map in Hx as (h & Hh & Hx).
    destruct (Hinfo h Hh) as (b & Hb & _ & Hnum). rewrite Hb in Hx. destruct Hx as [<-|[]]. exact Hnum.
  - rewrite E. clear E. revert Hinfo. generalize (leaves t) as l. clear.
    induction l as [|h l IH]; intros Hinfo; simpl; auto.
    destruct (Hinfo h (or_introl eq_refl)) as (b & -> & _). simpl. f_equal. apply IH.
    intros h' Hh'. apply Hinfo. right; auto.
Qed.

Lemma seq_leaf_infos s1 s2 : seq s1 s2 -> swf s1 -> Permutation (s_leaf_infos s1) (s_leaf_infos s2).
Proof.
  intros E W. unfold s_leaf_infos.
  eapply Permutation_trans; [apply flat_map_perm; apply (seq_leaves _ _ E W)|].
  erewrite flat_map_ext_in; [reflexivity|]. intros h _. simpl.
  rewrite (seq_find _ _ E W), (seq_pcount _ _ E W). reflexivity.
Qed.

Lemma s_leaf_infos_hashes s : map l_hash (s_leaf_infos s) = filter (fun h => match s_find s h with Some _ => true | None => false end) (s_leaves s).
Proof.
  unfold s_leaf_infos. induction (s_leaves s) as [|h l IH]; simpl; auto.
  destruct (s_find s h); simpl; rewrite IH; reflexivity.
Qed.

Lemma s_leaf_infos_nodup s : swf s -> NoDup (map l_hash (s_leaf_infos s)).
Proof.
  intros W. rewrite s_leaf_infos_hashes. apply NoDup_filter. unfold s_leaves. apply NoDup_filter. exact W.
Qed.

Lemma seq_best s1 s2 : seq s1 s2 -> swf s1 -> s_best s1 = s_best s2.
Proof.
  intros E W. unfold s_best. apply argmax_perm.
  - apply s_leaf_infos_nodup; auto.
  - apply seq_leaf_infos; auto.
Qed.

Lemma seq_best_hash s1 s2 : seq s1 s2 -> swf s1 -> s_best_hash s1 = s_best_hash s2.
Proof.
  intros E W. unfold s_best_hash. rewrite (seq_best _ _ E W).
  destruct E as (Er & _ & P). rewrite Er.
  destruct (s_blocks s1) eqn:E1, (s_blocks s2) eqn:E2; auto.
  - apply Permutation_nil in P. discriminate.
  - apply Permutation_sym, Permutation_nil in P. discriminate.
Qed.

(* ------------------------------------------------------------------ the fork-choice theorem *)

Lemma abs_edges_nil t : edges (root t) = [] <-> nchildren (root t) = [].
Proof.
  rewrite edges_unfold. destruct (nchildren (root t)); simpl; split; auto; discriminate.
Qed.

Theorem best_block_abs pi sigma t : wf t -> permuting pi -> permuting sigma ->
  nchildren (root t) <> [] ->
  best_block_ord pi sigma t = match s_best (abs t) with Some m => Ok m | None => Panic end.
Proof.
  intros W Hpi Hsig Hc. pose proof W as (U & Hn & Hl).
  destruct (abs_leaf_infos t W Hc) as (P & Hnum & Hh).
  unfold best_block_ord.
  assert (ND : NoDup (map l_hash (leaf_infos t))).
  { rewrite Hh. eapply Permutation_NoDup; [apply Permutation_sym; exact Hl|].
    apply get_leaves_nodup; auto. }
  assert (Hne : leaf_infos t <> []).
  { intro E. rewrite E in Hh. simpl in Hh. rewrite <- Hh in Hl.
    apply Permutation_nil in Hl.
    destruct (nchildren (root t)) as [|c r] eqn:Ec; [congruence|].
    assert (Hcn : In c (all_nodes (root t))).
    { eapply all_nodes_child; [rewrite Ec; left; reflexivity|apply all_nodes_self]. }
    (* some leaf exists below c *)
    assert (forall n, exists y, In y (get_leaves n)).
    { clear. induction n as [h x a p ch IH] using bnode_ind'. rewrite get_leaves_unfold. simpl.
      destruct ch as [|d ch]; [exists h; left; auto|]. inversion IH; subst.
      destruct H1 as (y & Hy). exists y. simpl. apply in_or_app. left. auto. }
    destruct (H (root t)) as (y & Hy). rewrite Hl in Hy. contradiction. }
  rewrite best_block_in_argmax; auto.
  - unfold s_best. rewrite <- (argmax_perm (leaf_infos t) (pi (leaf_infos t)) ND (Hpi _)).
    rewrite (argmax_perm (leaf_infos t) (s_leaf_infos (abs t)) ND P). reflexivity.
  - eapply Permutation_NoDup; [apply Permutation_map, Hpi|]. exact ND.
  - intro E. specialize (Hpi (leaf_infos t)). rewrite E in Hpi.
    apply Permutation_sym, Permutation_nil in Hpi. contradiction.
  - intros x Hx. apply Hnum. eapply Permutation_in; [apply Permutation_sym, Hpi|]; auto.
Qed.

Theorem best_block_hash_abs pi sigma t : wf t -> permuting pi -> permuting sigma ->
  best_block_hash_ord pi sigma t = match s_best_hash (abs t) with Some h => Ok h | None => Panic end.
Proof.
  intros W Hpi Hsig. unfold best_block_hash_ord, s_best_hash. simpl s_blocks.
  destruct (nchildren (root t)) as [|c r] eqn:Ec.
  - apply abs_edges_nil in Ec. rewrite Ec. reflexivity.
  - assert (Hc : nchildren (root t) <> []) by (rewrite Ec; discriminate).
    rewrite (best_block_abs pi sigma t W Hpi Hsig Hc).
    destruct (edges (root t)) eqn:Ee.
    + apply abs_edges_nil in Ee. congruence.
    + destruct (s_best (abs t)); reflexivity.
Qed.

Theorem sim_best_block_hash pi sigma t s : sim t s -> permuting pi -> permuting sigma ->
  best_block_hash_ord pi sigma t = match s_best_hash s with Some h => Ok h | None => Panic end.
Proof.
  intros (W & E) Hpi Hsig. rewrite (best_block_hash_abs pi sigma t W Hpi Hsig).
  rewrite (seq_best_hash _ _ E (abs_swf t (proj1 W))). reflexivity.
Qed.

(* the specification's best block is a leaf, and the lexicographic maximum of the leaves *)
Lemma s_best_is_max s m : swf s -> s_best s = Some m -> is_max (s_leaf_infos s) m.
Proof. intros W H. apply argmax_char; auto. apply s_leaf_infos_nodup; auto. Qed.

Lemma s_leaf_infos_in s x : In x (s_leaf_infos s) -> In (l_hash x) (s_leaves s).
Proof.
  unfold s_leaf_infos. intros H. apply in_flat_map in H as (h & Hh & Hx).
  destruct (s_find s h); [|contradiction]. destruct Hx as [<-|[]]. exact Hh.
Qed.

Lemma s_best_hash_leaf s h : swf s -> s_best_hash s = Some h -> In h (s_leaves s).
Proof.
  intros W. unfold s_best_hash. destruct (s_blocks s) eqn:Eb.
  - intros E. inversion E; subst. unfold s_leaves, s_hashes. rewrite Eb. simpl. left. reflexivity.
  - destruct (s_best s) as [m|] eqn:Em; [|discriminate]. simpl. intros E. inversion E; subst.
    apply s_leaf_infos_in. apply (s_best_is_max s m W Em).
Qed.

(* fork choice never fails on a reachable state *)
Lemma get_leaves_nonempty n : exists y, In y (get_leaves n).
Proof.
  induction n as [h x a p ch IH] using bnode_ind'. rewrite get_leaves_unfold. simpl.
  destruct ch as [|d ch]; [exists h; left; auto|]. inversion IH; subst.
  destruct H1 as (y & Hy). exists y. simpl. apply in_or_app. left. auto.
Qed.

Lemma sim_best_some t s : sim t s -> exists b, s_best_hash s = Some b.
Proof.
  intros (W & E). rewrite <- (seq_best_hash _ _ E (abs_swf t (proj1 W))).
  unfold s_best_hash. simpl s_blocks. destruct (edges (root t)) eqn:Ee; [eauto|].
  assert (Hc : nchildren (root t) <> []).
  { intro Hc. apply abs_edges_nil in Hc. congruence. }
  destruct (abs_leaf_infos t W Hc) as (P & _ & Hh).
  destruct (s_best (abs t)) as [m|] eqn:Em; [simpl; eauto|]. exfalso.
  unfold s_best in Em. apply argmax_nil_iff in Em. rewrite Em in P.
  apply Permutation_sym, Permutation_nil in P. rewrite P in Hh. simpl in Hh.
  destruct W as (_ & _ & Hl). rewrite <- Hh in Hl. apply Permutation_nil in Hl.
  destruct (get_leaves_nonempty (root t)) as (y & Hy). rewrite Hl in Hy. contradiction.
Qed.
