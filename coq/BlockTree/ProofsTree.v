(* BlockTree/ProofsTree.v — structural lemmas about the rose-tree model: the flat list of
   nodes, uniqueness of hashes, find_node / in_subtree / path_to, the edge list. *)
From Coq Require Import List NArith ZArith Bool Lia Permutation.
From Common Require Import Outcome.
From BlockTree Require Import Model Spec.
Import ListNotations.
Local Open Scope N_scope.

(* ------------------------------------------------------------------ induction *)

Lemma bnode_ind' (P : bnode -> Prop) :
  (forall h x a p ch, Forall P ch -> P (BNode h x a p ch)) -> forall n, P n.
Proof.
  intros H. fix IH 1. intros [h x a p ch]. apply H.
  induction ch as [|c r IHr]; constructor; [apply IH | exact IHr].
Qed.

(* ------------------------------------------------------------------ generic list lemmas *)

Lemma in_flat_map_iff {A B} (f : A -> list B) l y :
  In y (flat_map f l) <-> exists x, In x l /\ In y (f x).
Proof. apply in_flat_map. Qed.

Lemma NoDup_app_inv {A} (l1 l2 : list A) :
  NoDup (l1 ++ l2) -> NoDup l1 /\ NoDup l2 /\ (forall x, In x l1 -> In x l2 -> False).
Proof.
  induction l1 as [|a l1 IH]; simpl; intros H.
  - repeat split; auto. constructor.
  - inversion H as [|? ? Hn Hd]; subst. destruct (IH Hd) as (H1 & H2 & H3).
    repeat split; auto.
    + constructor; auto. intro Hi; apply Hn; apply in_or_app; auto.
    + intros x [->|Hx] Hx2.
      * apply Hn; apply in_or_app; auto.
      * eapply H3; eauto.
Qed.

Lemma NoDup_app_intro {A} (l1 l2 : list A) :
  NoDup l1 -> NoDup l2 -> (forall x, In x l1 -> In x l2 -> False) -> NoDup (l1 ++ l2).
Proof.
  induction l1 as [|a l1 IH]; simpl; intros H1 H2 H3; auto.
  inversion H1; subst. constructor.
  - intro Hi. apply in_app_or in Hi as [Hi|Hi]; auto. eapply H3; eauto.
  - apply IH; auto. intros x Hx; apply H3; auto.
Qed.

Lemma NoDup_flat_map_inv {A B} (f : A -> list B) (l : list A) :
  NoDup (flat_map f l) ->
  (forall a, In a l -> NoDup (f a)) /\
  (forall l1 a l2, l = l1 ++ a :: l2 ->
      forall y, In y (f a) -> ~ In y (flat_map f l1) /\ ~ In y (flat_map f l2)).
Proof.
  induction l as [|a l IH]; simpl; intros H.
  - split; [intros ? []|]. intros [|] ? ? Heq; discriminate.
  - apply NoDup_app_inv in H as (Ha & Hl & Hd). destruct (IH Hl) as (IH1 & IH2). split.
    + intros b [->|Hb]; auto.
    + intros l1 b l2 Heq y Hy. destruct l1 as [|a' l1]; simpl in Heq; inversion Heq; subst.
      * split; [intros []|]. intro Hi; eapply Hd; eauto.
      * destruct (IH2 l1 b l2 eq_refl y Hy) as (N1 & N2). split; auto.
        simpl. intro Hi. apply in_app_or in Hi as [Hi|Hi]; auto.
        eapply Hd; eauto. apply in_flat_map. exists b. split; auto. apply in_or_app; right; left; auto.
Qed.

Lemma NoDup_map_inj {A B} (f : A -> B) (l : list A) x y :
  NoDup (map f l) -> In x l -> In y l -> f x = f y -> x = y.
Proof.
  induction l as [|a l IH]; simpl; intros H Hx Hy E; [contradiction|].
  inversion H as [|? ? Hn Hd]; subst.
  destruct Hx as [->|Hx], Hy as [->|Hy]; auto.
  - exfalso; apply Hn. rewrite E. apply in_map; auto.
  - exfalso; apply Hn. rewrite <- E. apply in_map; auto.
Qed.

Lemma find_first_some {A B} (f : A -> option B) l y :
  find_first f l = Some y ->
  exists l1 a l2, l = l1 ++ a :: l2 /\ f a = Some y /\ forall b, In b l1 -> f b = None.
Proof.
  induction l as [|a l IH]; simpl; [discriminate|]. destruct (f a) eqn:E.
  - intros H; inversion H; subst. exists [], a, l. repeat split; auto. intros ? [].
  - intros H. destruct (IH H) as (l1 & b & l2 & -> & Hb & Hn).
    exists (a :: l1), b, l2. repeat split; auto. intros c [->|Hc]; auto.
Qed.

Lemma find_first_none {A B} (f : A -> option B) l :
  find_first f l = None <-> forall a, In a l -> f a = None.
Proof.
  induction l as [|a l IH]; simpl.
  - split; auto. intros _ ? [].
  - destruct (f a) eqn:E.
    + split; [discriminate|]. intros H. specialize (H a (or_introl eq_refl)). congruence.
    + rewrite IH. split; intros H; [intros b [->|Hb]; auto | intros b Hb; apply H; auto].
Qed.

Lemma find_first_app {A B} (f : A -> option B) l1 l2 :
  find_first f (l1 ++ l2) = match find_first f l1 with Some y => Some y | None => find_first f l2 end.
Proof. induction l1 as [|a l1 IH]; simpl; auto. destruct (f a); auto. Qed.

(* ------------------------------------------------------------------ all_nodes *)

Fixpoint all_nodes (n : bnode) : list bnode :=
  match n with BNode _ _ _ _ ch => n :: flat_map all_nodes ch end.

Lemma all_nodes_unfold n : all_nodes n = n :: flat_map all_nodes (nchildren n).
Proof. destruct n; reflexivity. Qed.
Lemma all_hashes_unfold n : all_hashes n = nhash n :: flat_map all_hashes (nchildren n).
Proof. destruct n; reflexivity. Qed.

Lemma map_flat_map {A B C} (g : B -> C) (f : A -> list B) l :
  map g (flat_map f l) = flat_map (fun a => map g (f a)) l.
Proof. induction l; simpl; auto. rewrite map_app, IHl. auto. Qed.

Lemma flat_map_ext_in {A B} (f g : A -> list B) l :
  (forall a, In a l -> f a = g a) -> flat_map f l = flat_map g l.
Proof. induction l; simpl; intros H; auto. rewrite H, IHl; auto. Qed.

Lemma all_hashes_nodes n : all_hashes n = map nhash (all_nodes n).
Proof.
  induction n as [h x a p ch IH] using bnode_ind'. simpl. f_equal.
  rewrite map_flat_map. apply flat_map_ext_in. intros c Hc.
  rewrite Forall_forall in IH. auto.
Qed.

Lemma all_nodes_self n : In n (all_nodes n).
Proof. rewrite all_nodes_unfold. left; auto. Qed.

Lemma all_nodes_child n c m : In c (nchildren n) -> In m (all_nodes c) -> In m (all_nodes n).
Proof.
  intros Hc Hm. rewrite all_nodes_unfold. right. apply in_flat_map. eauto.
Qed.

Lemma all_nodes_inv n m :
  In m (all_nodes n) -> m = n \/ exists c, In c (nchildren n) /\ In m (all_nodes c).
Proof.
  rewrite all_nodes_unfold. intros [->|H]; auto. right. apply in_flat_map in H. exact H.
Qed.

Lemma all_nodes_trans n : forall m k, In m (all_nodes n) -> In k (all_nodes m) -> In k (all_nodes n).
Proof.
  induction n as [h x a p ch IH] using bnode_ind'. intros m k Hm Hk.
  apply all_nodes_inv in Hm as [->|(c & Hc & Hm)]; auto.
  simpl in Hc. rewrite Forall_forall in IH.
  eapply all_nodes_child; eauto.
Qed.

Lemma in_hashes_nodes n h : In h (all_hashes n) <-> exists m, In m (all_nodes n) /\ nhash m = h.
Proof.
  rewrite all_hashes_nodes, in_map_iff. split; intros (m & A & B); exists m; auto.
Qed.

Lemma hashes_incl n m : In m (all_nodes n) -> incl (all_hashes m) (all_hashes n).
Proof.
  intros Hm h Hh. apply in_hashes_nodes in Hh as (k & Hk & <-).
  apply in_hashes_nodes. exists k. split; auto. eapply all_nodes_trans; eauto.
Qed.

Definition uniq (n : bnode) : Prop := NoDup (all_hashes n).

Lemma uniq_children n : uniq n ->
  ~ In (nhash n) (flat_map all_hashes (nchildren n)) /\ NoDup (flat_map all_hashes (nchildren n)).
Proof. unfold uniq. rewrite all_hashes_unfold. intros H; inversion H; auto. Qed.

Lemma uniq_child n c : uniq n -> In c (nchildren n) -> uniq c.
Proof.
  intros H Hc. apply uniq_children in H as (_ & H).
  apply NoDup_flat_map_inv in H as (H & _). apply H; auto.
Qed.

Lemma uniq_sub n : forall m, uniq n -> In m (all_nodes n) -> uniq m.
Proof.
  induction n as [h x a p ch IH] using bnode_ind'. intros m U Hm.
  apply all_nodes_inv in Hm as [->|(c & Hc & Hm)]; auto.
  rewrite Forall_forall in IH. eapply IH; eauto. eapply uniq_child; eauto.
Qed.

Lemma node_eq_of_hash n m1 m2 :
  uniq n -> In m1 (all_nodes n) -> In m2 (all_nodes n) -> nhash m1 = nhash m2 -> m1 = m2.
Proof.
  unfold uniq. rewrite all_hashes_nodes. intros. eapply NoDup_map_inj; eauto.
Qed.

(* distinct children have disjoint hash sets *)
Lemma children_disjoint n l1 c l2 h :
  uniq n -> nchildren n = l1 ++ c :: l2 -> In h (all_hashes c) ->
  ~ In h (flat_map all_hashes l1) /\ ~ In h (flat_map all_hashes l2) /\ h <> nhash n.
Proof.
  intros U E Hh. apply uniq_children in U as (U0 & U).
  apply NoDup_flat_map_inv in U as (_ & U). destruct (U l1 c l2 E h Hh). repeat split; auto.
  intros ->. apply U0. rewrite E. apply in_flat_map. exists c. split; auto.
  apply in_or_app; right; left; auto.
Qed.

(* ------------------------------------------------------------------ in_subtree, find_node *)

Lemma in_subtree_spec h n : in_subtree h n = true <-> In h (all_hashes n).
Proof.
  induction n as [h' x a p ch IH] using bnode_ind'. simpl.
  destruct (N.eqb_spec h h') as [->|Hne].
  - split; auto.
  - rewrite existsb_exists. rewrite Forall_forall in IH. split.
    + intros (c & Hc & Hs). right. apply in_flat_map. exists c. split; auto. apply IH; auto.
    + intros [E|H]; [congruence|]. apply in_flat_map in H as (c & Hc & Hs).
      exists c. split; auto. apply IH; auto.
Qed.

Lemma in_subtree_false h n : in_subtree h n = false <-> ~ In h (all_hashes n).
Proof. rewrite <- in_subtree_spec. destruct (in_subtree h n); split; congruence. Qed.

Lemma find_node_unfold h n :
  find_node h n = if nhash n =? h then Some n else find_first (find_node h) (nchildren n).
Proof. destruct n; reflexivity. Qed.

Lemma find_node_some h n : forall m, find_node h n = Some m -> In m (all_nodes n) /\ nhash m = h.
Proof.
  induction n as [h' x a p ch IH] using bnode_ind'. intros m. rewrite find_node_unfold. simpl.
  destruct (N.eqb_spec h' h) as [->|Hne].
  - intros H; inversion H; subst. split; simpl; auto.
  - intros H. apply find_first_some in H as (l1 & c & l2 & -> & Hc & _).
    rewrite Forall_forall in IH. destruct (IH c (in_elt _ _ _) m Hc). split; auto.
    right. apply in_flat_map. exists c. split; auto. apply in_elt.
Qed.

Lemma find_node_none h n : find_node h n = None <-> ~ In h (all_hashes n).
Proof.
  induction n as [h' x a p ch IH] using bnode_ind'. rewrite find_node_unfold. simpl.
  rewrite Forall_forall in IH.
  destruct (N.eqb_spec h' h) as [->|Hne].
  - split; [discriminate|]. intros H; exfalso; apply H; auto.
  - rewrite find_first_none. split.
    + intros H [E|Hi]; [congruence|]. apply in_flat_map in Hi as (c & Hc & Hi).
      apply (IH c Hc); auto.
    + intros H c Hc. apply IH; auto. intro Hi. apply H. right. apply in_flat_map; eauto.
Qed.

Lemma find_node_in h n : In h (all_hashes n) -> exists m, find_node h n = Some m.
Proof.
  intros H. destruct (find_node h n) eqn:E; eauto. apply find_node_none in E. contradiction.
Qed.

Lemma find_node_of_node n m : uniq n -> In m (all_nodes n) -> find_node (nhash m) n = Some m.
Proof.
  intros U Hm. destruct (find_node_in (nhash m) n) as (k & Hk).
  - apply in_hashes_nodes; eauto.
  - rewrite Hk. f_equal. destruct (find_node_some _ _ _ Hk). eapply node_eq_of_hash; eauto.
Qed.

Lemma get_node_find t h : get_node t h = find_node h (root t).
Proof.
  unfold get_node. rewrite (find_node_unfold h (root t)).
  destruct (nhash (root t) =? h) eqn:E; auto. destruct (existsb _ _); auto.
Qed.

(* ------------------------------------------------------------------ edges *)

Definition edge_of (x c : bnode) : blk :=
  mkBlk (nhash c) (nhash x) (nnumber c) (narrival c) (nprimary c).

Lemma edges_unfold n :
  edges n = flat_map (fun c => edge_of n c :: edges c) (nchildren n).
Proof. destruct n; reflexivity. Qed.

Lemma edges_in n : forall b,
  In b (edges n) <-> exists x c, In x (all_nodes n) /\ In c (nchildren x) /\ b = edge_of x c.
Proof.
  induction n as [h x a p ch IH] using bnode_ind'. intros b. rewrite edges_unfold.
  rewrite Forall_forall in IH. rewrite in_flat_map. split.
  - intros (c & Hc & [<-|Hb]).
    + exists (BNode h x a p ch), c. repeat split; auto. apply all_nodes_self.
    + apply IH in Hb as (y & d & Hy & Hd & ->); auto. exists y, d. repeat split; auto.
      eapply all_nodes_child; eauto.
  - intros (y & d & Hy & Hd & ->). apply all_nodes_inv in Hy as [->|(c & Hc & Hy)].
    + exists d. split; auto. left; auto.
    + exists c. split; auto. right. apply IH; auto. exists y, d. auto.
Qed.

Lemma edges_hashes n : all_hashes n = nhash n :: map b_hash (edges n).
Proof.
  induction n as [h x a p ch IH] using bnode_ind'. rewrite all_hashes_unfold, edges_unfold.
  simpl nhash; simpl nchildren. f_equal. rewrite map_flat_map.
  apply flat_map_ext_in. intros c Hc. rewrite Forall_forall in IH. rewrite (IH c Hc). reflexivity.
Qed.

Lemma edges_keys_nodup n : uniq n -> NoDup (map b_hash (edges n)) /\ ~ In (nhash n) (map b_hash (edges n)).
Proof. unfold uniq. rewrite edges_hashes. intros H; inversion H; auto. Qed.

(* ------------------------------------------------------------------ numbers *)

Fixpoint nums_okb (n : bnode) : bool :=
  match n with
  | BNode _ x _ _ ch => forallb (fun c => (nnumber c =? x + 1) && nums_okb c) ch
  end.

Lemma nums_okb_unfold n :
  nums_okb n = forallb (fun c => (nnumber c =? nnumber n + 1) && nums_okb c) (nchildren n).
Proof. destruct n; reflexivity. Qed.

Lemma nums_ok_child n c : nums_okb n = true -> In c (nchildren n) ->
  nnumber c = nnumber n + 1 /\ nums_okb c = true.
Proof.
  rewrite nums_okb_unfold, forallb_forall. intros H Hc. specialize (H c Hc).
  apply andb_true_iff in H as (H1 & H2). apply N.eqb_eq in H1. auto.
Qed.

Lemma nums_ok_sub n : forall m, nums_okb n = true -> In m (all_nodes n) -> nums_okb m = true.
Proof.
  induction n as [h x a p ch IH] using bnode_ind'. intros m H Hm.
  apply all_nodes_inv in Hm as [->|(c & Hc & Hm)]; auto.
  rewrite Forall_forall in IH. eapply IH; eauto. eapply nums_ok_child; eauto.
Qed.
