(* C17/ProofsAssoc.v — association lists, and what the three loops of SetFinalisedHash
   (handleFinalisedBlock's loop, the batch flush, the pruned-hashes cleanup) compute. *)
From Coq Require Import List NArith ZArith Bool Lia Permutation.
From Common Require Import Outcome.
From BlockTree Require Import Model Spec ProofsTree.
From C17 Require Import Model Spec.
Import ListNotations.
Local Open Scope N_scope.

Section Assoc.
  Context {V : Type}.
  Implicit Types l : list (N * V).

  Lemma lookup_remove_same k l : lookup k (remove_key k l) = None.
  Proof.
    induction l as [|[k' v] l IH]; simpl; auto.
    destruct (N.eqb_spec k' k); simpl; auto. destruct (N.eqb_spec k' k); [congruence|auto].
  Qed.

  Lemma lookup_remove_other k k' l : k <> k' -> lookup k (remove_key k' l) = lookup k l.
  Proof.
    intros H. induction l as [|[k2 v] l IH]; simpl; auto.
    destruct (N.eqb_spec k2 k'); simpl.
    - destruct (N.eqb_spec k2 k); [congruence|auto].
    - destruct (N.eqb_spec k2 k); auto.
  Qed.

  Lemma lookup_put_same k v l : lookup k (put k v l) = Some v.
  Proof. unfold put. simpl. rewrite N.eqb_refl. reflexivity. Qed.

  Lemma lookup_put_other k k' v l : k <> k' -> lookup k (put k' v l) = lookup k l.
  Proof.
    intros H. unfold put. simpl. destruct (N.eqb_spec k' k); [congruence|].
    apply lookup_remove_other; auto.
  Qed.

  Lemma lookup_in k v l : lookup k l = Some v -> In (k, v) l.
  Proof.
    induction l as [|[k' v'] l IH]; simpl; [discriminate|].
    destruct (N.eqb_spec k' k); intros H; [inversion H; subst; auto|auto].
  Qed.

  Lemma lookup_none k l : lookup k l = None <-> ~ In k (map fst l).
  Proof.
    induction l as [|[k' v'] l IH]; simpl; [tauto|].
    destruct (N.eqb_spec k' k).
    - split; [discriminate|]. intros H; exfalso; apply H; auto.
    - rewrite IH. tauto.
  Qed.

  Lemma lookup_nodup k v l : NoDup (map fst l) -> In (k, v) l -> lookup k l = Some v.
  Proof.
    induction l as [|[k' v'] l IH]; simpl; intros ND H; [contradiction|].
    inversion ND; subst. destruct H as [H|H].
    - inversion H; subst. rewrite N.eqb_refl. reflexivity.
    - destruct (N.eqb_spec k' k); auto. subst. exfalso. apply H2.
      apply (in_map fst) in H. exact H.
  Qed.
End Assoc.

Lemma mem_in x l : mem x l = true <-> In x l.
Proof.
  unfold mem. rewrite existsb_exists. split.
  - intros (y & Hy & E). apply N.eqb_eq in E. subst; auto.
  - intros H. exists x. split; auto. apply N.eqb_refl.
Qed.

Lemma mem_remove_n x y l : mem x (remove_n y l) = mem x l && negb (x =? y).
Proof.
  unfold remove_n. destruct (mem x (filter _ l)) eqn:E.
  - apply mem_in in E. apply filter_In in E as (E1 & E2). apply mem_in in E1. rewrite E1, E2. reflexivity.
  - destruct (mem x l) eqn:E1; auto. simpl. destruct (negb (x =? y)) eqn:E2; auto.
    assert (In x (filter (fun y0 => negb (y0 =? y)) l)).
    { apply filter_In. split; auto. apply mem_in; auto. }
    apply mem_in in H. unfold remove_n in *. congruence.
Qed.

Lemma mem_soft_set x y l : mem x (soft_set y l) = (x =? y) || mem x l.
Proof.
  unfold soft_set. destruct (mem y l) eqn:E.
  - destruct (N.eqb_spec x y); subst; simpl; auto.
  - simpl. reflexivity.
Qed.

(* ------------------------------------------------------------------ handleFinalisedBlock's loop *)

Definition root_of (unfin : list (N * hinfo)) (x : N) : option N := option_map hi_root (lookup x unfin).

Lemma hf_loop_spec target g : forall sub unfin tries hdr batch,
  NoDup sub ->
  (forall x, In x sub -> x <> g /\ lookup x unfin <> None) ->
  exists unfin' tries' hdr',
    hf_loop target g sub unfin tries hdr batch =
      (unfin', tries', hdr',
       batch ++ flat_map (fun x => match lookup x unfin with Some i => [(hi_number i, x)] | None => [] end) sub,
       true)
    /\ (forall y, lookup y unfin' = if existsb (N.eqb y) sub then None else lookup y unfin)
    /\ (forall y, lookup y hdr' = if existsb (N.eqb y) sub then lookup y unfin else lookup y hdr)
    /\ (forall r, mem r tries' = true <->
                  mem r tries = true /\
                  forall x i, In x sub -> x <> target -> lookup x unfin = Some i -> hi_root i <> r).
Proof.
  induction sub as [|x sub IH]; intros unfin tries hdr batch ND H.
  - exists unfin, tries, hdr. simpl. rewrite app_nil_r. repeat split; auto; tauto.
  - inversion ND as [|? ? Hx ND']; subst.
    destruct (H x (or_introl eq_refl)) as (Hg & Hu). simpl.
    destruct (N.eqb_spec x g) as [|_]; [contradiction|].
    destruct (lookup x unfin) as [i|] eqn:Ex; [|congruence].
    destruct (IH (remove_key x unfin) (if target =? x then tries else remove_n (hi_root i) tries)
                 (put x i hdr) (batch ++ [(hi_number i, x)]) ND') as (u' & t' & h' & E & Hu' & Hh' & Ht').
    { intros y Hy. destruct (H y (or_intror Hy)) as (A & B). split; auto.
      rewrite lookup_remove_other; auto. intros ->. contradiction. }
    exists u', t', h'. split; [|split; [|split]].
    + rewrite E.
      match goal with |- (_, _, _, ?b1, _) = (_, _, _, ?b2, _) => assert (Eb : b1 = b2) end.
      { rewrite <- app_assoc. simpl. do 2 f_equal.
        apply flat_map_ext_in. intros y Hy. rewrite lookup_remove_other; auto. intros ->; contradiction. }
      rewrite Eb. reflexivity.
    + intros y. rewrite Hu'. destruct (N.eqb_spec y x) as [->|Hne]; simpl.
      * destruct (existsb _ sub); auto. apply lookup_remove_same.
      * destruct (existsb _ sub); auto. apply lookup_remove_other; auto.
    + intros y. rewrite Hh'. destruct (N.eqb_spec y x) as [->|Hne]; simpl.
      * destruct (existsb (N.eqb x) sub) eqn:Ee.
        -- apply existsb_exists in Ee as (z & Hz & Ez). apply N.eqb_eq in Ez. subst. contradiction.
        -- rewrite N.eqb_refl. auto.
      * destruct (existsb _ sub); [apply lookup_remove_other; auto|apply lookup_put_other; auto].
    + intros r. rewrite Ht'. split.
      * intros (A & B). split.
        -- destruct (target =? x); auto. rewrite mem_remove_n in A. apply andb_true_iff in A as (A & _). auto.
        -- intros y j [<-|Hy] Hyt Hj.
           ++ rewrite Ex in Hj. inversion Hj; subst j.
              destruct (N.eqb_spec target x) as [->|_]; [congruence|].
              rewrite mem_remove_n in A. apply andb_true_iff in A as (_ & A).
              apply negb_true_iff, N.eqb_neq in A. auto.
           ++ apply (B y j Hy Hyt). rewrite lookup_remove_other; auto. intros ->; contradiction.
      * intros (A & B). split.
        -- destruct (N.eqb_spec target x) as [|Hne]; auto. rewrite mem_remove_n, A. simpl.
           apply negb_true_iff, N.eqb_neq. intros ->. apply (B x i); auto.
        -- intros y j Hy Hyt Hj. apply (B y j); auto.
           rewrite lookup_remove_other in Hj; auto. intros ->; contradiction.
Qed.

(* ------------------------------------------------------------------ the cleanup after Prune *)

Lemma drop_pruned_spec : forall pruned unfin tries,
  NoDup pruned ->
  exists unfin' tries',
    drop_pruned pruned unfin tries = (unfin', tries')
    /\ (forall y, lookup y unfin' = if existsb (N.eqb y) pruned then None else lookup y unfin)
    /\ (forall r, mem r tries' = true <->
                  mem r tries = true /\
                  forall p i, In p pruned -> lookup p unfin = Some i -> hi_root i <> r).
Proof.
  induction pruned as [|p pruned IH]; intros unfin tries ND.
  - exists unfin, tries. simpl. repeat split; auto; tauto.
  - inversion ND as [|? ? Hp ND']; subst. simpl.
    destruct (lookup p unfin) as [i|] eqn:Ep.
    + destruct (IH (remove_key p unfin) (remove_n (hi_root i) tries) ND') as (u' & t' & E & Hu & Ht).
      exists u', t'. split; auto. split.
      * intros y. rewrite Hu. destruct (N.eqb_spec y p) as [->|Hne]; simpl.
        -- destruct (existsb _ pruned); auto. apply lookup_remove_same.
        -- destruct (existsb _ pruned); auto. apply lookup_remove_other; auto.
      * intros r. rewrite Ht, mem_remove_n. split.
        -- intros (A & B). apply andb_true_iff in A as (A1 & A2). split; auto.
           intros q j [<-|Hq] Hj.
           ++ rewrite Ep in Hj. inversion Hj; subst. apply negb_true_iff, N.eqb_neq in A2. auto.
           ++ apply (B q j Hq). rewrite lookup_remove_other; auto. intros ->; contradiction.
        -- intros (A & B). split.
           ++ rewrite A. simpl. apply negb_true_iff, N.eqb_neq. intros ->. apply (B p i); auto.
           ++ intros q j Hq Hj. apply (B q j); auto.
              rewrite lookup_remove_other in Hj; auto. intros ->; contradiction.
    + destruct (IH unfin tries ND') as (u' & t' & E & Hu & Ht).
      exists u', t'. split; auto. split.
      * intros y. rewrite Hu. destruct (N.eqb_spec y p) as [->|Hne]; simpl; auto.
        destruct (existsb _ pruned); auto.
      * intros r. rewrite Ht. split; intros (A & B); split; auto.
        -- intros q j [<-|Hq] Hj; [congruence|eauto].
        -- intros q j Hq Hj. apply (B q j); auto.
Qed.

(* ------------------------------------------------------------------ the batch flush *)

Lemma flush_batch_spec : forall batch num n,
  NoDup (map fst batch) ->
  lookup n (flush_batch batch num) =
  match lookup n batch with Some x => Some x | None => lookup n num end.
Proof.
  unfold flush_batch. induction batch as [|[k v] batch IH]; intros num n ND; simpl; auto.
  inversion ND as [|? ? Hk ND']; subst. rewrite IH; auto. simpl.
  destruct (N.eqb_spec k n) as [->|Hne].
  - destruct (lookup n batch) eqn:E.
    + exfalso. apply Hk. apply lookup_in in E. apply (in_map fst) in E. exact E.
    + first [reflexivity | apply lookup_put_same].
  - destruct (lookup n batch); auto.
    first [reflexivity | apply lookup_put_other; auto | rewrite lookup_remove_other; auto].
Qed.
