(* C17/ProofsFinal.v — SetFinalisedHash preserves the invariant; the property predicates. *)
From Coq Require Import List NArith ZArith Bool Lia Permutation.
From Common Require Import Outcome.
From BlockTree Require Import Model Spec ProofsTree ProofsPath ProofsSpec ProofsSim ProofsQuery
  ProofsBest ProofsHist ProofsNum ProofsFin.
From C17 Require Import Model Spec ProofsAssoc Proofs.
Import ListNotations.
Local Open Scope N_scope.

(* ------------------------------------------------------------------ a request that is not admissible *)

Lemma set_finalised_refused g st f h round setid : inv g st f -> s_known (f_set f) h = false ->
  exists c, set_finalised_late st h round setid = (st, Err c).
Proof.
  intros I Hk. unfold set_finalised_late, set_finalised_late_with.
  destruct (has_header st h); [|eexists; reflexivity]. cbn [negb].
  unfold handle_finalised. rewrite (i_last _ _ _ I).
  destruct (N.eqb_spec h (s_root (f_set f))) as [->|Hne].
  { unfold s_known in Hk. rewrite N.eqb_refl in Hk. discriminate. }
  pose proof (sim_range_in_memory _ _ (s_root (f_set f)) h (i_sim _ _ _ I)) as C.
  unfold check_range_in_memory in C. rewrite Hk in C. cbn [negb] in C.
  destruct (range_in_memory (bs_tree st) (s_root (f_set f)) h); try discriminate; eexists; reflexivity.
Qed.

(* ------------------------------------------------------------------ re-finalising the head *)

Lemma set_finalised_same_head g st f h round setid : inv g st f -> snd (bs_highest st) <= setid ->
  h = s_root (f_set f) ->
  exists st', set_finalised_late st h round setid = (st', Ok tt) /\ inv g st' (f_fin f h)
              /\ bs_tries st' = bs_tries st /\ bs_unfin st' = bs_unfin st /\ bs_hdr st' = bs_hdr st.
Proof.
  intros I Hsid Eh. destruct (i_head _ _ _ I) as (i0 & Hh0 & Hf0). rewrite <- Eh in Hh0, Hf0.
  destruct (i_sim _ _ _ I) as (W & E). pose proof W as (U & _).
  assert (Er : h = nhash (root (bs_tree st))) by (destruct E as (Er & _); rewrite Eh, <- Er; reflexivity).
  assert (Hlu : lookup h (bs_unfin st) = None).
  { destruct (lookup h (bs_unfin st)) eqn:X; auto. exfalso.
    apply (swf_root_not_block (f_set f) (sim_swf _ _ (i_sim _ _ _ I))).
    apply (i_unfin _ _ _ I). rewrite <- Eh. congruence. }
  unfold set_finalised_late, set_finalised_late_with.
  assert (Hhas : has_header st h = true) by (unfold has_header; rewrite Hlu, Hh0; reflexivity).
  rewrite Hhas. cbn [negb]. unfold handle_finalised. rewrite (i_last _ _ _ I), <- Eh.
  rewrite N.eqb_refl. destruct (N.ltb_spec setid (snd (bs_highest st))) as [|_]; [lia|].
  assert (Epr : prune (bs_tree st) h = (bs_tree st, [])).
  { unfold prune. rewrite Er, N.eqb_refl. reflexivity. }
  rewrite Epr. cbn [drop_pruned]. unfold get_header. proj_simpl. rewrite Hlu, Hh0.
  rewrite (i_last _ _ _ I), <- Eh. rewrite N.eqb_refl.
  eexists. split; [reflexivity|]. split; [|proj_simpl; auto].
  (* the specification does not move either *)
  assert (Ef : f_fin f h = mkF (f_set f) (f_chain f ++ []) (f_all f) (f_setid f)).
  { unfold f_fin, f_admissible. unfold s_known at 1. rewrite <- Eh, N.eqb_refl. cbn [orb].
    unfold s_fin. rewrite <- Eh, N.eqb_refl. cbn [fst].
    unfold f_new_links. rewrite <- Eh, s_path_upto.
    assert (D : s_desc (f_set f) h h = true).
    { unfold s_desc. destruct (length _); simpl; rewrite N.eqb_refl; reflexivity. }
    rewrite D. unfold s_chain. destruct (length (s_blocks (f_set f))); simpl; rewrite N.eqb_refl; reflexivity. }
  rewrite Ef, app_nil_r. destruct f as [fs fc fa fsid]. proj_simpl.
  constructor; proj_simpl; try apply I.
  all: try exact Eh.
  all: try (exists i0; rewrite <- Eh; auto; fail).
  all: try (cbn [lookup2]; rewrite pair_eqb_refl; congruence).
Qed.

(* ------------------------------------------------------------------ finalising a held block *)

Section FinStep.
  Variables (g : N) (st : bstate) (f : fstate) (h round setid : N) (m : bnode) (q : list bnode).
  Hypothesis I : inv g st f.
  Hypothesis D : fin_data st f h m q.
  Hypothesis Hsid : snd (bs_highest st) <= setid.

  Let t := bs_tree st.
  Let s := f_set f.
  Let W : wf t := fd_wf _ _ _ _ _ D.
  Let E : seq (abs t) s := fd_seq _ _ _ _ _ D.
  Let U : uniq (root t) := proj1 W.
  Let SWa : swf (abs t) := abs_swf t U.
  Let Hp := fd_path _ _ _ _ _ D.
  Let sub := map nhash q.
  Let pruned := prune_list m (root t).

  Lemma fs_root : s_root s = nhash (root t).
  Proof. destruct E as (Er & _). rewrite <- Er. reflexivity. Qed.
  Lemma fs_rootnum : s_rootnum s = nnumber (root t).
  Proof. destruct E as (_ & En & _). rewrite <- En. reflexivity. Qed.

  Lemma fs_blocks x : In x (map b_hash (s_blocks s)) <-> In x (all_hashes (root t)) /\ x <> nhash (root t).
  Proof.
    destruct E as (_ & _ & P). rewrite edges_hashes.
    assert (Hiff : In x (map b_hash (s_blocks s)) <-> In x (map b_hash (edges (root t)))).
    { split; apply Permutation_in; apply Permutation_map; [apply Permutation_sym|]; exact P. }
    rewrite Hiff. destruct (edges_keys_nodup _ U) as (_ & Hr). simpl. split.
    - intros Hx. split; auto. intros ->. contradiction.
    - intros ([Hx|Hx] & Hn); [congruence|auto].
  Qed.

  Lemma fs_sub_blocks x : In x sub -> In x (map b_hash (s_blocks s)) /\ x <> g.
  Proof.
    intros Hx. destruct (hash_on_chain t m q W Hp x Hx) as (A & B & _).
    assert (Hb : In x (map b_hash (s_blocks s))) by (apply fs_blocks; auto). split; auto.
    intros ->. apply (i_gen_fin _ _ _ I). exact Hb.
  Qed.

  Lemma fs_h_sub : In h sub.
  Proof.
    rewrite <- (fd_hash _ _ _ _ _ D). apply in_map.
    destruct (is_path_end_in_path _ _ _ Hp) as [Em|Hi]; auto.
    exfalso. apply (fd_ne _ _ _ _ _ D). rewrite <- (fd_hash _ _ _ _ _ D), Em. reflexivity.
  Qed.

  Lemma fs_nodup_sub : NoDup sub /\ ~ In (nhash (root t)) sub.
  Proof.
    pose proof (is_path_nodup _ _ _ U Hp) as ND. simpl in ND. inversion ND; subst. auto.
  Qed.

  (* the links written to the number index are the links of the specification *)
  Lemma fs_links : unfin_links st sub = links_of (abs t) sub /\ f_new_links f h = links_of (abs t) sub.
  Proof.
    assert (EL : forall x, In x sub -> s_number s x = s_number (abs t) x).
    { intros x _. symmetry. apply (seq_number _ _ E SWa). }
    split.
    - unfold unfin_links, links_of. apply flat_map_ext_in. intros x Hx.
      destruct (fs_sub_blocks x Hx) as (Hb & _). apply (i_unfin _ _ _ I) in Hb.
      destruct (lookup x (bs_unfin st)) as [i|] eqn:Ex; [|congruence].
      destruct (i_unfin_info _ _ _ I x i Ex) as (_ & Hn). fold s in Hn.
      rewrite <- (EL x Hx), Hn. reflexivity.
    - unfold f_new_links. fold s. rewrite fs_root.
      rewrite <- (seq_path _ _ _ _ E SWa). rewrite <- (fd_hash _ _ _ _ _ D).
      destruct (abs_root_path t q m W Hp) as (-> & _). cbn [tl].
      unfold links_of. apply flat_map_ext_in. intros x Hx. rewrite (EL x Hx). reflexivity.
  Qed.

  (* what the specification keeps: the blocks strictly below h *)
  Lemma fs_fin_spec : exists fb,
    s_find s h = Some fb /\
    fst (s_fin s h) = mkSst h (b_number fb) (filter (fun b => s_desc s h (b_parent b)) (s_blocks s)).
  Proof.
    assert (Hb : In h (map b_hash (s_blocks s))).
    { apply fs_sub_blocks. apply fs_h_sub. }
    destruct (s_find s h) as [fb|] eqn:Ef.
    - exists fb. split; auto. unfold s_fin. rewrite Ef.
      destruct (N.eqb_spec h (s_root s)) as [Er|_]; [|reflexivity].
      exfalso. apply (fd_ne _ _ _ _ _ D). rewrite Er. apply fs_root.
    - apply find_blk_none in Ef. contradiction.
  Qed.

  Lemma fs_sim' : sim (fst (prune t h)) (fst (s_fin s h)).
  Proof.
    destruct (sim_step t s (OFin h) (i_sim _ _ _ I)) as (H & _). simpl in H.
    destruct (prune t h), (s_fin s h). exact H.
  Qed.

  Lemma fs_prune : prune t h = ({| root := m; leaves := get_leaves m |}, pruned).
  Proof. apply prune_unfold; [apply (fd_find _ _ _ _ _ D)|apply (fd_ne _ _ _ _ _ D)]. Qed.

  (* the hashes of the specification after the finalisation are the hashes of the subtree of m *)
  Lemma fs_kept x : In x (s_hashes (fst (s_fin s h))) <-> In x (all_hashes m).
  Proof.
    pose proof (sim_blocks _ _ fs_sim') as P. rewrite fs_prune in P. cbn [fst] in P.
    unfold get_all_blocks in P. cbn [root] in P.
    split; apply Permutation_in; [apply Permutation_sym|]; exact P.
  Qed.

  Lemma fs_blocks' x : In x (map b_hash (s_blocks (fst (s_fin s h)))) <-> In x (all_hashes m) /\ x <> h.
  Proof.
    destruct fs_fin_spec as (fb & _ & Es).
    pose proof (sim_swf _ _ fs_sim') as SW'. rewrite <- fs_kept.
    unfold swf in SW'. rewrite Es in *. unfold s_hashes in *. cbn [s_root s_blocks] in *.
    inversion SW'; subst. simpl. split.
    - intros Hx. split; auto. intros ->. contradiction.
    - intros ([Hx|Hx] & Hn); [congruence|auto].
  Qed.

  Lemma fs_rootnum' : s_rootnum (fst (s_fin s h)) = nnumber m.
  Proof.
    destruct fs_sim' as (_ & (_ & En & _)). rewrite <- En. rewrite fs_prune. reflexivity.
  Qed.

  Lemma fs_blocks_incl x : In x (map b_hash (s_blocks (fst (s_fin s h)))) -> In x (map b_hash (s_blocks s)).
  Proof.
    destruct fs_fin_spec as (fb & _ & ->). cbn [s_blocks]. apply filter_hashes_incl.
  Qed.

  (* the numbers of the specification after the finalisation are the old ones *)
  Lemma fs_number' x : In x (map b_hash (s_blocks (fst (s_fin s h)))) -> x <> h ->
    s_number (fst (s_fin s h)) x = s_number s x.
  Proof.
    intros Hx Hne. destruct fs_fin_spec as (fb & _ & Es). rewrite Es in *. cbn [s_blocks] in Hx.
    pose proof (swf_keys _ (sim_swf _ _ (i_sim _ _ _ I))) as ND. fold s in ND.
    apply in_map_iff in Hx as (b & Eb & Hb).
    unfold s_number, s_find. cbn [s_root s_blocks].
    destruct (N.eqb_spec x h) as [|_]; [contradiction|].
    destruct (N.eqb_spec x (s_root s)) as [Er|_].
    { exfalso. apply (swf_root_not_block s (sim_swf _ _ (i_sim _ _ _ I))).
      rewrite <- Er, <- Eb. apply filter_In in Hb as (Hb & _). apply in_map; auto. }
    rewrite (find_blk_filter _ _ x b ND Hb Eb).
    apply filter_In in Hb as (Hb & _). rewrite <- Eb, (find_blk_in _ b ND Hb). reflexivity.
  Qed.

  Theorem fin_step :
    exists st', set_finalised_late st h round setid = (st', Ok tt) /\ inv g st' (f_fin f h).
  Proof.
    destruct fs_nodup_sub as (NDs & Hrs). destruct (i_head _ _ _ I) as (i0 & Hh0 & Hf0).
    fold s in Hh0, Hf0. rewrite fs_root in Hh0, Hf0.
    assert (Elast : bs_last st = nhash (root t)) by (rewrite (i_last _ _ _ I); apply fs_root).
    assert (Hlu : lookup (nhash (root t)) (bs_unfin st) = None).
    { destruct (lookup (nhash (root t)) (bs_unfin st)) eqn:X; auto. exfalso.
      assert (Hi : In (nhash (root t)) (map b_hash (s_blocks s))) by (apply (i_unfin _ _ _ I); congruence).
      apply fs_blocks in Hi as (_ & Hi). congruence. }
    assert (Hhu : lookup h (bs_unfin st) <> None).
    { apply (i_unfin _ _ _ I). apply fs_sub_blocks. apply fs_h_sub. }
    destruct (set_finalised_ok st h round setid sub {| root := m; leaves := get_leaves m |} pruned i0)
      as (u' & t' & h' & n' & Eres & Hu' & Hh' & Hn' & Ht').
    - unfold has_header. destruct (lookup h (bs_unfin st)); [reflexivity|congruence].
    - rewrite Elast. apply (fd_ne _ _ _ _ _ D).
    - rewrite Elast, <- (fd_hash _ _ _ _ _ D). apply (abs_root_path t q m W Hp).
    - exact NDs.
    - apply fs_h_sub.
    - intros x Hx. destruct (fs_sub_blocks x Hx) as (Hb & Hg). split.
      + rewrite (i_gen _ _ _ I). exact Hg.
      + apply (i_unfin _ _ _ I). exact Hb.
    - exact Hsid.
    - apply fs_prune.
    - apply prune_list_nodup. exact U.
    - rewrite Elast. exact Hlu.
    - rewrite Elast. exact Hrs.
    - rewrite Elast. exact Hh0.
    - exists (mkState {| root := m; leaves := get_leaves m |} u' t' h' n'
                      (((round, setid), h) :: bs_finkeys st) (round, setid) (bs_genesis st) h round setid).
      split; [exact Eres|].
      (* the specification side *)
      assert (Hadm : f_admissible f h = true).
      { unfold f_admissible. apply s_known_iff. right. apply fs_sub_blocks. apply fs_h_sub. }
      unfold f_fin. rewrite Hadm. fold s.
      destruct fs_links as (EL1 & EL2). rewrite EL2.
      destruct (path_links t q m W Hp) as (L1 & L2 & L3 & L4). fold sub in L1, L2, L3, L4.
      set (L := links_of (abs t) sub) in *.
      pose proof fs_sim' as S'. rewrite fs_prune in S'. cbn [fst] in S'.
      destruct fs_fin_spec as (fb & Efb & Es).
      assert (Hroot' : s_root (fst (s_fin s h)) = h) by (rewrite Es; reflexivity).
      assert (Hsub_u : forall x, In x sub -> exists i, lookup x (bs_unfin st) = Some i).
      { intros x Hx. destruct (fs_sub_blocks x Hx) as (Hb & _). apply (i_unfin _ _ _ I) in Hb.
        destruct (lookup x (bs_unfin st)); [eauto|congruence]. }
      constructor; proj_simpl.
      + exact S'.
      + symmetry. exact Hroot'.
      + apply (i_gen _ _ _ I).
      + intro Hg. apply (i_gen_fin _ _ _ I). apply fs_blocks_incl. exact Hg.
      + (* unfinalised blocks = the blocks strictly below h *)
        intros x. rewrite Hu', fs_blocks'. split.
        * destruct (inb x pruned) eqn:Xp; [cbn [orb]; congruence|].
          destruct (inb x sub) eqn:Xs; [cbn [orb]; congruence|]. cbn [orb]. intros Hx.
          apply inb_false in Xp, Xs. apply (i_unfin _ _ _ I) in Hx. apply fs_blocks in Hx as (Hx & Hr).
          split.
          -- apply (hash_rest t m q W Hp x Hx Hr Xs Xp).
          -- intros ->. apply Xs. apply fs_h_sub.
        * intros (Hx & Hne).
          assert (Xs : inb x sub = false).
          { apply inb_false. intro Hi. destruct (hash_on_chain t m q W Hp x Hi) as (_ & _ & _ & K).
            apply Hne. rewrite (K Hx). apply (fd_hash _ _ _ _ _ D). }
          assert (Xp : inb x pruned = false).
          { apply inb_false. intro Hi. destruct (hash_pruned t m q W Hp x Hi) as (_ & _ & K & _). contradiction. }
          rewrite Xp, Xs. cbn [orb]. apply (i_unfin _ _ _ I). apply fs_blocks_incl. apply fs_blocks'. auto.
      + (* their data *)
        intros x i Hx. rewrite Hu' in Hx.
        destruct (inb x pruned || inb x sub) eqn:X; [discriminate|].
        destruct (i_unfin_info _ _ _ I x i Hx) as (A & B). split; auto.
        assert (Hb' : In x (map b_hash (s_blocks (fst (s_fin s h))))).
        { assert (Hxu : lookup x u' <> None) by (rewrite Hu', X; congruence).
          (* reuse the previous field *)
          apply orb_false_iff in X as (Xp & Xs). apply inb_false in Xp, Xs.
          assert (Hx0 : In x (map b_hash (s_blocks s))) by (apply (i_unfin _ _ _ I); congruence).
          apply fs_blocks in Hx0 as (Hx0 & Hr). apply fs_blocks'. split.
          - apply (hash_rest t m q W Hp x Hx0 Hr Xs Xp).
          - intros ->. apply Xs. apply fs_h_sub. }
        rewrite fs_number'; auto. apply fs_blocks' in Hb' as (_ & Hne). exact Hne.
      + (* database headers = the finalised chain *)
        intros x. rewrite Hh', map_app, in_app_iff, L1. destruct (inb x sub) eqn:Xs.
        * apply inb_in in Xs. destruct (Hsub_u x Xs) as (i & ->). split; auto. congruence.
        * apply inb_false in Xs. rewrite (i_hdr _ _ _ I). split; auto. intros [A|A]; auto. contradiction.
      + (* the new head is in the database with its data *)
        rewrite Hroot'. destruct (Hsub_u h fs_h_sub) as (ih & Hih). exists ih. split.
        * rewrite Hh'. assert (Xs : inb h sub = true) by (apply inb_in; apply fs_h_sub). rewrite Xs. exact Hih.
        * apply (i_unfin_info _ _ _ I h ih Hih).
      + (* the number index *)
        intros n x Hin. rewrite Hn' by (rewrite EL1; exact L2). rewrite EL1. fold L.
        apply in_app_or in Hin as [Hin|Hin].
        * assert (Hnone : lookup n L = None).
          { apply lookup_none. intro Hi. apply in_map_iff in Hi as ((n1 & x1) & En1 & Hi). simpl in En1. subst n1.
            pose proof (L3 n x1 Hi) as (Hlt & _). pose proof (i_chain_le _ _ _ I n x Hin) as Hle.
            fold s in Hle. rewrite fs_rootnum in Hle. lia. }
          rewrite Hnone. apply (i_num _ _ _ I n x Hin).
        * rewrite (lookup_nodup n x L L2 Hin). reflexivity.
      + (* numbers of the chain are pairwise different *)
        rewrite map_app. apply NoDup_app_intro; [apply (i_chain_nodup _ _ _ I)|exact L2|].
        intros n H1 H2. apply in_map_iff in H1 as ((n1 & x1) & E1 & H1). apply in_map_iff in H2 as ((n2 & x2) & E2 & H2).
        simpl in E1, E2. subst n1 n2. pose proof (i_chain_le _ _ _ I n x1 H1) as Hle. fold s in Hle.
        rewrite fs_rootnum in Hle. pose proof (L3 n x2 H2). lia.
      + intros n x Hin. rewrite fs_rootnum'. apply in_app_or in Hin as [Hin|Hin].
        * pose proof (i_chain_le _ _ _ I n x Hin) as Hle. fold s in Hle. rewrite fs_rootnum in Hle.
          pose proof (node_number_ge _ _ (proj1 (proj2 W)) (is_path_end _ _ _ Hp)). lia.
        * apply (L3 n x Hin).
      + rewrite fs_rootnum', Hroot'. apply in_or_app. right.
        rewrite <- (fd_hash _ _ _ _ _ D). apply L4. apply (fd_q _ _ _ _ _ D).
      + (* tries in memory belong to held blocks *)
        intros r Hr. destruct (Ht' r Hr) as (Hr0 & Hsub & Hpr & Hi0).
        destruct (i_tries _ _ _ I r Hr0) as (x & i & Hk & Hfa & Hri). fold s in Hk.
        apply s_known_iff in Hk as [Hk|Hk].
        * (* the previous head: its trie was dropped *)
          exfalso. apply Hi0. rewrite fs_root in Hk. subst x. congruence.
        * assert (Hxu : exists j, lookup x (bs_unfin st) = Some j).
          { apply (i_unfin _ _ _ I) in Hk. destruct (lookup x (bs_unfin st)); [eauto|congruence]. }
          destruct Hxu as (j & Hj). destruct (i_unfin_info _ _ _ I x j Hj) as (Hfa' & _).
          assert (j = i) by congruence. subst j.
          exists x, i. split; [|split; auto].
          apply s_known_iff. destruct (N.eq_dec x h) as [->|Hxh]; [left; auto|right].
          apply fs_blocks'. split; auto.
          destruct (in_dec N.eq_dec x sub) as [Hs|Hs].
          { exfalso. apply (Hsub x i Hs Hxh Hj). exact Hri. }
          destruct (in_dec N.eq_dec x pruned) as [Hp'|Hp'].
          { exfalso. apply (Hpr x i Hp' Hs Hj). exact Hri. }
          apply fs_blocks in Hk as (Hk & Hr'). apply (hash_rest t m q W Hp x Hk Hr' Hs Hp').
      + cbn [lookup2]. rewrite pair_eqb_refl, Hroot'. reflexivity.
  Qed.
End FinStep.
