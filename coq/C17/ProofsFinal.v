(* C17/ProofsFinal.v — SetFinalisedHash preserves the invariant; the property predicates. *)
From Coq Require Import List NArith ZArith Bool Lia Permutation.
From Common Require Import Outcome.
From BlockTree Require Import Model Spec ProofsTree ProofsPath ProofsSpec ProofsSim ProofsQuery
  ProofsBest ProofsHist ProofsNum ProofsFin.
From C17 Require Import Model Spec ProofsAssoc Proofs.
Import ListNotations.
Local Open Scope N_scope.

(* ------------------------------------------------------------------ a request that is not admissible *)

Lemma set_finalised_refused g st f h round setid : inv g st f -> s_known (f_set f) h = false ->
  exists c, set_finalised st h round setid = (st, Err c).
Proof.
  intros I Hk. unfold set_finalised, set_finalised_with.
  destruct (has_header st h); [|eexists; reflexivity]. cbn [negb].
  unfold handle_finalised. rewrite (i_last _ _ _ I).
  destruct (N.eqb_spec h (s_root (f_set f))) as [->|Hne].
  { unfold s_known in Hk. rewrite N.eqb_refl in Hk. discriminate. }
  pose proof (sim_range_in_memory _ _ (s_root (f_set f)) h (i_sim _ _ _ I)) as C.
  unfold check_range_in_memory in C. rewrite Hk in C. cbn [negb] in C.
  destruct (range_in_memory (bs_tree st) (s_root (f_set f)) h); try discriminate; eexists; reflexivity.
Qed.

(* ------------------------------------------------------------------ re-finalising the head *)

Lemma set_finalised_same_head g st f h round setid : inv g st f -> snd (bs_highest st) <= setid ->
  h = s_root (f_set f) ->
  exists st', set_finalised st h round setid = (st', Ok tt) /\ inv g st' (f_fin f h)
              /\ bs_tries st' = bs_tries st /\ bs_unfin st' = bs_unfin st /\ bs_hdr st' = bs_hdr st.
Proof.
  intros I Hsid Eh. destruct (i_head _ _ _ I) as (i0 & Hh0 & Hf0). rewrite <- Eh in Hh0, Hf0.
  destruct (i_sim _ _ _ I) as (W & E). pose proof W as (U & _).
  assert (Er : h = nhash (root (bs_tree st))) by (destruct E as (Er & _); rewrite Eh, <- Er; reflexivity).
  assert (Hlu : lookup h (bs_unfin st) = None).
  { destruct (lookup h (bs_unfin st)) eqn:X; auto. exfalso.
    apply (swf_root_not_block (f_set f) (sim_swf _ _ (i_sim _ _ _ I))).
    apply (i_unfin _ _ _ I). rewrite <- Eh. congruence. }
  unfold set_finalised, set_finalised_with.
  assert (Hhas : has_header st h = true) by (unfold has_header; rewrite Hlu, Hh0; reflexivity).
  rewrite Hhas. cbn [negb]. unfold handle_finalised. rewrite (i_last _ _ _ I), <- Eh.
  rewrite N.eqb_refl. destruct (N.ltb_spec setid (snd (bs_highest st))) as [|_]; [lia|].
  assert (Epr : prune (bs_tree st) h = (bs_tree st, [])).
  { unfold prune. rewrite Er, N.eqb_refl. reflexivity. }
  rewrite Epr. cbn [drop_pruned]. unfold get_header. proj_simpl. rewrite Hlu, Hh0.
  rewrite (i_last _ _ _ I), <- Eh. rewrite N.eqb_refl.
  eexists. split; [reflexivity|]. split; [|proj_simpl; auto].
  (* the specification does not move either *)
  assert (Ef : f_fin f h = mkF (f_set f) (f_chain f ++ []) (f_all f)).
  { unfold f_fin, f_admissible. unfold s_known at 1. rewrite <- Eh, N.eqb_refl. cbn [orb].
    unfold s_fin. rewrite <- Eh, N.eqb_refl. cbn [fst].
    unfold f_new_links. rewrite <- Eh, s_path_upto.
    assert (D : s_desc (f_set f) h h = true).
    { unfold s_desc. destruct (length _); simpl; rewrite N.eqb_refl; reflexivity. }
    rewrite D. unfold s_chain. destruct (length (s_blocks (f_set f))); simpl; rewrite N.eqb_refl; reflexivity. }
  rewrite Ef, app_nil_r. destruct f as [fs fc fa]. proj_simpl.
  constructor; proj_simpl; try apply I.
  all: try exact Eh.
  all: try (exists i0; rewrite <- Eh; auto; fail).
  all: try (cbn [lookup2]; rewrite pair_eqb_refl; congruence).
Qed.

(* ------------------------------------------------------------------ finalising a held block *)

Section FinStep.
  Variables (g : N) (st : bstate) (f : fstate) (h round setid : N) (m : bnode) (q : list bnode).
  Hypothesis I : inv g st f.
  Hypothesis D : fin_data st f h m q.
  Hypothesis Hsid : snd (bs_highest st) <= setid.

  Let t := bs_tree st.
  Let s := f_set f.
  Let W : wf t := fd_wf _ _ _ _ _ D.
  Let E : seq (abs t) s := fd_seq _ _ _ _ _ D.
  Let U : uniq (root t) := proj1 W.
  Let SWa : swf (abs t) := abs_swf t U.
  Let Hp := fd_path _ _ _ _ _ D.
  Let sub := map nhash q.
  Let pruned := prune_list m (root t).

  Lemma fs_root : s_root s = nhash (root t).
  Proof. destruct E as (Er & _). rewrite <- Er. reflexivity. Qed.
  Lemma fs_rootnum : s_rootnum s = nnumber (root t).
  Proof. destruct E as (_ & En & _). rewrite <- En. reflexivity. Qed.

  Lemma fs_blocks x : In x (map b_hash (s_blocks s)) <-> In x (all_hashes (root t)) /\ x <> nhash (root t).
  Proof.
    destruct E as (_ & _ & P). rewrite edges_hashes.
    assert (Hiff : In x (map b_hash (s_blocks s)) <-> In x (map b_hash (edges (root t)))).
    { split; apply Permutation_in; apply Permutation_map; [apply Permutation_sym|]; exact P. }
    rewrite Hiff. destruct (edges_keys_nodup _ U) as (_ & Hr). simpl. split.
    - intros Hx. split; auto. intros ->. contradiction.
    - intros ([Hx|Hx] & Hn); [congruence|auto].
  Qed.

  Lemma fs_sub_blocks x : In x sub -> In x (map b_hash (s_blocks s)) /\ x <> g.
  Proof.
    intros Hx. destruct (hash_on_chain t m q W Hp x Hx) as (A & B & _).
    assert (Hb : In x (map b_hash (s_blocks s))) by (apply fs_blocks; auto). split; auto.
    intros ->. apply (i_gen_fin _ _ _ I). exact Hb.
  Qed.

  Lemma fs_h_sub : In h sub.
  Proof.
    rewrite <- (fd_hash _ _ _ _ _ D). apply in_map.
    destruct (is_path_end_in_path _ _ _ Hp) as [Em|Hi]; auto.
    exfalso. apply (fd_ne _ _ _ _ _ D). rewrite <- (fd_hash _ _ _ _ _ D), Em. reflexivity.
  Qed.

  Lemma fs_nodup_sub : NoDup sub /\ ~ In (nhash (root t)) sub.
  Proof.
    pose proof (is_path_nodup _ _ _ U Hp) as ND. simpl in ND. inversion ND; subst. auto.
  Qed.

  (* the links written to the number index are the links of the specification *)
  Lemma fs_links : unfin_links st sub = links_of (abs t) sub /\ f_new_links f h = links_of (abs t) sub.
  Proof.
    assert (EL : forall x, In x sub -> s_number s x = s_number (abs t) x).
    { intros x _. symmetry. apply (seq_number _ _ E SWa). }
    split.
    - unfold unfin_links, links_of. apply flat_map_ext_in. intros x Hx.
      destruct (fs_sub_blocks x Hx) as (Hb & _). apply (i_unfin _ _ _ I) in Hb.
      destruct (lookup x (bs_unfin st)) as [i|] eqn:Ex; [|congruence].
      destruct (i_unfin_info _ _ _ I x i Ex) as (_ & Hn). fold s in Hn.
      rewrite <- (EL x Hx), Hn. reflexivity.
    - unfold f_new_links. fold s. rewrite fs_root.
      rewrite <- (seq_path _ _ _ _ E SWa). rewrite <- (fd_hash _ _ _ _ _ D).
      destruct (abs_root_path t q m W Hp) as (-> & _). cbn [tl].
      unfold links_of. apply flat_map_ext_in. intros x Hx. rewrite (EL x Hx). reflexivity.
  Qed.

  (* what the specification keeps: the blocks strictly below h *)
  Lemma fs_fin_spec : exists fb,
    s_find s h = Some fb /\
    fst (s_fin s h) = mkSst h (b_number fb) (filter (fun b => s_desc s h (b_parent b)) (s_blocks s)).
  Proof.
    assert (Hb : In h (map b_hash (s_blocks s))).
    { apply fs_sub_blocks. apply fs_h_sub. }
    destruct (s_find s h) as [fb|] eqn:Ef.
    - exists fb. split; auto. unfold s_fin. rewrite Ef.
      destruct (N.eqb_spec h (s_root s)) as [Er|_]; [|reflexivity].
      exfalso. apply (fd_ne _ _ _ _ _ D). rewrite Er. apply fs_root.
    - apply find_blk_none in Ef. contradiction.
  Qed.

  Lemma fs_sim' : sim (fst (prune t h)) (fst (s_fin s h)).
  Proof.
    destruct (sim_step t s (OFin h) (i_sim _ _ _ I)) as (H & _). simpl in H.
    destruct (prune t h), (s_fin s h). exact H.
  Qed.

  Lemma fs_prune : prune t h = ({| root := m; leaves := get_leaves m |}, pruned).
  Proof. apply prune_unfold; [apply (fd_find _ _ _ _ _ D)|apply (fd_ne _ _ _ _ _ D)]. Qed.

  (* the hashes of the specification after the finalisation are the hashes of the subtree of m *)
  Lemma fs_kept x : In x (s_hashes (fst (s_fin s h))) <-> In x (all_hashes m).
  Proof.
    pose proof (sim_blocks _ _ fs_sim') as P. rewrite fs_prune in P. cbn [fst] in P.
    unfold get_all_blocks in P. cbn [root] in P.
    split; apply Permutation_in; [apply Permutation_sym|]; exact P.
  Qed.

  Lemma fs_blocks' x : In x (map b_hash (s_blocks (fst (s_fin s h)))) <-> In x (all_hashes m) /\ x <> h.
  Proof.
    destruct fs_fin_spec as (fb & _ & Es).
    pose proof (sim_swf _ _ fs_sim') as SW'. rewrite <- fs_kept.
    unfold swf in SW'. rewrite Es in *. unfold s_hashes in *. cbn [s_root s_blocks] in *.
    inversion SW'; subst. simpl. split.
    - intros Hx. split; auto. intros ->. contradiction.
    - intros ([Hx|Hx] & Hn); [congruence|auto].
  Qed.
End FinStep.
