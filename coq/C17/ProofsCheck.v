(* C17/ProofsCheck.v — the property predicates of Spec.v hold of the model's observables, for
   every history. *)
From Coq Require Import List NArith ZArith Bool Lia Permutation.
From Common Require Import Outcome.
From BlockTree Require Import Model Spec ProofsTree ProofsPath ProofsSpec ProofsSim ProofsQuery
  ProofsBest ProofsHist ProofsNum ProofsFin ProofsWrap.
From C17 Require Import Model Spec ProofsAssoc Proofs ProofsFinal.
Import ListNotations.
Local Open Scope N_scope.

(* ------------------------------------------------------------------ one request *)

Lemma f_fin_refused f h : f_admissible f h = false -> f_fin f h = f.
Proof. unfold f_fin. intros ->. reflexivity. Qed.

Lemma f_fin_root f h : f_admissible f h = true -> s_root (f_set (f_fin f h)) = h.
Proof.
  intros H. unfold f_fin. rewrite H. cbn [f_set]. unfold s_fin.
  destruct (N.eqb_spec h (s_root (f_set f))) as [->|Hne]; [reflexivity|].
  unfold f_admissible, s_known in H. destruct (N.eqb_spec h (s_root (f_set f))); [contradiction|].
  cbn [orb] in H. destruct (s_find (f_set f) h); [reflexivity|discriminate].
Qed.

(* the pinned body (set id compared after the writes), for a set id that is not below the
   recorded one *)
Theorem request_step_late g st f h round setid : inv g st f -> snd (bs_highest st) <= setid ->
  (f_admissible f h = true ->
     exists st', set_finalised_late st h round setid = (st', Ok tt) /\ inv g st' (f_fin f h))
  /\ (f_admissible f h = false -> exists c, set_finalised_late st h round setid = (st, Err c)).
Proof.
  intros I Hsid. split; intros Ha.
  - destruct (N.eq_dec h (s_root (f_set f))) as [Eh|Hne].
    + destruct (set_finalised_same_head g st f h round setid I Hsid Eh) as (st' & A & B & _). eauto.
    + destruct (fin_data_exists g st f h I Ha Hne) as (m & q & D).
      exact (fin_step g st f h round setid m q I D Hsid).
  - exact (set_finalised_refused g st f h round setid I Ha).
Qed.

(* the repaired SetFinalisedHash compares the set id before anything is written *)
Lemma set_finalised_ge st h round setid : snd (bs_highest st) <= setid ->
  set_finalised st h round setid = set_finalised_late st h round setid.
Proof.
  intros H. unfold set_finalised, set_finalised_with, set_finalised_late.
  destruct (has_header st h) eqn:Hh; cbn [negb].
  - destruct (N.ltb_spec setid (snd (bs_highest st))) as [|_]; [lia|]. reflexivity.
  - unfold set_finalised_late_with. rewrite Hh. reflexivity.
Qed.

Lemma set_finalised_lt st h round setid : setid < snd (bs_highest st) ->
  exists c, set_finalised st h round setid = (st, Err c).
Proof.
  intros H. unfold set_finalised, set_finalised_with.
  destruct (has_header st h); cbn [negb]; [|eexists; reflexivity].
  destruct (N.ltb_spec setid (snd (bs_highest st))) as [_|]; [|lia]. eexists; reflexivity.
Qed.

Lemma late_ok_highest st h round setid st' :
  set_finalised_late st h round setid = (st', Ok tt) -> bs_highest st' = (round, setid).
Proof.
  unfold set_finalised_late, set_finalised_late_with.
  destruct (has_header st h); cbn [negb]; [|discriminate].
  destruct (handle_finalised st h) as [st1 [[]|c| |]]; try discriminate.
  destruct (setid <? snd (bs_highest st1)); [discriminate|].
  destruct (prune (bs_tree st1) h) as [t' pruned].
  destruct (drop_pruned pruned (bs_unfin st1) (bs_tries st1)) as [unfin tries].
  destruct (get_header _ h); [|discriminate].
  intros E. inversion E. reflexivity.
Qed.

(* the invariant extended with the set id *)
Definition inv2 (g : N) (st : bstate) (f : fstate) : Prop :=
  inv g st f /\ snd (bs_highest st) = f_setid f.

Lemma inv_with_setid g st f sid : inv g st f -> inv g st (f_with_setid f sid).
Proof. intros I. destruct f as [fs fc fa fsid]. unfold f_with_setid. cbn. destruct I. constructor; auto. Qed.

Lemma inv2_genesis g groot : inv2 g (genesis_state g groot) (f_genesis g groot).
Proof. split; [apply inv_genesis|reflexivity]. Qed.

Theorem request_step g st f h round setid : inv2 g st f ->
  (f_accepts f h setid = true ->
     exists st', set_finalised st h round setid = (st', Ok tt) /\ inv2 g st' (f_request f h setid))
  /\ (f_accepts f h setid = false -> exists c, set_finalised st h round setid = (st, Err c)).
Proof.
  intros (I & Es). split; intros Ha.
  - unfold f_request. rewrite Ha. unfold f_accepts in Ha. apply andb_true_iff in Ha as (Ha & Hs).
    apply N.leb_le in Hs. rewrite <- Es in Hs.
    destruct (request_step_late g st f h round setid I Hs) as (A & _).
    destruct (A Ha) as (st' & E & I'). exists st'. rewrite (set_finalised_ge _ _ _ _ Hs). split; auto.
    split; [apply inv_with_setid; exact I'|].
    rewrite (late_ok_highest _ _ _ _ _ E). reflexivity.
  - unfold f_accepts in Ha. apply andb_false_iff in Ha as [Ha|Hs].
    + destruct (N.lt_ge_cases setid (snd (bs_highest st))) as [Hlt|Hge].
      * apply set_finalised_lt; auto.
      * rewrite (set_finalised_ge _ _ _ _ Hge).
        destruct (request_step_late g st f h round setid I Hge) as (_ & B). auto.
    + apply N.leb_gt in Hs. rewrite <- Es in Hs. apply set_finalised_lt; auto.
Qed.

(* ------------------------------------------------------------------ observables of a state that satisfies the invariant *)

Section Observables.
  Variables (g : N) (st : bstate) (f : fstate).
  Hypothesis I : inv g st f.

  Lemma obs_highest : highest_finalised_hash st = Ok (s_root (f_set f)).
  Proof. unfold highest_finalised_hash. rewrite (i_finkey _ _ _ I). reflexivity. Qed.

  Lemma obs_by_number n x : In (n, x) (f_chain f) -> bs_hash_by_number st n = Ok x.
  Proof.
    intros Hin. destruct (i_sim _ _ _ I) as (W & (Er & En & _)). simpl in Er, En.
    pose proof (i_chain_le _ _ _ I n x Hin) as Hle. rewrite <- En in Hle.
    unfold bs_hash_by_number. destruct (N.eq_dec n (nnumber (root (bs_tree st)))) as [->|Hne].
    - rewrite (hash_by_number_root _ W). f_equal.
      pose proof (i_chain_head _ _ _ I) as Hh. rewrite <- En, <- Er in Hh.
      pose proof (lookup_nodup _ _ _ (i_chain_nodup _ _ _ I) Hin) as L1.
      pose proof (lookup_nodup _ _ _ (i_chain_nodup _ _ _ I) Hh) as L2. congruence.
    - rewrite (hash_by_number_below _ n W) by lia. rewrite Nat.eqb_refl.
      rewrite (i_num _ _ _ I n x Hin). reflexivity.
  Qed.

  (* the finalised chain is in the database: number index and headers *)
  Lemma obs_persisted n x : In (n, x) (f_chain f) ->
    lookup n (bs_num st) = Some x /\ lookup x (bs_hdr st) <> None.
  Proof.
    intros Hin. split; [exact (i_num _ _ _ I n x Hin)|].
    apply (i_hdr _ _ _ I). apply in_map_iff. exists (n, x). auto.
  Qed.

  (* ... and the whole block is retrieved by number *)
  Lemma obs_block_by_number n x : In (n, x) (f_chain f) -> block_by_number st n = Ok x.
  Proof.
    intros Hin. unfold block_by_number. rewrite (obs_by_number n x Hin).
    destruct (obs_persisted n x Hin) as (_ & Hh).
    unfold get_block, has_body, has_header, get_header.
    destruct (lookup x (bs_unfin st)); [reflexivity|].
    destruct (lookup x (bs_hdr st)); [reflexivity|congruence].
  Qed.

  Lemma obs_abandoned x : f_abandoned f x = true ->
    lookup x (bs_unfin st) = None /\ lookup x (bs_hdr st) = None.
  Proof.
    unfold f_abandoned. destruct (lookup x (f_all f)); [|discriminate]. intros H.
    apply andb_true_iff in H as (Hk & Hf). apply negb_true_iff in Hk, Hf. split.
    - destruct (lookup x (bs_unfin st)) eqn:E; auto. exfalso.
      assert (Hi : In x (map b_hash (s_blocks (f_set f)))) by (apply (i_unfin _ _ _ I); congruence).
      unfold f_kept in Hk. assert (s_known (f_set f) x = true) by (apply s_known_iff; auto). congruence.
    - destruct (lookup x (bs_hdr st)) eqn:E; auto. exfalso.
      assert (Hi : In x (map snd (f_chain f))) by (apply (i_hdr _ _ _ I); congruence).
      unfold f_finalised in Hf. apply in_map_iff in Hi as (c & Ec & Hc).
      assert (existsb (fun c => snd c =? x) (f_chain f) = true).
      { apply existsb_exists. exists c. split; auto. apply N.eqb_eq; auto. }
      congruence.
  Qed.

  Lemma obs_tries r : mem r (bs_tries st) = true -> root_shared_with_kept f r = true.
  Proof.
    intros H. destruct (i_tries _ _ _ I r H) as (x & i & Hk & Hl & Hr).
    unfold root_shared_with_kept. apply existsb_exists. exists (x, i). split.
    - apply lookup_in. exact Hl.
    - simpl. unfold f_kept. rewrite Hk. simpl. apply N.eqb_eq. exact Hr.
  Qed.
End Observables.

Lemma outcome_n_eqb_refl o : outcome_n_eqb o o = true.
Proof. destruct o; simpl; auto using N.eqb_refl, Nat.eqb_refl. Qed.
Lemma flags_eqb_refl x : flags_eqb x x = true.
Proof. unfold flags_eqb. rewrite !eqb_reflx. reflexivity. Qed.
Lemma option_n_eqb_refl o : option_n_eqb o o = true.
Proof. destruct o; simpl; auto using N.eqb_refl. Qed.
Lemma list_eqb_refl_gen {A} (e : A -> A -> bool) l : (forall x, e x x = true) -> Spec.list_eqb e l l = true.
Proof. intros H. induction l; simpl; auto. rewrite H, IHl. reflexivity. Qed.
Lemma obs_eqb_refl o : obs_eqb o o = true.
Proof.
  unfold obs_eqb. rewrite outcome_n_eqb_refl, N.eqb_refl, !list_eqb_refl_gen; auto.
  all: intros [x r]; simpl; rewrite N.eqb_refl;
    first [apply flags_eqb_refl | apply option_n_eqb_refl | apply outcome_n_eqb_refl].
Qed.

Lemma lookup_map_fun {V} (F : N -> V) nums n r :
  lookup n (map (fun k => (k, F k)) nums) = Some r -> r = F n.
Proof.
  induction nums as [|k nums IH]; simpl; [discriminate|].
  destruct (N.eqb_spec k n) as [->|]; intros H; [inversion H; reflexivity|auto].
Qed.

(* the state roots the observation is given for the blocks are the ones they were added with *)
Definition roots_ok (f : fstate) (blocks : list (N * N)) : Prop :=
  forall x r i, In (x, r) blocks -> lookup x (f_all f) = Some i -> hi_root i = r.

Lemma check_after g st' f' blocks nums : inv g st' f' -> roots_ok f' blocks ->
  check_by_number f' (observe st' blocks nums) = true
  /\ check_no_leftovers f' (observe st' blocks nums) = true.
Proof.
  intros I' Hroots. split.
  - unfold check_by_number, observe. cbn [o_bynum o_dbnum o_blocknum]. rewrite !andb_true_iff.
    split; [split; [split|]|]; apply forallb_forall.
    + intros [n r] Hin. apply in_map_iff in Hin as (k & Ek & _). inversion Ek; subst. cbn [fst snd].
      destruct (lookup n (f_chain f')) as [x|] eqn:El; auto. apply lookup_in in El.
      rewrite (obs_by_number g st' f' I' n x El). apply outcome_n_eqb_refl.
    + intros [n x] Hin. cbn [fst snd].
      destruct (lookup n (map (fun k => (k, bs_hash_by_number st' k)) nums)) as [r|] eqn:El; auto.
      apply lookup_map_fun in El. subst r. rewrite (obs_by_number g st' f' I' n x Hin).
      apply outcome_n_eqb_refl.
    + intros [n x] Hin. cbn [fst snd].
      destruct (lookup n (map (fun k => (k, lookup k (bs_num st'))) nums)) as [r|] eqn:El; auto.
      apply lookup_map_fun in El. subst r. rewrite (proj1 (obs_persisted g st' f' I' n x Hin)).
      apply option_n_eqb_refl.
    + intros [n x] Hin. cbn [fst snd].
      destruct (lookup n (map (fun k => (k, block_by_number st' k)) nums)) as [r|] eqn:El; auto.
      apply lookup_map_fun in El. subst r. rewrite (obs_block_by_number g st' f' I' n x Hin).
      apply outcome_n_eqb_refl.
  - unfold check_no_leftovers, observe. cbn [o_flags]. apply forallb_forall.
    intros [x fl] Hin. apply in_map_iff in Hin as ([x0 r0] & Ek & Hb). inversion Ek; subst. cbn [fst snd].
    destruct (f_abandoned f' x) eqn:Ab; auto.
    destruct (obs_abandoned g st' f' I' x Ab) as (Hu & Hh).
    cbn [fl_has fl_get fl_unfin fl_trie fl_body fl_block]. unfold get_block, has_body, has_header, get_header.
    rewrite Hu, Hh. cbn [negb andb].
    destruct (mem r0 (bs_tries st')) eqn:Hm; auto. cbn [negb orb].
    unfold f_abandoned in Ab. destruct (lookup x (f_all f')) as [i|] eqn:El; [|discriminate].
    rewrite (Hroots x r0 i Hb El). apply (obs_tries g st' f' I' r0 Hm).
Qed.

Definition is_okb {A} (o : outcome A) : bool := match o with Ok _ => true | _ => false end.

Lemma f_request_set f h setid : f_accepts f h setid = true ->
  f_set (f_request f h setid) = f_set (f_fin f h)
  /\ f_chain (f_request f h setid) = f_chain (f_fin f h)
  /\ f_all (f_request f h setid) = f_all (f_fin f h).
Proof. intros H. unfold f_request. rewrite H. auto. Qed.

Lemma inv_without_setid g st f sid : inv g st (f_with_setid f sid) -> inv g st f.
Proof. intros I. destruct f as [fs fc fa fsid]. unfold f_with_setid in I. cbn in I. destruct I. constructor; auto. Qed.

Theorem check_finalisation_holds g st f h round setid blocks nums :
  inv2 g st f -> roots_ok (f_fin f h) blocks ->
  check_finalisation f h setid (is_okb (snd (set_finalised st h round setid)))
                     (observe st blocks nums)
                     (observe (fst (set_finalised st h round setid)) blocks nums) = true.
Proof.
  intros I Hroots. destruct (request_step g st f h round setid I) as (Hadm & Href).
  unfold check_finalisation, check_request. destruct (f_accepts f h setid) eqn:Ha.
  - destruct (Hadm eq_refl) as (st' & Eres & (I' & _)). rewrite Eres. cbn [fst snd is_okb].
    unfold f_request in I'. rewrite Ha in I'. apply inv_without_setid in I'.
    destruct (check_after g st' (f_fin f h) blocks nums I' Hroots) as (C1 & C2).
    rewrite C1, C2. cbn [andb]. rewrite andb_true_r.
    unfold observe. cbn [o_highest]. rewrite (obs_highest g st' _ I').
    unfold f_accepts in Ha. apply andb_true_iff in Ha as (Ha & _).
    rewrite (f_fin_root f h Ha). apply outcome_n_eqb_refl.
  - destruct (Href eq_refl) as (c & Eres). rewrite Eres. cbn [fst snd is_okb negb andb].
    rewrite obs_eqb_refl. reflexivity.
Qed.

(* ------------------------------------------------------------------ histories *)

Definition f_step (f : fstate) (o : sop) : fstate :=
  match o with
  | SAdd hd root a => fst (f_add f hd root a)
  | SFin h _ setid => f_request f h setid
  end.

Fixpoint frun (f : fstate) (ops : list sop) : fstate :=
  match ops with
  | [] => f
  | o :: r => frun (f_step f o) r
  end.

(* the histories covered: no added header carries the genesis hash (a hash collision with
   genesis; the code compares sub-chain hashes with bs.genesisHash).  Nothing is assumed about
   the requests: targets, rounds and set ids are arbitrary. *)
Fixpoint history_ok (g : N) (ops : list sop) : Prop :=
  match ops with
  | [] => True
  | o :: r =>
    match o with
    | SAdd hd _ _ => h_hash hd <> g
    | SFin _ _ _ => True
    end /\ history_ok g r
  end.

Lemma f_add_setid f hd root a : f_setid (fst (f_add f hd root a)) = f_setid f.
Proof. unfold f_add. destruct (s_add (f_set f) hd a); reflexivity. Qed.

Lemma bs_add_highest st hd root a : bs_highest (fst (bs_add st hd root a)) = bs_highest st.
Proof. unfold bs_add. destruct (add_block (bs_tree st) hd a); reflexivity. Qed.

Lemma inv_step g st f o : inv2 g st f -> history_ok g [o] -> inv2 g (fst (sstep st o)) (f_step f o).
Proof.
  intros I (H & _). destruct o as [hd root a|h r s]; simpl.
  - destruct I as (I & Es). split.
    + apply (inv_add g st f hd root a I H).
    + rewrite bs_add_highest, f_add_setid. exact Es.
  - destruct (request_step g st f h r s I) as (Hadm & Href).
    destruct (f_accepts f h s) eqn:Ha.
    + destruct (Hadm eq_refl) as (st' & -> & I'). exact I'.
    + destruct (Href eq_refl) as (c & ->). unfold f_request. rewrite Ha. exact I.
Qed.

Theorem inv_run g ops : forall st f, inv2 g st f -> history_ok g ops -> inv2 g (srun st ops) (frun f ops).
Proof.
  induction ops as [|o r IH]; intros st f I H; [exact I|].
  simpl. destruct H as (H1 & H2). apply IH; auto. apply inv_step; auto. split; [exact H1|exact Logic.I].
Qed.

(* an admissible target descends from the current head through parent links *)
Lemma admissible_descends g st f h : inv g st f -> f_admissible f h = true ->
  descends (s_blocks (f_set f)) (s_root (f_set f)) h.
Proof.
  intros I Ha. pose proof (i_sim _ _ _ I) as S. apply (sim_desc_iff _ _ _ _ S).
  destruct S as (W & E). pose proof W as (U & _).
  rewrite <- (seq_desc _ _ E (abs_swf _ U)).
  assert (Er : s_root (f_set f) = nhash (root (bs_tree st))) by (destruct E as (Er & _); rewrite <- Er; reflexivity).
  rewrite Er.
  assert (Hin : In h (all_hashes (root (bs_tree st)))).
  { apply abs_known. rewrite (seq_known _ _ E (abs_swf _ U)). exact Ha. }
  apply (s_desc_subtree _ _ h (root (bs_tree st)) U (all_nodes_self _) eq_refl Hin). exact Hin.
Qed.

(* the pinned pre-fix Prune leaves an abandoned block behind: four children of genesis, the last
   one finalised *)
Definition w17_add (i : N) : sop := SAdd (mkHeader i 100 1 DPrimary) (1000 + i) 0%Z.
Definition w17_ops : list sop := [w17_add 1; w17_add 2; w17_add 3; w17_add 4].
Definition w17_blocks : list (N * N) := [(100, 1000); (1, 1001); (2, 1002); (3, 1003); (4, 1004)].

Lemma prefix_leaves_abandoned_block :
  let st := srun (genesis_state 100 1000) w17_ops in
  let f := frun (f_genesis 100 1000) w17_ops in
  check_finalisation f 4 0 (is_okb (snd (set_finalised_prefix st 4 1 0)))
                     (observe st w17_blocks [0; 1; 2])
                     (observe (fst (set_finalised_prefix st 4 1 0)) w17_blocks [0; 1; 2]) = false
  /\ has_header (fst (set_finalised_prefix st 4 1 0)) 2 = true
  /\ mem 1002 (bs_tries (fst (set_finalised_prefix st 4 1 0))) = true
  /\ f_abandoned (f_fin f 4) 2 = true.
Proof. vm_compute. repeat split; reflexivity. Qed.

(* The pinned order of SetFinalisedHash (set id compared in setHighestRoundAndSetID, after
   handleFinalisedBlock and after the finalised-hash key was put), before
   fixes/C17-setid-check-before-write.patch.  genesis -> 1 -> 2; block 1 is finalised in set 1.
   A request for block 2 with set id 0 is refused BUT block 2 has left unfinalisedBlocks and the
   number index 2 was written; the same target with set id 1, which the specification accepts,
   is then refused for ever ("failed to find block in unfinalised block map"). *)
Definition w17s_ops : list sop :=
  [SAdd (mkHeader 1 100 1 DPrimary) 1001 0%Z; SAdd (mkHeader 2 1 2 DPrimary) 1002 0%Z; SFin 1 1 1].
Definition w17s_blocks : list (N * N) := [(100, 1000); (1, 1001); (2, 1002)].

Lemma late_setid_changes_state :
  let st := srun (genesis_state 100 1000) w17s_ops in
  let f := frun (f_genesis 100 1000) w17s_ops in
  let st' := fst (set_finalised_late st 2 2 0) in
  f_accepts f 2 0 = false
  /\ snd (set_finalised_late st 2 2 0) = Err e_setid
  /\ check_finalisation f 2 0 false (observe st w17s_blocks [0; 1; 2]) (observe st' w17s_blocks [0; 1; 2]) = false
  /\ lookup 2 (bs_unfin st) <> None /\ lookup 2 (bs_unfin st') = None
  /\ lookup 2 (bs_num st) = None /\ lookup 2 (bs_num st') = Some 2
  /\ f_accepts f 2 1 = true
  /\ snd (set_finalised_late st' 2 3 1) = Err e_missing_block
  (* the repaired order refuses the stale set id without touching the state and then accepts *)
  /\ set_finalised st 2 2 0 = (st, Err e_setid)
  /\ snd (set_finalised st 2 3 1) = Ok tt.
Proof. vm_compute. repeat split; try reflexivity; intro; discriminate. Qed.

(* ------------------------------------------------------------------ the statements of Properties.v *)

Lemma monotone_or_unchanged g groot ops h round setid :
  history_ok g ops ->
  let st := srun (genesis_state g groot) ops in
  let f := frun (f_genesis g groot) ops in
  (f_accepts f h setid = true ->
     descends (s_blocks (f_set f)) (s_root (f_set f)) h
     /\ exists st', set_finalised st h round setid = (st', Ok tt)
                    /\ highest_finalised_hash st' = Ok h)
  /\ (f_accepts f h setid = false -> exists c, set_finalised st h round setid = (st, Err c)).
Proof.
  intros H st f.
  pose proof (inv_run g ops _ _ (inv2_genesis g groot) H) as I. fold st f in I.
  destruct (request_step g st f h round setid I) as (A & B). split; [|exact B].
  intros Ha. pose proof Ha as Ha'. unfold f_accepts in Ha'. apply andb_true_iff in Ha' as (Hadm & _).
  split; [exact (admissible_descends g st f h (proj1 I) Hadm)|].
  destruct (A Ha) as (st' & E & (I' & _)). exists st'. split; auto.
  rewrite (obs_highest g st' _ I'). destruct (f_request_set f h setid Ha) as (-> & _).
  rewrite (f_fin_root f h Hadm). reflexivity.
Qed.

Lemma head_moves_only_to_descendants g groot ops h round setid :
  history_ok g ops ->
  let st := srun (genesis_state g groot) ops in
  let f := frun (f_genesis g groot) ops in
  exists x, highest_finalised_hash (fst (set_finalised st h round setid)) = Ok x
            /\ descends (s_blocks (f_set f)) (s_root (f_set f)) x.
Proof.
  intros H st f.
  pose proof (inv_run g ops _ _ (inv2_genesis g groot) H) as I. fold st f in I.
  destruct (request_step g st f h round setid I) as (A & B).
  destruct (f_accepts f h setid) eqn:Ha.
  - pose proof Ha as Ha'. unfold f_accepts in Ha'. apply andb_true_iff in Ha' as (Hadm & _).
    destruct (A eq_refl) as (st' & E & (I' & _)). exists h. rewrite E. cbn [fst]. split.
    + rewrite (obs_highest g st' _ I'). destruct (f_request_set f h setid Ha) as (-> & _).
      rewrite (f_fin_root f h Hadm). reflexivity.
    + exact (admissible_descends g st f h (proj1 I) Hadm).
  - destruct (B eq_refl) as (c & E). exists (s_root (f_set f)). rewrite E. cbn [fst]. split.
    + exact (obs_highest g st f (proj1 I)).
    + apply d_refl.
Qed.

Lemma no_leftovers g groot ops x :
  history_ok g ops ->
  let st := srun (genesis_state g groot) ops in
  let f := frun (f_genesis g groot) ops in
  f_abandoned f x = true ->
  has_header st x = false /\ get_header st x = None /\ lookup x (bs_unfin st) = None
  /\ forall i, lookup x (f_all f) = Some i -> mem (hi_root i) (bs_tries st) = true ->
               root_shared_with_kept f (hi_root i) = true.
Proof.
  intros H st f Ha.
  pose proof (proj1 (inv_run g ops _ _ (inv2_genesis g groot) H)) as I. fold st f in I.
  destruct (obs_abandoned g st f I x Ha) as (Hu & Hh).
  unfold has_header, get_header. rewrite Hu, Hh. repeat split; auto.
  intros i _ Hm. exact (obs_tries g st f I _ Hm).
Qed.

(* ------------------------------------------------------------------ block numbers are Go uint *)

Lemma fnum_step f o B : snum_le (f_set f) B -> snum_le (f_set (f_step f o)) (B + 1).
Proof.
  intros H. destruct o as [hd root a|h r sid]; simpl.
  - pose proof (snum_step (f_set f) B (OAdd hd a) H) as K. simpl in K. unfold f_add.
    destruct (s_add (f_set f) hd a); simpl in *; auto.
  - unfold f_request. destruct (f_accepts f h sid); [|apply snum_mono; exact H].
    unfold f_with_setid, f_fin. cbn [f_set]. destruct (f_admissible f h); cbn [f_set]; [|apply snum_mono; exact H].
    pose proof (snum_step (f_set f) B (OFin h) H) as K. simpl in K.
    destruct (s_fin (f_set f) h); simpl in *; exact K.
Qed.

Lemma fnum_run ops : forall f B, snum_le (f_set f) B ->
  snum_le (f_set (frun f ops)) (B + N.of_nat (length ops)).
Proof.
  induction ops as [|o r IH]; intros f B H.
  - simpl. rewrite N.add_0_r. exact H.
  - simpl frun. replace (B + N.of_nat (length (o :: r))) with ((B + 1) + N.of_nat (length r)) by (simpl length; lia).
    apply IH. apply fnum_step. exact H.
Qed.

(* on every history shorter than 2^64 - 1 operations the AddBlock of the block tree inside the
   BlockState never meets the 64-bit wrap-around of parent.number + 1 *)
Lemma uint64_block_numbers g groot ops hd a :
  history_ok g ops -> N.of_nat (length ops) + 1 < two64 ->
  add_block64 (bs_tree (srun (genesis_state g groot) ops)) hd a
  = add_block (bs_tree (srun (genesis_state g groot) ops)) hd a.
Proof.
  intros H Hb. pose proof (proj1 (inv_run g ops _ _ (inv2_genesis g groot) H)) as I.
  apply (add_block64_sim _ _ (N.of_nat (length ops)) hd a (i_sim _ _ _ I)); auto.
  pose proof (fnum_run ops (f_genesis g groot) 0) as K. simpl in K. apply K.
  split; simpl; [lia|intros b []].
Qed.

(* bodies and whole blocks: by number for the finalised chain, gone for abandoned blocks *)
Lemma finalised_block_by_number g groot ops n x :
  history_ok g ops ->
  In (n, x) (f_chain (frun (f_genesis g groot) ops)) ->
  block_by_number (srun (genesis_state g groot) ops) n = Ok x.
Proof.
  intros H Hin.
  exact (obs_block_by_number g _ _ (proj1 (inv_run g ops _ _ (inv2_genesis g groot) H)) n x Hin).
Qed.

Lemma no_leftover_blocks g groot ops x :
  history_ok g ops ->
  f_abandoned (frun (f_genesis g groot) ops) x = true ->
  has_body (srun (genesis_state g groot) ops) x = false
  /\ get_block (srun (genesis_state g groot) ops) x = false.
Proof.
  intros H Ha. destruct (no_leftovers g groot ops x H Ha) as (Hh & Hg & _).
  unfold get_block, has_body. rewrite Hh, Hg. auto.
Qed.
