From Coq Require Import Extraction ExtrOcamlBasic.
From Common Require Import Bytes Drv Outcome.
From BlockTree Require Import Model Spec.
From C17 Require Import Model Spec.
Extraction "model.ml" drv_b2n drv_n2b drv_z_of_n drv_n_of_z drv_nat_of_n drv_n_of_nat
  genesis_state bs_add set_finalised set_finalised_prefix set_finalised_late observe best_block_hash
  f_genesis f_add f_fin f_admissible f_accepts f_request check_finalisation check_request check_by_number
  check_no_leftovers obs_eqb f_abandoned s_best_hash.
