(* placeholder until the proofs land *)
From C17 Require Import Model Spec.
