(* C17/Properties.v — property C17: finality is monotone and fully discards abandoned forks.
   Only statements, each closed by `exact <lemma>`, with Print Assumptions beneath.

   Vocabulary.
   * C17/Model.v  srun : the model of dot/state BlockState (NewBlockStateFromGenesis, AddBlock
     with the block's state trie stored, SetFinalisedHash) on a history; set_finalised one
     request; observe the projected observables (GetHighestFinalisedHash, GetHashByNumber,
     HasHeader/GetHeader/unfinalisedBlocks/Tries membership per block, Tries.len).
   * C17/Spec.v   frun : the specification: the head and the blocks held below it with their
     parent links (coq/BlockTree/Spec.v), the finalised chain since genesis as (number, hash),
     every block ever accepted with its state root.  f_admissible f h: h is the head or a block
     held below it.  f_abandoned f x: x was accepted, is no longer held and is not on the
     finalised chain.  check_finalisation: the three clauses of the property as one predicate on
     the observables before/after a request (the driver evaluates it on the Go observables).
     f_accepts f h setid: h is admissible and setid is not below the set id of the last accepted
     request (rounds are free).  f_request: the specification's transition for a request.
   * history_ok g ops: no added header carries the genesis hash (no hash collision with genesis;
     the code compares sub-chain hashes with bs.genesisHash).  Nothing is assumed about the
     requests: targets, rounds and set ids are arbitrary.
   * The model mirrors SetFinalisedHash AFTER fixes/C17-setid-check-before-write.patch (the set
     id is compared before anything is written).  The pinned order is kept as
     set_finalised_late and refuted by C17_setid_late_refuted. *)
From Coq Require Import List NArith ZArith Bool Permutation.
From Common Require Import Outcome.
From BlockTree Require Import Model Spec ProofsSpec.
From C17 Require Import Model Spec ProofsAssoc Proofs ProofsFinal ProofsCheck.
Import ListNotations.
Local Open Scope N_scope.

(* The finalised head only moves to a known descendant of the previous head: an accepted request
   (target held = the head or a block below it; set id not below the recorded one) succeeds,
   its target descends from the previous head through parent links and becomes the head;
   ANY OTHER request (stale ancestor, block of an abandoned fork, unknown or never added hash,
   stale set id) fails and leaves the whole state, not only the observables, unchanged. *)
Theorem C17_monotone_or_unchanged : forall g groot ops h round setid,
  history_ok g ops ->
  let st := srun (genesis_state g groot) ops in
  let f := frun (f_genesis g groot) ops in
  (f_accepts f h setid = true ->
     descends (s_blocks (f_set f)) (s_root (f_set f)) h
     /\ exists st', set_finalised st h round setid = (st', Ok tt)
                    /\ highest_finalised_hash st' = Ok h)
  /\ (f_accepts f h setid = false -> exists c, set_finalised st h round setid = (st, Err c)).
Proof. exact monotone_or_unchanged. Qed.
Print Assumptions C17_monotone_or_unchanged.

(* The head never moves otherwise: over a whole history the sequence of heads is a chain of
   descendants, i.e. whatever the request, the head afterwards is the head before or a block
   that descended from it through parent links. *)
Theorem C17_head_moves_only_to_descendants : forall g groot ops h round setid,
  history_ok g ops ->
  let st := srun (genesis_state g groot) ops in
  let f := frun (f_genesis g groot) ops in
  exists x, highest_finalised_hash (fst (set_finalised st h round setid)) = Ok x
            /\ descends (s_blocks (f_set f)) (s_root (f_set f)) x.
Proof. exact head_moves_only_to_descendants. Qed.
Print Assumptions C17_head_moves_only_to_descendants.

(* After every request of every history the observables satisfy the property predicate: the
   head is the target after an accepted request / nothing changed after any other; every block
   of the finalised chain is answered by GetHashByNumber and is in the database's number index;
   no abandoned block is retrievable (HasHeader, GetHeader, unfinalisedBlocks) or keeps its
   state trie in memory, unless a block that is still held has the same state root. *)
Theorem C17_every_request_satisfies_the_property : forall g groot ops h round setid blocks nums,
  history_ok g ops ->
  let st := srun (genesis_state g groot) ops in
  let f := frun (f_genesis g groot) ops in
  roots_ok (f_fin f h) blocks ->
  check_finalisation f h setid (is_okb (snd (set_finalised st h round setid)))
                     (observe st blocks nums)
                     (observe (fst (set_finalised st h round setid)) blocks nums) = true.
Proof.
  intros g groot ops h round setid blocks nums H st f Hr.
  exact (check_finalisation_holds g st f h round setid blocks nums
           (inv_run g ops _ _ (inv2_genesis g groot) H) Hr).
Qed.
Print Assumptions C17_every_request_satisfies_the_property.

(* the same, clause by clause, about any state reached by a history *)
Theorem C17_finalised_chain_by_number : forall g groot ops n x,
  history_ok g ops ->
  In (n, x) (f_chain (frun (f_genesis g groot) ops)) ->
  bs_hash_by_number (srun (genesis_state g groot) ops) n = Ok x.
Proof.
  intros g groot ops n x H Hin.
  exact (obs_by_number g _ _ (proj1 (inv_run g ops _ _ (inv2_genesis g groot) H)) n x Hin).
Qed.
Print Assumptions C17_finalised_chain_by_number.

(* ... from persistent storage: the database itself holds the number index entry and the header
   of every block of the finalised chain (the head included) *)
Theorem C17_finalised_chain_persisted : forall g groot ops n x,
  history_ok g ops ->
  In (n, x) (f_chain (frun (f_genesis g groot) ops)) ->
  lookup n (bs_num (srun (genesis_state g groot) ops)) = Some x
  /\ lookup x (bs_hdr (srun (genesis_state g groot) ops)) <> None.
Proof.
  intros g groot ops n x H Hin.
  exact (obs_persisted g _ _ (proj1 (inv_run g ops _ _ (inv2_genesis g groot) H)) n x Hin).
Qed.
Print Assumptions C17_finalised_chain_persisted.

Theorem C17_no_leftovers : forall g groot ops x,
  history_ok g ops ->
  let st := srun (genesis_state g groot) ops in
  let f := frun (f_genesis g groot) ops in
  f_abandoned f x = true ->
  has_header st x = false /\ get_header st x = None /\ lookup x (bs_unfin st) = None
  /\ forall i, lookup x (f_all f) = Some i -> mem (hi_root i) (bs_tries st) = true ->
               root_shared_with_kept f (hi_root i) = true.
Proof. exact no_leftovers. Qed.
Print Assumptions C17_no_leftovers.

(* ... the whole block (header and body), by number: GetBlockByNumber answers the finalised
   chain's block for every number up to the head's *)
Theorem C17_finalised_block_by_number : forall g groot ops n x,
  history_ok g ops ->
  In (n, x) (f_chain (frun (f_genesis g groot) ops)) ->
  block_by_number (srun (genesis_state g groot) ops) n = Ok x.
Proof. exact finalised_block_by_number. Qed.
Print Assumptions C17_finalised_block_by_number.

(* ... and neither the body nor the whole block of an abandoned block can be retrieved
   (HasBlockBody / GetBlockBody / GetBlockByHash) *)
Theorem C17_no_leftover_blocks : forall g groot ops x,
  history_ok g ops ->
  f_abandoned (frun (f_genesis g groot) ops) x = true ->
  has_body (srun (genesis_state g groot) ops) x = false
  /\ get_block (srun (genesis_state g groot) ops) x = false.
Proof. exact no_leftover_blocks. Qed.
Print Assumptions C17_no_leftover_blocks.

(* Block numbers are Go uint; the model's are unbounded.  On every history shorter than 2^64 - 1
   operations the block tree's AddBlock with the 64-bit wrap-around made explicit
   (BlockTree.Model.add_block64) is the AddBlock of the model, in every reachable state: the bound
   is an explicit hypothesis here, not a silent one (witness that it is needed:
   C15_uint64_bound_needed). *)
Theorem C17_uint64_block_numbers : forall g groot ops hd a,
  history_ok g ops -> N.of_nat (length ops) + 1 < two64 ->
  add_block64 (bs_tree (srun (genesis_state g groot) ops)) hd a
  = add_block (bs_tree (srun (genesis_state g groot) ops)) hd a.
Proof. exact uint64_block_numbers. Qed.
Print Assumptions C17_uint64_block_numbers.

(* non-vacuity: forks, a finalisation that abandons two blocks, then a stale, an abandoned and
   an unknown target and a stale set id, all refused with the state unchanged; then an accepted
   request in a higher set *)
Example C17_nonvacuous :
  let add i p n := SAdd (mkHeader i p n DPrimary) (1000 + i) 0%Z in
  let ops := [add 1 100 1; add 2 1 2; add 3 1 2; add 4 100 1; add 5 2 3; SFin 2 1 1] in
  let st := srun (genesis_state 100 1000) ops in
  let f := frun (f_genesis 100 1000) ops in
  history_ok 100 ops
  /\ highest_finalised_hash st = Ok 2
  /\ map (bs_hash_by_number st) [0; 1; 2] = [Ok 100; Ok 1; Ok 2]
  /\ map (fun n => lookup n (bs_num st)) [0; 1; 2; 3] = [Some 100; Some 1; Some 2; None]
  /\ map (has_header st) [100; 1; 2; 3; 4; 5] = [true; true; true; false; false; true]
  /\ map (get_block st) [100; 1; 2; 3; 4; 5] = [true; true; true; false; false; true]
  /\ map (block_by_number st) [0; 1; 2; 3] = [Ok 100; Ok 1; Ok 2; Ok 5]
  /\ N.of_nat (length ops) + 1 < two64
  /\ bs_tries st = [1005; 1002]
  /\ f_abandoned f 3 = true
  /\ map (fun h => f_accepts f h 1) [1; 3; 77; 5] = [false; false; false; true]
  /\ f_accepts f 5 0 = false
  /\ set_finalised st 1 2 1 = (st, Err e_not_in_chain)
  /\ set_finalised st 3 3 1 = (st, Err e_unknown)
  /\ set_finalised st 77 4 1 = (st, Err e_unknown)
  /\ set_finalised st 5 5 0 = (st, Err e_setid)
  /\ snd (set_finalised st 5 0 2) = Ok tt.
Proof. vm_compute. repeat split; auto; intro; discriminate. Qed.

(* With the pinned pre-fix BlockTree.Prune (before repo commit ba99ff841 "fix: node.prune
   iterates over a copy of the children it deletes from") the property fails: four children of
   genesis, the last one finalised; block 2 stays retrievable and keeps its trie. *)
Theorem C17_prefix_prune_refuted :
  let st := srun (genesis_state 100 1000) w17_ops in
  let f := frun (f_genesis 100 1000) w17_ops in
  check_finalisation f 4 0 (is_okb (snd (set_finalised_prefix st 4 1 0)))
                     (observe st w17_blocks [0; 1; 2])
                     (observe (fst (set_finalised_prefix st 4 1 0)) w17_blocks [0; 1; 2]) = false
  /\ has_header (fst (set_finalised_prefix st 4 1 0)) 2 = true
  /\ mem 1002 (bs_tries (fst (set_finalised_prefix st 4 1 0))) = true
  /\ f_abandoned (f_fin f 4) 2 = true.
Proof. exact prefix_leaves_abandoned_block. Qed.
Print Assumptions C17_prefix_prune_refuted.

(* The pinned order of SetFinalisedHash before fixes/C17-setid-check-before-write.patch (the set
   id is compared in setHighestRoundAndSetID, after handleFinalisedBlock has written): a request
   the specification does not accept (stale set id) is refused but changes the state, and the
   same target is afterwards refused even with a valid set id. *)
Theorem C17_setid_late_refuted :
  let st := srun (genesis_state 100 1000) w17s_ops in
  let f := frun (f_genesis 100 1000) w17s_ops in
  let st' := fst (set_finalised_late st 2 2 0) in
  f_accepts f 2 0 = false
  /\ snd (set_finalised_late st 2 2 0) = Err e_setid
  /\ check_finalisation f 2 0 false (observe st w17s_blocks [0; 1; 2]) (observe st' w17s_blocks [0; 1; 2]) = false
  /\ lookup 2 (bs_unfin st) <> None /\ lookup 2 (bs_unfin st') = None
  /\ lookup 2 (bs_num st) = None /\ lookup 2 (bs_num st') = Some 2
  /\ f_accepts f 2 1 = true
  /\ snd (set_finalised_late st' 2 3 1) = Err e_missing_block
  /\ set_finalised st 2 2 0 = (st, Err e_setid)
  /\ snd (set_finalised st 2 3 1) = Ok tt.
Proof. exact late_setid_changes_state. Qed.
Print Assumptions C17_setid_late_refuted.
