(* C17/Properties.v — property C17: finality is monotone and fully discards abandoned forks.
   Only statements, each closed by `exact <lemma>`, with Print Assumptions beneath.

   Vocabulary.
   * C17/Model.v  srun : the model of dot/state BlockState (NewBlockStateFromGenesis, AddBlock
     with the block's state trie stored, SetFinalisedHash) on a history; set_finalised one
     request; observe the projected observables (GetHighestFinalisedHash, GetHashByNumber,
     HasHeader/GetHeader/unfinalisedBlocks/Tries membership per block, Tries.len).
   * C17/Spec.v   frun : the specification: the head and the blocks held below it with their
     parent links (coq/BlockTree/Spec.v), the finalised chain since genesis as (number, hash),
     every block ever accepted with its state root.  f_admissible f h: h is the head or a block
     held below it.  f_abandoned f x: x was accepted, is no longer held and is not on the
     finalised chain.  check_finalisation: the three clauses of the property as one predicate on
     the observables before/after a request (the driver evaluates it on the Go observables).
   * history_ok g st ops: no added header carries the genesis hash (no hash collision with
     genesis) and no request carries a set id below the highest recorded one (a request with an
     admissible target and a lower set id is refused by setHighestRoundAndSetID after
     handleFinalisedBlock has already written; that failure mode is outside the property text
     and outside these theorems; the model reproduces it and the harness exercises it). *)
From Coq Require Import List NArith ZArith Bool Permutation.
From Common Require Import Outcome.
From BlockTree Require Import Model Spec ProofsSpec.
From C17 Require Import Model Spec ProofsAssoc Proofs ProofsFinal ProofsCheck.
Import ListNotations.
Local Open Scope N_scope.

(* The finalised head only moves to a known descendant of the previous head: a request for a
   held block succeeds and makes it the head, and such a block descends from the previous head
   through parent links; ANY OTHER request (stale ancestor, block of an abandoned fork, unknown
   or never added hash) fails and leaves the whole state, not only the observables, unchanged. *)
Theorem C17_monotone_or_unchanged : forall g groot ops h round setid,
  history_ok g (genesis_state g groot) (ops ++ [SFin h round setid]) ->
  let st := srun (genesis_state g groot) ops in
  let f := frun (f_genesis g groot) ops in
  (f_admissible f h = true ->
     descends (s_blocks (f_set f)) (s_root (f_set f)) h
     /\ exists st', set_finalised st h round setid = (st', Ok tt)
                    /\ highest_finalised_hash st' = Ok h)
  /\ (f_admissible f h = false -> exists c, set_finalised st h round setid = (st, Err c)).
Proof.
  intros g groot ops h round setid H st f.
  destruct (history_ok_app g ops _ _ H) as (H1 & (H2 & _)).
  pose proof (inv_run g ops _ _ (inv_genesis g groot) H1) as I. fold st f in I.
  destruct (request_step g st f h round setid I H2) as (A & B). split; [|exact B].
  intros Ha. split; [exact (admissible_descends g st f h I Ha)|].
  destruct (A Ha) as (st' & E & I'). exists st'. split; auto.
  rewrite (obs_highest g st' _ I'), (f_fin_root f h Ha). reflexivity.
Qed.
Print Assumptions C17_monotone_or_unchanged.

(* After every request of every history the observables satisfy the property predicate: the
   head is the target after a success / nothing changed after a refusal; every block of the
   finalised chain is answered by GetHashByNumber; no abandoned block is retrievable
   (HasHeader, GetHeader, unfinalisedBlocks) or keeps its state trie in memory, unless a block
   that is still held has the same state root. *)
Theorem C17_every_request_satisfies_the_property : forall g groot ops h round setid blocks nums,
  history_ok g (genesis_state g groot) (ops ++ [SFin h round setid]) ->
  let st := srun (genesis_state g groot) ops in
  let f := frun (f_genesis g groot) ops in
  roots_ok (f_fin f h) blocks ->
  check_finalisation f h (is_okb (snd (set_finalised st h round setid)))
                     (observe st blocks nums)
                     (observe (fst (set_finalised st h round setid)) blocks nums) = true.
Proof.
  intros g groot ops h round setid blocks nums H st f Hr.
  destruct (history_ok_app g ops _ _ H) as (H1 & (H2 & _)).
  exact (check_finalisation_holds g st f h round setid blocks nums
           (inv_run g ops _ _ (inv_genesis g groot) H1) H2 Hr).
Qed.
Print Assumptions C17_every_request_satisfies_the_property.

(* the same, clause by clause, about any state reached by a history *)
Theorem C17_finalised_chain_by_number : forall g groot ops n x,
  history_ok g (genesis_state g groot) ops ->
  In (n, x) (f_chain (frun (f_genesis g groot) ops)) ->
  bs_hash_by_number (srun (genesis_state g groot) ops) n = Ok x.
Proof.
  intros g groot ops n x H Hin.
  exact (obs_by_number g _ _ (inv_run g ops _ _ (inv_genesis g groot) H) n x Hin).
Qed.
Print Assumptions C17_finalised_chain_by_number.

Theorem C17_no_leftovers : forall g groot ops x,
  history_ok g (genesis_state g groot) ops ->
  let st := srun (genesis_state g groot) ops in
  let f := frun (f_genesis g groot) ops in
  f_abandoned f x = true ->
  has_header st x = false /\ get_header st x = None /\ lookup x (bs_unfin st) = None
  /\ forall i, lookup x (f_all f) = Some i -> mem (hi_root i) (bs_tries st) = true ->
               root_shared_with_kept f (hi_root i) = true.
Proof.
  intros g groot ops x H st f Ha.
  pose proof (inv_run g ops _ _ (inv_genesis g groot) H) as I. fold st f in I.
  destruct (obs_abandoned g st f I x Ha) as (Hu & Hh).
  unfold has_header, get_header. rewrite Hu, Hh. repeat split; auto.
  intros i _ Hm. exact (obs_tries g st f I _ Hm).
Qed.
Print Assumptions C17_no_leftovers.

(* non-vacuity: forks, a finalisation that abandons two blocks, then a stale, an abandoned and
   an unknown target, all refused with the state unchanged *)
Example C17_nonvacuous :
  let add i p n := SAdd (mkHeader i p n DPrimary) (1000 + i) 0%Z in
  let ops := [add 1 100 1; add 2 1 2; add 3 1 2; add 4 100 1; SFin 2 1 0] in
  let st := srun (genesis_state 100 1000) ops in
  history_ok 100 (genesis_state 100 1000) (ops ++ [SFin 1 2 0; SFin 3 3 0; SFin 77 4 0])
  /\ highest_finalised_hash st = Ok 2
  /\ map (bs_hash_by_number st) [0; 1; 2] = [Ok 100; Ok 1; Ok 2]
  /\ map (has_header st) [100; 1; 2; 3; 4] = [true; true; true; false; false]
  /\ bs_tries st = [1002]
  /\ f_abandoned (frun (f_genesis 100 1000) ops) 3 = true
  /\ snd (set_finalised st 1 2 0) = Err e_not_in_chain
  /\ snd (set_finalised st 3 3 0) = Err e_unknown
  /\ snd (set_finalised st 77 4 0) = Err e_unknown.
Proof. vm_compute. repeat split; auto; intro; discriminate. Qed.

(* With the pinned pre-fix BlockTree.Prune (before repo commit ba99ff841 "fix: node.prune
   iterates over a copy of the children it deletes from") the property fails: four children of
   genesis, the last one finalised; block 2 stays retrievable and keeps its trie. *)
Theorem C17_prefix_prune_refuted :
  let st := srun (genesis_state 100 1000) w17_ops in
  let f := frun (f_genesis 100 1000) w17_ops in
  check_finalisation f 4 (is_okb (snd (set_finalised_prefix st 4 1 0)))
                     (observe st w17_blocks [0; 1; 2])
                     (observe (fst (set_finalised_prefix st 4 1 0)) w17_blocks [0; 1; 2]) = false
  /\ has_header (fst (set_finalised_prefix st 4 1 0)) 2 = true
  /\ mem 1002 (bs_tries (fst (set_finalised_prefix st 4 1 0))) = true
  /\ f_abandoned (f_fin f 4) 2 = true.
Proof. exact prefix_leaves_abandoned_block. Qed.
Print Assumptions C17_prefix_prune_refuted.
