(* C17/Model.v — executable model of finalisation in dot/state: BlockState.SetFinalisedHash,
   handleFinalisedBlock, deleteFromTries, HasHeader, GetHeader, GetHashByNumber,
   GetHighestFinalisedHash, AddBlockWithArrivalTime, on top of the block-tree model of
   coq/BlockTree (which mirrors lib/blocktree with the repaired node.prune).  Definitions only.

   State.  bs.bt is a [btree]; bs.unfinalisedBlocks a list hash -> header data; bs.tries the list
   of state roots held in memory; the database is kept per key family: "hdr"+hash (headers),
   "hsh"+number (number -> hash index), the finalised hash per (round, set id), "hrs" (highest
   round and set id).  Bodies, arrival times, the first-slot key and telemetry are written by
   the code but never read by the observables of the property: they are left out. *)
From Coq Require Import List NArith ZArith Bool.
From Common Require Import Outcome.
From BlockTree Require Import Model.
Import ListNotations.
Local Open Scope N_scope.

(* what the property reads of a header *)
Record hinfo := mkHinfo { hi_parent : N; hi_number : N; hi_root : N (* StateRoot *) }.

Record bstate := mkState {
  bs_tree : btree;
  bs_unfin : list (N * hinfo);
  bs_tries : list N;
  bs_hdr : list (N * hinfo);
  bs_num : list (N * N);
  bs_finkeys : list ((N * N) * N);
  bs_highest : N * N;
  bs_genesis : N;
  bs_last : N;
  bs_round : N;
  bs_setid : N }.

Section Assoc.
  Context {V : Type}.
  Fixpoint lookup (k : N) (l : list (N * V)) : option V :=
    match l with
    | [] => None
    | (k', v) :: r => if k' =? k then Some v else lookup k r
    end.
  Definition remove_key (k : N) (l : list (N * V)) : list (N * V) :=
    filter (fun p => negb (fst p =? k)) l.
  (* map assignment: replaces an existing binding *)
  Definition put (k : N) (v : V) (l : list (N * V)) : list (N * V) := (k, v) :: remove_key k l.
End Assoc.

Definition mem (x : N) (l : list N) : bool := existsb (N.eqb x) l.
Definition remove_n (x : N) (l : list N) : list N := filter (fun y => negb (y =? x)) l.
(* Tries.softSet: only when absent *)
Definition soft_set (x : N) (l : list N) : list N := if mem x l then l else x :: l.

Definition pair_eqb (a b : N * N) : bool := (fst a =? fst b) && (snd a =? snd b).
Fixpoint lookup2 (k : N * N) (l : list ((N * N) * N)) : option N :=
  match l with
  | [] => None
  | (k', v) :: r => if pair_eqb k' k then Some v else lookup2 k r
  end.

(* HasHeader: unfinalised blocks first, then the database *)
Definition has_header (st : bstate) (h : N) : bool :=
  match lookup h (bs_unfin st) with
  | Some _ => true
  | None => match lookup h (bs_hdr st) with Some _ => true | None => false end
  end.

Definition get_header (st : bstate) (h : N) : option hinfo :=
  match lookup h (bs_unfin st) with
  | Some i => Some i
  | None => lookup h (bs_hdr st)
  end.

(* Block bodies.  SetBlockBody(hash) is put by the same loop iteration of handleFinalisedBlock
   that puts the header of the block (SetHeader; the only step between them, for block number 1,
   is Header.SlotNumber, which cannot fail on a header AddBlock accepted), and by
   NewBlockStateFromGenesis for genesis; nothing else writes either key family and nothing
   deletes from them.  The body keys of the database are therefore the header keys [bs_hdr]:
   HasBlockBody / GetBlockBody (unfinalised blocks first, then the database) and GetBlockByHash
   (GetHeader then GetBlockBody) succeed exactly when HasHeader does. *)
Definition has_body (st : bstate) (h : N) : bool := has_header st h.
Definition get_block (st : bstate) (h : N) : bool :=
  match get_header st h with Some _ => has_body st h | None => false end.

(* error classes *)
Definition e_unknown : nat := 1.          (* cannot finalise unknown block *)
Definition e_not_in_chain : nat := 2.     (* RangeInMemory(lastFinalised, hash) failed *)
Definition e_missing_block : nat := 3.    (* block of the subchain not in unfinalisedBlocks *)
Definition e_setid : nat := 4.            (* set id lower than highest *)
Definition e_get_header : nat := 5.
Definition e_db : nat := 9.

(* AddBlockWithArrivalTime followed by storing the block's state trie (what importing a block
   does); the trie is only stored when the block was accepted *)
Definition bs_add (st : bstate) (hd : header) (root : N) (arrival : Z) : bstate * outcome unit :=
  match add_block (bs_tree st) hd arrival with
  | Ok t' =>
    (mkState t' (put (h_hash hd) (mkHinfo (h_parent hd) (h_number hd) root) (bs_unfin st))
             (soft_set root (bs_tries st)) (bs_hdr st) (bs_num st) (bs_finkeys st) (bs_highest st)
             (bs_genesis st) (bs_last st) (bs_round st) (bs_setid st), Ok tt)
  | Err c => (st, Err c)
  | Panic => (st, Panic)
  | OutOfFuel => (st, OutOfFuel)
  end.

(* the loop of handleFinalisedBlock over subchain[1:]: headers are written immediately, the
   number index goes to a batch that is only flushed when the loop completes *)
Fixpoint hf_loop (target genesis : N) (sub : list N)
         (unfin : list (N * hinfo)) (tries : list N) (hdr : list (N * hinfo)) (batch : list (N * N))
  : list (N * hinfo) * list N * list (N * hinfo) * list (N * N) * bool :=
  match sub with
  | [] => (unfin, tries, hdr, batch, true)
  | x :: r =>
    if x =? genesis then hf_loop target genesis r unfin tries hdr batch
    else match lookup x unfin with
         | None => (unfin, tries, hdr, batch, false)
         | Some i =>
           let hdr' := put x i hdr in
           let batch' := batch ++ [(hi_number i, x)] in
           let unfin' := remove_key x unfin in
           let tries' := if target =? x then tries else remove_n (hi_root i) tries in
           hf_loop target genesis r unfin' tries' hdr' batch'
         end
  end.

Definition flush_batch (batch : list (N * N)) (num : list (N * N)) : list (N * N) :=
  fold_left (fun m p => put (fst p) (snd p) m) batch num.

Definition handle_finalised (st : bstate) (h : N) : bstate * outcome unit :=
  if h =? bs_last st then (st, Ok tt)
  else match range_in_memory (bs_tree st) (bs_last st) h with
       | Ok sub =>
         let '(unfin, tries, hdr, batch, done) :=
           hf_loop h (bs_genesis st) (tl sub) (bs_unfin st) (bs_tries st) (bs_hdr st) [] in
         let num := if done then flush_batch batch (bs_num st) else bs_num st in
         (mkState (bs_tree st) unfin tries hdr num (bs_finkeys st) (bs_highest st)
                  (bs_genesis st) (bs_last st) (bs_round st) (bs_setid st),
          if done then Ok tt else Err e_missing_block)
       | _ => (st, Err e_not_in_chain)
       end.

(* the cleanup driven by the hashes BlockTree.Prune returns *)
Fixpoint drop_pruned (pruned : list N) (unfin : list (N * hinfo)) (tries : list N)
  : list (N * hinfo) * list N :=
  match pruned with
  | [] => (unfin, tries)
  | p :: r =>
    match lookup p unfin with
    | None => drop_pruned r unfin tries
    | Some i => drop_pruned r (remove_key p unfin) (remove_n (hi_root i) tries)
    end
  end.

Section WithPrune.
  (* the Prune used: [prune] (repaired) or [prune_prefix] (pinned) *)
  Variable prune_fn : btree -> N -> btree * list N.

  (* SetFinalisedHash from handleFinalisedBlock on, as pinned: the set id is only compared in
     setHighestRoundAndSetID, AFTER handleFinalisedBlock has written and after the
     finalised-hash key has been put *)
  Definition set_finalised_late_with (st : bstate) (h round setid : N) : bstate * outcome unit :=
    if negb (has_header st h) then (st, Err e_unknown)
    else
      match handle_finalised st h with
      | (st1, Ok _) =>
        let finkeys := ((round, setid), h) :: bs_finkeys st1 in
        if setid <? snd (bs_highest st1) then
          (mkState (bs_tree st1) (bs_unfin st1) (bs_tries st1) (bs_hdr st1) (bs_num st1) finkeys
                   (bs_highest st1) (bs_genesis st1) (bs_last st1) (bs_round st1) (bs_setid st1),
           Err e_setid)
        else
          let '(t', pruned) := prune_fn (bs_tree st1) h in
          let '(unfin, tries) := drop_pruned pruned (bs_unfin st1) (bs_tries st1) in
          let st4 := mkState t' unfin tries (bs_hdr st1) (bs_num st1) finkeys (round, setid)
                             (bs_genesis st1) (bs_last st1) (bs_round st1) (bs_setid st1) in
          match get_header st4 h with
          | None => (st4, Err e_get_header)
          | Some _ =>
            let tries' :=
              if bs_last st1 =? h then tries
              else match get_header st4 (bs_last st1) with
                   | Some li => remove_n (hi_root li) tries
                   | None => tries
                   end in
            (mkState t' unfin tries' (bs_hdr st1) (bs_num st1) finkeys (round, setid)
                     (bs_genesis st1) h round setid, Ok tt)
          end
      | (st1, r) => (st1, r)
      end.

  (* SetFinalisedHash after fixes/C17-setid-check-before-write.patch: HasHeader, then the set id
     is compared with the highest recorded one BEFORE anything is written, then the pinned body
     (whose own comparison in setHighestRoundAndSetID can no longer fail) *)
  Definition set_finalised_with (st : bstate) (h round setid : N) : bstate * outcome unit :=
    if negb (has_header st h) then (st, Err e_unknown)
    else if setid <? snd (bs_highest st) then (st, Err e_setid)
    else set_finalised_late_with st h round setid.
End WithPrune.

Definition set_finalised := set_finalised_with prune.
(* the pinned orders: Prune before repo commit ba99ff841; set-id comparison after the writes *)
Definition set_finalised_prefix := set_finalised_with prune_prefix.
Definition set_finalised_late := set_finalised_late_with prune.

(* NewBlockStateFromGenesis(header) followed by loading the genesis trie *)
Definition genesis_state (g groot : N) : bstate :=
  mkState (new_tree g 0 0%Z) [] [groot] [(g, mkHinfo 0 0 groot)] [(0, g)] [((0, 0), g)] (0, 0)
          g g 0 0.

(* BlockState.GetHashByNumber: the block tree, and below its root the database index *)
Definition bs_hash_by_number (st : bstate) (n : N) : outcome N :=
  match get_hash_by_number (bs_tree st) n with
  | Ok h => Ok h
  | Err c => if (c =? e_num_lower)%nat
             then match lookup n (bs_num st) with Some h => Ok h | None => Err e_db end
             else Err c
  | Panic => Panic
  | OutOfFuel => OutOfFuel
  end.

(* BlockState.GetBlockByNumber: GetHashByNumber then GetBlockByHash; answers the block's hash *)
Definition block_by_number (st : bstate) (n : N) : outcome N :=
  match bs_hash_by_number st n with
  | Ok h => if get_block st h then Ok h else Err e_db
  | other => other
  end.

Definition highest_finalised_hash (st : bstate) : outcome N :=
  match lookup2 (bs_highest st) (bs_finkeys st) with Some h => Ok h | None => Err e_db end.

(* ------------------------------------------------------------------ histories *)

Inductive sop :=
| SAdd (hd : header) (root : N) (arrival : Z)
| SFin (h round setid : N).

Definition sstep (st : bstate) (o : sop) : bstate * outcome unit :=
  match o with
  | SAdd hd root a => bs_add st hd root a
  | SFin h r s => set_finalised st h r s
  end.

Fixpoint srun (st : bstate) (ops : list sop) : bstate :=
  match ops with
  | [] => st
  | o :: r => srun (fst (sstep st o)) r
  end.
