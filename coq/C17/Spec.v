(* C17/Spec.v — what finality must look like, stated over the set-of-blocks specification of
   coq/BlockTree/Spec.v: the unfinalised blocks with their parent links, the finalised chain
   since genesis, and every block ever accepted with its state root.  The [check_*] predicates
   are evaluated by the driver on the implementation's observables and are what the theorems of
   Properties.v state about the model. *)
From Coq Require Import List NArith ZArith Bool.
From Common Require Import Outcome.
From BlockTree Require Import Model Spec.
From C17 Require Import Model.
Import ListNotations.
Local Open Scope N_scope.

Record fstate := mkF {
  f_set : sst;                    (* finalised head (root) and the unfinalised blocks *)
  f_chain : list (N * N);         (* number -> hash of the finalised chain, genesis included *)
  f_all : list (N * hinfo);       (* every block ever accepted (and genesis) *)
  f_setid : N }.                  (* the set id of the last accepted request *)

Definition f_genesis (g groot : N) : fstate :=
  mkF (mkSst g 0 []) [(0, g)] [(g, mkHinfo 0 0 groot)] 0.

Definition f_add (f : fstate) (hd : header) (root : N) (arrival : Z) : fstate * outcome unit :=
  match s_add (f_set f) hd arrival with
  | Ok s' => (mkF s' (f_chain f) (put (h_hash hd) (mkHinfo (h_parent hd) (h_number hd) root) (f_all f))
             (f_setid f), Ok tt)
  | Err c => (f, Err c)
  | Panic => (f, Panic)
  | OutOfFuel => (f, OutOfFuel)
  end.

(* a finalisation request is admissible iff its target is a held block (the head or one of its
   descendants) *)
Definition f_admissible (f : fstate) (h : N) : bool := s_known (f_set f) h.

(* the chain (head, h] in ascending order, as (number, hash) *)
Definition f_new_links (f : fstate) (h : N) : list (N * N) :=
  match s_path (f_set f) (s_root (f_set f)) h with
  | Some p => flat_map (fun x => match s_number (f_set f) x with Some n => [(n, x)] | None => [] end) (tl p)
  | None => []
  end.

(* the effect of finalising the target h (set ids aside) *)
Definition f_fin (f : fstate) (h : N) : fstate :=
  if f_admissible f h
  then mkF (fst (s_fin (f_set f) h)) (f_chain f ++ f_new_links f h) (f_all f) (f_setid f)
  else f.

(* a request SetFinalisedHash(h, round, setid) is accepted iff its target is admissible and its
   set id is not below the one of the last accepted request; the round plays no role (a lower
   round in the same set is allowed, gossamer issue 3150) *)
Definition f_accepts (f : fstate) (h setid : N) : bool :=
  f_admissible f h && (f_setid f <=? setid).

Definition f_with_setid (f : fstate) (setid : N) : fstate :=
  mkF (f_set f) (f_chain f) (f_all f) setid.

Definition f_request (f : fstate) (h setid : N) : fstate :=
  if f_accepts f h setid then f_with_setid (f_fin f h) setid else f.

(* ------------------------------------------------------------------ observables *)

Record flags := mkFlags {
  fl_has : bool;       (* HasHeader *)
  fl_get : bool;       (* GetHeader succeeds *)
  fl_unfin : bool;     (* held in unfinalisedBlocks *)
  fl_trie : bool;      (* Tries has a trie for the block's state root *)
  fl_db : bool;        (* the header is in the database (HasHeaderInDatabase) *)
  fl_body : bool;      (* GetBlockBody succeeds *)
  fl_block : bool }.   (* GetBlockByHash succeeds *)

Record obs := mkObs {
  o_highest : outcome N;                  (* GetHighestFinalisedHash *)
  o_bynum : list (N * outcome N);         (* GetHashByNumber for the listed numbers *)
  o_flags : list (N * flags);             (* per block ever defined *)
  o_tries : N;                            (* Tries.len *)
  o_dbnum : list (N * option N);          (* the database's number -> hash index, read directly *)
  o_blocknum : list (N * outcome N) }.    (* GetBlockByNumber (hash of the block answered) *)

Definition observe (st : bstate) (blocks : list (N * N)) (nums : list N) : obs :=
  mkObs (highest_finalised_hash st)
        (map (fun n => (n, bs_hash_by_number st n)) nums)
        (map (fun b => (fst b,
                        mkFlags (has_header st (fst b))
                                (match get_header st (fst b) with Some _ => true | None => false end)
                                (match lookup (fst b) (bs_unfin st) with Some _ => true | None => false end)
                                (mem (snd b) (bs_tries st))
                                (match lookup (fst b) (bs_hdr st) with Some _ => true | None => false end)
                                (has_body st (fst b)) (get_block st (fst b))))
             blocks)
        (N.of_nat (length (bs_tries st)))
        (map (fun n => (n, lookup n (bs_num st))) nums)
        (map (fun n => (n, block_by_number st n)) nums).

Definition outcome_n_eqb (a b : outcome N) : bool :=
  match a, b with
  | Ok x, Ok y => x =? y
  | Err c, Err d => (c =? d)%nat
  | Panic, Panic => true
  | OutOfFuel, OutOfFuel => true
  | _, _ => false
  end.
Definition flags_eqb (a b : flags) : bool :=
  eqb (fl_has a) (fl_has b) && eqb (fl_get a) (fl_get b) && eqb (fl_unfin a) (fl_unfin b)
  && eqb (fl_trie a) (fl_trie b) && eqb (fl_db a) (fl_db b)
  && eqb (fl_body a) (fl_body b) && eqb (fl_block a) (fl_block b).
Definition option_n_eqb (a b : option N) : bool :=
  match a, b with
  | Some x, Some y => x =? y
  | None, None => true
  | _, _ => false
  end.
Fixpoint list_eqb {A} (e : A -> A -> bool) (l1 l2 : list A) : bool :=
  match l1, l2 with
  | [], [] => true
  | x :: r, y :: s => e x y && list_eqb e r s
  | _, _ => false
  end.
Definition obs_eqb (a b : obs) : bool :=
  outcome_n_eqb (o_highest a) (o_highest b)
  && list_eqb (fun p q => (fst p =? fst q) && outcome_n_eqb (snd p) (snd q)) (o_bynum a) (o_bynum b)
  && list_eqb (fun p q => (fst p =? fst q) && flags_eqb (snd p) (snd q)) (o_flags a) (o_flags b)
  && (o_tries a =? o_tries b)
  && list_eqb (fun p q => (fst p =? fst q) && option_n_eqb (snd p) (snd q)) (o_dbnum a) (o_dbnum b)
  && list_eqb (fun p q => (fst p =? fst q) && outcome_n_eqb (snd p) (snd q)) (o_blocknum a) (o_blocknum b).

(* ------------------------------------------------------------------ the property predicates *)

(* 1. monotone: an accepted request (admissible target, set id not below the recorded one)
      succeeds and the head is then the target; ANY other request fails and every observable
      is as before *)
Definition check_request (f : fstate) (h setid : N) (ok : bool) (before after : obs) : bool :=
  if f_accepts f h setid then ok && outcome_n_eqb (o_highest after) (Ok h)
  else negb ok && obs_eqb before after.

(* 2. after a successful request every number up to the head's is answered from the finalised
      chain, and the database's own number index holds the finalised chain *)
Definition check_by_number (f' : fstate) (after : obs) : bool :=
  forallb (fun p =>
             match lookup (fst p) (f_chain f') with
             | Some h => outcome_n_eqb (snd p) (Ok h)
             | None => true       (* above the head: the block tree answers (property C15) *)
             end) (o_bynum after)
  && forallb (fun c => match lookup (fst c) (o_bynum after) with
                       | Some r => outcome_n_eqb r (Ok (snd c))
                       | None => true    (* number not among the observed ones *)
                       end) (f_chain f')
  && forallb (fun c => match lookup (fst c) (o_dbnum after) with
                       | Some r => option_n_eqb r (Some (snd c))
                       | None => true
                       end) (f_chain f')
  (* the whole block (header and body) is retrieved by number *)
  && forallb (fun c => match lookup (fst c) (o_blocknum after) with
                       | Some r => outcome_n_eqb r (Ok (snd c))
                       | None => true
                       end) (f_chain f').

(* 3. no leftovers: a block that is neither on the finalised chain nor held any more is gone:
      not retrievable, not among the unfinalised blocks, and its state trie is not in memory
      unless a block that is still held (or the head) has the same state root *)
Definition f_kept (f' : fstate) (h : N) : bool := s_known (f_set f') h.
Definition f_finalised (f' : fstate) (h : N) : bool := existsb (fun c => snd c =? h) (f_chain f').
Definition f_abandoned (f' : fstate) (h : N) : bool :=
  match lookup h (f_all f') with
  | Some _ => negb (f_kept f' h) && negb (f_finalised f' h)
  | None => false
  end.
Definition root_shared_with_kept (f' : fstate) (root : N) : bool :=
  existsb (fun b => f_kept f' (fst b) && (hi_root (snd b) =? root)) (f_all f').

Definition check_no_leftovers (f' : fstate) (after : obs) : bool :=
  forallb (fun p =>
             let h := fst p in let fl := snd p in
             if f_abandoned f' h then
               negb (fl_has fl) && negb (fl_get fl) && negb (fl_unfin fl)
               && negb (fl_body fl) && negb (fl_block fl)
               && (negb (fl_trie fl)
                   || match lookup h (f_all f') with
                      | Some i => root_shared_with_kept f' (hi_root i)
                      | None => false
                      end)
             else true) (o_flags after).

(* the three together, for one request *)
Definition check_finalisation (f : fstate) (h setid : N) (ok : bool) (before after : obs) : bool :=
  check_request f h setid ok before after
  && (if ok then let f' := f_fin f h in check_by_number f' after && check_no_leftovers f' after
      else true).

(* ------------------------------------------------------------------ vm_compute cross-check of the driver *)

(* did each operation of the history succeed *)
Fixpoint srun_oks (st : bstate) (ops : list sop) : list bool :=
  match ops with
  | [] => []
  | o :: r => (match snd (sstep st o) with Ok _ => true | _ => false end) :: srun_oks (fst (sstep st o)) r
  end.

(* the history replayed inside Coq gives the success flags and the final finalised head the
   implementation reported *)
Definition fin_matches (g groot : N) (ops : list sop) (oks : list bool) (head : N) : bool :=
  list_eqb Bool.eqb (srun_oks (genesis_state g groot) ops) oks
  && outcome_n_eqb (highest_finalised_hash (srun (genesis_state g groot) ops)) (Ok head).
