(* C17/Proofs.v — the invariant tying the BlockState model to the finality specification, its
   preservation by AddBlock and SetFinalisedHash, and the property predicates as consequences. *)
From Coq Require Import List NArith ZArith Bool Lia Permutation.
From Common Require Import Outcome.
From BlockTree Require Import Model Spec ProofsTree ProofsPath ProofsSpec ProofsSim ProofsQuery
  ProofsBest ProofsHist ProofsNum.
From C17 Require Import Model Spec ProofsAssoc.
Import ListNotations.
Local Open Scope N_scope.

Record inv (g : N) (st : bstate) (f : fstate) : Prop := mkInv {
  i_sim : sim (bs_tree st) (f_set f);
  i_last : bs_last st = s_root (f_set f);
  i_gen : bs_genesis st = g;
  i_gen_fin : ~ In g (map b_hash (s_blocks (f_set f)));
  (* the unfinalised blocks are the blocks below the head, with the data they were added with *)
  i_unfin : forall x, lookup x (bs_unfin st) <> None <-> In x (map b_hash (s_blocks (f_set f)));
  i_unfin_info : forall x i, lookup x (bs_unfin st) = Some i ->
                   lookup x (f_all f) = Some i /\ s_number (f_set f) x = Some (hi_number i);
  (* the database holds the headers of the finalised chain and its number index *)
  i_hdr : forall x, lookup x (bs_hdr st) <> None <-> In x (map snd (f_chain f));
  i_head : exists i, lookup (s_root (f_set f)) (bs_hdr st) = Some i
                     /\ lookup (s_root (f_set f)) (f_all f) = Some i;
  i_num : forall n x, In (n, x) (f_chain f) -> lookup n (bs_num st) = Some x;
  i_chain_nodup : NoDup (map fst (f_chain f));
  i_chain_le : forall n x, In (n, x) (f_chain f) -> n <= s_rootnum (f_set f);
  i_chain_head : In (s_rootnum (f_set f), s_root (f_set f)) (f_chain f);
  (* every trie in memory belongs to a block that is still held *)
  i_tries : forall r, mem r (bs_tries st) = true ->
              exists x i, s_known (f_set f) x = true /\ lookup x (f_all f) = Some i /\ hi_root i = r;
  i_finkey : lookup2 (bs_highest st) (bs_finkeys st) = Some (s_root (f_set f)) }.

Lemma inv_genesis g groot : inv g (genesis_state g groot) (f_genesis g groot).
Proof.
  constructor; simpl; auto.
  - apply sim_new_tree.
  - intros x. split; [congruence|intros []].
  - intros x i. discriminate.
  - intros x. destruct (N.eqb_spec g x) as [->|Hne]; split; auto; try congruence.
    intros [E|[]]. congruence.
  - exists (mkHinfo 0 0 groot). rewrite N.eqb_refl. auto.
  - intros n x [E|[]]. inversion E; subst. reflexivity.
  - constructor; [intros []|constructor].
  - intros n x [E|[]]. inversion E; subst. lia.
  - intros r H. rewrite orb_false_r in H. apply N.eqb_eq in H. subst.
    exists g, (mkHinfo 0 0 groot). rewrite N.eqb_refl. unfold s_known. simpl. rewrite N.eqb_refl. auto.
Qed.

Ltac proj_simpl :=
  cbn [bs_tree bs_unfin bs_tries bs_hdr bs_num bs_finkeys bs_highest bs_genesis bs_last bs_round
       bs_setid f_set f_chain f_all s_root s_rootnum s_blocks fst snd] in *.

(* ------------------------------------------------------------------ small facts *)

Lemma s_known_iff s x : s_known s x = true <-> x = s_root s \/ In x (map b_hash (s_blocks s)).
Proof.
  unfold s_known. rewrite orb_true_iff, N.eqb_eq. split; intros [H|H]; auto; right.
  - destruct (s_find s x) as [b|] eqn:E; [|discriminate]. apply find_blk_some in E as (Hi & <-).
    apply in_map; auto.
  - destruct (s_find s x) eqn:E; auto. apply find_blk_none in E. contradiction.
Qed.

Lemma swf_root_not_block s : swf s -> ~ In (s_root s) (map b_hash (s_blocks s)).
Proof. unfold swf, s_hashes. intros H; inversion H; auto. Qed.

Lemma find_blk_app_r l b h : find_blk l h = None -> find_blk (l ++ [b]) h = find_blk [b] h.
Proof. unfold find_blk. induction l as [|a l IH]; simpl; auto. destruct (b_hash a =? h); [discriminate|auto]. Qed.

Lemma find_blk_app_l l b h x : find_blk l h = Some x -> find_blk (l ++ [b]) h = Some x.
Proof. unfold find_blk. induction l as [|a l IH]; simpl; [discriminate|]. destruct (b_hash a =? h); auto. Qed.

(* ------------------------------------------------------------------ AddBlock *)

Lemma inv_add g st f hd root a : inv g st f -> h_hash hd <> g ->
  snd (bs_add st hd root a) = snd (f_add f hd root a)
  /\ inv g (fst (bs_add st hd root a)) (fst (f_add f hd root a)).
Proof.
  intros I Hg. pose proof (sim_step _ _ (OAdd hd a) (i_sim _ _ _ I)) as (S' & R').
  unfold bs_add, f_add. simpl in S', R'.
  destruct (add_block (bs_tree st) hd a) as [t'| | |] eqn:Ea;
    destruct (s_add (f_set f) hd a) as [s'| | |] eqn:Es; simpl in *; try discriminate; try contradiction;
    try (split; [congruence|exact I]).
  split; [reflexivity|].
  (* what s_add did *)
  unfold s_add in Es.
  destruct (s_number (f_set f) (h_parent hd)) as [pn|] eqn:Epn; [|discriminate].
  destruct (s_known (f_set f) (h_hash hd)) eqn:Ek; [discriminate|].
  destruct (negb (pn + 1 =? h_number hd)); [discriminate|].
  destruct (if h_number hd =? 0 then Ok false else is_primary (h_digest hd)) as [prim| | |]; try discriminate.
  inversion Es; subst s'. clear Es.
  set (nb := mkBlk (h_hash hd) (h_parent hd) (h_number hd) a prim) in *.
  set (ni := mkHinfo (h_parent hd) (h_number hd) root).
  assert (Hnk : ~ In (h_hash hd) (map b_hash (s_blocks (f_set f))) /\ h_hash hd <> s_root (f_set f)).
  { split; intro H; assert (s_known (f_set f) (h_hash hd) = true) by (apply s_known_iff; auto); congruence. }
  destruct Hnk as (Hnb & Hnr).
  assert (Hfn : find_blk (s_blocks (f_set f)) (h_hash hd) = None) by (apply find_blk_none; auto).
  constructor; proj_simpl.
  - exact S'.
  - apply (i_last _ _ _ I).
  - apply (i_gen _ _ _ I).
  - rewrite map_app, in_app_iff. simpl. intros [H|[H|[]]]; [apply (i_gen_fin _ _ _ I H)|congruence].
  - intros x. rewrite map_app, in_app_iff. cbn [map In b_hash nb]. destruct (N.eq_dec x (h_hash hd)) as [->|Hne].
    + rewrite lookup_put_same. split; auto. congruence.
    + rewrite lookup_put_other by auto. rewrite (i_unfin _ _ _ I). split; [auto|].
      intros [H|[H|[]]]; auto. congruence.
  - intros x i. destruct (N.eq_dec x (h_hash hd)) as [->|Hne].
    + rewrite !lookup_put_same. intros E; inversion E; subst i. split; auto.
      unfold s_number. simpl. destruct (N.eqb_spec (h_hash hd) (s_root (f_set f))); [congruence|].
      unfold s_find. simpl. rewrite (find_blk_app_r _ nb _ Hfn). unfold find_blk. simpl.
      rewrite N.eqb_refl. reflexivity.
    + rewrite !lookup_put_other by auto. intros E. destruct (i_unfin_info _ _ _ I x i E) as (A & B).
      split; auto. unfold s_number in *. simpl. destruct (x =? s_root (f_set f)); auto.
      unfold s_find in *. simpl.
      destruct (find_blk (s_blocks (f_set f)) x) as [b|] eqn:Ef; [|discriminate].
      rewrite (find_blk_app_l _ nb _ _ Ef). exact B.
  - apply (i_hdr _ _ _ I).
  - destruct (i_head _ _ _ I) as (i & A & B). exists i. split; auto.
    rewrite lookup_put_other; auto.
  - apply (i_num _ _ _ I).
  - apply (i_chain_nodup _ _ _ I).
  - apply (i_chain_le _ _ _ I).
  - apply (i_chain_head _ _ _ I).
  - intros r Hr. rewrite mem_soft_set in Hr. apply orb_true_iff in Hr as [Hr|Hr].
    + apply N.eqb_eq in Hr. subst r. exists (h_hash hd), ni. rewrite lookup_put_same. repeat split; auto.
      apply s_known_iff. right. simpl. rewrite map_app, in_app_iff. right. left. reflexivity.
    + destruct (i_tries _ _ _ I r Hr) as (x & i & Hk & Hx & Hi). exists x, i.
      assert (x <> h_hash hd) by (intros ->; congruence).
      rewrite lookup_put_other by auto. repeat split; auto.
      apply s_known_iff. apply s_known_iff in Hk as [Hk|Hk]; [left; exact Hk|right].
      simpl. rewrite map_app, in_app_iff. left; auto.
  - apply (i_finkey _ _ _ I).
Qed.

(* ------------------------------------------------------------------ SetFinalisedHash, unfolded *)

Definition inb (x : N) (l : list N) : bool := existsb (N.eqb x) l.
Lemma inb_in x l : inb x l = true <-> In x l.
Proof. apply existsb_eqb_in. Qed.
Lemma inb_false x l : inb x l = false <-> ~ In x l.
Proof. rewrite <- inb_in. destruct (inb x l); split; congruence. Qed.

(* the (number, hash) pairs handleFinalisedBlock puts into its batch *)
Definition unfin_links (st : bstate) (sub : list N) : list (N * N) :=
  flat_map (fun x => match lookup x (bs_unfin st) with Some i => [(hi_number i, x)] | None => [] end) sub.

(* the successful path of SetFinalisedHash for a target other than the current head, in terms
   of the chain [sub] from below the head down to the target and of what Prune returns *)
Lemma set_finalised_ok st h round setid sub t' pruned i0 :
  has_header st h = true ->
  h <> bs_last st ->
  range_in_memory (bs_tree st) (bs_last st) h = Ok (bs_last st :: sub) ->
  NoDup sub -> In h sub ->
  (forall x, In x sub -> x <> bs_genesis st /\ lookup x (bs_unfin st) <> None) ->
  snd (bs_highest st) <= setid ->
  prune (bs_tree st) h = (t', pruned) -> NoDup pruned ->
  lookup (bs_last st) (bs_unfin st) = None -> ~ In (bs_last st) sub ->
  lookup (bs_last st) (bs_hdr st) = Some i0 ->
  exists unfin' tries' hdr' num',
    set_finalised_late st h round setid =
      (mkState t' unfin' tries' hdr' num' (((round, setid), h) :: bs_finkeys st) (round, setid)
               (bs_genesis st) h round setid, Ok tt)
    /\ (forall y, lookup y unfin' = if inb y pruned || inb y sub then None else lookup y (bs_unfin st))
    /\ (forall y, lookup y hdr' = if inb y sub then lookup y (bs_unfin st) else lookup y (bs_hdr st))
    /\ (NoDup (map fst (unfin_links st sub)) ->
        forall n, lookup n num' =
                  match lookup n (unfin_links st sub) with
                  | Some x => Some x
                  | None => lookup n (bs_num st)
                  end)
    /\ (forall r, mem r tries' = true ->
                  mem r (bs_tries st) = true
                  /\ (forall x i, In x sub -> x <> h -> lookup x (bs_unfin st) = Some i -> hi_root i <> r)
                  /\ (forall p i, In p pruned -> ~ In p sub -> lookup p (bs_unfin st) = Some i -> hi_root i <> r)
                  /\ hi_root i0 <> r).
Proof.
  intros Hhas Hne Hrange NDs Hh Hsub Hsid Hprune NDp Hlu Hls Hlh.
  unfold set_finalised_late, set_finalised_late_with. rewrite Hhas. cbn [negb].
  unfold handle_finalised. destruct (N.eqb_spec h (bs_last st)) as [|_]; [contradiction|].
  rewrite Hrange. cbn [tl].
  destruct (hf_loop_spec h (bs_genesis st) sub (bs_unfin st) (bs_tries st) (bs_hdr st) [] NDs Hsub)
    as (u1 & t1 & h1 & Eloop & Hu1 & Hh1 & Ht1).
  rewrite Eloop. cbn [app]. proj_simpl.
  destruct (N.ltb_spec setid (snd (bs_highest st))) as [|_]; [lia|].
  rewrite Hprune.
  destruct (drop_pruned_spec pruned u1 t1 NDp) as (u4 & t4 & Edrop & Hu4 & Ht4).
  rewrite Edrop.
  (* the header of the target is now in the database *)
  assert (Hgh : exists ih, lookup h (bs_unfin st) = Some ih).
  { destruct (Hsub h Hh) as (_ & Hx). destruct (lookup h (bs_unfin st)); [eauto|congruence]. }
  destruct Hgh as (ih & Hih).
  assert (Hu4h : lookup h u4 = None).
  { rewrite Hu4, Hu1. assert (E : existsb (N.eqb h) sub = true) by (apply existsb_eqb_in; auto).
    rewrite E. destruct (existsb (N.eqb h) pruned); reflexivity. }
  assert (Hh1h : lookup h h1 = Some ih).
  { rewrite Hh1. assert (E : existsb (N.eqb h) sub = true) by (apply existsb_eqb_in; auto).
    rewrite E. exact Hih. }
  unfold get_header at 1. proj_simpl. rewrite Hu4h, Hh1h.
  destruct (N.eqb_spec (bs_last st) h) as [E|_]; [congruence|].
  (* the previous head is read from the database *)
  assert (Hu4l : lookup (bs_last st) u4 = None).
  { rewrite Hu4, Hu1. destruct (existsb (N.eqb (bs_last st)) pruned); auto.
    destruct (existsb (N.eqb (bs_last st)) sub); auto. }
  assert (Hh1l : lookup (bs_last st) h1 = Some i0).
  { rewrite Hh1. assert (E : existsb (N.eqb (bs_last st)) sub = false).
    { destruct (existsb (N.eqb (bs_last st)) sub) eqn:X; auto. apply existsb_eqb_in in X. contradiction. }
    rewrite E. exact Hlh. }
  unfold get_header. proj_simpl. rewrite Hu4l, Hh1l.
  eexists u4, (remove_n (hi_root i0) t4), h1, _. split; [reflexivity|].
  split; [|split; [|split]].
  - intros y. rewrite Hu4, Hu1. unfold inb.
    destruct (existsb (N.eqb y) pruned), (existsb (N.eqb y) sub); reflexivity.
  - intros y. rewrite Hh1. reflexivity.
  - intros ND n. apply flush_batch_spec. exact ND.
  - intros r Hr. rewrite mem_remove_n in Hr. apply andb_true_iff in Hr as (Hr & Hr0).
    apply negb_true_iff, N.eqb_neq in Hr0. apply Ht4 in Hr as (Hr1 & Hp). apply Ht1 in Hr1 as (Hr & Hs).
    repeat split; auto.
    intros p i Hp' Hps Hpi. apply (Hp p i Hp'). rewrite Hu1.
    assert (E : existsb (N.eqb p) sub = false).
    { destruct (existsb (N.eqb p) sub) eqn:X; auto. apply existsb_eqb_in in X. contradiction. }
    rewrite E. exact Hpi.
Qed.

(* ------------------------------------------------------------------ helpers for the invariant *)

Lemma find_blk_filter (P : blk -> bool) l x b :
  NoDup (map b_hash l) -> In b (filter P l) -> b_hash b = x -> find_blk (filter P l) x = Some b.
Proof.
  intros ND Hb <-. apply find_blk_in; auto. apply NoDup_map_filter. exact ND.
Qed.

Lemma pair_eqb_refl p : pair_eqb p p = true.
Proof. unfold pair_eqb. rewrite !N.eqb_refl. reflexivity. Qed.

Lemma filter_hashes_incl (P : blk -> bool) l x : In x (map b_hash (filter P l)) -> In x (map b_hash l).
Proof.
  intros H. apply in_map_iff in H as (b & <- & Hb). apply filter_In in Hb as (Hb & _). apply in_map; auto.
Qed.

(* the data of a finalisation of a held block other than the head, seen from the tree *)
Record fin_data (st : bstate) (f : fstate) (h : N) (m : bnode) (q : list bnode) : Prop := {
  fd_wf : wf (bs_tree st);
  fd_seq : seq (abs (bs_tree st)) (f_set f);
  fd_path : is_path (root (bs_tree st)) (root (bs_tree st) :: q) m;
  fd_hash : nhash m = h;
  fd_find : find_node h (root (bs_tree st)) = Some m;
  fd_ne : h <> nhash (root (bs_tree st));
  fd_q : q <> [] }.

Lemma fin_data_exists g st f h : inv g st f -> s_known (f_set f) h = true -> h <> s_root (f_set f) ->
  exists m q, fin_data st f h m q.
Proof.
  intros I Hk Hne. destruct (i_sim _ _ _ I) as (W & E). pose proof W as (U & _).
  assert (Er : s_root (f_set f) = nhash (root (bs_tree st))) by (destruct E as (Er & _); rewrite <- Er; reflexivity).
  assert (Hin : In h (all_hashes (root (bs_tree st)))).
  { apply abs_known. rewrite (seq_known _ _ E (abs_swf _ U)). exact Hk. }
  destruct (find_node_in _ _ Hin) as (m & Hf). destruct (find_node_some _ _ _ Hf) as (Hm & Hmh).
  destruct (node_has_path _ _ Hm) as (p & Hp). destruct (is_path_head _ _ _ Hp) as (q & ->).
  exists m, q. constructor; auto; try congruence.
  intros ->. inversion Hp as [|? c p' ? Hc Hp']; subst; [congruence|inversion Hp'].
Qed.

