(* C29/ProofsHost.v — facts about the host-function models and the evaluated witnesses of the
   difference between gossamer's and Substrate's ecdsa_verify. *)
From Coq Require Import ZifyN ZifyNat ZifyBool.
From Common Require Import Bytes.
From C29 Require Import Model ModelField ModelEd25519 ModelSecp256k1 ModelHost ProofsSig.
Local Open Scope Z_scope.

Lemma host_ed25519_case_spec pk msg sig :
  host_ed25519_case pk msg sig = (host_ed25519_verify pk msg sig, verify_zip215 pk msg sig).
Proof. unfold host_ed25519_case, host_ed25519_verify. now rewrite ed25519_case_spec. Qed.

(* gossamer's host function accepts only low-S signatures and never looks at sig[64] *)
Lemma host_ecdsa_verify_rules pk msg sig65 : host_ecdsa_verify pk msg sig65 = true ->
  1 <= be_z (firstn 32 (firstn 64 sig65)) < secp_n
  /\ 1 <= be_z (skipn 32 (firstn 64 sig65)) <= secp_half_n
  /\ parse_pubkey pk <> None.
Proof.
  unfold host_ecdsa_verify.
  destruct (secp256k1_pubkey_verify pk (blake2b_hash msg) (firstn 64 sig65)) eqn:E; try discriminate.
  intros _. destruct (pubkey_verify_ok _ _ _ E) as (q & Pq & V).
  destruct (ecdsa_verify_accepts _ _ _ V) as (_ & _ & R & S & _).
  repeat split; try apply R; try apply S. congruence.
Qed.
Lemma host_ecdsa_ignores_recovery_id pk msg rs v1 v2 : length rs = 64%nat ->
  host_ecdsa_verify pk msg (rs ++ [v1]) = host_ecdsa_verify pk msg (rs ++ [v2]).
Proof.
  intro L. unfold host_ecdsa_verify.
  rewrite !firstn_app, L, Nat.sub_diag. cbn [firstn]. reflexivity.
Qed.

(* Substrate's verdict: recovery id 0..3, r and s in [1, n-1]; no low-S requirement *)
Lemma substrate_ecdsa_verify_rules pk msg sig65 : substrate_ecdsa_verify pk msg sig65 = true ->
  length pk = 33%nat /\ length sig65 = 65%nat /\ (b2n (nth 64 sig65 Byte.x00) < 4)%N
  /\ 1 <= be_z (firstn 32 sig65) < secp_n /\ 1 <= be_z (firstn 32 (skipn 32 sig65)) < secp_n.
Proof.
  unfold substrate_ecdsa_verify.
  destruct (Nat.eqb_spec (length pk) 33) as [Lp|]; [|discriminate].
  destruct (Nat.eqb_spec (length sig65) 65) as [Ls|]; [|discriminate].
  cbn [andb negb]. cbv zeta.
  destruct (N.leb_spec 4 (b2n (nth 64 sig65 Byte.x00))) as [|Hv]; [discriminate|].
  unfold ecdsa_recover_point.
  pose proof (be_z_nonneg (firstn 32 sig65)) as R0.
  pose proof (be_z_nonneg (firstn 32 (skipn 32 sig65))) as S0.
  destruct (Z.leb_spec secp_n (be_z (firstn 32 sig65))) as [|Hr]; [discriminate|].
  destruct (Z.leb_spec secp_n (be_z (firstn 32 (skipn 32 sig65)))) as [|Hs]; [discriminate|].
  cbn [orb].
  destruct (Z.eqb_spec (be_z (firstn 32 sig65)) 0) as [|Rn]; [discriminate|].
  destruct (Z.eqb_spec (be_z (firstn 32 (skipn 32 sig65))) 0) as [|Sn]; [discriminate|].
  cbn [orb]. intros _. repeat split; try assumption; lia.
Qed.

(* every disagreement in which gossamer accepts lies inside the guard; so does every disagreement
   on a high-S signature *)
Lemma host_ecdsa_guard_covers pk msg sig65 :
  host_ecdsa_verify pk msg sig65 = true -> substrate_ecdsa_verify pk msg sig65 = false ->
  host_ecdsa_guard pk msg sig65 = true.
Proof. intros _ H. unfold host_ecdsa_guard. rewrite H. apply orb_true_r. Qed.

(* recovered keys travel as 64 (33) bytes *)
Lemma host_recover_length msg sig k : host_recover msg sig = Some k -> length k = 64%nat.
Proof.
  unfold host_recover. pose proof (recover_public_key_total msg sig) as T.
  destruct (recover_public_key msg sig) as [k0| |]; try discriminate.
  destruct T as (q & _ & _ & L). intro H.
  assert (K : k = skipn 1 k0) by congruence. rewrite K, skipn_length, L. reflexivity.
Qed.
Lemma host_recover_compressed_length msg sig k : host_recover_compressed msg sig = Some k -> length k = 33%nat.
Proof.
  unfold host_recover_compressed. pose proof (recover_public_key_compressed_total msg sig) as T.
  destruct (recover_public_key_compressed msg sig) as [k0| |]; try discriminate.
  destruct T as (q & _ & _ & L). intro H. injection H as H. rewrite <- H. exact L.
Qed.


(* what an accepting host call means at the library level *)
Lemma host_ecdsa_accepts_inner pk msg sig65 : host_ecdsa_verify pk msg sig65 = true ->
  exists q, parse_pubkey pk = Some q
            /\ secp256k1_verify_signature (serialize_compressed q) (firstn 64 sig65) (blake2b_hash msg) = true.
Proof.
  unfold host_ecdsa_verify, secp256k1_verify_signature.
  destruct (secp256k1_pubkey_verify pk (blake2b_hash msg) (firstn 64 sig65)) eqn:E; try discriminate.
  intros _. destruct (pubkey_verify_ok _ _ _ E) as (q & Pq & V). now exists q.
Qed.
