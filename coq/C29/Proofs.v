(* C29/Proofs.v — facts about the hashing helpers of Model.v. *)
From Common Require Import Bytes.
From Common Require Blake2b.
From Hash Require XXHash Keccak Sha2.
From Hash Require Import ProofsHash.
From C29 Require Import Model.
Local Open Scope nat_scope.

Lemma le64_length x : length (le64 x) = 8.
Proof. apply le_bytes_length. Qed.

Lemma digest_lengths m :
  length (blake2b128 m) = 16 /\ length (blake2b_hash m) = 32 /\ length (blake2b8 m) = 8
  /\ length (twox64 m) = 8 /\ length (twox128 m) = 16 /\ length (twox256 m) = 32
  /\ length (keccak_256 m) = 32 /\ length (sha2_256 m) = 32.
Proof.
  unfold blake2b128, blake2b_hash, blake2b8, twox64, twox128, twox256, keccak_256, sha2_256.
  rewrite !blake2b_length by lia. rewrite !app_length, !le64_length.
  rewrite keccak256_length, sha256_length. repeat split; reflexivity.
Qed.

Lemma all_digests_lengths m : map (@length byte) (all_digests m) = [16; 32; 8; 8; 16; 32; 32; 32].
Proof.
  destruct (digest_lengths m) as (A & B & C & D & E & F & G & H).
  unfold all_digests. cbn [map]. now rewrite A, B, C, D, E, F, G, H.
Qed.

(* Twox128 / Twox256 are the concatenated little-endian XXH64 values with seeds 0,1 / 0,1,2,3;
   each shorter digest is a prefix of the longer one; the 8 bytes decode back to the hash *)
Lemma twox_composition m :
  twox64 m = le_bytes 8 (XXHash.xxh64 0 m)
  /\ twox128 m = le_bytes 8 (XXHash.xxh64 0 m) ++ le_bytes 8 (XXHash.xxh64 1 m)
  /\ twox256 m = le_bytes 8 (XXHash.xxh64 0 m) ++ le_bytes 8 (XXHash.xxh64 1 m)
                 ++ le_bytes 8 (XXHash.xxh64 2 m) ++ le_bytes 8 (XXHash.xxh64 3 m)
  /\ firstn 8 (twox128 m) = twox64 m
  /\ firstn 16 (twox256 m) = twox128 m
  /\ le_val (twox64 m) = XXHash.xxh64 0 m
  /\ le_val (firstn 8 (skipn 8 (twox128 m))) = XXHash.xxh64 1 m.
Proof.
  unfold twox64, twox128, twox256, le64.
  split; [reflexivity|]. split; [reflexivity|]. split; [reflexivity|].
  split; [reflexivity|]. split; [reflexivity|].
  split.
  - apply le_val_le_bytes_small. apply xxh64_lt.
  - change (firstn 8 (skipn 8 (le_bytes 8 (XXHash.xxh64 0 m) ++ le_bytes 8 (XXHash.xxh64 1 m))))
      with (le_bytes 8 (XXHash.xxh64 1 m)).
    apply le_val_le_bytes_small. apply xxh64_lt.
Qed.

(* BLAKE2b-128 is BLAKE2b with parameter nn = 16 (the digest length enters the initial state),
   not the first 16 bytes of BLAKE2b-256 *)
Lemma blake2b128_is_blake2b_16 m : blake2b128 m = Blake2b.blake2b 16 m.
Proof. reflexivity. Qed.
Lemma blake2b128_not_truncation : exists m, blake2b128 m <> firstn 16 (blake2b_hash m).
Proof. exists []. vm_compute. discriminate. Qed.
(* RFC 7693 / reference values for the empty message *)
Example blake2b128_empty : be_val (blake2b128 []) = 0xcae66941d9efbd404e4d88758ea67670%N.
Proof. vm_compute. reflexivity. Qed.
Example blake2b256_empty :
  be_val (blake2b_hash []) = 0x0e5751c026e543b2e8ab2eb06099daa1d1e5df47778f7787faab45cdf12fe3a8%N.
Proof. vm_compute. reflexivity. Qed.
