(* C29/ProofsField.v — the folding reduction is reduction modulo m, for every integer. *)
From Coq Require Import ZArith List Bool Lia.
From C29 Require Import ModelField.
Local Open Scope Z_scope.

Lemma kmul_correct fuel : forall k a b, 0 <= k -> kmul fuel k a b = a * b.
Proof.
  induction fuel as [|f IH]; intros k a b Hk; [reflexivity|].
  cbn [kmul].
  destruct (Z.eqb_spec a 0) as [->|_]; [reflexivity|].
  destruct (Z.eqb_spec b 0) as [->|_]; [cbn [orb]; lia|]. cbn [orb].
  destruct (Z.eqb_spec a 1) as [->|_]; [lia|].
  destruct (Z.eqb_spec b 1) as [->|_]; [lia|].
  cbv zeta.
  assert (Hk2 : 0 <= Z.shiftr k 1) by (apply Z.shiftr_nonneg; exact Hk).
  rewrite !IH by exact Hk2.
  rewrite !Z.land_ones, !Z.shiftr_div_pow2, !Z.shiftl_mul_pow2 by lia.
  assert (P : 0 < 2 ^ k) by (apply Z.pow_pos_nonneg; lia).
  pose proof (Z.div_mod a (2 ^ k) ltac:(lia)) as Da.
  pose proof (Z.div_mod b (2 ^ k) ltac:(lia)) as Db.
  replace (2 ^ (2 * k)) with (2 ^ k * 2 ^ k) by (rewrite <- Z.pow_add_r by lia; f_equal; lia).
  set (X := 2 ^ k) in *. set (a1 := a / X) in *. set (a0 := a mod X) in *.
  set (b1 := b / X) in *. set (b0 := b mod X) in *.
  transitivity ((X * a1 + a0) * (X * b1 + b0)); [ring|].
  now rewrite <- Da, <- Db.
Qed.
Lemma zmul_correct a b : zmul a b = a * b.
Proof. apply kmul_correct. lia. Qed.

Section FieldProofs.
  Variables (k c m mask : Z).
  Hypothesis Hk : 0 <= k.
  Hypothesis Hm : m = 2 ^ k - c.
  Hypothesis Hmask : mask = Z.ones k.
  Hypothesis Hpos : 0 < m.

  Lemma pm_fold_mod x : pm_fold k c mask x mod m = x mod m.
  Proof.
    unfold pm_fold. rewrite Hmask, Z.land_ones, Z.shiftr_div_pow2 by assumption.
    assert (P : 0 < 2 ^ k) by (apply Z.pow_pos_nonneg; lia).
    pose proof (Z.div_mod x (2 ^ k) ltac:(lia)) as D.
    set (q := x / 2 ^ k) in *. set (r := x mod 2 ^ k) in *.
    replace (x mod m) with ((r + c * q + q * m) mod m) by (f_equal; rewrite Hm; lia).
    now rewrite Z.mod_add by lia.
  Qed.

  Lemma pm_red_fuel_correct fuel x : pm_red_fuel k c m mask fuel x = x mod m.
  Proof.
    revert x; induction fuel as [|f IH]; intro x; cbn [pm_red_fuel]; [reflexivity|].
    destruct ((0 <=? x) && (x <? m)) eqn:E1.
    - symmetry; apply Z.mod_small. lia.
    - destruct ((m <=? x) && (x <? 2 * m)) eqn:E2.
      + apply Z.mod_unique with (q := 1); lia.
      + rewrite IH. apply pm_fold_mod.
  Qed.

  Lemma fred_correct x : fred k c m mask x = x mod m.
  Proof. apply pm_red_fuel_correct. Qed.
  Lemma fred_range x : 0 <= fred k c m mask x < m.
  Proof. rewrite fred_correct. apply Z.mod_pos_bound; lia. Qed.
  Lemma fadd_correct a b : fadd k c m mask a b = (a + b) mod m.
  Proof. apply fred_correct. Qed.
  Lemma fmul_correct a b : fmul k c m mask a b = (a * b) mod m.
  Proof. unfold fmul. rewrite zmul_correct. apply fred_correct. Qed.
  Lemma fsqr_correct a : fsqr k c m mask a = (a * a) mod m.
  Proof. unfold fsqr. rewrite zmul_correct. apply fred_correct. Qed.
  Lemma fsub_correct a b : fsub k c m mask a b = (a - b) mod m.
  Proof.
    unfold fsub. rewrite fred_correct.
    replace (a - b + m) with (a - b + 1 * m) by lia. apply Z.mod_add. lia.
  Qed.
  Lemma fneg_correct a : fneg k c m mask a = (- a) mod m.
  Proof.
    unfold fneg. rewrite fred_correct.
    replace (m - a) with (- a + 1 * m) by lia. apply Z.mod_add. lia.
  Qed.

  Lemma fpow_pos_correct a e : fpow_pos k c m mask a e = (a ^ Zpos e) mod m.
  Proof.
    induction e as [e IH|e IH|]; cbn [fpow_pos].
    - rewrite fmul_correct, fsqr_correct, IH.
      rewrite Pos2Z.inj_xI.
      replace (a ^ (2 * Z.pos e + 1)) with (a * (a ^ Z.pos e * a ^ Z.pos e)).
      + rewrite <- Z.mul_mod by lia. now rewrite Z.mul_mod_idemp_r by lia.
      + rewrite Z.pow_add_r, Z.pow_1_r by lia. rewrite Z.pow_mul_r by lia.
        rewrite Z.pow_2_r. rewrite Z.pow_mul_l. ring.
    - rewrite fsqr_correct, IH. rewrite <- Z.mul_mod by lia.
      rewrite Pos2Z.inj_xO. rewrite <- Z.pow_add_r by lia. f_equal. f_equal. lia.
    - rewrite fred_correct. now rewrite Z.pow_1_r.
  Qed.

  Lemma fpow_correct a e : 0 <= e -> fpow k c m mask a e = (a ^ e) mod m.
  Proof.
    intro He. destruct e as [|e|e]; cbn [fpow]; try lia.
    - now rewrite fred_correct, Z.pow_0_r.
    - apply fpow_pos_correct.
  Qed.
End FieldProofs.
