(* C29/Vectors.v — published test vectors and witnesses evaluated on the signature references
   with vm_compute (each takes several seconds; compiled once by make, not part of the re-checked
   Properties.v). *)
From Common Require Import Bytes.
From C29 Require Import Model ModelField ModelEd25519 ModelSecp256k1 ModelHost.
Local Open Scope Z_scope.

Definition hx (k : nat) (v : N) : list byte := be_bytes k v.

(* ---- RFC 8032 section 7.1, TEST 1..3: valid under both rule sets *)
Definition rfc1_pk := hx 32 0xd75a980182b10ab7d54bfed3c964073a0ee172f3daa62325af021a68f707511a.
Definition rfc1_sig := hx 64 0xe5564300c360ac729086e2cc806e828a84877f1eb8e5d974d873e065224901555fb8821590a33bacc61e39701cf9b46bd25bf5f0595bbe24655141438e7a100b.
Example rfc8032_test1 : verify_both rfc1_pk [] rfc1_sig = (true, true).
Proof. vm_compute. reflexivity. Qed.
Example rfc8032_test1_tampered : verify_both rfc1_pk [n2b 1] rfc1_sig = (false, false).
Proof. vm_compute. reflexivity. Qed.
Definition rfc2_pk := hx 32 0x3d4017c3e843895a92b70aa74d1b7ebc9c982ccf2ec4968cc0cd55f12af4660c.
Definition rfc2_sig := hx 64 0x92a009a9f0d4cab8720e820b5f642540a2b27b5416503f8fb3762223ebdb69da085ac1e43e15996e458f3613d0f11d8c387b2eaeb4302aeeb00d291612bb0c00.
Example rfc8032_test2 : verify_both rfc2_pk [n2b 0x72] rfc2_sig = (true, true).
Proof. vm_compute. reflexivity. Qed.
Definition rfc3_pk := hx 32 0xfc51cd8e6218a1a38da47ed00230f0580816ed13ba3303ac5deb911548908025.
Definition rfc3_sig := hx 64 0x6291d657deec24024827e69c3abe01a30ce548a284743a445e3680d7db5ac3ac18ff9b538d16f290ae67f760984dc6594a7c15e9716ed28dc027beceea1ec40a.
Example rfc8032_test3 : verify_both rfc3_pk [n2b 0xaf; n2b 0x82] rfc3_sig = (true, true).
Proof. vm_compute. reflexivity. Qed.

(* ---- ZIP-215 small-order vector (a second one; Witness.v has the neutral-element one): A = 00..00 (the point (sqrt(-1), 0) of order 4),
   R = 00..00, S = 0, message "Zcash": valid under ZIP-215, rejected by the cofactorless
   byte-comparing check of Go's crypto/ed25519 *)
Definition zcash_v : list byte := map n2b [90; 99; 97; 115; 104]%N.
Definition zip_pk_v : list byte := zeros 32.
Definition zip_sig_v : list byte := zeros 64.
Example zip215_small_order_vector_order4 :
  verify_zip215 zip_pk_v zcash_v zip_sig_v = true /\ verify_go zip_pk_v zcash_v zip_sig_v = false
  /\ zip215_guard zip_pk_v zip_sig_v = true.
Proof. vm_compute. repeat split; reflexivity. Qed.

(* non-canonical encodings are accepted by the decoder: y = p + 1 (= 1, the neutral element) and
   "x = 0 with the sign bit set" *)
Example decode_noncanonical_identity :
  pt_decode (le_bytes 32 (Z.to_N (p25519 + 1))) = Some pt_zero
  /\ pt_decode (le_bytes 32 (Z.to_N (1 + 2 ^ 255))) = Some pt_zero
  /\ pt_decode (le_bytes 32 1%N) = Some pt_zero.
Proof. vm_compute. repeat split; reflexivity. Qed.
(* y = 2 is not the ordinate of a curve point *)
Example decode_off_curve : pt_decode (le_bytes 32 2%N) = None.
Proof. vm_compute. reflexivity. Qed.
(* the base point decodes from its standard encoding 5866..66 and has order L *)
Example decode_base_point :
  pt_decode (hx 32 0x5866666666666666666666666666666666666666666666666666666666666666) = Some ed_B.
Proof. vm_compute. reflexivity. Qed.
Example base_point_order : pt_is_zero (smul ed_L ed_B) = true /\ pt_is_zero (smul (ed_L - 1) ed_B) = false.
Proof. vm_compute. split; reflexivity. Qed.

(* ---- secp256k1: key d = 0102..20, message Keccak-256("C29 vector"), signature produced by
   libsecp256k1 (go-ethereum crypto.Sign) *)
Definition k_pkc := hx 33 0x0284bf7562262bbd6940085748f3be6afa52ae317155181ece31b66351ccffa4b0.
Definition k_pku := hx 65 0x0484bf7562262bbd6940085748f3be6afa52ae317155181ece31b66351ccffa4b08cc43d63b2859d469fee15f31c9edb5324266e6fd0407e87382d60fc4511acd8.
Definition k_msg := hx 32 0xc75e856fd74c709fc44bcf6e8df749cb8811baac9a1682ae86b595b6f86ba154.
Definition k_r := hx 32 0x8e8b992006a4a152256552b3d5023092ed1c354b111a334a8e47d7859022a15c.
Definition k_s := hx 32 0x39d1af1ff8d37564194f7bd14e688c013d096807d2264852cfd149803a216cbe.
Definition k_high_s := hx 32 0xc62e50e0072c8a9be6b0842eb19773fd7da574dedd2257e8f001150c9614d483.

Example secp_verify_vector :
  ecdsa_verify k_pkc k_msg (k_r ++ k_s) = true /\ ecdsa_verify k_pku k_msg (k_r ++ k_s) = true.
Proof. vm_compute. split; reflexivity. Qed.
(* the high-S twin (r, n - s) is rejected by verification ... *)
Example secp_high_s_rejected : ecdsa_verify k_pkc k_msg (k_r ++ k_high_s) = false.
Proof. vm_compute. reflexivity. Qed.
(* ... but recovery has no low-S rule: both forms recover the signer's key (with the recovery id
   flipped), with and without the offset 27 *)
Example secp_recover_vector :
  recover_public_key k_msg (k_r ++ k_s ++ [n2b 0]) = RKey k_pku
  /\ recover_public_key k_msg (k_r ++ k_s ++ [n2b 27]) = RKey k_pku
  /\ recover_public_key_compressed k_msg (k_r ++ k_s ++ [n2b 0]) = RKey k_pkc
  /\ recover_public_key k_msg (k_r ++ k_high_s ++ [n2b 1]) = RKey k_pku.
Proof. vm_compute. repeat split; reflexivity. Qed.
Example secp_recover_bad_id :
  recover_public_key k_msg (k_r ++ k_s ++ [n2b 4]) = RErr
  /\ recover_public_key k_msg (k_r ++ k_s ++ [n2b 31]) = RErr
  /\ recover_public_key k_msg (k_r ++ k_s) = RErr
  /\ recover_public_key_prefix k_msg (k_r ++ k_s) = RPanic.
Proof. vm_compute. repeat split; reflexivity. Qed.
(* the generator has order n *)
Example secp_generator_order :
  j_is_inf (j_smul secp_n secp_G) = true /\ j_is_inf (j_smul (secp_n - 1) secp_G) = false.
Proof. vm_compute. split; reflexivity. Qed.

(* ---- host functions: key 028490e0.., message 929dc55c, signature by libsecp256k1 over
   blake2_256(message) with recovery id 0 *)
Definition w_pk := hx 33 0x028490e0f742ac82511266048c874b9b77d1e059f54100741ca56829f1c672cdab.
Definition w_msg := hx 4 0x929dc55c.
Definition w_r := hx 32 0x563c4af23b30f92d27ce9121119e1b09e6d3bf547cda6c22b12f4ea92e0b2479.
Definition w_s := hx 32 0x137f0916974af73a530a3f1e25f991e8a826c9a58114601a50abccf1add0c539.
Definition w_high_s := hx 32 0xec80f6e968b508c5acf5c0e1da066e16128813412e3440216f26919b22657c08.
(* the honest signature: both accept *)
Example host_ecdsa_honest :
  host_ecdsa_verify w_pk w_msg (w_r ++ w_s ++ [n2b 0]) = true
  /\ substrate_ecdsa_verify w_pk w_msg (w_r ++ w_s ++ [n2b 0]) = true.
Proof. vm_compute. split; reflexivity. Qed.
(* wrong recovery id: Substrate rejects, gossamer accepts *)
Example host_ecdsa_wrong_id :
  host_ecdsa_verify w_pk w_msg (w_r ++ w_s ++ [n2b 1]) = true
  /\ substrate_ecdsa_verify w_pk w_msg (w_r ++ w_s ++ [n2b 1]) = false
  /\ host_ecdsa_guard w_pk w_msg (w_r ++ w_s ++ [n2b 1]) = true.
Proof. vm_compute. repeat split; reflexivity. Qed.
(* high-S twin with the matching id: Substrate accepts, gossamer rejects *)
Example host_ecdsa_high_s :
  host_ecdsa_verify w_pk w_msg (w_r ++ w_high_s ++ [n2b 1]) = false
  /\ substrate_ecdsa_verify w_pk w_msg (w_r ++ w_high_s ++ [n2b 1]) = true
  /\ host_ecdsa_guard w_pk w_msg (w_r ++ w_high_s ++ [n2b 1]) = true.
Proof. vm_compute. repeat split; reflexivity. Qed.

(* ---- the simultaneous scalar multiplication agrees with the sum of two plain ones (compared
   through the canonical encoding) on sample scalars *)
Example double_smul_sample :
  pt_encode (double_smul 5 ed_B 7 ed_B) = pt_encode (smul 12 ed_B)
  /\ pt_encode (double_smul (ed_L - 3) ed_B 123456789123456789 (pt_neg ed_B))
     = pt_encode (pt_add (smul (ed_L - 3) ed_B) (smul 123456789123456789 (pt_neg ed_B))).
Proof. vm_compute. split; reflexivity. Qed.
Example j_double_smul_sample :
  j_affine (j_double_smul 5 secp_G 7 secp_G) = j_affine (j_smul 12 secp_G)
  /\ j_affine (j_double_smul (secp_n - 3) secp_G 987654321987654321 (j_neg secp_G))
     = j_affine (j_add (j_smul (secp_n - 3) secp_G) (j_smul 987654321987654321 (j_neg secp_G))).
Proof. vm_compute. split; reflexivity. Qed.
