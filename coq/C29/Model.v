(* C29/Model.v — the hashing helpers of lib/common/hasher.go as compositions of the reference
   hash functions (definitions only).  Each Go helper feeds the whole input to one library
   hasher and returns its digest, so its model is the reference function itself:
     Blake2b128 / Blake2b8 / Blake2bHash  = BLAKE2b (RFC 7693) with nn = 16 / 8 / 32, no key
     Keccak256                            = Keccak[r=1088,c=512] with the legacy 0x01 padding
     Twox64 / Twox128Hash / Twox256       = little-endian XXH64 with seeds 0 / 0,1 / 0,1,2,3
     Sha256                               = SHA-256 (FIPS 180-4)
   The ext_hashing_* host functions of lib/runtime/wazero/imports.go read the input span, call
   the same helper and write the digest back; they have the same model. *)
From Common Require Import Bytes.
From Common Require Blake2b.
From Hash Require XXHash Keccak Sha2.
Local Open Scope N_scope.

Definition le64 (x : N) : list byte := le_bytes 8 x.

Definition blake2b128 (m : list byte) : list byte := Blake2b.blake2b 16 m.
Definition blake2b8 (m : list byte) : list byte := Blake2b.blake2b 8 m.
Definition blake2b_hash (m : list byte) : list byte := Blake2b.blake2b 32 m.
Definition keccak_256 (m : list byte) : list byte := Keccak.keccak256 m.
Definition twox64 (m : list byte) : list byte := le64 (XXHash.xxh64 0 m).
Definition twox128 (m : list byte) : list byte := le64 (XXHash.xxh64 0 m) ++ le64 (XXHash.xxh64 1 m).
Definition twox256 (m : list byte) : list byte :=
  le64 (XXHash.xxh64 0 m) ++ le64 (XXHash.xxh64 1 m) ++ le64 (XXHash.xxh64 2 m) ++ le64 (XXHash.xxh64 3 m).
Definition sha2_256 (m : list byte) : list byte := Sha2.sha256 m.

(* all eight digests of one message, in the order the harness prints them *)
Definition all_digests (m : list byte) : list (list byte) :=
  [ blake2b128 m; blake2b_hash m; blake2b8 m; twox64 m; twox128 m; twox256 m; keccak_256 m; sha2_256 m ].
