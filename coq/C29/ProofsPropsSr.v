(* C29/ProofsPropsSr.v — the composite sr25519 / recovery-version statements of Properties.v. *)
From Coq Require Import Lia.
From Common Require Import Bytes.
From Hash Require Import Strobe.
From C29 Require Import Model ModelField ModelEd25519 ModelSecp256k1 ModelHost ModelSr25519
  ProofsSr25519 WitnessSr25519 ProofsHostRecover.
Local Open Scope Z_scope.

Lemma sr25519_agrees_all : forall pk sig msg : list byte,
  accepts (sr25519_verify_signature pk sig msg) = sr25519_verify_ref pk msg sig
  /\ accepts (sr25519_verify_deprecated pk sig msg) = sr25519_verify_deprecated_ref pk msg sig
  /\ host_sr25519_verify_v2 pk msg sig = sr25519_verify_ref pk msg sig
  /\ host_sr25519_verify_v1 pk msg sig = sr25519_verify_deprecated_ref pk msg sig.
Proof.
  intros pk sig msg.
  exact (conj (sr25519_verify_agrees pk sig msg) (conj (sr25519_verify_deprecated_agrees pk sig msg)
        (conj (host_sr25519_v2_agrees pk msg sig) (host_sr25519_v1_agrees pk msg sig)))).
Qed.

Lemma sr25519_rules_all : forall pk msg sig : list byte,
  (sr25519_verify_ref pk msg sig = true ->
     length pk = 32%nat /\ length sig = 64%nat /\ sr_marked sig = true /\ sr_scalar sig < ed_L
     /\ exists A, ristretto_decode pk = Some A
        /\ ristretto_encode (sr_rprime A (sr_challenge (signing_transcript msg) labels_current pk (firstn 32 sig))
                                         (sr_scalar sig)) = firstn 32 sig)
  /\ (sr25519_verify_deprecated_ref pk msg sig = true ->
     length pk = 32%nat /\ length sig = 64%nat /\ sr_scalar sig < ed_L /\ ristretto_decode pk <> None)
  /\ (sr_marked sig = true -> sr25519_verify_deprecated_ref pk msg sig = sr25519_verify_ref pk msg sig)
  /\ (sr_marked sig = false -> sr25519_verify_ref pk msg sig = false)
  /\ (sr25519_verify_ref pk msg sig = true -> sr25519_verify_deprecated_ref pk msg sig = true)
  /\ (sr25519_verify_signature pk sig msg = VErr <->
      (length pk <> 32%nat \/ ristretto_decode pk = None \/ length sig <> 64%nat
       \/ sr_marked sig = false \/ ed_L <= sr_scalar sig))
  /\ (forall P, ristretto_decode pk = Some P ->
      Z.of_N (le_val pk) < p25519 /\ Z.odd (Z.of_N (le_val pk)) = false).
Proof.
  intros pk msg sig.
  split; [exact (sr25519_verify_ref_accepts pk msg sig)|].
  split; [exact (sr25519_verify_deprecated_ref_accepts pk msg sig)|].
  split; [exact (sr25519_deprecated_marked pk msg sig)|].
  split; [exact (sr25519_unmarked_rejected pk msg sig)|].
  split; [exact (sr25519_verify_implies_deprecated pk msg sig)|].
  split; [exact (sr25519_verify_signature_err pk sig msg)|].
  intros P H. exact (proj2 (ristretto_decode_canonical pk P H)).
Qed.

Lemma sr25519_prefix_refuted_all :
  (* VerifyDeprecated as found rejects a schnorrkel 0.1.1 signature Substrate accepts *)
  (exists pk msg sig, sr25519_verify_deprecated_ref pk msg sig = true
                      /\ sr25519_verify_deprecated_prefix pk sig msg = VFail)
  (* Verify as found refuses the identity key *)
  /\ (exists pk msg sig, sr25519_verify_ref pk msg sig = true
                         /\ sr25519_verify_signature_prefix pk sig msg = VErr)
  (* version 1 of the host function as found accepts what Substrate rejects, and its answer does
     not depend on the message or the signature at all *)
  /\ (exists pk msg sig, sr25519_verify_deprecated_ref pk msg sig = false
                         /\ host_sr25519_verify_v1_prefix pk msg sig = true)
  /\ (forall pk msg sig msg' sig',
        host_sr25519_verify_v1_prefix pk msg sig = host_sr25519_verify_v1_prefix pk msg' sig')
  (* version 2 as found accepts a forged signature under the all-zero key *)
  /\ (exists pk msg sig, sr25519_verify_ref pk msg sig = false
                         /\ host_sr25519_verify_v2_prefix pk msg sig = true).
Proof.
  split; [exists old1_pk, old1_msg, old1_sig; exact (conj w1a w1c)|].
  split; [exists zero_pk, crust_msg, zero_sig; exact (conj w3a w3b)|].
  split; [exists zero_pk, crust_msg, forged_zero_sig_unmarked; exact (conj w4b w4a)|].
  split; [exact host_v1_prefix_ignores_signature|].
  exists zero_pk, crust_msg, forged_zero_sig; exact (conj w5b w5a).
Qed.

Lemma sr25519_nonvacuous_all :
  (exists pk msg sig, sr25519_verify_ref pk msg sig = true /\ sr25519_verify_signature pk sig msg = VOk)
  /\ (exists pk msg sig, sr_marked sig = false /\ sr25519_verify_deprecated_ref pk msg sig = true).
Proof.
  split.
  - exists zero_pk, crust_msg, zero_sig. split; [exact w3a|].
    pose proof (sr25519_verify_agrees zero_pk zero_sig crust_msg) as A. rewrite w3a in A.
    destruct (sr25519_verify_signature zero_pk zero_sig crust_msg); try discriminate A. reflexivity.
  - exists old1_pk, old1_msg, old1_sig. exact (conj w1d w1a).
Qed.

Lemma merlin_fuel_all :
  (forall fuel s d, wf s -> (length d < fuel)%nat -> absorb fuel s d = absorb (S (length d)) s d)
  /\ (forall s d, wf s -> wf (meta_ad s d) /\ wf (ad s d))
  /\ (forall fuel s n acc, wf s -> wf (snd (squeeze fuel s n acc)))
  /\ (forall label, wf (transcript_new label))
  /\ (forall msg, wf (signing_transcript msg) /\ wf (preaudit_transcript msg))
  /\ (forall s, length (f1600_bytes s) = 200%nat).
Proof.
  split; [exact absorb_consumes|].
  split; [intros s d W; exact (conj (meta_ad_wf s d W) (ad_wf s d W))|].
  split; [exact squeeze_wf|].
  split; [exact transcript_new_wf|].
  split; [intro msg; exact (conj (signing_transcript_wf msg) (preaudit_transcript_wf msg))|].
  exact f1600_bytes_length.
Qed.

Lemma host_recover_versions_all :
  (forall msg sig : list byte,
     host_recover msg sig = option_map key_xy (substrate_recover_v2 msg sig)
     /\ host_recover_compressed msg sig = option_map serialize_compressed (substrate_recover_v2 msg sig)
     /\ (host_recover_v1_guard sig = false -> substrate_recover_v1 msg sig = substrate_recover_v2 msg sig)
     /\ (forall q, substrate_recover_v2 msg sig = Some q -> substrate_recover_v1 msg sig = Some q)
     /\ (host_recover_mutates sig = true <-> (27 <= b2n (nth 64 sig Byte.x00))%N))
  /\ (exists msg sig q, host_recover_v1_guard sig = true /\ substrate_recover_v1 msg sig = Some q
                        /\ substrate_recover_v2 msg sig = None /\ host_recover_compressed msg sig = None).
Proof.
  split.
  - intros msg sig.
    split; [exact (proj1 (host_recover_is_v2 msg sig))|].
    split; [exact (proj2 (host_recover_is_v2 msg sig))|].
    split; [exact (recover_v1_eq_v2 msg sig)|].
    split; [exact (recover_v2_implies_v1 msg sig)|].
    exact (host_recover_mutates_spec sig).
  - pose proof v1w_v1 as V1.
    destruct (substrate_recover_v1 v1w_msg v1w_sig) as [q|] eqn:E1; [|discriminate V1].
    exists v1w_msg, v1w_sig, q.
    split; [exact v1w_guard|]. split; [exact E1|]. split; [exact v1w_v2|].
    rewrite (proj2 (host_recover_is_v2 v1w_msg v1w_sig)), v1w_v2. reflexivity.
Qed.
