(* C29/ProofsProps.v — the composite statements of Properties.v assembled from the lemmas of
   Proofs.v, ProofsSig.v, Hash/ProofsHash.v and the evaluated vectors of Vectors.v. *)
From Common Require Import Bytes.
From Common Require Blake2b.
From Hash Require XXHash Keccak Sha2 ProofsHash.
From C29 Require Import Model ModelField ModelEd25519 ModelSecp256k1 ModelHost Proofs ProofsSig ProofsHost Witness.
Local Open Scope Z_scope.

Lemma blake2b128_all :
  (forall m, blake2b128 m = Blake2b.blake2b 16 m)
  /\ exists m, blake2b128 m <> firstn 16 (blake2b_hash m).
Proof. exact (conj blake2b128_is_blake2b_16 blake2b128_not_truncation). Qed.

Lemma padding_all : forall (ds : N) (m : list byte),
  (length (Keccak.pad ds m) = 136 * (length m / 136 + 1))%nat
  /\ (length m < length (Keccak.pad ds m) <= length m + 136)%nat
  /\ firstn (length m) (Keccak.pad ds m) = m
  /\ (length (Sha2.pad Sha2.sha256_params m) mod 64 = 0)%nat
  /\ (length (Sha2.pad Sha2.sha256_params m) < length m + 9 + 64)%nat
  /\ firstn (length m) (Sha2.pad Sha2.sha256_params m) = m
  /\ (length (Sha2.pad Sha2.sha512_params m) mod 128 = 0)%nat.
Proof.
  intros ds m.
  exact (conj (ProofsHash.pad_length ds m) (conj (ProofsHash.pad_longer ds m)
        (conj (ProofsHash.pad_prefix ds m) (conj (ProofsHash.sha256_pad_mod m)
        (conj (ProofsHash.sha256_pad_minimal m) (conj (ProofsHash.sha_pad_prefix Sha2.sha256_params m)
        (ProofsHash.sha512_pad_mod m))))))).
Qed.

Lemma field_arithmetic_all : forall a b : Z,
  fe_mul a b = (a * b) mod p25519 /\ fe_add a b = (a + b) mod p25519
  /\ fe_sub a b = (a - b) mod p25519 /\ fe_inv a = (a ^ (p25519 - 2)) mod p25519
  /\ fp_mul a b = (a * b) mod secp_p /\ fp_add a b = (a + b) mod secp_p
  /\ fp_sub a b = (a - b) mod secp_p /\ fp_inv a = (a ^ (secp_p - 2)) mod secp_p
  /\ sc_mul a b = (a * b) mod secp_n /\ sc_inv a = (a ^ (secp_n - 2)) mod secp_n.
Proof.
  intros a b.
  exact (conj (fe_mul_correct a b) (conj (fe_add_correct a b) (conj (fe_sub_correct a b)
        (conj (fe_inv_correct a) (conj (fp_mul_correct a b) (conj (fp_add_correct a b)
        (conj (fp_sub_correct a b) (conj (fp_inv_correct a) (conj (sc_mul_correct a b) (sc_inv_correct a)))))))))).
Qed.
Lemma moduli_all :
  p25519 = 2 ^ 255 - 19 /\ secp_p = 2 ^ 256 - 2 ^ 32 - 977
  /\ secp_n = 0xFFFFFFFFFFFFFFFFFFFFFFFFFFFFFFFEBAAEDCE6AF48A03BBFD25E8CD0364141
  /\ ed_L = 2 ^ 252 + 27742317777372353535851937790883648493 /\ secp_half_n = secp_n / 2.
Proof. repeat split; reflexivity. Qed.

Lemma ed25519_rejection_rules_all : forall pk msg sig : list byte,
  (verify_zip215 pk msg sig = true ->
     length pk = 32%nat /\ length sig = 64%nat /\ Z.of_N (le_val (skipn 32 sig)) < ed_L
     /\ pt_decode pk <> None /\ pt_decode (firstn 32 sig) <> None)
  /\ (verify_go pk msg sig = true ->
     length pk = 32%nat /\ length sig = 64%nat /\ Z.of_N (le_val (skipn 32 sig)) < ed_L
     /\ pt_decode pk <> None)
  /\ (ed25519_verify_signature pk sig msg = VErr <-> (length pk <> 32%nat \/ length sig <> 64%nat))
  /\ (ed25519_verify_signature pk sig msg = VOk <-> verify_go pk msg sig = true)
  /\ ed25519_case pk sig msg = (ed25519_verify_signature pk sig msg, verify_zip215 pk msg sig).
Proof.
  intros pk msg sig.
  exact (conj (verify_zip215_accepts pk msg sig) (conj (verify_go_accepts pk msg sig)
        (conj (ed25519_verify_signature_err pk sig msg) (conj (ed25519_verify_signature_ok pk sig msg)
        (ed25519_case_spec pk sig msg))))).
Qed.

Lemma ed25519_zip215_refuted_all : exists pk msg sig,
  verify_zip215 pk msg sig = true /\ ed25519_verify_signature pk sig msg = VFail
  /\ zip215_guard pk sig = true.
Proof.
  exists zip_pk, zcash, zip_sig.
  destruct zip215_small_order_vector as (Hz & Hg & Hguard).
  split; [exact Hz|]. split; [|exact Hguard].
  unfold ed25519_verify_signature, gossamer_verify_signature. rewrite Hg. reflexivity.
Qed.

Lemma secp256k1_verify_rules_all : forall pk msg sig : list byte,
  secp256k1_verify_signature pk sig msg = true ->
  length msg = 32%nat /\ length sig = 64%nat
  /\ 1 <= be_z (firstn 32 sig) < secp_n
  /\ 1 <= be_z (skipn 32 sig) <= secp_half_n
  /\ parse_pubkey pk <> None /\ (length pk = 33%nat \/ length pk = 65%nat).
Proof.
  intros pk msg sig H. unfold secp256k1_verify_signature in H.
  destruct (ecdsa_verify_accepts pk msg sig H) as (A & B & C & D & E).
  split; [exact A|]. split; [exact B|]. split; [exact C|]. split; [exact D|]. split; [exact E|].
  destruct (parse_pubkey pk) as [q|] eqn:P; [|congruence].
  exact (parse_pubkey_shape pk q P).
Qed.

Lemma secp256k1_recover_total_all : forall msg sig : list byte,
  match recover_public_key msg sig with
  | RKey k => exists q, ecrecover msg sig = Some q /\ k = serialize_uncompressed q /\ length k = 65%nat
  | RErr => ecrecover msg sig = None
  | RPanic => False
  end
  /\ match recover_public_key_compressed msg sig with
  | RKey k => exists q, ecrecover msg sig = Some q /\ k = serialize_compressed q /\ length k = 33%nat
  | RErr => ecrecover msg sig = None
  | RPanic => False
  end
  /\ (forall q, ecrecover msg sig = Some q ->
      length msg = 32%nat /\ length sig = 65%nat
      /\ (let v := b2n (nth 64 sig Byte.x00) in (v < 4 \/ 27 <= v < 31)%N)
      /\ 1 <= be_z (firstn 32 sig) < secp_n
      /\ 1 <= be_z (firstn 32 (skipn 32 sig)) < secp_n).
Proof.
  intros msg sig.
  exact (conj (recover_public_key_total msg sig) (conj (recover_public_key_compressed_total msg sig)
        (ecrecover_accepts msg sig))).
Qed.

Lemma secp256k1_recover_prefix_refuted_all :
  (exists msg sig, recover_public_key_prefix msg sig = RPanic)
  /\ (forall msg sig, recover_public_key_prefix msg sig = RPanic <-> (length sig < 65)%nat)
  /\ (forall msg sig, (65 <= length sig)%nat ->
        recover_public_key_prefix msg sig = recover_public_key msg sig
        /\ recover_public_key_compressed_prefix msg sig = recover_public_key_compressed msg sig).
Proof. exact (conj recover_prefix_refuted (conj recover_prefix_panics recover_prefix_agrees)). Qed.

Lemma nonvacuous_all :
  (exists pk msg sig, verify_zip215 pk msg sig = true)
  /\ (exists pk msg sig, secp256k1_verify_signature pk sig msg = true)
  /\ (exists pk msg sig, host_ecdsa_verify pk msg sig = true).
Proof.
  split; [|split].
  - exists zip_pk, zcash, zip_sig. exact (proj1 zip215_small_order_vector).
  - exact ecdsa_verify_inhabited.
  - exists w_pk, w_msg, w_sig4. exact (proj1 host_ecdsa_witness).
Qed.

Lemma host_functions_all : forall pk msg sig : list byte,
  host_ed25519_case pk msg sig = (host_ed25519_verify pk msg sig, verify_zip215 pk msg sig)
  /\ (host_ecdsa_verify pk msg sig = true ->
       1 <= be_z (firstn 32 (firstn 64 sig)) < secp_n
       /\ 1 <= be_z (skipn 32 (firstn 64 sig)) <= secp_half_n /\ parse_pubkey pk <> None)
  /\ (substrate_ecdsa_verify pk msg sig = true ->
       length pk = 33%nat /\ length sig = 65%nat /\ (b2n (nth 64 sig Byte.x00) < 4)%N
       /\ 1 <= be_z (firstn 32 sig) < secp_n /\ 1 <= be_z (firstn 32 (skipn 32 sig)) < secp_n)
  /\ (host_ecdsa_verify pk msg sig = true -> substrate_ecdsa_verify pk msg sig = false ->
       host_ecdsa_guard pk msg sig = true)
  /\ (forall k, host_recover msg sig = Some k -> length k = 64%nat)
  /\ (forall k, host_recover_compressed msg sig = Some k -> length k = 33%nat).
Proof.
  intros pk msg sig.
  exact (conj (host_ed25519_case_spec pk msg sig) (conj (host_ecdsa_verify_rules pk msg sig)
        (conj (substrate_ecdsa_verify_rules pk msg sig) (conj (host_ecdsa_guard_covers pk msg sig)
        (conj (host_recover_length msg sig) (host_recover_compressed_length msg sig)))))).
Qed.

Lemma host_ecdsa_refuted_all :
  (exists pk msg sig65, host_ecdsa_verify pk msg sig65 = true /\ substrate_ecdsa_verify pk msg sig65 = false
                        /\ host_ecdsa_guard pk msg sig65 = true)
  /\ (forall pk msg rs v1 v2, length rs = 64%nat ->
        host_ecdsa_verify pk msg (rs ++ [v1]) = host_ecdsa_verify pk msg (rs ++ [v2])).
Proof. exact (conj host_ecdsa_refuted host_ecdsa_ignores_recovery_id). Qed.
