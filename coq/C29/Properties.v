(* C29/Properties.v — property C29: hashing and signature primitives agree with reference
   implementations.  The property is differential: the references are written in Gallina from the
   specifications (Common/Blake2b, Hash/XXHash, Hash/Keccak, Hash/Sha2, C29/ModelEd25519,
   C29/ModelSecp256k1, validated by the published test vectors in those files and in
   C29/Vectors.v -- compiled with the library but not imported here, so that coqchk of this file
   stays cheap) and compared with the Go code on every run.  What is proved here, for all
   inputs, are the structural facts the comparison relies on.  Only statements, each closed by
   `exact <lemma>`, with Print Assumptions beneath. *)
From Common Require Import Bytes.
From Common Require Blake2b.
From Hash Require XXHash Keccak Sha2 ProofsHash.
From Hash Require Import Strobe.
From C29 Require Import Model ModelField ModelEd25519 ModelSecp256k1 ModelHost ModelSr25519
  Proofs ProofsSig ProofsProps ProofsSr25519 ProofsPropsSr ProofsGen.
From C29 Require Gen.
Local Open Scope Z_scope.

(* every helper returns a digest of its advertised size, for every input *)
Theorem C29_digest_lengths : forall m : list byte,
  length (blake2b128 m) = 16%nat /\ length (blake2b_hash m) = 32%nat /\ length (blake2b8 m) = 8%nat
  /\ length (twox64 m) = 8%nat /\ length (twox128 m) = 16%nat /\ length (twox256 m) = 32%nat
  /\ length (keccak_256 m) = 32%nat /\ length (sha2_256 m) = 32%nat.
Proof. exact digest_lengths. Qed.
Print Assumptions C29_digest_lengths.

(* twox128 m = le64 (xxh64 0 m) ++ le64 (xxh64 1 m), twox256 likewise with seeds 0..3; the shorter
   digests are prefixes of the longer ones and decode back to the 64-bit hash values *)
Theorem C29_twox_composition : forall m : list byte,
  twox64 m = le_bytes 8 (XXHash.xxh64 0 m)
  /\ twox128 m = le_bytes 8 (XXHash.xxh64 0 m) ++ le_bytes 8 (XXHash.xxh64 1 m)
  /\ twox256 m = le_bytes 8 (XXHash.xxh64 0 m) ++ le_bytes 8 (XXHash.xxh64 1 m)
                 ++ le_bytes 8 (XXHash.xxh64 2 m) ++ le_bytes 8 (XXHash.xxh64 3 m)
  /\ firstn 8 (twox128 m) = twox64 m
  /\ firstn 16 (twox256 m) = twox128 m
  /\ le_val (twox64 m) = XXHash.xxh64 0 m
  /\ le_val (firstn 8 (skipn 8 (twox128 m))) = XXHash.xxh64 1 m.
Proof. exact twox_composition. Qed.
Print Assumptions C29_twox_composition.

(* BLAKE2b-128 is BLAKE2b with nn = 16, and that is not a truncation of BLAKE2b-256 *)
Theorem C29_blake2b128_not_truncation :
  (forall m, blake2b128 m = Blake2b.blake2b 16 m)
  /\ exists m, blake2b128 m <> firstn 16 (blake2b_hash m).
Proof. exact blake2b128_all. Qed.
Print Assumptions C29_blake2b128_not_truncation.

(* padding: Keccak pad10*1 (1..136 bytes appended, whole blocks, the message is a prefix) and the
   SHA-2 padding (whole blocks, the message is a prefix, less than one extra block) *)
Theorem C29_padding : forall (ds : N) (m : list byte),
  (length (Keccak.pad ds m) = 136 * (length m / 136 + 1))%nat
  /\ (length m < length (Keccak.pad ds m) <= length m + 136)%nat
  /\ firstn (length m) (Keccak.pad ds m) = m
  /\ (length (Sha2.pad Sha2.sha256_params m) mod 64 = 0)%nat
  /\ (length (Sha2.pad Sha2.sha256_params m) < length m + 9 + 64)%nat
  /\ firstn (length m) (Sha2.pad Sha2.sha256_params m) = m
  /\ (length (Sha2.pad Sha2.sha512_params m) mod 128 = 0)%nat.
Proof. exact padding_all. Qed.
Print Assumptions C29_padding.

(* the arithmetic of the signature references is the arithmetic of GF(2^255-19), GF(p_secp) and
   Z/n: the folding reductions equal Z.modulo for every integer argument (and the moduli are the
   standard ones) *)
Theorem C29_field_arithmetic : forall a b : Z,
  fe_mul a b = (a * b) mod p25519 /\ fe_add a b = (a + b) mod p25519
  /\ fe_sub a b = (a - b) mod p25519 /\ fe_inv a = (a ^ (p25519 - 2)) mod p25519
  /\ fp_mul a b = (a * b) mod secp_p /\ fp_add a b = (a + b) mod secp_p
  /\ fp_sub a b = (a - b) mod secp_p /\ fp_inv a = (a ^ (secp_p - 2)) mod secp_p
  /\ sc_mul a b = (a * b) mod secp_n /\ sc_inv a = (a ^ (secp_n - 2)) mod secp_n.
Proof. exact field_arithmetic_all. Qed.
Print Assumptions C29_field_arithmetic.
Theorem C29_moduli :
  p25519 = 2 ^ 255 - 19 /\ secp_p = 2 ^ 256 - 2 ^ 32 - 977
  /\ secp_n = 0xFFFFFFFFFFFFFFFFFFFFFFFFFFFFFFFEBAAEDCE6AF48A03BBFD25E8CD0364141
  /\ ed_L = 2 ^ 252 + 27742317777372353535851937790883648493 /\ secp_half_n = secp_n / 2.
Proof. exact moduli_all. Qed.
Print Assumptions C29_moduli.

(* Ed25519 rejection rules, for all inputs: under the ZIP-215 reference and under Go's rules alike
   an accepted signature has a 32-byte key, 64 bytes, a canonical scalar S < L and decodable
   points; gossamer's VerifySignature reports an error exactly for wrong lengths and accepts
   exactly when Go's check accepts (a total function: no panic); the per-case evaluation of the
   driver is the pair (gossamer verdict, reference verdict) *)
Theorem C29_ed25519_rejection_rules : forall pk msg sig : list byte,
  (verify_zip215 pk msg sig = true ->
     length pk = 32%nat /\ length sig = 64%nat /\ Z.of_N (le_val (skipn 32 sig)) < ed_L
     /\ pt_decode pk <> None /\ pt_decode (firstn 32 sig) <> None)
  /\ (verify_go pk msg sig = true ->
     length pk = 32%nat /\ length sig = 64%nat /\ Z.of_N (le_val (skipn 32 sig)) < ed_L
     /\ pt_decode pk <> None)
  /\ (ed25519_verify_signature pk sig msg = VErr <-> (length pk <> 32%nat \/ length sig <> 64%nat))
  /\ (ed25519_verify_signature pk sig msg = VOk <-> verify_go pk msg sig = true)
  /\ ed25519_case pk sig msg = (ed25519_verify_signature pk sig msg, verify_zip215 pk msg sig).
Proof. exact ed25519_rejection_rules_all. Qed.
Print Assumptions C29_ed25519_rejection_rules.

(* ZIP-215 point decoding accepts non-canonical field elements: the decoded point depends only on
   the sign bit and on the low 255 bits modulo p *)
Theorem C29_ed25519_noncanonical_y : forall b1 b2 : list byte,
  length b1 = 32%nat -> length b2 = 32%nat ->
  Z.shiftr (Z.of_N (le_val b1)) 255 = Z.shiftr (Z.of_N (le_val b2)) 255 ->
  Z.land (Z.of_N (le_val b1)) mask255 mod p25519 = Z.land (Z.of_N (le_val b2)) mask255 mod p25519 ->
  pt_decode b1 = pt_decode b2.
Proof. exact pt_decode_congr. Qed.
Print Assumptions C29_ed25519_noncanonical_y.

(* gossamer's ed25519 verifier is not the ZIP-215 verifier: the published small-order vector
   A = 0, R = 0, S = 0, "Zcash" is valid under ZIP-215 and rejected by the rules gossamer applies;
   it lies inside the finding guard (known finding ed25519-not-zip215) *)
Theorem C29_ed25519_zip215_refuted : exists pk msg sig,
  verify_zip215 pk msg sig = true /\ ed25519_verify_signature pk sig msg = VFail
  /\ zip215_guard pk sig = true.
Proof. exact ed25519_zip215_refuted_all. Qed.
Print Assumptions C29_ed25519_zip215_refuted.

(* secp256k1 ECDSA verification rules, for all inputs: 32-byte message, 64-byte signature, r in
   [1, n-1], s in [1, n/2] (high-S signatures are rejected), a well-formed public key of 33 or 65
   bytes *)
Theorem C29_secp256k1_verify_rules : forall pk msg sig : list byte,
  secp256k1_verify_signature pk sig msg = true ->
  length msg = 32%nat /\ length sig = 64%nat
  /\ 1 <= be_z (firstn 32 sig) < secp_n
  /\ 1 <= be_z (skipn 32 sig) <= secp_half_n
  /\ parse_pubkey pk <> None /\ (length pk = 33%nat \/ length pk = 65%nat).
Proof. exact secp256k1_verify_rules_all. Qed.
Print Assumptions C29_secp256k1_verify_rules.

(* secp256k1 recovery with the length check (the repaired code): never panics; returns a key
   exactly when the reference recovers one, of 65 (33) bytes; a recovered key requires a 32-byte
   message, a 65-byte signature, recovery id 0..3 (or 27..30), r and s in [1, n-1] *)
Theorem C29_secp256k1_recover_total : forall msg sig : list byte,
  match recover_public_key msg sig with
  | RKey k => exists q, ecrecover msg sig = Some q /\ k = serialize_uncompressed q /\ length k = 65%nat
  | RErr => ecrecover msg sig = None
  | RPanic => False
  end
  /\ match recover_public_key_compressed msg sig with
  | RKey k => exists q, ecrecover msg sig = Some q /\ k = serialize_compressed q /\ length k = 33%nat
  | RErr => ecrecover msg sig = None
  | RPanic => False
  end
  /\ (forall q, ecrecover msg sig = Some q ->
      length msg = 32%nat /\ length sig = 65%nat
      /\ (let v := b2n (nth 64 sig Byte.x00) in (v < 4 \/ 27 <= v < 31)%N)
      /\ 1 <= be_z (firstn 32 sig) < secp_n
      /\ 1 <= be_z (firstn 32 (skipn 32 sig)) < secp_n).
Proof. exact secp256k1_recover_total_all. Qed.
Print Assumptions C29_secp256k1_recover_total.

(* RecoverPublicKey before the fix read sig[64] before checking the length: it panicked exactly on
   signatures shorter than 65 bytes and agreed with the repaired function on all others *)
Theorem C29_secp256k1_recover_prefix_refuted :
  (exists msg sig, recover_public_key_prefix msg sig = RPanic)
  /\ (forall msg sig, recover_public_key_prefix msg sig = RPanic <-> (length sig < 65)%nat)
  /\ (forall msg sig, (65 <= length sig)%nat ->
        recover_public_key_prefix msg sig = recover_public_key msg sig
        /\ recover_public_key_compressed_prefix msg sig = recover_public_key_compressed msg sig).
Proof. exact secp256k1_recover_prefix_refuted_all. Qed.
Print Assumptions C29_secp256k1_recover_prefix_refuted.

(* the crypto host functions of imports.go: the ed25519 function is the library verdict; gossamer's
   ecdsa_verify accepts only low-S signatures over blake2_256(msg) and a decodable key; Substrate's
   verdict needs recovery id 0..3 and r, s in [1, n-1]; every disagreement in which gossamer accepts
   lies in the finding guard; recovered keys have 64 / 33 bytes *)
Theorem C29_host_functions : forall pk msg sig : list byte,
  host_ed25519_case pk msg sig = (host_ed25519_verify pk msg sig, verify_zip215 pk msg sig)
  /\ (host_ecdsa_verify pk msg sig = true ->
       1 <= be_z (firstn 32 (firstn 64 sig)) < secp_n
       /\ 1 <= be_z (skipn 32 (firstn 64 sig)) <= secp_half_n /\ parse_pubkey pk <> None)
  /\ (substrate_ecdsa_verify pk msg sig = true ->
       length pk = 33%nat /\ length sig = 65%nat /\ (b2n (nth 64 sig Byte.x00) < 4)%N
       /\ 1 <= be_z (firstn 32 sig) < secp_n /\ 1 <= be_z (firstn 32 (skipn 32 sig)) < secp_n)
  /\ (host_ecdsa_verify pk msg sig = true -> substrate_ecdsa_verify pk msg sig = false ->
       host_ecdsa_guard pk msg sig = true)
  /\ (forall k, host_recover msg sig = Some k -> length k = 64%nat)
  /\ (forall k, host_recover_compressed msg sig = Some k -> length k = 33%nat).
Proof. exact host_functions_all. Qed.
Print Assumptions C29_host_functions.

(* ext_crypto_ecdsa_verify_version_2 is not Substrate's ecdsa_verify: it ignores the recovery id
   byte altogether, so an honest signature followed by the invalid id 4 is accepted by gossamer and
   rejected by Substrate (known finding ecdsa-verify-drops-recovery-id; the high-S twin that
   Substrate accepts and gossamer rejects is evaluated in C29/Vectors.v) *)
Theorem C29_host_ecdsa_refuted :
  (exists pk msg sig65, host_ecdsa_verify pk msg sig65 = true /\ substrate_ecdsa_verify pk msg sig65 = false
                        /\ host_ecdsa_guard pk msg sig65 = true)
  /\ (forall pk msg rs v1 v2, length rs = 64%nat ->
        host_ecdsa_verify pk msg (rs ++ [v1]) = host_ecdsa_verify pk msg (rs ++ [v2])).
Proof. exact host_ecdsa_refuted_all. Qed.
Print Assumptions C29_host_ecdsa_refuted.

(* ---- sr25519.  The reference is Substrate's pair of verifiers written out in Gallina
   (ristretto255 RFC 9496, Merlin/STROBE-128 over the Keccak permutation, schnorrkel's transcripts;
   validated by the RFC vectors, the Merlin vectors, a signature made by the Rust schnorrkel and
   the two schnorrkel-0.1.1 vectors of sp_core's unit tests: Hash/Strobe.v, C29/VectorsSr25519.v).
   The model of gossamer is the repaired code (fixes/C29-sr25519-{1,2,3,4}-*.patch), which is a
   transliteration of schnorrkel's verification; so its agreement with the reference, for every
   input, is a statement about two definitions of the same shape -- what ties it to the Go code is
   the correspondence run. *)
Theorem C29_sr25519_agrees : forall pk sig msg : list byte,
  accepts (sr25519_verify_signature pk sig msg) = sr25519_verify_ref pk msg sig
  /\ accepts (sr25519_verify_deprecated pk sig msg) = sr25519_verify_deprecated_ref pk msg sig
  /\ host_sr25519_verify_v2 pk msg sig = sr25519_verify_ref pk msg sig
  /\ host_sr25519_verify_v1 pk msg sig = sr25519_verify_deprecated_ref pk msg sig.
Proof. exact sr25519_agrees_all. Qed.
Print Assumptions C29_sr25519_agrees.

(* sr25519 rejection rules of the reference, for all inputs: an accepted signature has a 32-byte
   key that is a ristretto255 encoding, 64 bytes, the schnorrkel marker bit, a canonical scalar,
   and its R half is the ristretto255 encoding of [s]B - [k]A; verify_deprecated needs no marker
   bit, coincides with verify on marked signatures and accepts whatever verify accepts; the
   repaired VerifySignature reports an error exactly for malformed input; a decodable key is a
   canonical, non-negative field element *)
Theorem C29_sr25519_rules : forall pk msg sig : list byte,
  (sr25519_verify_ref pk msg sig = true ->
     length pk = 32%nat /\ length sig = 64%nat /\ sr_marked sig = true /\ sr_scalar sig < ed_L
     /\ exists A, ristretto_decode pk = Some A
        /\ ristretto_encode (sr_rprime A (sr_challenge (signing_transcript msg) labels_current pk (firstn 32 sig))
                                         (sr_scalar sig)) = firstn 32 sig)
  /\ (sr25519_verify_deprecated_ref pk msg sig = true ->
     length pk = 32%nat /\ length sig = 64%nat /\ sr_scalar sig < ed_L /\ ristretto_decode pk <> None)
  /\ (sr_marked sig = true -> sr25519_verify_deprecated_ref pk msg sig = sr25519_verify_ref pk msg sig)
  /\ (sr_marked sig = false -> sr25519_verify_ref pk msg sig = false)
  /\ (sr25519_verify_ref pk msg sig = true -> sr25519_verify_deprecated_ref pk msg sig = true)
  /\ (sr25519_verify_signature pk sig msg = VErr <->
      (length pk <> 32%nat \/ ristretto_decode pk = None \/ length sig <> 64%nat
       \/ sr_marked sig = false \/ ed_L <= sr_scalar sig))
  /\ (forall P, ristretto_decode pk = Some P ->
      Z.of_N (le_val pk) < p25519 /\ Z.odd (Z.of_N (le_val pk)) = false).
Proof. exact sr25519_rules_all. Qed.
Print Assumptions C29_sr25519_rules.

(* the code as found violated the property (evaluated witnesses; the definitions ..._prefix model
   lib/crypto/sr25519 over go-schnorrkel v1.1.0 and the two host functions before the repair):
   VerifyDeprecated rejected the schnorrkel-0.1.1 vector of sp_core's unit test
   verify_from_old_wasm_works (that it also accepted a current-scheme signature without marker
   bit is evaluated in C29/VectorsSr25519.v, crust_unmarked_*, outside the closure of this file:
   coqchk re-evaluates every witness here without the VM); Verify refused the identity key; ext_crypto_sr25519_verify_version_1 accepted a forged signature
   -- its answer depended on the key alone; version 2 accepted a forged signature under the
   all-zero key *)
Theorem C29_sr25519_prefix_refuted :
  (exists pk msg sig, sr25519_verify_deprecated_ref pk msg sig = true
                      /\ sr25519_verify_deprecated_prefix pk sig msg = VFail)
  /\ (exists pk msg sig, sr25519_verify_ref pk msg sig = true
                         /\ sr25519_verify_signature_prefix pk sig msg = VErr)
  /\ (exists pk msg sig, sr25519_verify_deprecated_ref pk msg sig = false
                         /\ host_sr25519_verify_v1_prefix pk msg sig = true)
  /\ (forall pk msg sig msg' sig',
        host_sr25519_verify_v1_prefix pk msg sig = host_sr25519_verify_v1_prefix pk msg' sig')
  /\ (exists pk msg sig, sr25519_verify_ref pk msg sig = false
                         /\ host_sr25519_verify_v2_prefix pk msg sig = true).
Proof. exact sr25519_prefix_refuted_all. Qed.
Print Assumptions C29_sr25519_prefix_refuted.

(* Merlin / STROBE: the loops of the transcript model never end by running out of fuel (any
   fuel above the number of bytes gives the same state), the duplex position stays inside the
   rate through every operation and every transcript the verifiers build, the permutation
   returns 200 bytes *)
Theorem C29_merlin_wellformed :
  (forall fuel s d, wf s -> (length d < fuel)%nat -> absorb fuel s d = absorb (S (length d)) s d)
  /\ (forall s d, wf s -> wf (meta_ad s d) /\ wf (ad s d))
  /\ (forall fuel s n acc, wf s -> wf (snd (squeeze fuel s n acc)))
  /\ (forall label, wf (transcript_new label))
  /\ (forall msg, wf (signing_transcript msg) /\ wf (preaudit_transcript msg))
  /\ (forall s, length (f1600_bytes s) = 200%nat).
Proof. exact merlin_fuel_all. Qed.
Print Assumptions C29_merlin_wellformed.

(* the key-recovery host functions version by version: gossamer's two versions are one function,
   which is Substrate's version 2 (strict parsing); Substrate's version 1 reduces r and s modulo n
   instead: the two agree whenever r, s < n, version 1 recovers whatever version 2 recovers, and
   there is a signature with r >= n from which version 1 recovers a key while gossamer (both
   versions) reports an error -- known finding ecdsa-recover-v1-strict, guard
   host_recover_v1_guard.  RecoverPublicKey's in-place "sig[64] -= 27" reaches guest memory
   exactly for ids >= 27. *)
Theorem C29_host_recover_versions :
  (forall msg sig : list byte,
     host_recover msg sig = option_map key_xy (substrate_recover_v2 msg sig)
     /\ host_recover_compressed msg sig = option_map serialize_compressed (substrate_recover_v2 msg sig)
     /\ (host_recover_v1_guard sig = false -> substrate_recover_v1 msg sig = substrate_recover_v2 msg sig)
     /\ (forall q, substrate_recover_v2 msg sig = Some q -> substrate_recover_v1 msg sig = Some q)
     /\ (host_recover_mutates sig = true <-> (27 <= b2n (nth 64 sig Byte.x00))%N))
  /\ (exists msg sig q, host_recover_v1_guard sig = true /\ substrate_recover_v1 msg sig = Some q
                        /\ substrate_recover_v2 msg sig = None /\ host_recover_compressed msg sig = None).
Proof. exact host_recover_versions_all. Qed.
Print Assumptions C29_host_recover_versions.

(* the length constants of the Go packages (PublicKeyLength, SignatureLength,
   SignatureLengthRecovery, MessageLength; regenerated from the source into Gen.v on every run)
   are the lengths the verifiers' models insist on *)
Theorem C29_length_constants :
  (forall pk sig msg, ed25519_verify_signature pk sig msg = VErr <->
     (Z.of_nat (length pk) <> Gen.ed25519_public_key_length
      \/ Z.of_nat (length sig) <> Gen.ed25519_signature_length))
  /\ (forall pk msg sig, secp256k1_verify_signature pk sig msg = true ->
     Z.of_nat (length msg) = Gen.secp256k1_message_length
     /\ Z.of_nat (length sig) = Gen.secp256k1_signature_length)
  /\ (forall msg sig q, ecrecover msg sig = Some q ->
     Z.of_nat (length msg) = Gen.secp256k1_message_length
     /\ Z.of_nat (length sig) = Gen.secp256k1_signature_length_recovery)
  /\ (forall pk msg sig, sr25519_verify_deprecated_ref pk msg sig = true ->
     Z.of_nat (length pk) = Gen.sr25519_public_key_length
     /\ Z.of_nat (length sig) = Gen.sr25519_signature_length).
Proof. exact length_constants_all. Qed.
Print Assumptions C29_length_constants.

(* non-vacuity: the accepting branches of the rule theorems are inhabited (ZIP-215 small-order
   vector; an honest libsecp256k1 signature at the library and at the host level).  The RFC 8032
   vectors, recovery vectors and the high-S twin are evaluated in C29/Vectors.v. *)
Example C29_nonvacuous :
  (exists pk msg sig, verify_zip215 pk msg sig = true)
  /\ (exists pk msg sig, secp256k1_verify_signature pk sig msg = true)
  /\ (exists pk msg sig, host_ecdsa_verify pk msg sig = true).
Proof. exact nonvacuous_all. Qed.
(* the accepting branch of verify is inhabited (identity key, cheap to re-check; acceptance under
   an ordinary key: the sr25519-crust vector in C29/VectorsSr25519.v) and so is the pre-audit
   branch of verify_deprecated (sp_core's verify_from_old_wasm_works vector) *)
Example C29_sr25519_nonvacuous :
  (exists pk msg sig, sr25519_verify_ref pk msg sig = true /\ sr25519_verify_signature pk sig msg = VOk)
  /\ (exists pk msg sig, sr_marked sig = false /\ sr25519_verify_deprecated_ref pk msg sig = true).
Proof. exact sr25519_nonvacuous_all. Qed.
