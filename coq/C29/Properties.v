From Common Require Import Bytes.
From C29 Require Import Model.
