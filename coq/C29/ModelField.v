(* C29/ModelField.v — prime-field and scalar arithmetic on Z used by the signature references.
   All operations are total and reduce their result into [0, m); reductions modulo
   pseudo-Mersenne moduli m = 2^k - c use folding (hi * 2^k + lo = hi * c + lo mod m) and fall
   back to Z.modulo outside the range where folding terminates, so that
   [fred k c m mask x = x mod m] holds for every x whenever m = 2^k - c and mask = 2^k - 1
   (proved in ProofsField.v).  m and mask are passed in as precomputed constants. *)
From Coq Require Import ZArith List Bool.
Local Open Scope bool_scope.
Local Open Scope Z_scope.

Section Field.
  Variables (k c m mask : Z).

  (* one folding step; value-preserving modulo m for every x (land/shiftr are floor operations) *)
  Definition pm_fold (x : Z) : Z := Z.land x mask + c * Z.shiftr x k.

  (* fold at most [fuel] times, then one conditional subtraction; anything not brought into
     [0, 2m) is handed to Z.modulo. *)
  Fixpoint pm_red_fuel (fuel : nat) (x : Z) : Z :=
    match fuel with
    | O => x mod m
    | S f =>
      if (0 <=? x) && (x <? m) then x
      else if (m <=? x) && (x <? 2 * m) then x - m
      else pm_red_fuel f (pm_fold x)
    end.
  Definition fred (x : Z) : Z := pm_red_fuel 4 x.
  Definition fadd (a b : Z) : Z := fred (a + b).
  Definition fsub (a b : Z) : Z := fred (a - b + m).
  Definition fmul (a b : Z) : Z := fred (a * b).
  Definition fsqr (a : Z) : Z := fred (a * a).
  Definition fneg (a : Z) : Z := fred (m - a).
  (* a ^ e by square-and-multiply, most significant bit first *)
  Fixpoint fpow_pos (a : Z) (e : positive) : Z :=
    match e with
    | xH => fred a
    | xO e' => fsqr (fpow_pos a e')
    | xI e' => fmul a (fsqr (fpow_pos a e'))
    end.
  Definition fpow (a e : Z) : Z :=
    match e with Zpos e' => fpow_pos a e' | _ => fred 1 end.
  (* inverse by Fermat (m prime); 0 is mapped to 0 *)
  Definition finv (a : Z) : Z := fpow a (m - 2).
End Field.
