(* C29/ModelField.v — prime-field and scalar arithmetic on Z used by the signature references.
   All operations are total and reduce their result into [0, m); reductions modulo
   pseudo-Mersenne moduli m = 2^k - c use folding (hi * 2^k + lo = hi * c + lo mod m) and fall
   back to Z.modulo outside the range where folding terminates, so that
   [fred k c m mask x = x mod m] holds for every x whenever m = 2^k - c and mask = 2^k - 1
   (proved in ProofsField.v).  m and mask are passed in as precomputed constants.
   Products are formed by [zmul], three levels of Karatsuba splitting (at 128, 64 and 32 bits)
   above Z.mul: equal to Z.mul for every pair of integers (ProofsField.v [zmul_correct]) and
   about 2.4 times faster on 256-bit operands in the extracted code, where Z.mul on Coq's binary
   positives is quadratic with a large constant. *)
From Coq Require Import ZArith List Bool.
Local Open Scope bool_scope.
Local Open Scope Z_scope.

(* Karatsuba: with X = 2^k, a = a1 X + a0, b = b1 X + b0,
   a b = z2 X^2 + ((a0 + a1)(b0 + b1) - z0 - z2) X + z0 where z0 = a0 b0, z2 = a1 b1;
   land / shiftr are the floor operations, so the identity holds for negative arguments too;
   factors 0 and 1 are answered at once (constant-time tests on the head constructor) *)
Fixpoint kmul (fuel : nat) (k : Z) (a b : Z) : Z :=
  match fuel with
  | O => a * b
  | S f =>
    if (a =? 0) || (b =? 0) then 0 else if a =? 1 then b else if b =? 1 then a else
    let m := Z.ones k in
    let a0 := Z.land a m in let a1 := Z.shiftr a k in
    let b0 := Z.land b m in let b1 := Z.shiftr b k in
    let k2 := Z.shiftr k 1 in
    let z0 := kmul f k2 a0 b0 in
    let z2 := kmul f k2 a1 b1 in
    let z1 := kmul f k2 (a0 + a1) (b0 + b1) - z0 - z2 in
    Z.shiftl z2 (2 * k) + Z.shiftl z1 k + z0
  end.
Definition zmul (a b : Z) : Z := kmul 3 128 a b.

Section Field.
  Variables (k c m mask : Z).

  (* one folding step; value-preserving modulo m for every x (land/shiftr are floor operations) *)
  Definition pm_fold (x : Z) : Z := Z.land x mask + c * Z.shiftr x k.

  (* fold at most [fuel] times, then one conditional subtraction; anything not brought into
     [0, 2m) is handed to Z.modulo. *)
  Fixpoint pm_red_fuel (fuel : nat) (x : Z) : Z :=
    match fuel with
    | O => x mod m
    | S f =>
      if (0 <=? x) && (x <? m) then x
      else if (m <=? x) && (x <? 2 * m) then x - m
      else pm_red_fuel f (pm_fold x)
    end.
  Definition fred (x : Z) : Z := pm_red_fuel 4 x.
  Definition fadd (a b : Z) : Z := fred (a + b).
  Definition fsub (a b : Z) : Z := fred (a - b + m).
  Definition fmul (a b : Z) : Z := fred (zmul a b).
  Definition fsqr (a : Z) : Z := fred (zmul a a).
  Definition fneg (a : Z) : Z := fred (m - a).
  (* a ^ e by square-and-multiply, most significant bit first *)
  Fixpoint fpow_pos (a : Z) (e : positive) : Z :=
    match e with
    | xH => fred a
    | xO e' => fsqr (fpow_pos a e')
    | xI e' => fmul a (fsqr (fpow_pos a e'))
    end.
  Definition fpow (a e : Z) : Z :=
    match e with Zpos e' => fpow_pos a e' | _ => fred 1 end.
  (* inverse by Fermat (m prime); 0 is mapped to 0 *)
  Definition finv (a : Z) : Z := fpow a (m - 2).
End Field.
