(* C29/ProofsSig.v — structural facts about the signature references and the gossamer wrappers:
   the field operations are the operations of GF(p); which inputs are rejected (lengths, scalar
   ranges, high S, undecodable points); recovery never panics once the length is checked. *)
From Coq Require Import ZifyN ZifyNat ZifyBool.
From Common Require Import Bytes.
From C29 Require Import ModelField ProofsField ModelEd25519 ModelSecp256k1.
Local Open Scope Z_scope.

(* ------------------------------------------------------------------ the fields *)
Lemma p25519_eq : p25519 = 2 ^ 255 - 19. Proof. reflexivity. Qed.
Lemma mask255_eq : mask255 = Z.ones 255. Proof. reflexivity. Qed.
Lemma secp_p_eq : secp_p = 2 ^ 256 - secp_c. Proof. reflexivity. Qed.
Lemma secp_n_eq : secp_n = 2 ^ 256 - secp_nc. Proof. reflexivity. Qed.
Lemma mask256_eq : mask256 = Z.ones 256. Proof. reflexivity. Qed.

Lemma fe_red_correct x : fe_red x = x mod p25519.
Proof. apply fred_correct; [lia | exact p25519_eq | exact mask255_eq | reflexivity]. Qed.
Lemma fe_mul_correct a b : fe_mul a b = (a * b) mod p25519.
Proof. apply fmul_correct; [lia | exact p25519_eq | exact mask255_eq | reflexivity]. Qed.
Lemma fe_sqr_correct a : fe_sqr a = (a * a) mod p25519.
Proof. apply fsqr_correct; [lia | exact p25519_eq | exact mask255_eq | reflexivity]. Qed.
Lemma fe_add_correct a b : fe_add a b = (a + b) mod p25519.
Proof. apply fadd_correct; [lia | exact p25519_eq | exact mask255_eq | reflexivity]. Qed.
Lemma fe_sub_correct a b : fe_sub a b = (a - b) mod p25519.
Proof. apply fsub_correct; [lia | exact p25519_eq | exact mask255_eq | reflexivity]. Qed.
Lemma fe_neg_correct a : fe_neg a = (- a) mod p25519.
Proof. apply fneg_correct; [lia | exact p25519_eq | exact mask255_eq | reflexivity]. Qed.
Lemma fe_pow_correct a e : 0 <= e -> fe_pow a e = (a ^ e) mod p25519.
Proof. apply fpow_correct; [lia | exact p25519_eq | exact mask255_eq | reflexivity]. Qed.
Lemma fe_inv_correct a : fe_inv a = (a ^ (p25519 - 2)) mod p25519.
Proof. unfold fe_inv, finv. apply fe_pow_correct. vm_compute. discriminate. Qed.

Lemma fp_mul_correct a b : fp_mul a b = (a * b) mod secp_p.
Proof. apply fmul_correct; [lia | exact secp_p_eq | exact mask256_eq | reflexivity]. Qed.
Lemma fp_sqr_correct a : fp_sqr a = (a * a) mod secp_p.
Proof. apply fsqr_correct; [lia | exact secp_p_eq | exact mask256_eq | reflexivity]. Qed.
Lemma fp_add_correct a b : fp_add a b = (a + b) mod secp_p.
Proof. apply fadd_correct; [lia | exact secp_p_eq | exact mask256_eq | reflexivity]. Qed.
Lemma fp_sub_correct a b : fp_sub a b = (a - b) mod secp_p.
Proof. apply fsub_correct; [lia | exact secp_p_eq | exact mask256_eq | reflexivity]. Qed.
Lemma fp_neg_correct a : fp_neg a = (- a) mod secp_p.
Proof. apply fneg_correct; [lia | exact secp_p_eq | exact mask256_eq | reflexivity]. Qed.
Lemma fp_inv_correct a : fp_inv a = (a ^ (secp_p - 2)) mod secp_p.
Proof. apply fpow_correct; [lia | exact secp_p_eq | exact mask256_eq | reflexivity | vm_compute; discriminate]. Qed.
Lemma sc_mul_correct a b : sc_mul a b = (a * b) mod secp_n.
Proof. apply fmul_correct; [lia | exact secp_n_eq | exact mask256_eq | reflexivity]. Qed.
Lemma sc_red_correct a : sc_red a = a mod secp_n.
Proof. apply fred_correct; [lia | exact secp_n_eq | exact mask256_eq | reflexivity]. Qed.
Lemma sc_neg_correct a : sc_neg a = (- a) mod secp_n.
Proof. apply fneg_correct; [lia | exact secp_n_eq | exact mask256_eq | reflexivity]. Qed.
Lemma sc_inv_correct a : sc_inv a = (a ^ (secp_n - 2)) mod secp_n.
Proof. apply fpow_correct; [lia | exact secp_n_eq | exact mask256_eq | reflexivity | vm_compute; discriminate]. Qed.

(* the tabulated curve constants satisfy their defining equations *)
Lemma ed_d_def : (ed_d * 121666 + 121665) mod p25519 = 0. Proof. reflexivity. Qed.
Lemma ed_2d_def : ed_2d = (2 * ed_d) mod p25519. Proof. reflexivity. Qed.
Lemma sqrt_m1_def : (sqrt_m1 * sqrt_m1 + 1) mod p25519 = 0. Proof. reflexivity. Qed.
Lemma ed_By_def : (5 * ed_By) mod p25519 = 4. Proof. reflexivity. Qed.
Lemma ed_B_on_curve :
  (ed_By * ed_By - ed_Bx * ed_Bx) mod p25519 = (1 + ed_d * (ed_Bx * ed_Bx mod p25519) * (ed_By * ed_By mod p25519)) mod p25519.
Proof. reflexivity. Qed.
Lemma ed_Bx_even : Z.even ed_Bx = true. Proof. reflexivity. Qed.
Lemma ed_L_def : ed_L = 2 ^ 252 + 27742317777372353535851937790883648493. Proof. reflexivity. Qed.
Lemma exp_p58_def : exp_p58 = (p25519 - 5) / 8. Proof. reflexivity. Qed.
Lemma secp_G_on_curve : on_curve secp_gx secp_gy = true. Proof. vm_compute. reflexivity. Qed.
Lemma secp_half_n_def : secp_half_n = secp_n / 2. Proof. reflexivity. Qed.
Lemma exp_sqrt_def : exp_sqrt = (secp_p + 1) / 4. Proof. reflexivity. Qed.

(* ------------------------------------------------------------------ Ed25519 *)
(* the combined evaluation used by the driver is the pair of the two verifiers *)
Lemma verify_both_spec pk msg sig : verify_both pk msg sig = (verify_go pk msg sig, verify_zip215 pk msg sig).
Proof.
  unfold verify_both, verify_go, verify_zip215.
  destruct (negb ((length pk =? 32)%nat && (length sig =? 64)%nat)); [reflexivity|].
  cbv zeta.
  destruct (ed_L <=? Z.of_N (le_val (skipn 32 sig))); [reflexivity|].
  destruct (pt_decode pk); [|reflexivity].
  destruct (pt_decode (firstn 32 sig)); reflexivity.
Qed.

Lemma ed25519_case_spec pk sig msg :
  ed25519_case pk sig msg = (ed25519_verify_signature pk sig msg, verify_zip215 pk msg sig).
Proof.
  unfold ed25519_case. rewrite verify_both_spec.
  unfold ed25519_verify_signature, gossamer_verify_signature. reflexivity.
Qed.

(* what every accepted signature satisfies, under either rule set: lengths 32 / 64, canonical
   scalar S < L, decodable public key *)
Lemma verify_zip215_accepts pk msg sig : verify_zip215 pk msg sig = true ->
  length pk = 32%nat /\ length sig = 64%nat /\ Z.of_N (le_val (skipn 32 sig)) < ed_L
  /\ pt_decode pk <> None /\ pt_decode (firstn 32 sig) <> None.
Proof.
  unfold verify_zip215.
  destruct (Nat.eqb_spec (length pk) 32) as [Lp|]; [|discriminate].
  destruct (Nat.eqb_spec (length sig) 64) as [Ls|]; [|discriminate].
  cbn [andb negb]. cbv zeta.
  destruct (Z.leb_spec ed_L (Z.of_N (le_val (skipn 32 sig)))) as [|Hs]; [discriminate|].
  destruct (pt_decode pk); [|discriminate].
  destruct (pt_decode (firstn 32 sig)); [|discriminate].
  intros _. repeat split; try assumption; discriminate.
Qed.

Lemma verify_go_accepts pk msg sig : verify_go pk msg sig = true ->
  length pk = 32%nat /\ length sig = 64%nat /\ Z.of_N (le_val (skipn 32 sig)) < ed_L
  /\ pt_decode pk <> None.
Proof.
  unfold verify_go.
  destruct (Nat.eqb_spec (length pk) 32) as [Lp|]; [|discriminate].
  destruct (Nat.eqb_spec (length sig) 64) as [Ls|]; [|discriminate].
  cbn [andb negb]. cbv zeta.
  destruct (Z.leb_spec ed_L (Z.of_N (le_val (skipn 32 sig)))) as [|Hs]; [discriminate|].
  destruct (pt_decode pk); [|discriminate].
  intros _. repeat split; try assumption; discriminate.
Qed.

(* gossamer's VerifySignature: an error exactly for wrong lengths, never a panic (total) *)
Lemma ed25519_verify_signature_err pk sig msg :
  ed25519_verify_signature pk sig msg = VErr <-> (length pk <> 32%nat \/ length sig <> 64%nat).
Proof.
  unfold ed25519_verify_signature, gossamer_verify_signature.
  destruct (Nat.eqb_spec (length pk) 32); destruct (Nat.eqb_spec (length sig) 64); cbn [negb];
    try (split; [intros _; lia | reflexivity]).
  destruct (verify_go pk msg sig); split; try discriminate; lia.
Qed.
Lemma ed25519_verify_signature_ok pk sig msg :
  ed25519_verify_signature pk sig msg = VOk <-> verify_go pk msg sig = true.
Proof.
  unfold ed25519_verify_signature, gossamer_verify_signature. split.
  - destruct (negb (length pk =? 32)%nat); [discriminate|].
    destruct (negb (length sig =? 64)%nat); [discriminate|].
    destruct (verify_go pk msg sig); [reflexivity|discriminate].
  - intro H. destruct (verify_go_accepts _ _ _ H) as (Lp & Ls & _).
    rewrite Lp, Ls, H. reflexivity.
Qed.

(* decoding accepts non-canonical field elements: the result depends only on the sign bit and on
   the low 255 bits modulo p *)
Lemma pt_decode_congr b1 b2 :
  length b1 = 32%nat -> length b2 = 32%nat ->
  Z.shiftr (Z.of_N (le_val b1)) 255 = Z.shiftr (Z.of_N (le_val b2)) 255 ->
  Z.land (Z.of_N (le_val b1)) mask255 mod p25519 = Z.land (Z.of_N (le_val b2)) mask255 mod p25519 ->
  pt_decode b1 = pt_decode b2.
Proof.
  intros L1 L2 Hs Hy. unfold pt_decode. rewrite L1, L2. cbn [Nat.eqb negb]. cbv zeta.
  rewrite !fe_red_correct, Hs, Hy. reflexivity.
Qed.

(* ------------------------------------------------------------------ secp256k1 *)
Lemma be_z_nonneg b : 0 <= be_z b.
Proof. unfold be_z. lia. Qed.

(* an accepted ECDSA signature: 32-byte message, 64-byte signature, r and s in [1, n-1] and s in
   the lower half (high-S signatures are rejected), the public key parses *)
Lemma ecdsa_verify_accepts pk msg sig : ecdsa_verify pk msg sig = true ->
  length msg = 32%nat /\ length sig = 64%nat
  /\ 1 <= be_z (firstn 32 sig) < secp_n
  /\ 1 <= be_z (skipn 32 sig) <= secp_half_n
  /\ parse_pubkey pk <> None.
Proof.
  unfold ecdsa_verify.
  destruct (Nat.eqb_spec (length msg) 32) as [Lm|]; [|discriminate].
  destruct (Nat.eqb_spec (length sig) 64) as [Ls|]; [|discriminate].
  cbn [andb negb]. cbv zeta.
  pose proof (be_z_nonneg (firstn 32 sig)) as R0. pose proof (be_z_nonneg (skipn 32 sig)) as S0.
  destruct (Z.leb_spec secp_n (be_z (firstn 32 sig))) as [|Hr]; [discriminate|].
  destruct (Z.leb_spec secp_n (be_z (skipn 32 sig))) as [|Hs]; [discriminate|].
  cbn [orb].
  destruct (parse_pubkey pk) as [[qx qy]|]; [|discriminate].
  destruct (Z.eqb_spec (be_z (firstn 32 sig)) 0) as [|Rn]; [discriminate|].
  destruct (Z.eqb_spec (be_z (skipn 32 sig)) 0) as [|Sn]; [discriminate|].
  cbn [orb].
  destruct (Z.ltb_spec secp_half_n (be_z (skipn 32 sig))) as [|Hh]; [discriminate|].
  intros _. repeat split; try assumption; try lia. discriminate.
Qed.

(* public keys: only 33 bytes with tag 02/03 or 65 bytes with tag 04/06/07 parse *)
Lemma parse_pubkey_shape pk q : parse_pubkey pk = Some q ->
  (length pk = 33%nat \/ length pk = 65%nat).
Proof.
  unfold parse_pubkey. destruct pk as [|tag rest]; [discriminate|].
  destruct (Nat.eqb_spec (length (tag :: rest)) 33); [intros; now left|].
  cbn [andb].
  destruct (Nat.eqb_spec (length (tag :: rest)) 65); [intros; now right|].
  discriminate.
Qed.

(* recovery: what is required of (msg, sig) for a key to come out *)
Lemma ecrecover_accepts msg sig q : ecrecover msg sig = Some q ->
  length msg = 32%nat /\ length sig = 65%nat
  /\ (let v := b2n (nth 64 sig Byte.x00) in (v < 4 \/ 27 <= v < 31)%N)
  /\ 1 <= be_z (firstn 32 sig) < secp_n
  /\ 1 <= be_z (firstn 32 (skipn 32 sig)) < secp_n.
Proof.
  unfold ecrecover.
  destruct (Nat.eqb_spec (length msg) 32) as [Lm|]; [|discriminate].
  destruct (Nat.eqb_spec (length sig) 65) as [Ls|]; [|discriminate].
  cbn [negb]. cbv zeta.
  set (v0 := b2n (nth 64 sig Byte.x00)).
  destruct (N.leb_spec 4 (if (27 <=? v0)%N then (v0 - 27)%N else v0)) as [|Hv]; [discriminate|].
  unfold ecdsa_recover_point.
  pose proof (be_z_nonneg (firstn 32 sig)) as R0.
  pose proof (be_z_nonneg (firstn 32 (skipn 32 sig))) as S0.
  destruct (Z.leb_spec secp_n (be_z (firstn 32 sig))) as [|Hr]; [discriminate|].
  destruct (Z.leb_spec secp_n (be_z (firstn 32 (skipn 32 sig)))) as [|Hs]; [discriminate|].
  cbn [orb].
  destruct (Z.eqb_spec (be_z (firstn 32 sig)) 0) as [|Rn]; [discriminate|].
  destruct (Z.eqb_spec (be_z (firstn 32 (skipn 32 sig))) 0) as [|Sn]; [discriminate|].
  cbn [orb]. intros _. repeat split; try assumption; try lia.
  destruct (N.leb_spec 27 v0); lia.
Qed.

(* recovered keys have the advertised sizes *)
Lemma serialize_uncompressed_length q : length (serialize_uncompressed q) = 65%nat.
Proof. unfold serialize_uncompressed, z_be32. cbn [length]. rewrite app_length, !be_bytes_length. reflexivity. Qed.
Lemma serialize_compressed_length q : length (serialize_compressed q) = 33%nat.
Proof. unfold serialize_compressed, z_be32. cbn [length]. now rewrite be_bytes_length. Qed.

(* with the length check, recovery never panics and yields a key exactly when the reference
   recovers one; the key has 65 (33) bytes *)
Lemma recover_public_key_total msg sig :
  match recover_public_key msg sig with
  | RKey k => exists q, ecrecover msg sig = Some q /\ k = serialize_uncompressed q /\ length k = 65%nat
  | RErr => ecrecover msg sig = None
  | RPanic => False
  end.
Proof.
  unfold recover_public_key. destruct (ecrecover msg sig) as [q|]; [|reflexivity].
  exists q. split; [reflexivity|]. split; [reflexivity|]. apply serialize_uncompressed_length.
Qed.
Lemma recover_public_key_compressed_total msg sig :
  match recover_public_key_compressed msg sig with
  | RKey k => exists q, ecrecover msg sig = Some q /\ k = serialize_compressed q /\ length k = 33%nat
  | RErr => ecrecover msg sig = None
  | RPanic => False
  end.
Proof.
  unfold recover_public_key_compressed. destruct (ecrecover msg sig) as [q|]; [|reflexivity].
  exists q. split; [reflexivity|]. split; [reflexivity|]. apply serialize_compressed_length.
Qed.

(* the code before the fix indexed sig[64] first: it panics exactly on signatures shorter than
   65 bytes and agrees with the repaired function everywhere else *)
Lemma recover_prefix_panics msg sig :
  recover_public_key_prefix msg sig = RPanic <-> (length sig < 65)%nat.
Proof.
  unfold recover_public_key_prefix. destruct (Nat.ltb_spec (length sig) 65) as [H|H].
  - split; [intros _; assumption | reflexivity].
  - destruct (ecrecover msg sig); split; try discriminate; lia.
Qed.
Lemma recover_prefix_agrees msg sig : (65 <= length sig)%nat ->
  recover_public_key_prefix msg sig = recover_public_key msg sig
  /\ recover_public_key_compressed_prefix msg sig = recover_public_key_compressed msg sig.
Proof.
  intro H. unfold recover_public_key_prefix, recover_public_key_compressed_prefix.
  destruct (Nat.ltb_spec (length sig) 65); [lia|]. split; reflexivity.
Qed.
Lemma recover_prefix_refuted : exists msg sig, recover_public_key_prefix msg sig = RPanic.
Proof. exists [], []. reflexivity. Qed.

(* PublicKey.Decode + Verify: ok only through ecdsa_verify on the re-encoded key *)
Lemma pubkey_verify_ok pkb msg sig : secp256k1_pubkey_verify pkb msg sig = PKOk ->
  exists q, parse_pubkey pkb = Some q /\ ecdsa_verify (serialize_compressed q) msg sig = true.
Proof.
  unfold secp256k1_pubkey_verify.
  destruct (negb (length pkb =? 33)%nat); [discriminate|].
  destruct (parse_pubkey pkb) as [q|]; [|discriminate].
  destruct (negb (length sig =? 64)%nat); [discriminate|].
  destruct (negb (length msg =? 32)%nat); [discriminate|].
  destruct (ecdsa_verify (serialize_compressed q) msg sig) eqn:E; [|discriminate].
  intros _. now exists q.
Qed.
