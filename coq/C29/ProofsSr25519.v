(* C29/ProofsSr25519.v — facts about the sr25519 reference and the gossamer models of
   ModelSr25519.v that hold for all inputs (no evaluation of curve arithmetic). *)
From Coq Require Import ZifyN ZifyNat ZifyBool Lia.
From Common Require Import Bytes.
From Hash Require Import Strobe.
From C29 Require Import ModelField ModelEd25519 ModelSr25519.
Local Open Scope Z_scope.

(* ---- the repaired gossamer code gives Substrate's verdict on every input *)
Lemma sr25519_verify_agrees pk sig msg :
  accepts (sr25519_verify_signature pk sig msg) = sr25519_verify_ref pk msg sig.
Proof.
  unfold sr25519_verify_signature, sr25519_verify_ref, sr_go_verify.
  destruct (length pk =? 32)%nat; cbn [negb andb accepts]; [|reflexivity].
  destruct (ristretto_decode pk) as [A|].
  - destruct (length sig =? 64)%nat; cbn [negb accepts]; [|reflexivity].
    destruct (sr_marked sig); cbn [negb accepts]; [|reflexivity].
    destruct (ed_L <=? sr_scalar sig); cbn [accepts]; [reflexivity|].
    destruct (sr_equation A (signing_transcript msg) labels_current pk sig); reflexivity.
  - destruct (length sig =? 64)%nat; cbn [negb accepts]; [|reflexivity].
    destruct (sr_marked sig); cbn [negb]; [|reflexivity].
    destruct (ed_L <=? sr_scalar sig); reflexivity.
Qed.

Lemma sr25519_verify_deprecated_agrees pk sig msg :
  accepts (sr25519_verify_deprecated pk sig msg) = sr25519_verify_deprecated_ref pk msg sig.
Proof.
  unfold sr25519_verify_deprecated, sr25519_verify_deprecated_ref, sr_go_verify_deprecated.
  destruct (length pk =? 32)%nat; cbn [negb andb accepts]; [|reflexivity].
  destruct (ristretto_decode pk) as [A|].
  - destruct (length sig =? 64)%nat; cbn [negb accepts]; [|reflexivity].
    destruct (ed_L <=? sr_scalar sig); cbn [accepts]; [reflexivity|].
    destruct (sr_marked sig).
    + destruct (sr_equation A (signing_transcript msg) labels_current pk sig); reflexivity.
    + destruct (sr_equation A (preaudit_transcript msg) labels_preaudit pk sig); reflexivity.
  - destruct (length sig =? 64)%nat; cbn [negb accepts]; [|reflexivity].
    destruct (ed_L <=? sr_scalar sig); reflexivity.
Qed.

Lemma host_sr25519_v1_agrees pk msg sig :
  host_sr25519_verify_v1 pk msg sig = sr25519_verify_deprecated_ref pk msg sig.
Proof. apply sr25519_verify_deprecated_agrees. Qed.
Lemma host_sr25519_v2_agrees pk msg sig :
  host_sr25519_verify_v2 pk msg sig = sr25519_verify_ref pk msg sig.
Proof. apply sr25519_verify_agrees. Qed.

(* the verdict classes of the repaired library functions: an error exactly for malformed input *)
Lemma sr25519_verify_signature_err pk sig msg :
  sr25519_verify_signature pk sig msg = VErr <->
  (length pk <> 32%nat \/ ristretto_decode pk = None \/ length sig <> 64%nat
   \/ sr_marked sig = false \/ ed_L <= sr_scalar sig).
Proof.
  unfold sr25519_verify_signature, sr_go_verify.
  destruct (Nat.eqb_spec (length pk) 32) as [Lp|Lp]; cbn [negb]; [|split; [tauto|reflexivity]].
  destruct (ristretto_decode pk) as [A|]; [|split; [tauto|reflexivity]].
  destruct (Nat.eqb_spec (length sig) 64) as [Ls|Ls]; cbn [negb]; [|split; [tauto|reflexivity]].
  destruct (sr_marked sig); cbn [negb]; [|split; [tauto|reflexivity]].
  destruct (Z.leb_spec ed_L (sr_scalar sig)) as [Hs|Hs]; [split; [tauto|reflexivity]|].
  destruct (sr_equation A (signing_transcript msg) labels_current pk sig);
    (split; [discriminate|]); intros [H|[H|[H|[H|H]]]]; try congruence; lia.
Qed.

(* ---- rejection rules of the reference, for all inputs *)
Lemma sr25519_verify_ref_accepts pk msg sig : sr25519_verify_ref pk msg sig = true ->
  length pk = 32%nat /\ length sig = 64%nat /\ sr_marked sig = true /\ sr_scalar sig < ed_L
  /\ exists A, ristretto_decode pk = Some A
     /\ ristretto_encode (sr_rprime A (sr_challenge (signing_transcript msg) labels_current pk (firstn 32 sig))
                                      (sr_scalar sig)) = firstn 32 sig.
Proof.
  unfold sr25519_verify_ref.
  destruct (Nat.eqb_spec (length pk) 32) as [Lp|]; [|discriminate].
  destruct (Nat.eqb_spec (length sig) 64) as [Ls|]; [|discriminate].
  cbn [andb negb].
  destruct (sr_marked sig); cbn [negb]; [|discriminate].
  destruct (Z.leb_spec ed_L (sr_scalar sig)) as [|Hs]; [discriminate|].
  destruct (ristretto_decode pk) as [A|]; [|discriminate].
  unfold sr_equation. intro H.
  repeat split; try assumption. exists A. split; [reflexivity|].
  destruct (bytes_eqb_spec (ristretto_encode
     (sr_rprime A (sr_challenge (signing_transcript msg) labels_current pk (firstn 32 sig)) (sr_scalar sig)))
     (firstn 32 sig)); [assumption|discriminate].
Qed.

Lemma sr25519_verify_deprecated_ref_accepts pk msg sig : sr25519_verify_deprecated_ref pk msg sig = true ->
  length pk = 32%nat /\ length sig = 64%nat /\ sr_scalar sig < ed_L /\ ristretto_decode pk <> None.
Proof.
  unfold sr25519_verify_deprecated_ref.
  destruct (Nat.eqb_spec (length pk) 32) as [Lp|]; [|discriminate].
  destruct (Nat.eqb_spec (length sig) 64) as [Ls|]; [|discriminate].
  cbn [andb negb].
  destruct (Z.leb_spec ed_L (sr_scalar sig)) as [|Hs]; [discriminate|].
  destruct (ristretto_decode pk) as [A|]; [|discriminate].
  intros _. repeat split; try assumption. discriminate.
Qed.

(* the marker bit decides which scheme verify_deprecated applies *)
Lemma sr25519_deprecated_marked pk msg sig : sr_marked sig = true ->
  sr25519_verify_deprecated_ref pk msg sig = sr25519_verify_ref pk msg sig.
Proof.
  intro M. unfold sr25519_verify_deprecated_ref, sr25519_verify_ref. rewrite M. cbn [negb].
  destruct (negb ((length pk =? 32)%nat && (length sig =? 64)%nat)); [reflexivity|].
  destruct (ed_L <=? sr_scalar sig); [reflexivity|].
  destruct (ristretto_decode pk); reflexivity.
Qed.
Lemma sr25519_verify_implies_deprecated pk msg sig :
  sr25519_verify_ref pk msg sig = true -> sr25519_verify_deprecated_ref pk msg sig = true.
Proof.
  intro H. destruct (sr25519_verify_ref_accepts _ _ _ H) as (_ & _ & M & _).
  now rewrite sr25519_deprecated_marked.
Qed.
Lemma sr25519_unmarked_rejected pk msg sig : sr_marked sig = false -> sr25519_verify_ref pk msg sig = false.
Proof.
  intro M. unfold sr25519_verify_ref. rewrite M. cbn [negb].
  destruct (negb ((length pk =? 32)%nat && (length sig =? 64)%nat)); reflexivity.
Qed.

(* ristretto255 decoding accepts canonical, non-negative field elements only *)
Lemma ristretto_decode_canonical b P : ristretto_decode b = Some P ->
  length b = 32%nat /\ Z.of_N (le_val b) < p25519 /\ Z.odd (Z.of_N (le_val b)) = false.
Proof.
  unfold ristretto_decode.
  destruct (Nat.eqb_spec (length b) 32) as [L|]; [|discriminate]. cbn [negb].
  destruct (Z.leb_spec p25519 (Z.of_N (le_val b))) as [|Hp]; [discriminate|]. cbn [orb].
  destruct (Z.odd (Z.of_N (le_val b))); [discriminate|].
  intros _. repeat split; assumption.
Qed.

(* ---- the host function as found gave no verdict at all *)
Lemma host_v1_prefix_ignores_signature pk msg sig msg' sig' :
  host_sr25519_verify_v1_prefix pk msg sig = host_sr25519_verify_v1_prefix pk msg' sig'.
Proof. reflexivity. Qed.

(* ---- Merlin / STROBE: the duplex position stays inside the rate and the fuel of the absorbing
   and squeezing loops is never exhausted *)
Definition wf (s : strobe) : Prop := (pos s < strobe_r)%nat.

Lemma run_f_wf s : wf (run_f s).
Proof. unfold wf, run_f, strobe_r. cbn [pos]. lia. Qed.

Lemma absorb_step_wf s chunk :
  wf s -> (length chunk <= strobe_r - pos s)%nat ->
  let s1 := mkstrobe (xor_at (st s) (pos s) chunk) (pos s + length chunk) (pos_begin s) in
  wf (if (pos s1 =? strobe_r)%nat then run_f s1 else s1).
Proof.
  intros W L s1. destruct (Nat.eqb_spec (pos s1) strobe_r) as [E|E]; [apply run_f_wf|].
  unfold wf in *. subst s1. cbn [pos] in *. lia.
Qed.

Lemma absorb_wf fuel : forall s d, wf s -> wf (absorb fuel s d).
Proof.
  induction fuel as [|f IH]; intros s d W; [exact W|].
  cbn [absorb]. destruct d as [|b d']; [exact W|].
  apply IH. apply absorb_step_wf; [exact W|]. rewrite firstn_length. lia.
Qed.

(* more fuel than bytes never changes the result: the loop ends because the data is used up *)
Lemma absorb_fuel_enough fuel : forall s d k, wf s -> (length d < fuel)%nat ->
  absorb (fuel + k) s d = absorb fuel s d.
Proof.
  induction fuel as [|f IH]; intros s d k W L; [lia|].
  cbn [Nat.add absorb]. destruct d as [|b d']; [reflexivity|].
  set (d := b :: d') in *.
  assert (R : (1 <= strobe_r - pos s)%nat) by (unfold wf in W; lia).
  apply IH.
  - apply absorb_step_wf; [exact W|]. rewrite firstn_length. lia.
  - rewrite skipn_length. subst d. cbn [length] in *. lia.
Qed.

Lemma absorb_consumes fuel : forall s d, wf s -> (length d < fuel)%nat ->
  absorb fuel s d = absorb (S (length d)) s d.
Proof.
  intros s d W L.
  replace fuel with (S (length d) + (fuel - S (length d)))%nat by lia.
  apply absorb_fuel_enough; [exact W|lia].
Qed.

Lemma begin_op_wf s flags : wf s -> wf (begin_op s flags).
Proof.
  intro W. unfold begin_op.
  match goal with |- wf (if ?c then _ else _) => destruct c end.
  - apply run_f_wf.
  - apply absorb_wf. exact W.
Qed.
Lemma meta_ad_wf s d : wf s -> wf (meta_ad s d).
Proof. intro W. apply absorb_wf, begin_op_wf, W. Qed.
Lemma ad_wf s d : wf s -> wf (ad s d).
Proof. intro W. apply absorb_wf, begin_op_wf, W. Qed.

Lemma squeeze_wf fuel : forall s n acc, wf s -> wf (snd (squeeze fuel s n acc)).
Proof.
  induction fuel as [|f IH]; intros s n acc W; [exact W|].
  cbn [squeeze]. destruct n as [|n']; [exact W|].
  apply IH.
  match goal with |- wf (if ?c then _ else _) => destruct c eqn:E end; [apply run_f_wf|].
  unfold wf in *. cbn [pos] in *. apply Nat.eqb_neq in E. cbn [pos] in E. lia.
Qed.

(* squeeze returns exactly the requested number of bytes (the state has 200 bytes) *)
Lemma f1600_bytes_length s : length (f1600_bytes s) = 200%nat.
Proof.
  unfold f1600_bytes.
  assert (H : forall l : list N, length (flat_map (le_bytes 8) l) = (8 * length l)%nat).
  { induction l as [|a l IH]; [reflexivity|]. cbn [flat_map]. rewrite app_length, le_bytes_length, IH.
    cbn [length]. lia. }
  rewrite H.
  assert (K : forall rcs (x : list N), length x = 25%nat -> length (fold_left Keccak.keccak_round rcs x) = 25%nat).
  { induction rcs as [|rc rcs IH]; intros x Hx; [exact Hx|]. cbn [fold_left]. apply IH.
    unfold Keccak.keccak_round, Keccak.iota, Keccak.chi.
    remember (map _ Keccak.idx25) as m eqn:Em.
    assert (Lm : length m = 25%nat) by (subst m; rewrite map_length; reflexivity).
    destruct m as [|a r]; [discriminate|]. cbn [length] in *. lia. }
  unfold Keccak.keccak_f. rewrite K; [reflexivity|].
  assert (Ln : forall k b, length (Keccak.lanes k b) = k).
  { induction k as [|k IH]; intro b; [reflexivity|]. cbn [Keccak.lanes length]. now rewrite IH. }
  apply Ln.
Qed.

Lemma transcript_new_wf label : wf (transcript_new label).
Proof.
  unfold transcript_new, append_message. apply ad_wf, meta_ad_wf.
  unfold strobe_new. apply meta_ad_wf. unfold wf, strobe_r. cbn [pos]. lia.
Qed.
Lemma append_message_wf t l m : wf t -> wf (append_message t l m).
Proof. intro W. unfold append_message. apply ad_wf, meta_ad_wf, W. Qed.
Lemma signing_transcript_wf msg : wf (signing_transcript msg).
Proof. unfold signing_transcript. apply append_message_wf, append_message_wf, transcript_new_wf. Qed.
Lemma preaudit_transcript_wf msg : wf (preaudit_transcript msg).
Proof. unfold preaudit_transcript. apply append_message_wf, transcript_new_wf. Qed.
