(* C29/ModelSecp256k1.v — secp256k1 ECDSA verification and public-key recovery over Z
   (definitions only), with the acceptance rules of libsecp256k1 (the verifier behind
   go-ethereum/crypto that gossamer calls, and behind Substrate's sp_io crypto secp256k1 functions):
     verify:  r, s in [1, n-1] (no overflow), s <= n/2 (low-S form required), public key a valid
              compressed / uncompressed / hybrid encoding, x(u1 G + u2 Q) mod n = r;
     recover: r, s in [1, n-1] (high S allowed), recovery id 0..3, x = r + n (id bit 1) must be
              below p, the point with that x must exist, the result must not be infinity.
   Curve y^2 = x^3 + 7 over GF(p), p = 2^256 - 2^32 - 977 (SEC 2); Jacobian coordinates
   (X : Y : Z), x = X/Z^2, y = Y/Z^3, infinity Z = 0. *)
From Common Require Import Bytes.
From C29 Require Import ModelField.
Local Open Scope Z_scope.

Definition secp_c : Z := 4294968273.                (* 2^32 + 977 *)
Definition secp_p : Z := 115792089237316195423570985008687907853269984665640564039457584007908834671663.   (* 2^256 - 2^32 - 977 *)
Definition mask256 : Z := 115792089237316195423570985008687907853269984665640564039457584007913129639935.   (* 2^256 - 1 *)
Definition secp_nc : Z := 432420386565659656852420866394968145599.   (* 2^256 - n *)
Definition secp_n : Z := 115792089237316195423570985008687907852837564279074904382605163141518161494337.
Definition secp_half_n : Z := 57896044618658097711785492504343953926418782139537452191302581570759080747168.   (* (n - 1) / 2 *)
Definition exp_sqrt : Z := 28948022309329048855892746252171976963317496166410141009864396001977208667916.   (* (p + 1) / 4 *)
Definition secp_gx : Z := 55066263022277343669578718895168534326250603453777594175500187360389116729240.
Definition secp_gy : Z := 32670510020758816978083085130507043184471273380659243275938904335757337482424.

Definition fp_red := fred 256 secp_c secp_p mask256.
Definition fp_add := fadd 256 secp_c secp_p mask256.
Definition fp_sub := fsub 256 secp_c secp_p mask256.
Definition fp_mul := fmul 256 secp_c secp_p mask256.
Definition fp_sqr := fsqr 256 secp_c secp_p mask256.
Definition fp_neg := fneg 256 secp_c secp_p mask256.
Definition fp_pow := fpow 256 secp_c secp_p mask256.
Definition fp_inv := finv 256 secp_c secp_p mask256.
(* scalars modulo the group order n = 2^256 - secp_nc *)
Definition sc_red := fred 256 secp_nc secp_n mask256.
Definition sc_mul := fmul 256 secp_nc secp_n mask256.
Definition sc_neg := fneg 256 secp_nc secp_n mask256.
Definition sc_inv := finv 256 secp_nc secp_n mask256.

Record jpoint := mkj { jx : Z; jy : Z; jz : Z }.
Definition j_inf : jpoint := mkj 0 1 0.
Definition j_is_inf (P : jpoint) : bool := jz P =? 0.
Definition j_of_affine (x y : Z) : jpoint := mkj x y 1.
Definition secp_G : jpoint := j_of_affine secp_gx secp_gy.

(* doubling for a = 0 (dbl-2009-l); the double of infinity and of a point with y = 0 (none on
   this curve) is infinity because Z3 = 2 Y Z *)
Definition j_double (P : jpoint) : jpoint :=
  if j_is_inf P then j_inf else
  let A := fp_sqr (jx P) in
  let B := fp_sqr (jy P) in
  let C := fp_sqr B in
  let t := fp_sub (fp_sub (fp_sqr (fp_add (jx P) B)) A) C in
  let D := fp_add t t in
  let E := fp_add (fp_add A A) A in
  let F := fp_sqr E in
  let X3 := fp_sub F (fp_add D D) in
  let C8 := let c2 := fp_add C C in let c4 := fp_add c2 c2 in fp_add c4 c4 in
  let Y3 := fp_sub (fp_mul E (fp_sub D X3)) C8 in
  let yz := fp_mul (jy P) (jz P) in
  mkj X3 Y3 (fp_add yz yz).

(* general addition with the exceptional cases handled explicitly *)
Definition j_add (P Q : jpoint) : jpoint :=
  if j_is_inf P then Q else if j_is_inf Q then P else
  let Z1Z1 := fp_sqr (jz P) in
  let Z2Z2 := fp_sqr (jz Q) in
  let U1 := fp_mul (jx P) Z2Z2 in
  let U2 := fp_mul (jx Q) Z1Z1 in
  let S1 := fp_mul (jy P) (fp_mul (jz Q) Z2Z2) in
  let S2 := fp_mul (jy Q) (fp_mul (jz P) Z1Z1) in
  if U1 =? U2 then (if S1 =? S2 then j_double P else j_inf) else
  let H := fp_sub U2 U1 in
  let R := fp_sub S2 S1 in
  let HH := fp_sqr H in
  let HHH := fp_mul H HH in
  let V := fp_mul U1 HH in
  let X3 := fp_sub (fp_sub (fp_sqr R) HHH) (fp_add V V) in
  let Y3 := fp_sub (fp_mul R (fp_sub V X3)) (fp_mul S1 HHH) in
  mkj X3 Y3 (fp_mul H (fp_mul (jz P) (jz Q))).

Definition j_neg (P : jpoint) : jpoint := mkj (jx P) (fp_neg (jy P)) (jz P).

Fixpoint j_smul_pos (k : positive) (P : jpoint) : jpoint :=
  match k with
  | xH => P
  | xO k' => j_double (j_smul_pos k' P)
  | xI k' => j_add (j_double (j_smul_pos k' P)) P
  end.
Definition j_smul (k : Z) (P : jpoint) : jpoint :=
  match k with Zpos k' => j_smul_pos k' P | _ => j_inf end.

Fixpoint bits_lsb (n : nat) (k : Z) : list bool :=
  match n with O => [] | S n' => Z.odd k :: bits_lsb n' (Z.shiftr k 1) end.
Definition bits256 (k : Z) : list bool := rev (bits_lsb 256 k).

(* [a]P + [b]Q for 0 <= a, b < 2^256 by simultaneous double-and-add *)
Definition j_double_smul (a : Z) (P : jpoint) (b : Z) (Q : jpoint) : jpoint :=
  let PQ := j_add P Q in
  fold_left (fun acc (bb : bool * bool) =>
               let acc2 := j_double acc in
               match bb with
               | (true, true) => j_add acc2 PQ
               | (true, false) => j_add acc2 P
               | (false, true) => j_add acc2 Q
               | (false, false) => acc2
               end)
            (combine (bits256 a) (bits256 b)) j_inf.

(* affine coordinates of a finite point *)
Definition j_affine (P : jpoint) : option (Z * Z) :=
  if j_is_inf P then None else
  let zi := fp_inv (jz P) in
  let zi2 := fp_sqr zi in
  Some (fp_mul (jx P) zi2, fp_mul (jy P) (fp_mul zi zi2)).

Definition on_curve (x y : Z) : bool := fp_sqr y =? fp_add (fp_mul (fp_sqr x) x) 7.

(* the point with abscissa x and the given parity of y, if x^3 + 7 is a square (p = 3 mod 4) *)
Definition lift_x (x : Z) (odd : bool) : option (Z * Z) :=
  let rhs := fp_add (fp_mul (fp_sqr x) x) 7 in
  let y := fp_pow rhs exp_sqrt in
  if fp_sqr y =? rhs then
    Some (x, if Bool.eqb (Z.odd y) odd then y else fp_neg y)
  else None.

Definition be_z (b : list byte) : Z := Z.of_N (be_val b).
Definition z_be32 (x : Z) : list byte := be_bytes 32 (Z.to_N x).

(* secp256k1_ec_pubkey_parse: 33 bytes 02/03 || X, or 65 bytes 04/06/07 || X || Y *)
Definition parse_pubkey (pk : list byte) : option (Z * Z) :=
  match pk with
  | tag :: rest =>
    let t := b2n tag in
    if (length pk =? 33)%nat && ((t =? 2) || (t =? 3))%N then
      let x := be_z rest in
      if secp_p <=? x then None else lift_x x (t =? 3)%N
    else if (length pk =? 65)%nat && ((t =? 4) || (t =? 6) || (t =? 7))%N then
      let x := be_z (firstn 32 rest) in
      let y := be_z (skipn 32 rest) in
      if (secp_p <=? x) || (secp_p <=? y) then None
      else if negb (on_curve x y) then None
      else if ((t =? 6)%N && Z.odd y) || ((t =? 7)%N && Z.even y) then None
      else Some (x, y)
    else None
  | [] => None
  end.

Definition serialize_uncompressed (q : Z * Z) : list byte :=
  n2b 4 :: z_be32 (fst q) ++ z_be32 (snd q).
Definition serialize_compressed (q : Z * Z) : list byte :=
  n2b (if Z.odd (snd q) then 3 else 2) :: z_be32 (fst q).

(* ---- ECDSA verification: go-ethereum crypto.VerifySignature(pubkey, msg, sig) *)
Definition ecdsa_verify (pk msg sig : list byte) : bool :=
  if negb ((length msg =? 32)%nat && (length sig =? 64)%nat) then false else
  let r := be_z (firstn 32 sig) in
  let s := be_z (skipn 32 sig) in
  if (secp_n <=? r) || (secp_n <=? s) then false else        (* compact parse: overflow *)
  match parse_pubkey pk with
  | None => false
  | Some (qx, qy) =>
    if (r =? 0) || (s =? 0) then false else
    if secp_half_n <? s then false else                       (* not in lower-S form *)
    let m := sc_red (be_z msg) in
    let si := sc_inv s in
    let u1 := sc_mul m si in
    let u2 := sc_mul r si in
    let R := j_double_smul u1 secp_G u2 (j_of_affine qx qy) in
    match j_affine R with
    | None => false
    | Some (x, _) => x mod secp_n =? r
    end
  end.

(* ---- recovery: secp256k1_ecdsa_recover on r, s, recid; Some (x, y) of the signer's key *)
Definition ecdsa_recover_point (msg : list byte) (r s : Z) (recid : N) : option (Z * Z) :=
  if (secp_n <=? r) || (secp_n <=? s) then None else
  if (r =? 0) || (s =? 0) then None else
  let x := if N.testbit recid 1 then r + secp_n else r in
  if secp_p <=? x then None else
  match lift_x x (N.testbit recid 0) with
  | None => None
  | Some (rx, ry) =>
    let m := sc_red (be_z msg) in
    let ri := sc_inv r in
    let u1 := sc_neg (sc_mul m ri) in
    let u2 := sc_mul s ri in
    j_affine (j_double_smul u1 secp_G u2 (j_of_affine rx ry))
  end.

(* ---- gossamer lib/crypto/secp256k1 *)
Inductive rec_result :=
| RKey (k : list byte)
| RErr
| RPanic.

(* go-ethereum Ecrecover(msg, sig) after gossamer's "if sig[64] >= 27 { sig[64] -= 27 }" *)
Definition ecrecover (msg sig : list byte) : option (Z * Z) :=
  if negb (length msg =? 32)%nat then None else
  if negb (length sig =? 65)%nat then None else
  let v0 := b2n (nth 64 sig Byte.x00) in
  let v := if (27 <=? v0)%N then (v0 - 27)%N else v0 in
  if (4 <=? v)%N then None else
  ecdsa_recover_point msg (be_z (firstn 32 sig)) (be_z (firstn 32 (skipn 32 sig))) v.

(* RecoverPublicKey as written: indexes sig[64] before any length check *)
Definition recover_public_key_prefix (msg sig : list byte) : rec_result :=
  if (length sig <? 65)%nat then RPanic else
  match ecrecover msg sig with
  | Some q => RKey (serialize_uncompressed q)
  | None => RErr
  end.
Definition recover_public_key_compressed_prefix (msg sig : list byte) : rec_result :=
  if (length sig <? 65)%nat then RPanic else
  match ecrecover msg sig with
  | Some q => RKey (serialize_compressed q)
  | None => RErr
  end.

(* with the length check in place (fixes/C29-recover-short-signature.patch) *)
Definition recover_public_key (msg sig : list byte) : rec_result :=
  match ecrecover msg sig with
  | Some q => RKey (serialize_uncompressed q)
  | None => RErr
  end.
Definition recover_public_key_compressed (msg sig : list byte) : rec_result :=
  match ecrecover msg sig with
  | Some q => RKey (serialize_compressed q)
  | None => RErr
  end.

(* VerifySignature(publicKey, signature, message) *)
Definition secp256k1_verify_signature (pk sig msg : list byte) : bool := ecdsa_verify pk msg sig.

(* PublicKey.Decode(in) then PublicKey.Verify(msg, sig): the key is re-encoded compressed *)
Inductive pk_verdict := PKBadKey | PKErr | PKFail | PKOk.
Definition secp256k1_pubkey_verify (pkbytes msg sig : list byte) : pk_verdict :=
  if negb (length pkbytes =? 33)%nat then PKBadKey else
  match parse_pubkey pkbytes with
  | None => PKBadKey
  | Some q =>
    if negb (length sig =? 64)%nat then PKErr
    else if negb (length msg =? 32)%nat then PKErr
    else if ecdsa_verify (serialize_compressed q) msg sig then PKOk else PKFail
  end.
