(* C29/ModelEd25519.v — Ed25519 signature verification over Z (definitions only).
   Two verifiers are defined over the same group arithmetic:
     [verify_zip215]  the reference: the rules of ZIP-215, which Substrate's ed25519_verify applies
                      (ed25519-zebra): A and R are decoded accepting non-canonical field elements
                      (y >= p) and any x sign for x = 0, S must be canonical (S < L), and the
                      cofactored equation [8][S]B = [8]R + [8][k]A is checked;
     [verify_go]      a faithful model of Go's crypto/ed25519.Verify, which gossamer calls:
                      S < L, A decoded the same way, but the cofactorless check
                      encode([S]B - [k]A) == sig[0..32) as byte strings (so a non-canonical R
                      never verifies and torsion components are not cleared).
   Curve: -x^2 + y^2 = 1 + d x^2 y^2 over GF(2^255 - 19) (RFC 8032, section 5.1); points in
   extended homogeneous coordinates (X : Y : Z : T), x = X/Z, y = Y/Z, x y = T/Z. *)
From Common Require Import Bytes.
From Hash Require Import Sha2.
From C29 Require Import ModelField.
Local Open Scope Z_scope.

Definition p25519 : Z := 57896044618658097711785492504343953926634992332820282019728792003956564819949.  (* 2^255 - 19 *)
Definition mask255 : Z := 57896044618658097711785492504343953926634992332820282019728792003956564819967.  (* 2^255 - 1 *)
Definition fe_red := fred 255 19 p25519 mask255.
Definition fe_add := fadd 255 19 p25519 mask255.
Definition fe_sub := fsub 255 19 p25519 mask255.
Definition fe_mul := fmul 255 19 p25519 mask255.
Definition fe_sqr := fsqr 255 19 p25519 mask255.
Definition fe_neg := fneg 255 19 p25519 mask255.
Definition fe_pow := fpow 255 19 p25519 mask255.
Definition fe_inv := finv 255 19 p25519 mask255.

Definition ed_d : Z := 37095705934669439343138083508754565189542113879843219016388785533085940283555.
Definition ed_2d : Z := 16295367250680780974490674513165176452449235426866156013048779062215315747161.
Definition sqrt_m1 : Z := 19681161376707505956807079304988542015446066515923890162744021073123829784752.
(* (p - 5) / 8 = 2^252 - 3 *)
Definition exp_p58 : Z := 7237005577332262213973186563042994240829374041602535252466099000494570602493.
Definition ed_L : Z := 7237005577332262213973186563042994240857116359379907606001950938285454250989.

Record point := mkpt { px : Z; py : Z; pz : Z; pt : Z }.

Definition ed_Bx : Z := 15112221349535400772501151409588531511454012693041857206046113283949847762202.
Definition ed_By : Z := 46316835694926478169428394003475163141307993866256225615783033603165251855960.
Definition ed_B : point := mkpt ed_Bx ed_By 1 (fe_mul ed_Bx ed_By).
Definition pt_zero : point := mkpt 0 1 1 0.

(* RFC 8032 section 5.1.4 (complete for this curve: no special cases) *)
Definition pt_add (P Q : point) : point :=
  let A := fe_mul (fe_sub (py P) (px P)) (fe_sub (py Q) (px Q)) in
  let B := fe_mul (fe_add (py P) (px P)) (fe_add (py Q) (px Q)) in
  let C := fe_mul (fe_mul (pt P) ed_2d) (pt Q) in
  let D := fe_mul (fe_add (pz P) (pz P)) (pz Q) in
  let E := fe_sub B A in
  let F := fe_sub D C in
  let G := fe_add D C in
  let H := fe_add B A in
  mkpt (fe_mul E F) (fe_mul G H) (fe_mul F G) (fe_mul E H).

Definition pt_double (P : point) : point :=
  let A := fe_sqr (px P) in
  let B := fe_sqr (py P) in
  let C := fe_add (fe_sqr (pz P)) (fe_sqr (pz P)) in
  let H := fe_add A B in
  let E := fe_sub H (fe_sqr (fe_add (px P) (py P))) in
  let G := fe_sub A B in
  let F := fe_add C G in
  mkpt (fe_mul E F) (fe_mul G H) (fe_mul F G) (fe_mul E H).

Definition pt_neg (P : point) : point := mkpt (fe_neg (px P)) (py P) (pz P) (fe_neg (pt P)).

(* projective test for the neutral element (0 : 1 : 1 : 0) *)
Definition pt_is_zero (P : point) : bool := (px P =? 0) && (fe_sub (py P) (pz P) =? 0).

(* [k]P, most significant bit first *)
Fixpoint smul_pos (k : positive) (P : point) : point :=
  match k with
  | xH => P
  | xO k' => pt_double (smul_pos k' P)
  | xI k' => pt_add (pt_double (smul_pos k' P)) P
  end.
Definition smul (k : Z) (P : point) : point :=
  match k with Zpos k' => smul_pos k' P | _ => pt_zero end.

(* the 256 low bits of k, most significant first *)
Fixpoint bits_lsb (n : nat) (k : Z) : list bool :=
  match n with O => [] | S n' => Z.odd k :: bits_lsb n' (Z.shiftr k 1) end.
Definition bits256 (k : Z) : list bool := rev (bits_lsb 256 k).

(* [a]P + [b]Q for 0 <= a, b < 2^256 by simultaneous double-and-add (Straus), the way both Go's
   VarTimeDoubleScalarBaseMult and the ZIP-215 reference implementation evaluate [S]B + [k](-A) *)
Definition double_smul (a : Z) (P : point) (b : Z) (Q : point) : point :=
  let PQ := pt_add P Q in
  fold_left (fun acc (bb : bool * bool) =>
               let acc2 := pt_double acc in
               match bb with
               | (true, true) => pt_add acc2 PQ
               | (true, false) => pt_add acc2 P
               | (false, true) => pt_add acc2 Q
               | (false, false) => acc2
               end)
            (combine (bits256 a) (bits256 b)) pt_zero.

Definition mul8 (P : point) : point := pt_double (pt_double (pt_double P)).

(* canonical 32-byte encoding (RFC 8032 5.1.2) *)
Definition pt_encode (P : point) : list byte :=
  let zi := fe_inv (pz P) in
  let x := fe_mul (px P) zi in
  let y := fe_mul (py P) zi in
  le_bytes 32 (Z.to_N (y + Z.shiftl (Z.land x 1) 255)).

(* decoding as ed25519-zebra / curve25519-dalek and Go's edwards25519.SetBytes do it:
   the low 255 bits are reduced modulo p (non-canonical y accepted), x is the square root of
   (y^2 - 1)/(d y^2 + 1) with the requested low bit; "x = 0 with sign bit 1" is accepted. *)
Definition pt_decode (b : list byte) : option point :=
  if negb (length b =? 32)%nat then None else
  let v := Z.of_N (le_val b) in
  let sign := Z.shiftr v 255 in
  let y := fe_red (Z.land v mask255) in
  let yy := fe_sqr y in
  let u := fe_sub yy 1 in
  let w := fe_add (fe_mul ed_d yy) 1 in
  (* candidate root x = u w^3 (u w^7)^((p-5)/8) *)
  let w3 := fe_mul (fe_sqr w) w in
  let w7 := fe_mul (fe_sqr w3) w in
  let x := fe_mul (fe_mul u w3) (fe_pow (fe_mul u w7) exp_p58) in
  let wxx := fe_mul w (fe_sqr x) in
  let ox := if wxx =? u then Some x
            else if wxx =? fe_neg u then Some (fe_mul x sqrt_m1)
            else None in
  match ox with
  | None => None
  | Some x =>
    let x := if Z.land x 1 =? sign then x else fe_neg x in
    Some (mkpt x y 1 (fe_mul x y))
  end.

(* k = SHA-512(R || A || M) as a little-endian integer mod L *)
Definition hram (rb ab msg : list byte) : Z :=
  Z.of_N (le_val (sha512 (rb ++ ab ++ msg))) mod ed_L.

(* ---- reference: ZIP-215 *)
Definition verify_zip215 (pk msg sig : list byte) : bool :=
  if negb ((length pk =? 32)%nat && (length sig =? 64)%nat) then false else
  let rb := firstn 32 sig in
  let s := Z.of_N (le_val (skipn 32 sig)) in
  if ed_L <=? s then false else
  match pt_decode pk, pt_decode rb with
  | Some A, Some R =>
    let k := hram rb pk msg in
    let Q := double_smul s ed_B k (pt_neg A) in
    pt_is_zero (mul8 (pt_add Q (pt_neg R)))
  | _, _ => false
  end.

(* ---- Go crypto/ed25519.Verify (Go 1.23), for a 32-byte public key *)
Definition verify_go (pk msg sig : list byte) : bool :=
  if negb ((length pk =? 32)%nat && (length sig =? 64)%nat) then false else
  let rb := firstn 32 sig in
  let s := Z.of_N (le_val (skipn 32 sig)) in
  if ed_L <=? s then false else
  match pt_decode pk with
  | Some A =>
    let k := hram rb pk msg in
    let Q := double_smul s ed_B k (pt_neg A) in
    bytes_eqb (pt_encode Q) rb
  | None => false
  end.

(* both verdicts with the shared scalar multiplications done once: (go, zip215) *)
Definition verify_both (pk msg sig : list byte) : bool * bool :=
  if negb ((length pk =? 32)%nat && (length sig =? 64)%nat) then (false, false) else
  let rb := firstn 32 sig in
  let s := Z.of_N (le_val (skipn 32 sig)) in
  if ed_L <=? s then (false, false) else
  match pt_decode pk with
  | Some A =>
    let k := hram rb pk msg in
    let Q := double_smul s ed_B k (pt_neg A) in
    (bytes_eqb (pt_encode Q) rb,
     match pt_decode rb with
     | Some R => pt_is_zero (mul8 (pt_add Q (pt_neg R)))
     | None => false
     end)
  | None => (false, false)
  end.

(* ---- gossamer lib/crypto/ed25519: VerifySignature(publicKey, signature, message)
   = NewPublicKey (length 32 or error) then PublicKey.Verify (length 64 or error) *)
Inductive sigverdict := VOk | VFail | VErr.
Definition gossamer_verify_signature (verify : list byte -> list byte -> list byte -> bool)
           (pk sig msg : list byte) : sigverdict :=
  if negb (length pk =? 32)%nat then VErr
  else if negb (length sig =? 64)%nat then VErr
  else if verify pk msg sig then VOk else VFail.
Definition ed25519_verify_signature := gossamer_verify_signature verify_go.

(* what the driver evaluates per case: gossamer's verdict and the reference verdict, sharing the
   scalar multiplications (equal to the two separate definitions: ProofsSig.v) *)
Definition ed25519_case (pk sig msg : list byte) : sigverdict * bool :=
  let '(g, z) := verify_both pk msg sig in
  (if negb (length pk =? 32)%nat then VErr
   else if negb (length sig =? 64)%nat then VErr
   else if g then VOk else VFail, z).

(* the class of inputs on which the two rule sets can give different verdicts: the encoding of
   R is not the canonical encoding of the point it decodes to, or A or R has a component of
   small order ([L]P is not the neutral element).  Used as the known-finding guard. *)
Definition has_torsion (P : point) : bool := negb (pt_is_zero (smul ed_L P)).
Definition zip215_guard (pk sig : list byte) : bool :=
  let rb := firstn 32 sig in
  match pt_decode pk, pt_decode rb with
  | Some A, Some R => negb (bytes_eqb (pt_encode R) rb) || has_torsion A || has_torsion R
  | _, _ => false
  end.
