(* C29/Witness.v — the evaluated witnesses Properties.v depends on (kept few and cheap: coqchk
   re-evaluates them without the VM in the thorough tier; the full set of published vectors is in
   Vectors.v, which Properties.v does not import).
   (1) ZIP-215 small-order vector A = 0100..00 (the neutral element), R = eeff..ff7f (the
       non-canonical encoding y = p + 1 of the neutral element), S = 0, message "Zcash": valid
       under ZIP-215, rejected by the byte comparison of Go's crypto/ed25519.  All coordinates
       involved are 0 or 1, so the evaluation is cheap.
   (2) one honest libsecp256k1 signature (key 028490e0.., over blake2_256(929dc55c)) accepted by
       the model of ext_crypto_ecdsa_verify_version_2; with the recovery id byte 4 Substrate
       rejects it outright. *)
From Common Require Import Bytes.
From C29 Require Import Model ModelField ModelEd25519 ModelSecp256k1 ModelHost ProofsSig ProofsHost.
Local Open Scope Z_scope.

Definition zcash : list byte := map n2b [90; 99; 97; 115; 104]%N.
Definition zip_pk : list byte := le_bytes 32 1%N.
Definition zip_sig : list byte := le_bytes 32 (Z.to_N (p25519 + 1)) ++ zeros 32.

Example zip215_small_order_vector :
  verify_zip215 zip_pk zcash zip_sig = true /\ verify_go zip_pk zcash zip_sig = false
  /\ zip215_guard zip_pk zip_sig = true.
Proof. vm_compute. repeat split; reflexivity. Qed.

Definition hx (k : nat) (v : N) : list byte := be_bytes k v.
Definition w_pk := hx 33 0x028490e0f742ac82511266048c874b9b77d1e059f54100741ca56829f1c672cdab.
Definition w_msg := hx 4 0x929dc55c.
Definition w_r := hx 32 0x563c4af23b30f92d27ce9121119e1b09e6d3bf547cda6c22b12f4ea92e0b2479.
Definition w_s := hx 32 0x137f0916974af73a530a3f1e25f991e8a826c9a58114601a50abccf1add0c539.

Definition w_sig4 : list byte := w_r ++ w_s ++ [n2b 4].

(* one full ECDSA verification (host side); the Substrate side stops at the recovery id *)
Example host_ecdsa_witness :
  host_ecdsa_verify w_pk w_msg w_sig4 = true /\ substrate_ecdsa_verify w_pk w_msg w_sig4 = false
  /\ host_ecdsa_guard w_pk w_msg w_sig4 = true.
Proof. vm_compute. repeat split; reflexivity. Qed.

(* gossamer's host function never reads the recovery id, so it accepts the honest signature also
   with the invalid id 4, which Substrate rejects *)
Lemma host_ecdsa_refuted : exists pk msg sig65,
  host_ecdsa_verify pk msg sig65 = true /\ substrate_ecdsa_verify pk msg sig65 = false
  /\ host_ecdsa_guard pk msg sig65 = true.
Proof. exists w_pk, w_msg, w_sig4. exact host_ecdsa_witness. Qed.

(* the verification rules are inhabited: the same signature at the library level *)
Lemma ecdsa_verify_inhabited : exists pk msg sig, secp256k1_verify_signature pk sig msg = true.
Proof.
  destruct (host_ecdsa_accepts_inner _ _ _ (proj1 host_ecdsa_witness)) as (q & _ & V).
  exists (serialize_compressed q), (blake2b_hash w_msg), (firstn 64 w_sig4). exact V.
Qed.
