(* C29/ProofsHostRecover.v — the recovery host functions version by version: gossamer's model is
   Substrate's version 2; version 1 of Substrate differs exactly by reducing r and s modulo n. *)
From Coq Require Import ZifyN ZifyNat ZifyBool Lia.
From Common Require Import Bytes.
From C29 Require Import Model ModelField ModelEd25519 ModelSecp256k1 ModelHost ProofsSig.
Local Open Scope Z_scope.

Lemma host_recover_is_v2 msg sig :
  host_recover msg sig = option_map key_xy (substrate_recover_v2 msg sig)
  /\ host_recover_compressed msg sig = option_map serialize_compressed (substrate_recover_v2 msg sig).
Proof.
  unfold host_recover, host_recover_compressed, recover_public_key, recover_public_key_compressed,
    substrate_recover_v2.
  destruct (ecrecover msg sig) as [q|]; split; reflexivity.
Qed.

(* outside the guard (r, s < n) the three coincide *)
Lemma recover_v1_eq_v2 msg sig : host_recover_v1_guard sig = false ->
  substrate_recover_v1 msg sig = substrate_recover_v2 msg sig.
Proof.
  unfold host_recover_v1_guard, substrate_recover_v1, substrate_recover_v2, ecrecover. intro G.
  apply orb_false_iff in G. destruct G as [Gr Gs].
  apply Z.leb_gt in Gr. apply Z.leb_gt in Gs.
  pose proof (be_z_nonneg (firstn 32 sig)) as R0.
  pose proof (be_z_nonneg (firstn 32 (skipn 32 sig))) as S0.
  rewrite (Z.mod_small _ _ (conj R0 Gr)), (Z.mod_small _ _ (conj S0 Gs)). reflexivity.
Qed.

(* version 1 never recovers less than version 2 on a signature version 2 accepts: an accepted
   version-2 signature has r, s < n, i.e. lies outside the guard *)
Lemma recover_v2_implies_v1 msg sig q :
  substrate_recover_v2 msg sig = Some q -> substrate_recover_v1 msg sig = Some q.
Proof.
  intro H. pose proof H as H2. unfold substrate_recover_v2 in H2.
  destruct (ecrecover_accepts _ _ _ H2) as (_ & _ & _ & R & S).
  rewrite recover_v1_eq_v2; [exact H|].
  unfold host_recover_v1_guard. apply orb_false_iff. split; apply Z.leb_gt; lia.
Qed.

(* the in-place rewrite of sig[64] happens exactly for the Ethereum-style ids (and the ids above
   30, which are rejected afterwards) *)
Lemma host_recover_mutates_spec sig :
  host_recover_mutates sig = true <-> (27 <= b2n (nth 64 sig Byte.x00))%N.
Proof. unfold host_recover_mutates. apply N.leb_le. Qed.

(* evaluated witness: r = n + 0x11261c31b1eaa8223a7ead919ccb36a9 *)
Definition v1w_msg := be_bytes 32 0x74014f9ab8a85b96e8666f76ab2ce65a61d88c95ecebd03dd125ccb24674665d.
Definition v1w_sig := be_bytes 65 0xfffffffffffffffffffffffffffffffecbd4f9186133485dfa510c1e6d0177ea7911e9b50271a8e39adaf8f1da7663ef03808646be8f39be6545f4a0e7b2d2e901.
Definition v1w_key := be_bytes 33 0x021937eeed0727721a4ef04db430f1edabd40ca8d818993cf6ea6319a22aea83eb.
Lemma v1w_guard : host_recover_v1_guard v1w_sig = true.
Proof. vm_cast_no_check (eq_refl true). Qed.
Lemma v1w_v1 : option_map serialize_compressed (substrate_recover_v1 v1w_msg v1w_sig) = Some v1w_key.
Proof. vm_cast_no_check (eq_refl (Some v1w_key)). Qed.
Lemma v1w_v2 : substrate_recover_v2 v1w_msg v1w_sig = None.
Proof. vm_cast_no_check (eq_refl (@None (Z * Z))). Qed.
