(* C29/ModelSr25519.v — sr25519 (schnorrkel) signature verification (definitions only).
   Layers:
     ristretto255 (RFC 9496): decode / encode / equality over the Edwards arithmetic of
       ModelEd25519.v;
     schnorrkel transcripts over Merlin (Hash/Strobe.v): the signing context
       SigningContext("substrate").bytes(msg) and the pre-audit (schnorrkel 0.1.1) transcript
       Transcript::new("substrate") + "sign-bytes";
     the reference verdicts -- what Substrate computes:
       [sr25519_verify_ref]             sp_core::sr25519::Pair::verify            (sr25519_verify v2)
       [sr25519_verify_deprecated_ref]  sp_core::sr25519::Pair::verify_deprecated (sr25519_verify v1)
                                        = schnorrkel verify_simple_preaudit_deprecated
     the gossamer functions lib/crypto/sr25519 {VerifySignature, PublicKey.Verify,
       PublicKey.VerifyDeprecated} and ext_crypto_sr25519_verify_version_1/2: the repaired code
       (fixes/C29-sr25519-*.patch) and, separately named [..._prefix], the code as found. *)
From Coq Require Import String.
From Common Require Import Bytes.
From Hash Require Import Strobe.
From C29 Require Import ModelField ModelEd25519.
Local Open Scope Z_scope.

(* ---- ristretto255 *)
Definition invsqrt_a_minus_d : Z := 54469307008909316920995813868745141605393597292927456921205312896311721017578.

Definition fe_abs (x : Z) : Z := if Z.odd x then fe_neg x else x.

(* RFC 9496 4.2 SQRT_RATIO_M1(u, v); u, v reduced *)
Definition sqrt_ratio_m1 (u v : Z) : bool * Z :=
  let v3 := fe_mul (fe_sqr v) v in
  let v7 := fe_mul (fe_sqr v3) v in
  let r := fe_mul (fe_mul u v3) (fe_pow (fe_mul u v7) exp_p58) in
  let check := fe_mul v (fe_sqr r) in
  let correct := check =? u in
  let flipped := check =? fe_neg u in
  let flipped_i := check =? fe_mul (fe_neg u) sqrt_m1 in
  let r := if flipped || flipped_i then fe_mul r sqrt_m1 else r in
  (correct || flipped, fe_abs r).

(* RFC 9496 4.3.1 *)
Definition ristretto_decode (b : list byte) : option point :=
  if negb (length b =? 32)%nat then None else
  let s := Z.of_N (le_val b) in
  if (p25519 <=? s) || Z.odd s then None else
  let ss := fe_sqr s in
  let u1 := fe_sub 1 ss in
  let u2 := fe_add 1 ss in
  let u2s := fe_sqr u2 in
  let v := fe_sub (fe_neg (fe_mul ed_d (fe_sqr u1))) u2s in
  let '(sq, inv) := sqrt_ratio_m1 1 (fe_mul v u2s) in
  let dx := fe_mul inv u2 in
  let dy := fe_mul (fe_mul inv dx) v in
  let x := fe_abs (fe_mul (fe_mul 2 s) dx) in
  let y := fe_mul u1 dy in
  let t := fe_mul x y in
  if negb sq || Z.odd t || (y =? 0) then None else Some (mkpt x y 1 t).

(* RFC 9496 4.3.2 *)
Definition ristretto_encode (P : point) : list byte :=
  let x0 := px P in let y0 := py P in let z0 := pz P in let t0 := pt P in
  let u1 := fe_mul (fe_add z0 y0) (fe_sub z0 y0) in
  let u2 := fe_mul x0 y0 in
  let '(_, inv) := sqrt_ratio_m1 1 (fe_mul u1 (fe_sqr u2)) in
  let den1 := fe_mul inv u1 in
  let den2 := fe_mul inv u2 in
  let z_inv := fe_mul (fe_mul den1 den2) t0 in
  let ix0 := fe_mul x0 sqrt_m1 in
  let iy0 := fe_mul y0 sqrt_m1 in
  let ench := fe_mul den1 invsqrt_a_minus_d in
  let rotate := Z.odd (fe_mul t0 z_inv) in
  let x := if rotate then iy0 else x0 in
  let y := if rotate then ix0 else y0 in
  let den_inv := if rotate then ench else den2 in
  let y := if Z.odd (fe_mul x z_inv) then fe_neg y else y in
  le_bytes 32 (Z.to_N (fe_abs (fe_mul den_inv (fe_sub z0 y)))).

(* RFC 9496 4.3.3: x1 y2 == y1 x2  or  y1 y2 == x1 x2 *)
Definition ristretto_eq (P Q : point) : bool :=
  (fe_mul (px P) (py Q) =? fe_mul (py P) (px Q)) || (fe_mul (py P) (py Q) =? fe_mul (px P) (px Q)).

(* ---- labels (evaluated byte lists; no [string] reaches the extraction) *)
Definition lbl_signing_context : list byte := Eval vm_compute in list_byte_of_string "SigningContext".
Definition lbl_substrate : list byte := Eval vm_compute in list_byte_of_string "substrate".
Definition lbl_sign_bytes : list byte := Eval vm_compute in list_byte_of_string "sign-bytes".
Definition lbl_proto_name : list byte := Eval vm_compute in list_byte_of_string "proto-name".
Definition lbl_schnorr_sig : list byte := Eval vm_compute in list_byte_of_string "Schnorr-sig".
Definition lbl_sign_pk : list byte := Eval vm_compute in list_byte_of_string "sign:pk".
Definition lbl_sign_R : list byte := Eval vm_compute in list_byte_of_string "sign:R".
Definition lbl_sign_c : list byte := Eval vm_compute in list_byte_of_string "sign:c".
Definition lbl_pk : list byte := Eval vm_compute in list_byte_of_string "pk".
Definition lbl_no : list byte := Eval vm_compute in list_byte_of_string "no".

(* the labels under which the public key, the commitment R and the challenge enter the transcript *)
Record sr_labels := mklabels { l_pk : list byte; l_R : list byte; l_c : list byte }.
Definition labels_current : sr_labels := mklabels lbl_sign_pk lbl_sign_R lbl_sign_c.
Definition labels_preaudit : sr_labels := mklabels lbl_pk lbl_no [].

(* signing_context(b"substrate").bytes(msg) *)
Definition signing_transcript (msg : list byte) : strobe :=
  append_message (append_message (transcript_new lbl_signing_context) [] lbl_substrate) lbl_sign_bytes msg.
(* schnorrkel 0.1.1: Transcript::new(b"substrate"), append_message(b"sign-bytes", msg) *)
Definition preaudit_transcript (msg : list byte) : strobe :=
  append_message (transcript_new lbl_substrate) lbl_sign_bytes msg.

(* proto_name("Schnorr-sig"); commit_point(l_pk, A); commit_point(l_R, R); challenge_scalar(l_c):
   64 challenge bytes reduced modulo L *)
Definition sr_challenge (t : strobe) (lb : sr_labels) (pk rb : list byte) : Z :=
  let t := append_message t lbl_proto_name lbl_schnorr_sig in
  let t := append_message t (l_pk lb) pk in
  let t := append_message t (l_R lb) rb in
  Z.of_N (le_val (fst (challenge_bytes t (l_c lb) 64))) mod ed_L.

(* R' = [s]B - [k]A *)
Definition sr_rprime (A : point) (k s : Z) : point := double_smul s ed_B k (pt_neg A).

(* the scalar half with the schnorrkel marker bit (bit 7 of byte 63) cleared *)
Definition sr_marked (sig : list byte) : bool := N.testbit (b2n (nth 63 sig Byte.x00)) 7.
Definition sr_scalar (sig : list byte) : Z := Z.land (Z.of_N (le_val (skipn 32 sig))) mask255.

(* PublicKey::verify(t, signature): R'.compress() == signature.R as byte strings *)
Definition sr_equation (A : point) (t : strobe) (lb : sr_labels) (pk sig : list byte) : bool :=
  let rb := firstn 32 sig in
  bytes_eqb (ristretto_encode (sr_rprime A (sr_challenge t lb pk rb) (sr_scalar sig))) rb.

(* ---- reference verdicts (Substrate) *)
(* sp_core::sr25519::Pair::verify: Signature::from_bytes (64 bytes, marker bit set, scalar
   canonical), PublicKey::from_bytes (32 bytes, a ristretto255 encoding; the identity is a valid
   key), verify_simple under the signing context *)
Definition sr25519_verify_ref (pk msg sig : list byte) : bool :=
  if negb ((length pk =? 32)%nat && (length sig =? 64)%nat) then false else
  if negb (sr_marked sig) then false else
  if ed_L <=? sr_scalar sig then false else
  match ristretto_decode pk with
  | Some A => sr_equation A (signing_transcript msg) labels_current pk sig
  | None => false
  end.

(* sp_core::sr25519::Pair::verify_deprecated = verify_simple_preaudit_deprecated: a signature that
   parses as a marked schnorrkel signature is checked under the signing context only; any other is
   parsed ignoring the marker bit and checked under the pre-audit transcript and labels only *)
Definition sr25519_verify_deprecated_ref (pk msg sig : list byte) : bool :=
  if negb ((length pk =? 32)%nat && (length sig =? 64)%nat) then false else
  if ed_L <=? sr_scalar sig then false else
  match ristretto_decode pk with
  | Some A =>
    if sr_marked sig then sr_equation A (signing_transcript msg) labels_current pk sig
    else sr_equation A (preaudit_transcript msg) labels_preaudit pk sig
  | None => false
  end.

(* ---- gossamer lib/crypto/sr25519, repaired (fixes/C29-sr25519-*.patch).
   NewPublicKey: 32 bytes and a ristretto255 encoding, else an error.  PublicKey.Verify: 64 bytes,
   marker bit, canonical scalar, else an error; then the schnorrkel equation on the re-encoded key
   (the encoding of a decoded key is the input: checked per case by the driver).
   verdicts: VOk (true, nil) / VFail (false, nil) / VErr (error). *)
Definition sr_go_verify (A : point) (pk msg sig : list byte) : sigverdict :=
  if negb (length sig =? 64)%nat then VErr
  else if negb (sr_marked sig) then VErr
  else if ed_L <=? sr_scalar sig then VErr
  else if sr_equation A (signing_transcript msg) labels_current pk sig then VOk else VFail.

Definition sr_go_verify_deprecated (A : point) (pk msg sig : list byte) : sigverdict :=
  if negb (length sig =? 64)%nat then VErr
  else if ed_L <=? sr_scalar sig then VErr
  else if sr_marked sig then
    (if sr_equation A (signing_transcript msg) labels_current pk sig then VOk else VFail)
  else
    (if sr_equation A (preaudit_transcript msg) labels_preaudit pk sig then VOk else VFail).

(* VerifySignature(publicKey, signature, message) *)
Definition sr25519_verify_signature (pk sig msg : list byte) : sigverdict :=
  if negb (length pk =? 32)%nat then VErr else
  match ristretto_decode pk with
  | None => VErr
  | Some A => sr_go_verify A pk msg sig
  end.
(* NewPublicKey(pk) then VerifyDeprecated(msg, sig) *)
Definition sr25519_verify_deprecated (pk sig msg : list byte) : sigverdict :=
  if negb (length pk =? 32)%nat then VErr else
  match ristretto_decode pk with
  | None => VErr
  | Some A => sr_go_verify_deprecated A pk msg sig
  end.

Definition accepts (v : sigverdict) : bool := match v with VOk => true | _ => false end.

(* ext_crypto_sr25519_verify_version_1 / _2 on a 64-byte signature and a 32-byte key: 1 iff the
   library accepts (VerifyDeprecated / Verify) *)
Definition host_sr25519_verify_v1 (pk msg sig : list byte) : bool :=
  accepts (sr25519_verify_deprecated pk sig msg).
Definition host_sr25519_verify_v2 (pk msg sig : list byte) : bool :=
  accepts (sr25519_verify_signature pk sig msg).

(* ---- gossamer as found (go-schnorrkel v1.1.0 underneath) *)
(* go-schnorrkel PublicKey.Verify: rejects the identity key with an error, decodes R (an error if
   it is not a ristretto255 encoding) and compares R' with R as group elements *)
Definition sr_equation_go (A R : point) (t : strobe) (lb : sr_labels) (pk sig : list byte) : bool :=
  ristretto_eq (sr_rprime A (sr_challenge t lb pk (firstn 32 sig)) (sr_scalar sig)) R.

Definition sr_go_verify_prefix (A : point) (pk msg sig : list byte) : sigverdict :=
  if negb (length sig =? 64)%nat then VErr
  else if negb (sr_marked sig) then VErr
  else match ristretto_decode (firstn 32 sig) with
  | None => VErr
  | Some R =>
    if ed_L <=? sr_scalar sig then VErr
    else if ristretto_eq A pt_zero then VErr
    else if sr_equation_go A R (signing_transcript msg) labels_current pk sig then VOk else VFail
  end.

(* VerifyDeprecated as found: the marker bit is ignored, the signing context is tried first and
   then the pre-audit transcript -- but with the current labels *)
Definition sr_go_verify_deprecated_prefix (A : point) (pk msg sig : list byte) : sigverdict :=
  if negb (length sig =? 64)%nat then VErr
  else match ristretto_decode (firstn 32 sig) with
  | None => VErr
  | Some R =>
    if ed_L <=? sr_scalar sig then VErr
    else if ristretto_eq A pt_zero then VErr
    else if sr_equation_go A R (signing_transcript msg) labels_current pk sig then VOk
    else if sr_equation_go A R (preaudit_transcript msg) labels_current pk sig then VOk else VFail
  end.

Definition sr25519_verify_signature_prefix (pk sig msg : list byte) : sigverdict :=
  if negb (length pk =? 32)%nat then VErr else
  match ristretto_decode pk with
  | None => VErr
  | Some A => sr_go_verify_prefix A pk msg sig
  end.
Definition sr25519_verify_deprecated_prefix (pk sig msg : list byte) : sigverdict :=
  if negb (length pk =? 32)%nat then VErr else
  match ristretto_decode pk with
  | None => VErr
  | Some A => sr_go_verify_deprecated_prefix A pk msg sig
  end.

(* ext_crypto_sr25519_verify_version_1 as found: 0 only for an undecodable key, 1 otherwise --
   also when VerifyDeprecated fails; version 2 as found hands the all-zero key to version 1 *)
Definition host_sr25519_verify_v1_prefix (pk msg sig : list byte) : bool :=
  match ristretto_decode pk with Some _ => true | None => false end.
Definition host_sr25519_verify_v2_prefix (pk msg sig : list byte) : bool :=
  if bytes_eqb pk (zeros 32) then host_sr25519_verify_v1_prefix pk msg sig
  else accepts (sr25519_verify_signature_prefix pk sig msg).
