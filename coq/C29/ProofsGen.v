(* C29/ProofsGen.v — the length constants of the Go packages (regenerated from the source into
   Gen.v on every run) are the lengths the models and the theorems use: a changed constant breaks
   an obligation here. *)
From Coq Require Import ZArith Lia.
From Common Require Import Bytes.
From C29 Require Gen.
From C29 Require Import Model ModelField ModelEd25519 ModelSecp256k1 ModelHost ModelSr25519
  ProofsSig ProofsSr25519.
Local Open Scope Z_scope.

Example gen_ed25519_public_key_length : Gen.ed25519_public_key_length = 32. Proof. reflexivity. Qed.
Example gen_ed25519_signature_length : Gen.ed25519_signature_length = 64. Proof. reflexivity. Qed.
Example gen_secp256k1_signature_length : Gen.secp256k1_signature_length = 64. Proof. reflexivity. Qed.
Example gen_secp256k1_signature_length_recovery : Gen.secp256k1_signature_length_recovery = 65. Proof. reflexivity. Qed.
Example gen_secp256k1_message_length : Gen.secp256k1_message_length = 32. Proof. reflexivity. Qed.
Example gen_sr25519_public_key_length : Gen.sr25519_public_key_length = 32. Proof. reflexivity. Qed.
Example gen_sr25519_signature_length : Gen.sr25519_signature_length = 64. Proof. reflexivity. Qed.

(* the length checks of the models, stated with the generated constants *)
Lemma ed25519_lengths_gen pk sig msg :
  ed25519_verify_signature pk sig msg = VErr <->
  (Z.of_nat (length pk) <> Gen.ed25519_public_key_length
   \/ Z.of_nat (length sig) <> Gen.ed25519_signature_length).
Proof.
  rewrite ed25519_verify_signature_err, gen_ed25519_public_key_length, gen_ed25519_signature_length. lia.
Qed.

Lemma secp256k1_lengths_gen :
  (forall pk msg sig, secp256k1_verify_signature pk sig msg = true ->
     Z.of_nat (length msg) = Gen.secp256k1_message_length
     /\ Z.of_nat (length sig) = Gen.secp256k1_signature_length)
  /\ (forall msg sig q, ecrecover msg sig = Some q ->
     Z.of_nat (length msg) = Gen.secp256k1_message_length
     /\ Z.of_nat (length sig) = Gen.secp256k1_signature_length_recovery).
Proof.
  rewrite gen_secp256k1_message_length, gen_secp256k1_signature_length,
    gen_secp256k1_signature_length_recovery.
  split.
  - intros pk msg sig H. unfold secp256k1_verify_signature in H.
    destruct (ecdsa_verify_accepts _ _ _ H) as (A & B & _). lia.
  - intros msg sig q H. destruct (ecrecover_accepts _ _ _ H) as (A & B & _). lia.
Qed.

Lemma sr25519_lengths_gen pk msg sig : sr25519_verify_deprecated_ref pk msg sig = true ->
  Z.of_nat (length pk) = Gen.sr25519_public_key_length
  /\ Z.of_nat (length sig) = Gen.sr25519_signature_length.
Proof.
  rewrite gen_sr25519_public_key_length, gen_sr25519_signature_length.
  intro H. destruct (sr25519_verify_deprecated_ref_accepts _ _ _ H) as (A & B & _). lia.
Qed.

Lemma length_constants_all :
  (forall pk sig msg, ed25519_verify_signature pk sig msg = VErr <->
     (Z.of_nat (length pk) <> Gen.ed25519_public_key_length
      \/ Z.of_nat (length sig) <> Gen.ed25519_signature_length))
  /\ (forall pk msg sig, secp256k1_verify_signature pk sig msg = true ->
     Z.of_nat (length msg) = Gen.secp256k1_message_length
     /\ Z.of_nat (length sig) = Gen.secp256k1_signature_length)
  /\ (forall msg sig q, ecrecover msg sig = Some q ->
     Z.of_nat (length msg) = Gen.secp256k1_message_length
     /\ Z.of_nat (length sig) = Gen.secp256k1_signature_length_recovery)
  /\ (forall pk msg sig, sr25519_verify_deprecated_ref pk msg sig = true ->
     Z.of_nat (length pk) = Gen.sr25519_public_key_length
     /\ Z.of_nat (length sig) = Gen.sr25519_signature_length).
Proof.
  exact (conj ed25519_lengths_gen (conj (proj1 secp256k1_lengths_gen)
        (conj (proj2 secp256k1_lengths_gen) sr25519_lengths_gen))).
Qed.
