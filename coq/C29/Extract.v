From Coq Require Import Extraction ExtrOcamlBasic.
From Common Require Import Bytes Drv.
From C29 Require Import Model ModelField ModelEd25519 ModelSecp256k1 ModelHost.
Extraction "model.ml" drv_b2n drv_n2b drv_z_of_n drv_n_of_z drv_nat_of_n drv_n_of_nat
  blake2b128 blake2b8 blake2b_hash keccak_256 twox64 twox128 twox256 sha2_256 all_digests
  verify_both verify_go verify_zip215 zip215_guard ed25519_verify_signature ed25519_case pt_decode ed_L
  secp256k1_verify_signature secp256k1_pubkey_verify
  recover_public_key recover_public_key_compressed
  recover_public_key_prefix recover_public_key_compressed_prefix ecdsa_verify parse_pubkey
  host_ed25519_case host_ed25519_verify host_ecdsa_verify substrate_ecdsa_verify host_ecdsa_guard
  host_recover host_recover_compressed.
