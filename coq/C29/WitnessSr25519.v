(* C29/WitnessSr25519.v — the evaluated sr25519 witnesses Properties.v depends on (kept few: coqchk
   re-evaluates them without the VM in the thorough tier, about three minutes per scalar
   multiplication, so the witnesses under the identity key use s = 0, where every coordinate is 0
   or 1; each is evaluated once, by the VM, at Qed; the published vectors are in VectorsSr25519.v).
   (1) sp_core unit test verify_from_old_wasm_works: key of the all-zero seed, "SUBSTRATE", a
       schnorrkel 0.1.1 signature -- accepted by Substrate's verify_deprecated, rejected by
       VerifyDeprecated as found (it used the current labels on the pre-audit transcript).
   (2) (evaluated in VectorsSr25519.v, outside the closure of Properties.v) the sr25519-crust
       signature with its marker bit cleared: Substrate's verify_deprecated treats it as a
       pre-audit signature and rejects it; VerifyDeprecated as found ignored the bit and accepted it.
   (3) the identity key 00..00 with the signature R = 00..00, s = 0, marker bit: valid for
       Substrate, an error in go-schnorrkel.
   (4) ext_crypto_sr25519_verify_version_1 as found answered 1 for a forged unmarked signature,
       (5) version 2 as found answered 1 for a forged marked signature, both under the zero key. *)
From Coq Require Import String.
From Common Require Import Bytes.
From Hash Require Import Strobe.
From C29 Require Import ModelField ModelEd25519 ModelSr25519.
Local Open Scope Z_scope.

Definition old1_pk := be_bytes 32 0xdef12e42f3e487e9b14095aa8d5cc16a33491f1b50dadcf8811d1480f3fa8627.
Definition old1_msg : list byte := Eval vm_compute in list_byte_of_string "SUBSTRATE".
Definition old1_sig := be_bytes 64 0x28a854d54903e056f89581c691c1f7d2ff39f8f896c9e9c22475e60902cc2b3547199e0e91fa32902028f2ca2355e8cdd16cfe19ba5e8b658c94aa80f3b81a00.

Lemma w1a : sr25519_verify_deprecated_ref old1_pk old1_msg old1_sig = true.
Proof. vm_cast_no_check (eq_refl true). Qed.
Lemma w1c : sr25519_verify_deprecated_prefix old1_pk old1_sig old1_msg = VFail.
Proof. vm_cast_no_check (eq_refl VFail). Qed.
Lemma w1d : sr_marked old1_sig = false.
Proof. vm_cast_no_check (eq_refl false). Qed.

Definition crust_pk := be_bytes 32 0x46ebddef8cd9bb167dc30878d7113b7e168e6f0646beffd77d69d39bad76b47a.
Definition crust_msg : list byte := Eval vm_compute in list_byte_of_string "this is a message".
Definition crust_sig := be_bytes 64 0x4e172314444b8f820bb54c22e95076f220ed25373e5c178234aa6c211d29271244b947e3ff3418ff6b45fd1df1140c8cbff69fc58ee6dc96df70936a2bb74b82.
Definition crust_sig_unmarked := be_bytes 64 0x4e172314444b8f820bb54c22e95076f220ed25373e5c178234aa6c211d29271244b947e3ff3418ff6b45fd1df1140c8cbff69fc58ee6dc96df70936a2bb74b02.

Definition zero_pk : list byte := zeros 32.
Definition zero_sig : list byte := zeros 63 ++ [n2b 128].
Lemma w3a : sr25519_verify_ref zero_pk crust_msg zero_sig = true.
Proof. vm_cast_no_check (eq_refl true). Qed.
Lemma w3b : sr25519_verify_signature_prefix zero_pk zero_sig crust_msg = VErr.
Proof. vm_cast_no_check (eq_refl VErr). Qed.

(* R = the crust key (some group element other than the identity), s = 0, no marker bit, under
   the identity key: R' = identity <> R whatever the challenge (cheap: all coordinates are 0 or 1) *)
Definition forged_zero_sig_unmarked : list byte := crust_pk ++ zeros 32.
Lemma w4a : host_sr25519_verify_v1_prefix zero_pk crust_msg forged_zero_sig_unmarked = true.
Proof. vm_cast_no_check (eq_refl true). Qed.
Lemma w4b : sr25519_verify_deprecated_ref zero_pk crust_msg forged_zero_sig_unmarked = false.
Proof. vm_cast_no_check (eq_refl false). Qed.

(* R = the crust key (some other group element), s = 0, marker bit: R' = identity <> R *)
Definition forged_zero_sig : list byte := crust_pk ++ zeros 31 ++ [n2b 128].
Lemma w5a : host_sr25519_verify_v2_prefix zero_pk crust_msg forged_zero_sig = true.
Proof. vm_cast_no_check (eq_refl true). Qed.
Lemma w5b : sr25519_verify_ref zero_pk crust_msg forged_zero_sig = false.
Proof. vm_cast_no_check (eq_refl false). Qed.
