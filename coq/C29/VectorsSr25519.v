(* C29/VectorsSr25519.v -- published vectors for the ristretto255 / sr25519 reference of
   ModelSr25519.v, evaluated with vm_compute (compiled with the library; Properties.v imports only
   the witnesses of WitnessSr25519.v).
   (1) RFC 9496 A.1: the encodings of [0]B .. [15]B decode and re-encode to themselves, and are the
       multiples of the Ed25519 base point; A.2 / A.3: the 29 invalid encodings are rejected.
   (2) sr25519-crust test vector (a signature made by the Rust schnorrkel): accepted.
   (3) sp_core sr25519 unit tests verify_from_old_wasm_works / verify_known_old_message_should_work
       (signatures made by schnorrkel 0.1.1): accepted by verify_deprecated, rejected by verify. *)
From Coq Require Import String.
From Common Require Import Bytes.
From Hash Require Import Strobe.
From C29 Require Import ModelField ModelEd25519 ModelSr25519.
Local Open Scope Z_scope.

Definition hx32 (v : N) : list byte := be_bytes 32 v.
Definition hx64 (v : N) : list byte := be_bytes 64 v.
Definition small_multiples : list (list byte) :=
  [ hx32 0x0000000000000000000000000000000000000000000000000000000000000000;
    hx32 0xe2f2ae0a6abc4e71a884a961c500515f58e30b6aa582dd8db6a65945e08d2d76;
    hx32 0x6a493210f7499cd17fecb510ae0cea23a110e8d5b901f8acadd3095c73a3b919;
    hx32 0x94741f5d5d52755ece4f23f044ee27d5d1ea1e2bd196b462166b16152a9d0259;
    hx32 0xda80862773358b466ffadfe0b3293ab3d9fd53c5ea6c955358f568322daf6a57;
    hx32 0xe882b131016b52c1d3337080187cf768423efccbb517bb495ab812c4160ff44e;
    hx32 0xf64746d3c92b13050ed8d80236a7f0007c3b3f962f5ba793d19a601ebb1df403;
    hx32 0x44f53520926ec81fbd5a387845beb7df85a96a24ece18738bdcfa6a7822a176d;
    hx32 0x903293d8f2287ebe10e2374dc1a53e0bc887e592699f02d077d5263cdd55601c;
    hx32 0x02622ace8f7303a31cafc63f8fc48fdc16e1c8c8d234b2f0d6685282a9076031;
    hx32 0x20706fd788b2720a1ed2a5dad4952b01f413bcf0e7564de8cdc816689e2db95f;
    hx32 0xbce83f8ba5dd2fa572864c24ba1810f9522bc6004afe95877ac73241cafdab42;
    hx32 0xe4549ee16b9aa03099ca208c67adafcafa4c3f3e4e5303de6026e3ca8ff84460;
    hx32 0xaa52e000df2e16f55fb1032fc33bc42742dad6bd5a8fc0be0167436c5948501f;
    hx32 0x46376b80f409b29dc2b5f6f0c52591990896e5716f41477cd30085ab7f10301e;
    hx32 0xe0c418f7c8d9c4cdd7395b93ea124f3ad99021bb681dfc3302a9d99a2e53e64e ].
Definition bad_encodings : list (list byte) :=
  [ hx32 0x00ffffffffffffffffffffffffffffffffffffffffffffffffffffffffffffff;
    hx32 0xffffffffffffffffffffffffffffffffffffffffffffffffffffffffffffff7f;
    hx32 0xf3ffffffffffffffffffffffffffffffffffffffffffffffffffffffffffff7f;
    hx32 0xedffffffffffffffffffffffffffffffffffffffffffffffffffffffffffff7f;
    hx32 0x0100000000000000000000000000000000000000000000000000000000000000;
    hx32 0x01ffffffffffffffffffffffffffffffffffffffffffffffffffffffffffff7f;
    hx32 0xed57ffd8c914fb201471d1c3d245ce3c746fcbe63a3679d51b6a516ebebe0e20;
    hx32 0xc34c4e1826e5d403b78e246e88aa051c36ccf0aafebffe137d148a2bf9104562;
    hx32 0xc940e5a4404157cfb1628b108db051a8d439e1a421394ec4ebccb9ec92a8ac78;
    hx32 0x47cfc5497c53dc8e61c91d17fd626ffb1c49e2bca94eed052281b510b1117a24;
    hx32 0xf1c6165d33367351b0da8f6e4511010c68174a03b6581212c71c0e1d026c3c72;
    hx32 0x87260f7a2f12495118360f02c26a470f450dadf34a413d21042b43b9d93e1309;
    hx32 0x26948d35ca62e643e26a83177332e6b6afeb9d08e4268b650f1f5bbd8d81d371;
    hx32 0x4eac077a713c57b4f4397629a4145982c661f48044dd3f96427d40b147d9742f;
    hx32 0xde6a7b00deadc788eb6b6c8d20c0ae96c2f2019078fa604fee5b87d6e989ad7b;
    hx32 0xbcab477be20861e01e4a0e295284146a510150d9817763caf1a6f4b422d67042;
    hx32 0x2a292df7e32cababbd9de088d1d1abec9fc0440f637ed2fba145094dc14bea08;
    hx32 0xf4a9e534fc0d216c44b218fa0c42d99635a0127ee2e53c712f70609649fdff22;
    hx32 0x8268436f8c4126196cf64b3c7ddbda90746a378625f9813dd9b8457077256731;
    hx32 0x2810e5cbc2cc4d4eece54f61c6f69758e289aa7ab440b3cbeaa21995c2f4232b;
    hx32 0x3eb858e78f5a7254d8c9731174a94f76755fd3941c0ac93735c07ba14579630e;
    hx32 0xa45fdc55c76448c049a1ab33f17023edfb2be3581e9c7aade8a6125215e04220;
    hx32 0xd483fe813c6ba647ebbfd3ec41adca1c6130c2beeee9d9bf065c8d151c5f396e;
    hx32 0x8a2e1d30050198c65a54483123960ccc38aef6848e1ec8f5f780e8523769ba32;
    hx32 0x32888462f8b486c68ad7dd9610be5192bbeaf3b443951ac1a8118419d9fa097b;
    hx32 0x227142501b9d4355ccba290404bde41575b037693cef1f438c47f8fbf35d1165;
    hx32 0x5c37cc491da847cfeb9281d407efc41e15144c876e0170b499a96a22ed31e01e;
    hx32 0x445425117cb8c90edcbc7c1cc0e74f747f2c1efa5630a967c64f287792a48a4b;
    hx32 0xecffffffffffffffffffffffffffffffffffffffffffffffffffffffffffff7f ].

Definition opt_encode (o : option point) : list byte :=
  match o with Some P => ristretto_encode P | None => [] end.
Fixpoint multiples (k : nat) (P : point) : list point :=
  match k with O => [] | S k' => P :: multiples k' (pt_add P ed_B) end.

Fixpoint lbytes_eqb (a b : list (list byte)) : bool :=
  match a, b with
  | [], [] => true
  | x :: a', y :: b' => bytes_eqb x y && lbytes_eqb a' b'
  | _, _ => false
  end.

(* every Example below is one boolean (or verdict) evaluated once by the VM at Qed *)
Example rfc9496_small_multiples_roundtrip :
  lbytes_eqb (map (fun b => opt_encode (ristretto_decode b)) small_multiples) small_multiples = true.
Proof. vm_cast_no_check (eq_refl true). Qed.
Example rfc9496_small_multiples_are_multiples :
  lbytes_eqb (map ristretto_encode (multiples 16 pt_zero)) small_multiples = true.
Proof. vm_cast_no_check (eq_refl true). Qed.
Example rfc9496_small_multiples_equal :
  forallb (fun pq => match ristretto_decode (fst pq) with
                     | Some P => ristretto_eq P (snd pq) | None => false end)
          (combine small_multiples (multiples 16 pt_zero)) = true.
Proof. vm_cast_no_check (eq_refl true). Qed.
Example rfc9496_bad_encodings :
  forallb (fun b => match ristretto_decode b with None => true | Some _ => false end) bad_encodings = true.
Proof. vm_cast_no_check (eq_refl true). Qed.

(* sr25519-crust test/ds.cpp (quoted by go-schnorrkel TestVerify_rust): see WitnessSr25519.v for
   the reference verdict; here the repaired model, and a tampered message *)
Definition crust_pk := hx32 0x46ebddef8cd9bb167dc30878d7113b7e168e6f0646beffd77d69d39bad76b47a.
Definition crust_msg : list byte := Eval vm_compute in String.list_byte_of_string "this is a message"%string.
Definition crust_sig := hx64 0x4e172314444b8f820bb54c22e95076f220ed25373e5c178234aa6c211d29271244b947e3ff3418ff6b45fd1df1140c8cbff69fc58ee6dc96df70936a2bb74b82.
Example crust_vector_ref : sr25519_verify_ref crust_pk crust_msg crust_sig = true.
Proof. vm_cast_no_check (eq_refl true). Qed.
Example crust_vector_prefix : sr25519_verify_signature_prefix crust_pk crust_sig crust_msg = VOk.
Proof. vm_cast_no_check (eq_refl VOk). Qed.
Example crust_vector_deprecated : sr25519_verify_deprecated crust_pk crust_sig crust_msg = VOk.
Proof. vm_cast_no_check (eq_refl VOk). Qed.
Example crust_vector_tampered : sr25519_verify_signature crust_pk crust_sig (n2b 0 :: crust_msg) = VFail.
Proof. vm_cast_no_check (eq_refl VFail). Qed.

(* sp_core: verify_known_old_message_should_work *)
Definition old2_pk := hx32 0xb4bfa1f7a5166695eb75299fd1c4c03ea212871c342f2c5dfea0902b2c246918.
Definition old2_sig := hx64 0x5a9755f069939f45d96aaf125cf5ce7ba1db998686f87f2fb3cbdea922078741a73891ba265f70c31436e18a9acd14d189d73c12317ab6c313285cd938453202.
Definition old2_msg : list byte := map n2b [86; 101; 114; 105; 102; 121; 105; 110; 103; 32; 116; 104; 97; 116; 32; 73; 32; 97; 109; 32; 116; 104; 101; 32; 111; 119; 110; 101; 114; 32; 111; 102; 32; 53; 71; 57; 104; 81; 76; 100; 115; 75; 81; 115; 119; 78; 80; 103; 66; 52; 57; 57; 68; 101; 65; 53; 80; 107; 70; 66; 98; 103; 107; 76; 80; 74; 87; 107; 107; 83; 54; 70; 65; 77; 54; 120; 71; 81; 56; 120; 68; 46; 32; 72; 97; 115; 104; 58; 32; 50; 50; 49; 52; 53; 53; 97; 51; 10]%N.
Example old_message_vector_ref : sr25519_verify_deprecated_ref old2_pk old2_msg old2_sig = true.
Proof. vm_cast_no_check (eq_refl true). Qed.
Example old_message_vector_not_current : sr25519_verify_ref old2_pk old2_msg old2_sig = false.
Proof. vm_cast_no_check (eq_refl false). Qed.
Example old_message_vector_prefix : sr25519_verify_deprecated_prefix old2_pk old2_sig old2_msg = VFail.
Proof. vm_cast_no_check (eq_refl VFail). Qed.

(* the sr25519-crust signature with its marker bit cleared: rejected by Substrate's
   verify_deprecated (it is taken for a schnorrkel 0.1.1 signature), accepted by VerifyDeprecated
   as found, which ignored the marker bit *)
Definition crust_sig_unmarked := hx64 0x4e172314444b8f820bb54c22e95076f220ed25373e5c178234aa6c211d29271244b947e3ff3418ff6b45fd1df1140c8cbff69fc58ee6dc96df70936a2bb74b02.
Example crust_unmarked_ref : sr25519_verify_deprecated_ref crust_pk crust_msg crust_sig_unmarked = false.
Proof. vm_cast_no_check (eq_refl false). Qed.
Example crust_unmarked_prefix : sr25519_verify_deprecated_prefix crust_pk crust_sig_unmarked crust_msg = VOk.
Proof. vm_cast_no_check (eq_refl VOk). Qed.
