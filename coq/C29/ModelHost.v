(* C29/ModelHost.v — the crypto host functions of lib/runtime/wazero/imports.go on top of the
   library models (definitions only), and the verdicts of Substrate's implementations of the same
   host functions.  The functions read fixed-size buffers from guest memory (32-byte ed25519 key,
   64-byte ed25519 signature, 33-byte ECDSA key, 32-byte message hash, 65-byte recoverable
   signature), so the byte strings here have those lengths.  Batch verification is not modelled
   (the verifier is not started). *)
From Common Require Import Bytes.
From C29 Require Import Model ModelField ModelEd25519 ModelSecp256k1.
Local Open Scope Z_scope.

(* ext_crypto_ed25519_verify_version_1(sig, msg, key): 1 iff NewPublicKey succeeds and
   PublicKey.Verify returns (true, nil) *)
Definition host_ed25519_verify (pk msg sig : list byte) : bool :=
  match ed25519_verify_signature pk sig msg with VOk => true | _ => false end.
(* both at once for the driver: (host verdict, ZIP-215 reference) *)
Definition host_ed25519_case (pk msg sig : list byte) : bool * bool :=
  let '(g, z) := ed25519_case pk sig msg in (match g with VOk => true | _ => false end, z).

(* ext_crypto_ecdsa_verify_version_2(sig, msg, key): reads only 64 signature bytes, decodes the
   33-byte key, hashes the message with BLAKE2b-256 and calls PublicKey.Verify *)
Definition host_ecdsa_verify (pk msg sig65 : list byte) : bool :=
  match secp256k1_pubkey_verify pk (blake2b_hash msg) (firstn 64 sig65) with
  | PKOk => true
  | _ => false
  end.

(* Substrate (sp_io::crypto::ecdsa_verify version 2 = sp_core::ecdsa::Pair::verify): recover the
   key from the 65-byte signature over blake2_256(msg) -- recovery id sig[64] in 0..3, no offset,
   r and s not overflowing, any S -- and compare it with the given compressed key *)
Definition substrate_ecdsa_verify (pk msg sig65 : list byte) : bool :=
  if negb ((length pk =? 33)%nat && (length sig65 =? 65)%nat) then false else
  let v := b2n (nth 64 sig65 Byte.x00) in
  if (4 <=? v)%N then false else
  match ecdsa_recover_point (blake2b_hash msg) (be_z (firstn 32 sig65))
                            (be_z (firstn 32 (skipn 32 sig65))) v with
  | Some q => bytes_eqb (serialize_compressed q) pk
  | None => false
  end.

(* the class of inputs on which the two can differ (known finding ecdsa-verify-drops-recovery-id):
   the signature is in high-S form, or its recovery id is not one under which the key recovers *)
Definition host_ecdsa_guard (pk msg sig65 : list byte) : bool :=
  (secp_half_n <? be_z (firstn 32 (skipn 32 sig65))) || negb (substrate_ecdsa_verify pk msg sig65).

(* ext_crypto_secp256k1_ecdsa_recover_version_1/2 and ..._compressed_version_1/2 on a 32-byte
   message and a 65-byte signature: Some key bytes (64 bytes: X || Y; 33 bytes compressed) inside
   Result::Ok, None for Result::Err *)
Definition host_recover (msg sig65 : list byte) : option (list byte) :=
  match recover_public_key msg sig65 with
  | RKey k => Some (skipn 1 k)
  | _ => None
  end.
Definition host_recover_compressed (msg sig65 : list byte) : option (list byte) :=
  match recover_public_key_compressed msg sig65 with
  | RKey k => Some k
  | _ => None
  end.

(* ---- the recovery host functions, version by version.
   gossamer: version 2 calls version 1; both go through RecoverPublicKey(Compressed), which
   subtracts 27 from sig[64] in the caller's slice -- here a view of guest memory -- when it is
   at least 27: [host_recover_mutates] is that side effect (observed by the harness, not part of
   the property). *)
Definition host_recover_mutates (sig65 : list byte) : bool := (27 <=? b2n (nth 64 sig65 Byte.x00))%N.

(* Substrate, version 2 (secp256k1 crate = libsecp256k1): recovery id sig[64], minus 27 when above
   26, must be 0..3; RecoverableSignature::from_compact rejects r or s >= n; recover *)
Definition substrate_recover_v2 (msg sig65 : list byte) : option (Z * Z) := ecrecover msg sig65.

(* Substrate, version 1 (the pure-Rust libsecp256k1 crate): Signature::parse_overflowing_slice
   reduces r and s modulo n instead of rejecting them; the rest is the same *)
Definition substrate_recover_v1 (msg sig65 : list byte) : option (Z * Z) :=
  if negb (length msg =? 32)%nat then None else
  if negb (length sig65 =? 65)%nat then None else
  let v0 := b2n (nth 64 sig65 Byte.x00) in
  let v := if (27 <=? v0)%N then (v0 - 27)%N else v0 in
  if (4 <=? v)%N then None else
  ecdsa_recover_point msg (be_z (firstn 32 sig65) mod secp_n)
                      (be_z (firstn 32 (skipn 32 sig65)) mod secp_n) v.

(* the inputs on which version 1 of Substrate can differ from gossamer's (known finding
   ecdsa-recover-v1-strict): r or s is not below the group order *)
Definition host_recover_v1_guard (sig65 : list byte) : bool :=
  (secp_n <=? be_z (firstn 32 sig65)) || (secp_n <=? be_z (firstn 32 (skipn 32 sig65))).

Definition key_xy (q : Z * Z) : list byte := z_be32 (fst q) ++ z_be32 (snd q).
