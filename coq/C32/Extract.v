From Coq Require Import Extraction ExtrOcamlBasic.
From Common Require Import Bytes Drv Outcome.
From C31 Require ModelSpec.
From C32 Require Import Gen Model ModelSpec ModelPrune.
From C32 Require ProofsNeverTwice.
Extraction "model.ml" drv_b2n drv_n2b drv_z_of_n drv_n_of_z drv_nat_of_n drv_n_of_nat
  mkhdr mkbd mkreq mkres init_state run process mkps mkenv mkun
  history_ok_b events_ok_b rejections_ok_b must_reject steps_wf_b accepted classify import_all
  run_t init_tstate tsteps_body_b mkkb mktenv mkts next_asc
  C31.ModelSpec.plan_ok_b
  C32.ProofsNeverTwice.pinit C32.ProofsNeverTwice.p_step C32.ProofsNeverTwice.in_tree
  C32.ProofsNeverTwice.pknows C32.ProofsNeverTwice.pever.
